/-
C09 — BW64 files written by the library are read back identically.

Property theorems about the byte-level models `Earverif.Bw64.closedFile` (Bw64Writer on a
BytesIO) and `Earverif.Bw64.readFile` (Bw64Reader on a BytesIO).  Lemmas are in
`Earverif/Proofs/C09*.lean`.
-/
import Earverif.Proofs.C09Read
import Earverif.Proofs.C09Samples
import Earverif.Props.C18

namespace Earverif.Bw64

/-! ### the reader's header part on the two layouts -/

theorem readRiff_ok {f id s4 rest : Bytes} (hf : f = id ++ (s4 ++ (idWAVE ++ rest)))
    (hid : id = idRIFF ∨ id = idBW64) (hs : s4.length = 4) : readRiff f = .ok id := by
  have hidl : id.length = 4 := by rcases hid with rfl | rfl <;> rfl
  have h8 : readAt f 0 8 = id ++ s4 := by
    exact readAt_mid (a := []) (b := id ++ s4) (r := idWAVE ++ rest) (by simp [hf]) rfl (by simp [hidl, hs])
  have h4 : readAt f 8 4 = idWAVE := by
    exact readAt_mid (a := id ++ s4) (b := idWAVE) (r := rest) (by simp [hf]) (by simp [hidl, hs]) rfl
  have ht : (id ++ s4).take 4 = id := by rw [← hidl]; simp
  simp only [readRiff, h8, h4, ht]
  rcases hid with rfl | rfl <;> simp [hs, idRIFF, idRF64, idBW64, idWAVE]

theorem readHead_riff {f s4 rest : Bytes} (hf : f = idRIFF ++ (s4 ++ (idWAVE ++ rest))) (hs : s4.length = 4) :
    readHead f = .ok (idRIFF, none, 12) := by
  simp only [readHead, readRiff_ok hf (Or.inl rfl) hs]
  simp [idRIFF, idRF64, idBW64]

theorem readDs64_ok {f rest : Bytes} {R n : Nat}
    (hf : f = idBW64 ++ (ffff ++ (idWAVE ++ (ds64Chunk R n ++ rest)))) (hR : R < 2 ^ 64) (hn : n < 2 ^ 64) :
    readDs64 f = .ok (⟨R, n, []⟩, 48) := by
  have h8 : readAt f 12 8 = idDs64 ++ le 4 28 := by
    exact readAt_mid (a := idBW64 ++ (ffff ++ idWAVE)) (b := idDs64 ++ le 4 28)
      (r := (le 8 R ++ le 8 n ++ le 8 0 ++ le 4 0) ++ rest) (by simp [hf, ds64Chunk]) rfl rfl
  have h28 : readAt f 20 28 = le 8 R ++ (le 8 n ++ (le 8 0 ++ le 4 0)) := by
    exact readAt_mid (a := idBW64 ++ (ffff ++ (idWAVE ++ (idDs64 ++ le 4 28))))
      (b := le 8 R ++ (le 8 n ++ (le 8 0 ++ le 4 0))) (r := rest)
      (by simp [hf, ds64Chunk]) rfl (by simp [le_length])
  have e1 : fromLE ((le 8 R ++ (le 8 n ++ (le 8 0 ++ le 4 0))).take 8) = R := by
    rw [show (le 8 R ++ (le 8 n ++ (le 8 0 ++ le 4 0))).take 8 = le 8 R by
      rw [← le_length 8 R]; simp [le_length]]
    exact fromLE_le8 R hR
  have e2 : fromLE (((le 8 R ++ (le 8 n ++ (le 8 0 ++ le 4 0))).drop 8).take 8) = n := by
    rw [show ((le 8 R ++ (le 8 n ++ (le 8 0 ++ le 4 0))).drop 8).take 8 = le 8 n by
      rw [show (le 8 R ++ (le 8 n ++ (le 8 0 ++ le 4 0))).drop 8 = le 8 n ++ (le 8 0 ++ le 4 0) by
        rw [← le_length 8 R]; simp [le_length]]
      rw [← le_length 8 n]; simp [le_length]]
    exact fromLE_le8 n hn
  have e3 : fromLE (((le 8 R ++ (le 8 n ++ (le 8 0 ++ le 4 0))).drop 24).take 4) = 0 := by
    rw [show (le 8 R ++ (le 8 n ++ (le 8 0 ++ le 4 0))).drop 24 = le 4 0 by
      have : (le 8 R ++ (le 8 n ++ (le 8 0 ++ le 4 0))) = (le 8 R ++ le 8 n ++ le 8 0) ++ le 4 0 := by simp
      rw [this]
      apply List.drop_left' (by simp [le_length])]
    decide
  have hl : (le 8 R ++ (le 8 n ++ (le 8 0 ++ le 4 0))).length = 28 := by simp [le_length]
  have ht : (le 8 R ++ (le 8 n ++ (le 8 0 ++ le 4 0))).take 28 = le 8 R ++ (le 8 n ++ (le 8 0 ++ le 4 0)) := by
    rw [← hl]; exact List.take_length
  have hd4 : (idDs64 ++ le 4 28).take 4 = idDs64 := by decide
  have hd5 : fromLE ((idDs64 ++ le 4 28).drop 4) = 28 := by decide
  simp only [readDs64, h8, hd4, hd5, h28, ht, e1, e2, e3, hl, readDs64Table]
  simp [idDs64, le_length]

theorem readHead_bw64 {f rest : Bytes} {R n : Nat}
    (hf : f = idBW64 ++ (ffff ++ (idWAVE ++ (ds64Chunk R n ++ rest)))) (hR : R < 2 ^ 64) (hn : n < 2 ^ 64) :
    readHead f = .ok (idBW64, some ⟨R, n, []⟩, 48) := by
  simp only [readHead, readRiff_ok hf (Or.inr rfl) rfl, readDs64_ok hf hR hn]
  simp [idRF64, idBW64]

/-! ### size bounds -/

theorem optChnaB_length_le {c : Option (List ChnaEntry)} (h : ChnaOK c) : (optChnaB c).length ≤ 2 ^ 22 := by
  cases c with
  | none => simp [optChnaB]
  | some es =>
    have := chnaPayload_length es h.2
    have := h.1
    simp [optChnaB, chnaChunk, idChna, le_length]; omega

theorem optMetaB_length_le {id : Bytes} (hid : id.length = 4) {v : Option Bytes} (h : BytesOK v) :
    (optMetaB id v).length ≤ 2 ^ 32 + 9 := by
  rcases v with _ | _ | ⟨x, xs⟩
  · simp [optMetaB]
  · simp [optMetaB]
  · have : (x :: xs).length < 2 ^ 32 := h
    simp only [optMetaB, metaChunk, List.length_append, le_length, pad_length, hid]; omega

theorem preB_length_le {c0 : Option (List ChnaEntry)} {a0 b0 : Option Bytes} (hc : ChnaOK c0) (ha : BytesOK a0)
    (hb : BytesOK b0) : (preB c0 a0 b0).length ≤ 2 ^ 34 := by
  have := optChnaB_length_le hc
  have := optMetaB_length_le (id := idAxml) rfl ha
  have := optMetaB_length_le (id := idBext) rfl hb
  simp only [preB, List.length_append]; omega

theorem lateB_length_le {c : Option (List ChnaEntry)} {a b : Option Bytes} (cw aw bw : Bool) (hc : ChnaOK c)
    (ha : BytesOK a) (hb : BytesOK b) : (lateB cw aw bw c a b).length ≤ 2 ^ 34 := by
  have := optChnaB_length_le hc
  have := optMetaB_length_le (id := idAxml) rfl ha
  have := optMetaB_length_le (id := idBext) rfl hb
  cases cw <;> cases aw <;> cases bw <;> simp only [lateB, List.length_append] <;> simp <;> omega

/-! ### every written chunk is well formed -/

theorem preC_ok (ds : Option Ds64) (hds : ∀ d, ds = some d → d.table = []) {c0 : Option (List ChnaEntry)}
    {a0 b0 : Option Bytes} (hc : ChnaOK c0) (ha : BytesOK a0) (hb : BytesOK b0) :
    ∀ x ∈ preC c0 a0 b0, x.OK ds := by
  intro x hx
  simp only [preC, List.mem_append] at hx
  rcases hx with h | h | h
  · exact optChnaC_ok ds hds hc x h
  · exact optMetaC_ok ds hds (Or.inl rfl) ha x h
  · exact optMetaC_ok ds hds (Or.inr rfl) hb x h

theorem lateC_ok (ds : Option Ds64) (hds : ∀ d, ds = some d → d.table = []) {c : Option (List ChnaEntry)}
    {a b : Option Bytes} (cw aw bw : Bool) (hc : ChnaOK c) (ha : BytesOK a) (hb : BytesOK b) :
    ∀ x ∈ lateC cw aw bw c a b, x.OK ds := by
  intro x hx
  simp only [lateC, List.mem_append] at hx
  rcases hx with h | h | h
  · cases cw
    · exact optChnaC_ok ds hds hc x (by simpa using h)
    · simp at h
  · cases aw
    · exact optMetaC_ok ds hds (Or.inl rfl) ha x (by simpa using h)
    · simp at h
  · cases bw
    · exact optMetaC_ok ds hds (Or.inr rfl) hb x (by simpa using h)
    · simp at h

theorem bodyC_ok (ds : Option Ds64) (hds : ∀ d, ds = some d → d.table = []) {fmt : Fmt}
    {c0 cF : Option (List ChnaEntry)} {a0 b0 aF bF : Option Bytes} {sz : Nat} {data dp : Bytes}
    (hc0 : ChnaOK c0) (hcF : ChnaOK cF) (ha0 : BytesOK a0) (haF : BytesOK aF) (hb0 : BytesOK b0) (hbF : BytesOK bF)
    (hd : (dataC sz data dp).OK ds) :
    ∀ x ∈ bodyC fmt c0 a0 b0 sz data dp cF aF bF, x.OK ds := by
  intro x hx
  simp only [bodyC, List.mem_cons, List.mem_append] at hx
  rcases hx with rfl | h | rfl | h
  · exact fmtC_ok ds hds fmt
  · exact preC_ok ds hds hc0 ha0 hb0 x h
  · exact hd
  · exact lateC_ok ds hds _ _ _ hcF haF hbF x h

theorem length_le_encAll (cs : List Chunk) (h : ∀ c ∈ cs, c.id.length = 4) : cs.length ≤ (encAll cs).length := by
  induction cs with
  | nil => simp
  | cons c cs ih =>
    have : c.enc.length ≥ 8 := by simp [Chunk.enc, le_length, h c (by simp)]; omega
    have := ih (fun x hx => h x (by simp [hx]))
    simp only [encAll_cons, List.length_cons, List.length_append]; omega

theorem fuel_ok {pre f : Bytes} {cs : List Chunk} (hf : f = pre ++ encAll cs) (h : ∀ c ∈ cs, c.id.length = 4) :
    cs.length < f.length + 1 := by
  have := length_le_encAll cs h
  subst hf; simp only [List.length_append]; omega

/-! ### the property -/

/-- **What the reader's constructor does on a finalised file** (the workhorse of `C09_roundtrip`, with the
intermediate results exposed): header, chunk walk without warnings, the parse result, and where the data
chunk lies (`dpos` = offset of its id; the sample bytes start at `dpos + 8`). -/
theorem C09_open (fmt : Fmt) (c0 : Option (List ChnaEntry)) (a0 b0 : Option Bytes) (force : Bool)
    (ops : List WOp)
    (hfmt : FmtOK fmt)
    (hc0 : ChnaOK c0) (hcF : ChnaOK (pendChna c0 ops))
    (ha0 : BytesOK a0) (haF : BytesOK (pendAxml a0 ops))
    (hb0 : BytesOK b0) (hbF : BytesOK (pendBext b0 ops))
    (hframes : (dataOf ops).length % fmt.blockAlign = 0)
    (hdata : (dataOf ops).length < 2 ^ 63) :
    ∃ (ff : Bytes) (ds : Option Ds64) (p : Nat) (t : Table) (dpos : Nat) (P R : Bytes),
      (ff = idRIFF ∨ ff = idBW64) ∧ (force = true → ff = idBW64) ∧
      readHead (closedFile fmt c0 a0 b0 force ops) = .ok (ff, ds, p) ∧
      readChunks (closedFile fmt c0 a0 b0 force ops) ds ((closedFile fmt c0 a0 b0 force ops).length + 1) p [] [] =
        .ok (t, []) ∧
      finishRead (closedFile fmt c0 a0 b0 force ops) ff ds t [] =
        .ok (⟨ff, ⟨1, fmt.channels, fmt.rate, fmt.bits⟩, (dataOf ops).length / fmt.blockAlign, dataOf ops,
              effChna c0 (pendChna c0 ops), effMeta a0 (pendAxml a0 ops), effMeta b0 (pendBext b0 ops)⟩, []) ∧
      tlookup t idData = some ((dataOf ops).length, dpos) ∧
      closedFile fmt c0 a0 b0 force ops = P ++ (dataOf ops ++ R) ∧ P.length = dpos + 8 := by
  obtain ⟨hop, hoc, hoa, hob⟩ := openW_opened fmt c0 a0 b0 force
  obtain ⟨hrun, hrc, hra, hrb⟩ := runW_opened ops hop
  rw [hoc] at hrc; rw [hoa] at hra; rw [hob] at hrb
  simp only [List.nil_append] at hrun
  have hlay := closeW_layout hrun
  rw [hrc, hra, hrb] at hlay
  have hpre := preB_eq hc0 a0 b0
  have hlate := lateB_eq hcF c0.isSome (truthy a0) (truthy b0) (pendAxml a0 ops) (pendBext b0 ops)
  have hpl := preB_length_le hc0 ha0 hb0
  have hll := lateB_length_le c0.isSome (truthy a0) (truthy b0) hcF haF hbF
  generalize hfile0 : closedFile fmt c0 a0 b0 force ops = f
  simp only [closedFile] at hfile0
  rw [hlay] at hfile0
  simp only [] at hfile0
  generalize hR : riffSizeOf (preB c0 a0 b0) (dataOf ops)
    (lateB c0.isSome (truthy a0) (truthy b0) (pendChna c0 ops) (pendAxml a0 ops) (pendBext b0 ops)) = R at hfile0
  have hRlt : R < 2 ^ 64 := by rw [← hR]; unfold riffSizeOf; omega
  have hnR : (dataOf ops).length + 72 ≤ R := by rw [← hR]; unfold riffSizeOf; omega
  split at hfile0
  · -- BW64
    rename_i hbw
    have hfile := hfile0
    have hds : ∀ d, (some (⟨R, (dataOf ops).length, []⟩ : Ds64)) = some d → d.table = [] := by
      intro d hd; cases hd; rfl
    have hf : f = (idBW64 ++ (ffff ++ (idWAVE ++ ds64Chunk R (dataOf ops).length))) ++
        encAll ([] ++ bodyC fmt c0 a0 b0 4294967295 (dataOf ops) (pad (dataOf ops).length) (pendChna c0 ops) (pendAxml a0 ops) (pendBext b0 ops)) := by
      rw [← hfile, hpre, hlate, fmtChunk_eq]
      have hffff : le 4 4294967295 = ffff := by decide
      simp [bodyC, dataC, Chunk.enc, hffff]
    have hhead := readHead_bw64 (f := f) (rest := _) hfile.symm hRlt (by omega)
    have hdOK : (dataC 4294967295 (dataOf ops) (pad (dataOf ops).length)).OK (some ⟨R, (dataOf ops).length, []⟩) :=
      ⟨by simp only [dataC]; decide, by simp only [dataC]; decide, by simp only [dataC]; omega,
        by simp [effSize, hdrSize, dataC], by simp [dataC, pad_length], rfl⟩
    have hok : ∀ c ∈ ([] ++ bodyC fmt c0 a0 b0 4294967295 (dataOf ops) (pad (dataOf ops).length) (pendChna c0 ops) (pendAxml a0 ops)
        (pendBext b0 ops)), c.OK (some ⟨R, (dataOf ops).length, []⟩) := by
      simpa using bodyC_ok _ hds hc0 hcF ha0 haF hb0 hbF hdOK
    have hw := walk_chunks _ _ hok _ f (f.length + 1) [] [] hf (fuel_ok hf (fun c hc => (hok c hc).idLen))
    have hpl48 : (idBW64 ++ (ffff ++ (idWAVE ++ ds64Chunk R (dataOf ops).length))).length = 48 := by
      simp [idBW64, ffff, idWAVE, ds64Chunk, idDs64, le_length]
    rw [hpl48] at hw
    have hf' : f = (idBW64 ++ (ffff ++ (idWAVE ++ ds64Chunk R (dataOf ops).length))) ++
        (encAll ([] ++ bodyC fmt c0 a0 b0 4294967295 (dataOf ops) (pad (dataOf ops).length) (pendChna c0 ops) (pendAxml a0 ops)
          (pendBext b0 ops)) ++ []) := by
      rw [List.append_nil]; exact hf
    have hfin := finishRead_written (w := []) (ff := idBW64) (ds := some ⟨R, (dataOf ops).length, []⟩) hfmt hc0 hcF hf'
      (by simp) (by intro d hd; cases hd; rfl) hframes
    obtain ⟨dpos, P, Rr, hd1, hd2, hd3⟩ := read_data_pos hf' (by simp)
    rw [hpl48] at hfin hd1
    exact ⟨idBW64, _, 48, _, dpos, P, Rr, Or.inr rfl, fun _ => rfl, hhead, hw, hfin, hd1, hd2, hd3⟩
  · -- RIFF
    rename_i hbw
    have hfile := hfile0
    have hforce : force = false := by
      cases force
      · rfl
      · simp at hbw
    have hR32 : R < 2 ^ 32 := by
      simp at hbw; omega
    have hds : ∀ d, (none : Option Ds64) = some d → d.table = [] := by intro d hd; cases hd
    have hf : f = (idRIFF ++ (le 4 R ++ idWAVE)) ++
        encAll ([junkC] ++ bodyC fmt c0 a0 b0 (dataOf ops).length (dataOf ops) (pad (dataOf ops).length) (pendChna c0 ops) (pendAxml a0 ops)
          (pendBext b0 ops)) := by
      rw [← hfile, hpre, hlate, fmtChunk_eq, junkChunk_eq]
      simp [bodyC, dataC, Chunk.enc]
    have hhead := readHead_riff (f := f) (s4 := le 4 R) (rest := _) hfile.symm (le_length 4 R)
    have hdOK : (dataC (dataOf ops).length (dataOf ops) (pad (dataOf ops).length)).OK none :=
      ⟨by simp only [dataC]; decide, by simp only [dataC]; decide, by simp only [dataC]; omega,
        by simp [effSize, hdrSize, dataC], by simp [dataC, pad_length],
        by simp only [dataC, isPlaceholder, decide_true, Bool.true_and]; exact decide_eq_false (by omega)⟩
    have hok : ∀ c ∈ ([junkC] ++ bodyC fmt c0 a0 b0 (dataOf ops).length (dataOf ops) (pad (dataOf ops).length) (pendChna c0 ops)
        (pendAxml a0 ops) (pendBext b0 ops)), c.OK none := by
      intro c hc
      rcases List.mem_append.1 hc with h | h
      · rw [List.mem_singleton.1 h]; exact junkC_ok
      · exact bodyC_ok _ hds hc0 hcF ha0 haF hb0 hbF hdOK c h
    have hw := walk_chunks _ _ hok _ f (f.length + 1) [] [] hf (fuel_ok hf (fun c hc => (hok c hc).idLen))
    have hpl12 : (idRIFF ++ (le 4 R ++ idWAVE)).length = 12 := by simp [idRIFF, idWAVE, le_length]
    rw [hpl12] at hw
    have hf' : f = (idRIFF ++ (le 4 R ++ idWAVE)) ++
        (encAll ([junkC] ++ bodyC fmt c0 a0 b0 (dataOf ops).length (dataOf ops) (pad (dataOf ops).length) (pendChna c0 ops)
          (pendAxml a0 ops) (pendBext b0 ops)) ++ []) := by
      rw [List.append_nil]; exact hf
    have hfin := finishRead_written (w := []) (ff := idRIFF) (ds := none) hfmt hc0 hcF hf'
      (by intro x hx; rw [List.mem_singleton.1 hx]; rfl) (by intro d hd; cases hd) hframes
    obtain ⟨dpos, P, Rr, hd1, hd2, hd3⟩ := read_data_pos hf' (by intro x hx; rw [List.mem_singleton.1 hx]; rfl)
    rw [hpl12] at hfin hd1
    exact ⟨idRIFF, none, 12, _, dpos, P, Rr, Or.inl rfl, fun h => by simp [hforce] at h, hhead, hw, hfin, hd1, hd2, hd3⟩

/-- **C09 (round trip).**  For every PCM format the writer supports (16/24/32 bit, at least one channel,
positive rate, fields within their `struct` widths), every history of `write` calls (any partition of the
encoded sample bytes into blocks, empty blocks included) and chunk setter calls, metadata chunks given to
the constructor and/or pending at `close` (each absent, empty = treated as absent, or of any length below
2^32; chna entries as `AudioID.asByteArray` lays them out), with or without `forceBw64`, whole frames and
fewer than 2^63 data bytes in total:

the reader accepts the finalised file **without any warning** and returns the same format, a frame count
of `bytes / blockAlignment`, exactly the written sample bytes, and for each metadata chunk exactly the value
that was supplied (`effChna` / `effMeta`: the constructor's value if it was written there, else the value
pending at `close`; `None` if neither is truthy).  The container id is `BW64` whenever `forceBw64` is set
(or the RIFF size does not fit 32 bits), else `RIFF`. -/
theorem C09_roundtrip (fmt : Fmt) (c0 : Option (List ChnaEntry)) (a0 b0 : Option Bytes) (force : Bool)
    (ops : List WOp)
    (hfmt : FmtOK fmt)
    (hc0 : ChnaOK c0) (hcF : ChnaOK (pendChna c0 ops))
    (ha0 : BytesOK a0) (haF : BytesOK (pendAxml a0 ops))
    (hb0 : BytesOK b0) (hbF : BytesOK (pendBext b0 ops))
    (hframes : (dataOf ops).length % fmt.blockAlign = 0)
    (hdata : (dataOf ops).length < 2 ^ 63) :
    ∃ ff, (ff = idRIFF ∨ ff = idBW64) ∧ (force = true → ff = idBW64) ∧
      readFile (closedFile fmt c0 a0 b0 force ops) =
        .ok (⟨ff, ⟨1, fmt.channels, fmt.rate, fmt.bits⟩, (dataOf ops).length / fmt.blockAlign, dataOf ops,
              effChna c0 (pendChna c0 ops), effMeta a0 (pendAxml a0 ops), effMeta b0 (pendBext b0 ops)⟩, []) := by
  obtain ⟨ff, ds, p, t, dpos, P, R, h1, h2, hhead, hw, hfin, -, -, -⟩ :=
    C09_open fmt c0 a0 b0 force ops hfmt hc0 hcF ha0 haF hb0 hbF hframes hdata
  exact ⟨ff, h1, h2, by simp only [readFile, hhead, hw, hfin]⟩

/-! ### reading the statement in the property's terms -/

/-- a chunk given to the constructor (and not touched afterwards) comes back as given, empty = absent -/
theorem effMeta_open (v : Option Bytes) : effMeta v v = if truthy v then v else none := by
  unfold effMeta; split <;> rfl

/-- a chunk set only before `close` comes back as set, empty = absent -/
theorem effMeta_late (v : Option Bytes) : effMeta none v = if truthy v then v else none := by
  simp [effMeta, truthy]

theorem effChna_open (c : Option (List ChnaEntry)) : effChna c c = c := by unfold effChna; split <;> rfl
theorem effChna_late (c : Option (List ChnaEntry)) : effChna none c = c := by simp [effChna]

/-! ### the driver's gates and the theorem hypotheses

`Fmt.packable`, `chnaPackable`, `bytesPackable` (Model/Bw64Writer.lean) say "`struct.pack` does not raise";
the theorems need `FmtOK`, `ChnaOK`, `BytesOK`.  The exact relations: -/

/-- `FmtOK` = packable + a bit depth `FormatInfoChunk` accepts + at least one channel + positive rate
(`bits < 2^16` is implied by the bit depth). -/
theorem fmtOK_iff_packable (f : Fmt) :
    FmtOK f ↔ (f.packable = true ∧ (f.bits = 16 ∨ f.bits = 24 ∨ f.bits = 32) ∧ 1 ≤ f.channels ∧ 1 ≤ f.rate) := by
  constructor
  · rintro ⟨hb, hc, hr, h1, h2, h3, h4⟩
    refine ⟨?_, hb, hc, hr⟩
    simp only [Fmt.packable, Bool.and_eq_true, decide_eq_true_eq]
    refine ⟨⟨⟨⟨h1, h2⟩, h3⟩, h4⟩, ?_⟩
    rcases hb with h | h | h <;> rw [h] <;> norm_num
  · rintro ⟨hp, hb, hc, hr⟩
    simp only [Fmt.packable, Bool.and_eq_true, decide_eq_true_eq] at hp
    obtain ⟨⟨⟨⟨h1, h2⟩, h3⟩, h4⟩, -⟩ := hp
    exact ⟨hb, hc, hr, h1, h2, h3, h4⟩

/-- the executable test the driver reports is exactly `FmtOK` -/
theorem fmtOkB_iff (f : Fmt) : f.okB = true ↔ FmtOK f := by
  constructor
  · intro h
    simp only [Fmt.okB, Bool.and_eq_true, Bool.or_eq_true, beq_iff_eq, decide_eq_true_eq] at h
    obtain ⟨⟨⟨⟨⟨⟨hb, hc⟩, hr⟩, h1⟩, h2⟩, h3⟩, h4⟩ := h
    exact ⟨by omega, hc, hr, h1, h2, h3, h4⟩
  · rintro ⟨hb, hc, hr, h1, h2, h3, h4⟩
    simp only [Fmt.okB, Bool.and_eq_true, Bool.or_eq_true, beq_iff_eq, decide_eq_true_eq]
    exact ⟨⟨⟨⟨⟨⟨by omega, hc⟩, hr⟩, h1⟩, h2⟩, h3⟩, h4⟩

theorem entryOK_iff (e : ChnaEntry) :
    e.OK ↔ (e.trackIndex < 2 ^ 16 ∧ e.rest.length = 38 ∧ e.warns = false) := by
  unfold ChnaEntry.OK ChnaEntry.warns
  have h1 : acPrefix = [65, 67, 95] := rfl
  have h2 : suffix00 = [95, 48, 48] := rfl
  rw [h1, h2]
  constructor
  · rintro ⟨a, b, c⟩
    refine ⟨a, b, ?_⟩
    by_cases hp : List.take 3 (List.take 14 (List.drop 14 e.enc)) = [65, 67, 95] <;>
      by_cases hs : List.drop 11 (List.take 14 (List.drop 14 e.enc)) = [95, 48, 48] <;> simp_all
  · rintro ⟨a, b, c⟩
    refine ⟨a, b, ?_⟩
    by_cases hp : List.take 3 (List.take 14 (List.drop 14 e.enc)) = [65, 67, 95] <;>
      by_cases hs : List.drop 11 (List.take 14 (List.drop 14 e.enc)) = [95, 48, 48] <;> simp_all

/-- `ChnaOK` = packable + no entry the reader warns about (an `AC_` reference without `_00`; never produced
by `AudioID.asByteArray`). -/
theorem chnaOK_iff_packable (c : Option (List ChnaEntry)) :
    ChnaOK c ↔ (chnaPackable c = true ∧ ∀ es, c = some es → ∀ e ∈ es, e.warns = false) := by
  cases c with
  | none => simp [ChnaOK, chnaPackable]
  | some es =>
    simp only [ChnaOK, chnaPackable, Bool.and_eq_true, decide_eq_true_eq, List.all_eq_true, beq_iff_eq,
      Option.some.injEq, entryOK_iff]
    constructor
    · rintro ⟨hl, h⟩
      exact ⟨⟨hl, fun e he => ⟨(h e he).1, (h e he).2.1⟩⟩, fun es' hes e he => (h e (hes ▸ he)).2.2⟩
    · rintro ⟨⟨hl, h⟩, hw⟩
      exact ⟨hl, fun e he => ⟨(h e he).1, (h e he).2, hw es rfl e he⟩⟩

theorem chnaOkB_iff (c : Option (List ChnaEntry)) : chnaOkB c = true ↔ ChnaOK c := by
  cases c with
  | none => simp [ChnaOK, chnaOkB]
  | some es =>
    simp only [ChnaOK, chnaOkB, Bool.and_eq_true, decide_eq_true_eq, List.all_eq_true, beq_iff_eq, entryOK_iff,
      Bool.not_eq_true']
    constructor
    · rintro ⟨hl, h⟩
      exact ⟨hl, fun e he => ⟨(h e he).1.1, (h e he).1.2, (h e he).2⟩⟩
    · rintro ⟨hl, h⟩
      exact ⟨hl, fun e he => ⟨⟨(h e he).1, (h e he).2.1⟩, (h e he).2.2⟩⟩

/-- `BytesOK` is exactly "packable" -/
theorem bytesOK_iff_packable (v : Option Bytes) : BytesOK v ↔ bytesPackable v = true := by
  cases v <;> simp [BytesOK, bytesPackable]

/-- a setter call is packable iff the value it sets satisfies `bytesPackable`/`chnaPackable`; `write`
calls always are (their constraint is `BlocksOK`/whole frames) -/
theorem wop_packable (op : WOp) : op.packable = true ↔
    match op with
    | .write _ => True
    | .setChna v => chnaPackable v = true
    | .setAxml v => BytesOK v
    | .setBext v => BytesOK v := by
  cases op <;> simp [WOp.packable, bytesOK_iff_packable]

/-! ### samples: what is written is what is read, through `decode ∘ encode` -/

open Earverif.Pcm in
/-- **C09 (samples).**  For every supported format, every history of sample-level `write` calls (each block
any number of frames — zero included — of `channels` float samples; any partition of the audio into calls)
and chunk setter calls, chunks and `forceBw64` as in `C09_roundtrip`:

* no call raises and `close` yields a file (`closedFileS = some file`);
* the reader opens it without warning, with the written format, `N` = number of frames written, the chunk
  contents as in `C09_roundtrip`, and cursor constants `k` that are well formed (`Cursor.WF k N`: the data
  chunk holds exactly `N` whole frames inside the file — the hypothesis of C18's `ops_refine`);
* `read(n)` with the cursor at any frame `c ≤ N` returns (no exception) frames `[c, min (c+n) N)` of the
  written audio, every sample mapped through `decode ∘ encode` (`Pcm.decode b (Pcm.encode b x)`, for which
  `encode_within_step`, `encode_clipped` and `decode_encode_representable` of C16 give: within one
  quantisation step + 2^-54, exactly ±1 when clipped, exactly `x` when `x` is representable), and leaves the
  cursor at `min (c+n) N`. -/
theorem C09_samples_roundtrip (fmt : Fmt) (c0 : Option (List ChnaEntry)) (a0 b0 : Option Bytes) (force : Bool)
    (sops : List SOp)
    (hfmt : FmtOK fmt)
    (hblocks : BlocksOK fmt.channels sops)
    (hc0 : ChnaOK c0) (hcF : ChnaOK (pendChnaS c0 sops))
    (ha0 : BytesOK a0) (haF : BytesOK (pendAxmlS a0 sops))
    (hb0 : BytesOK b0) (hbF : BytesOK (pendBextS b0 sops))
    (hdata : fmt.blockAlign * (framesOf sops).length < 2 ^ 63) :
    ∃ (file ff data : Bytes) (k : Cursor.Cfg),
      closedFileS fmt c0 a0 b0 force sops = some file ∧
      (ff = idRIFF ∨ ff = idBW64) ∧ (force = true → ff = idBW64) ∧
      openReader file =
        .ok (⟨ff, ⟨1, fmt.channels, fmt.rate, fmt.bits⟩, (framesOf sops).length, data,
              effChna c0 (pendChnaS c0 sops), effMeta a0 (pendAxmlS a0 sops), effMeta b0 (pendBextS b0 sops)⟩, k, []) ∧
      encodeBytes fmt.bits (framesOf sops).flatten = some data ∧
      Cursor.WF k ((framesOf sops).length : Int) ∧ k.A = (fmt.blockAlign : Int) ∧
      ∀ c n : Nat, c ≤ (framesOf sops).length →
        readSamples file ⟨1, fmt.channels, fmt.rate, fmt.bits⟩ k (k.data + k.A * (c : Int)) (n : Int) =
          (k.data + k.A * (min (c + n) (framesOf sops).length : Nat),
           some ((((framesOf sops).drop c).take n).map (·.map (fun x => decode fmt.bits (encode fmt.bits x))))) := by
  have hdepth : Depth fmt.bits := hfmt.bits
  have hch : 0 < fmt.channels := hfmt.ch
  obtain ⟨wops, henc, hdat, hrows, pc, pa, pb⟩ := encOps_spec fmt hdepth hch sops hblocks
  obtain ⟨hlen, -⟩ := decode_slice fmt.bits fmt.channels hdepth hch (framesOf sops) hrows (dataOf wops) hdat 0 0
  have hA : fmt.blockAlign = fmt.bits / 8 * fmt.channels := by
    unfold Fmt.blockAlign; rcases hdepth with h | h | h <;> rw [h] <;> omega
  have hApos : 0 < fmt.blockAlign := by
    rw [hA]; rcases hdepth with h | h | h <;> rw [h] <;> omega
  set N := (framesOf sops).length with hN
  have hlen' : (dataOf wops).length = fmt.blockAlign * N := by rw [hlen, hA]
  rw [← pc c0] at hcF; rw [← pa a0] at haF; rw [← pb b0] at hbF
  obtain ⟨ff, ds, p, t, dpos, P, R, h1, h2, hhead, hw, hfin, hd1, hd2, hd3⟩ :=
    C09_open fmt c0 a0 b0 force wops hfmt hc0 hcF ha0 haF hb0 hbF
      (by rw [hlen']; exact Nat.mul_mod_right _ _) (by rw [hlen']; exact hdata)
  have hfr : (dataOf wops).length / fmt.blockAlign = N := by
    rw [hlen']; exact Nat.mul_div_cancel_left _ hApos
  rw [hfr] at hfin
  set file := closedFile fmt c0 a0 b0 force wops with hfile
  refine ⟨file, ff, dataOf wops,
    ⟨((dpos + 8 : Nat) : Int), ((fmt.channels * fmt.bits / 8 : Nat) : Int), ((dataOf wops).length : Int), (file.length : Int)⟩,
    ?_, h1, h2, ?_, hdat, ?_, rfl, ?_⟩
  · rw [closedFileS_eq, henc]; rfl
  · simp only [openReader, hhead, hw, hfin, hd1]
    rw [pc, pa, pb]
  · refine ⟨?_, by omega, ?_, ?_⟩
    · show (0 : Int) < ((fmt.channels * fmt.bits / 8 : Nat) : Int)
      have : 0 < fmt.channels * fmt.bits / 8 := hApos
      exact_mod_cast this
    · show (((dataOf wops).length : Nat) : Int) = ((fmt.channels * fmt.bits / 8 : Nat) : Int) * (N : Int)
      have : (dataOf wops).length = fmt.channels * fmt.bits / 8 * N := hlen'
      exact_mod_cast this
    · show ((dpos + 8 : Nat) : Int) + (((dataOf wops).length : Nat) : Int) ≤ (file.length : Int)
      have : dpos + 8 + (dataOf wops).length ≤ file.length := by
        rw [hd2]; simp only [List.length_append]; omega
      exact_mod_cast this
  · intro c n hc
    have hWF : Cursor.WF ⟨((dpos + 8 : Nat) : Int), ((fmt.channels * fmt.bits / 8 : Nat) : Int),
        ((dataOf wops).length : Int), (file.length : Int)⟩ (N : Int) := by
      refine ⟨?_, by omega, ?_, ?_⟩
      · show (0 : Int) < ((fmt.channels * fmt.bits / 8 : Nat) : Int)
        have : 0 < fmt.channels * fmt.bits / 8 := hApos
        exact_mod_cast this
      · show (((dataOf wops).length : Nat) : Int) = ((fmt.channels * fmt.bits / 8 : Nat) : Int) * (N : Int)
        have : (dataOf wops).length = fmt.channels * fmt.bits / 8 * N := hlen'
        exact_mod_cast this
      · show ((dpos + 8 : Nat) : Int) + (((dataOf wops).length : Nat) : Int) ≤ (file.length : Int)
        have : dpos + 8 + (dataOf wops).length ≤ file.length := by
          rw [hd2]; simp only [List.length_append]; omega
        exact_mod_cast this
    have hr := Cursor.read_spec hWF (c : Int) (n : Int) (by omega) (by exact_mod_cast hc) (by omega)
    simp only at hr
    obtain ⟨r1, r2, r3, -, -, r6, r7⟩ := hr
    -- the number of frames actually read
    set m : Nat := min n (N - c) with hm
    have hs1 : (Cursor.specRead (N : Int) (c : Int) (n : Int)).1 = ((min (c + n) N : Nat) : Int) := by
      simp only [Cursor.specRead]; split <;> omega
    have hs22 : (Cursor.specRead (N : Int) (c : Int) (n : Int)).2.2 = (m : Int) := by
      rw [r7]; split <;> omega
    simp only [readSamples]
    rw [r1, r2, r3, r6, hs1, hs22]
    have e1 : (((dpos + 8 : Nat) : Int) + ((fmt.channels * fmt.bits / 8 : Nat) : Int) * (c : Int)).toNat =
        P.length + fmt.channels * fmt.bits / 8 * c := by
      rw [hd3]; omega
    have e2 : (((fmt.channels * fmt.bits / 8 : Nat) : Int) * (m : Int)).toNat = fmt.channels * fmt.bits / 8 * m := by
      have : ((fmt.channels * fmt.bits / 8 : Nat) : Int) * (m : Int) = ((fmt.channels * fmt.bits / 8 * m : Nat) : Int) := by
        push_cast; rfl
      rw [this, Int.toNat_natCast]
    show (_, framesAt file fmt.bits fmt.channels _ _) = _
    rw [e1, e2, framesAt_written hd2 fmt.bits fmt.channels hdepth hch (framesOf sops) hrows hdat c m (by omega)]
    congr 3
    -- taking `m` or `n` frames of the remaining `N - c` is the same
    by_cases hnm : n ≤ N - c
    · rw [show m = n by omega]
    · have hl : ((framesOf sops).drop c).length ≤ m := by simp only [List.length_drop]; omega
      have hl' : ((framesOf sops).drop c).length ≤ n := by simp only [List.length_drop]; omega
      rw [List.take_of_length_le hl, List.take_of_length_le hl']

open Earverif.Pcm in
/-- Reading the whole file back in one `read(len(reader))` from the cursor position the constructor leaves
(frame 0): every written frame, through `decode ∘ encode`, in order — for any partition into `write` calls. -/
theorem C09_samples_read_all (fmt : Fmt) (c0 : Option (List ChnaEntry)) (a0 b0 : Option Bytes) (force : Bool)
    (sops : List SOp)
    (hfmt : FmtOK fmt)
    (hblocks : BlocksOK fmt.channels sops)
    (hc0 : ChnaOK c0) (hcF : ChnaOK (pendChnaS c0 sops))
    (ha0 : BytesOK a0) (haF : BytesOK (pendAxmlS a0 sops))
    (hb0 : BytesOK b0) (hbF : BytesOK (pendBextS b0 sops))
    (hdata : fmt.blockAlign * (framesOf sops).length < 2 ^ 63) :
    ∃ (file : Bytes) (pr : Parsed) (k : Cursor.Cfg),
      closedFileS fmt c0 a0 b0 force sops = some file ∧ openReader file = .ok (pr, k, []) ∧
      pr.frames = (framesOf sops).length ∧
      (readSamples file pr.fmt k k.data (pr.frames : Int)).2 =
        some ((framesOf sops).map (·.map (fun x => decode fmt.bits (encode fmt.bits x)))) := by
  obtain ⟨file, ff, data, k, h1, -, -, h4, -, -, -, h8⟩ :=
    C09_samples_roundtrip fmt c0 a0 b0 force sops hfmt hblocks hc0 hcF ha0 haF hb0 hbF hdata
  refine ⟨file, _, k, h1, h4, rfl, ?_⟩
  have := h8 0 (framesOf sops).length (Nat.zero_le _)
  simp only [Nat.cast_zero, Int.mul_zero, Int.add_zero, List.drop_zero, List.take_length] at this
  simp only [this]

/-! ### non-vacuity: concrete inputs satisfy the hypotheses, and the model computes on them -/

deriving instance DecidableEq for Except
instance (e : ChnaEntry) : Decidable e.OK := by unfold ChnaEntry.OK; infer_instance

/-- 24 bit, 3 channels: one frame is 9 bytes, an odd data chunk -/
def exFmt : Fmt := ⟨3, 48000, 24⟩
def exAxml : Bytes := [60, 97, 62]                 -- odd length
def exBext : Bytes := [1, 2, 3, 4, 5]              -- odd length
def exData : Bytes := [1, 2, 3, 4, 5, 6, 7, 8, 9]
/-- `AudioID(1, "ATU_00000001", "AC_00010001", "AP_00010001")` (a v2 channel-format reference) -/
def exEntry : ChnaEntry :=
  ⟨1, [65,84,85,95,48,48,48,48,48,48,48,49, 65,67,95,48,48,48,49,48,48,48,49,95,48,48,
       65,80,95,48,48,48,49,48,48,48,49, 0]⟩

example : FmtOK exFmt := ⟨by decide, by decide, by decide, by decide, by decide, by decide, by decide⟩
example : ChnaOK (some [exEntry]) := ⟨by decide, by simp; decide⟩
example : BytesOK (some exAxml) ∧ BytesOK (some exBext) :=
  ⟨by show exAxml.length < 2 ^ 32; decide, by show exBext.length < 2 ^ 32; decide⟩
example : exData.length % exFmt.blockAlign = 0 := by decide

set_option maxRecDepth 100000 in
/-- forced BW64, odd axml at open, odd bext set late, odd data -/
example : readFile (closedFile exFmt none (some exAxml) none true [.write exData, .setBext (some exBext)])
    = .ok (⟨idBW64, ⟨1, 3, 48000, 24⟩, 1, exData, none, some exAxml, some exBext⟩, []) := by decide +kernel

set_option maxRecDepth 100000 in
/-- plain RIFF, chna set late, bext at open, axml late, data written in three calls (one empty) -/
example : readFile (closedFile exFmt none none (some exBext) false
      [.write [1, 2, 3], .setChna (some [exEntry]), .write [], .setAxml (some exAxml), .write [4, 5, 6, 7, 8, 9]])
    = .ok (⟨idRIFF, ⟨1, 3, 48000, 24⟩, 1, exData, some [exEntry], some exAxml, some exBext⟩, []) := by decide +kernel

set_option maxRecDepth 100000 in
/-- the file of the previous example is 168 bytes: header 12, JUNK 36, fmt 24, bext 8+5+1, data 8+9+1,
chna 8+44, axml 8+3+1; an empty `b''` value is not written at all -/
example : (closedFile exFmt none none (some exBext) false
      [.write [1, 2, 3], .setChna (some [exEntry]), .write [], .setAxml (some exAxml), .write [4, 5, 6, 7, 8, 9]]).length = 168
    ∧ closedFile exFmt none (some []) none false [] = closedFile exFmt none none none false [] := by decide +kernel

/-- sample-level history: two stereo 16-bit blocks (one frame, then two frames with a clipped and a
non-representable sample), an empty block, chna set late -/
def exSOps : List SOp :=
  [.write [[1, -1]], .setChna (some [exEntry]), .write [], .write [[3 / 2, 1 / 3], [0, -1 / 32767]]]

example : BlocksOK 2 exSOps := by simp [exSOps, BlocksOK]
example : FmtOK ⟨2, 48000, 16⟩ := ⟨by decide, by decide, by decide, by decide, by decide, by decide, by decide⟩
example : Fmt.okB ⟨2, 48000, 16⟩ = true ∧ chnaOkB (some [exEntry]) = true ∧ Fmt.okB ⟨2, 48000, 8⟩ = false ∧
    Fmt.packable ⟨2, 48000, 8⟩ = true := by decide

set_option maxRecDepth 100000 in
/-- the model computes on it: three frames come back; 3/2 is clipped to 1, 1/3 comes back as the double nearest
to 10922/32767, the representable values ±1, 0 exactly, -1/32767 as the double nearest to it -/
example : (closedFileS ⟨2, 48000, 16⟩ none none none false exSOps).map (fun f =>
      (openReader f).toOption.map (fun r => (r.1.frames, (readSamples f r.1.fmt r.2.1 r.2.1.data 3).2)))
    = some (some (3, some [[1, -1], [1, Pcm.decode 16 10922], [0, Pcm.decode 16 (-1)]])) := by decide +kernel

end Earverif.Bw64
