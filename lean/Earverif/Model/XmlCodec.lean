/-
Model of the declarative XML combinators of `ear.fileio.adm.xml`:
`Attribute`, `AttrElement`, `ListElement`, `HandleText`, `TypeAttribute`, and
`ElementParser.__init__ / parse / to_xml`, over an abstract XML tree.  Core Lean only.

* An element is (qualified tag, attribute list in document order, child elements, text).
  lxml tags `"{ns}local"` are abstracted to the pair (`ns`, `local`); comments / processing
  instructions are not part of the tree.
* Leaf conversions (`TypeConvert`) are parameters `Codec V` (string ↔ value); the concrete ones that
  can be modelled exactly are given at the end (`Leaf`, `codecOf`).
* The hand-written `CustomElement` / `GenericElement` handlers are *parameters* (`CustomImpl`): an
  arbitrary function on the keyword arguments and the element, and arbitrary output.
* Keyword arguments (`kwargs`) are a finite map modelled as a function `String → Option (Val V)`;
  an object is the total function obtained by filling in the constructor defaults.
  A property reads the object through `attr_name` and writes `kwargs[arg_name]`; the model keys both
  by `arg_name` (the renaming `audioContentIDRef` ↔ `audioContents` and the resolution of id strings
  to elements is `lazy_lookup_references`, outside this model).
* `to_xml` sets attributes through a dictionary: if two properties wrote the same attribute key the
  later value would replace the earlier one in place; the model appends (identical whenever the keys
  are pairwise distinct, which is the hypothesis of every theorem and a checked table obligation).
-/
import Earverif.Model.TimeFormat

namespace Earverif.XmlCodec

/-- qualified name: namespace (or none) and local name -/
structure QName where
  ns : Option String
  name : String
  deriving DecidableEq, Repr

inductive Xml where
  | node (tag : QName) (attrs : List (String × String)) (children : List Xml) (text : String)
  deriving Repr

def Xml.tag : Xml → QName | .node t _ _ _ => t
def Xml.attrs : Xml → List (String × String) | .node _ a _ _ => a
def Xml.children : Xml → List Xml | .node _ _ c _ => c
/-- `text(element)`: the element's text, `""` when there is none -/
def Xml.text : Xml → String | .node _ _ _ t => t

/-- `xml.namespaces` without the leading `None` -/
def namespaces : List String :=
  ["urn:ebu:metadata-schema:ebuCore_2014", "urn:ebu:metadata-schema:ebuCore_2015",
   "urn:ebu:metadata-schema:ebuCore_2016", "urn:ebu:metadata-schema:ebuCore_2017",
   "urn:ebu:metadata-schema:ebuCore", "urn:metadata-schema:adm"]

/-- `xml.default_ns` -/
def defaultNs : String := "urn:ebu:metadata-schema:ebuCore_2017"

/-- `key in qnames(localname)` -/
def matchesName (key : QName) (localname : String) : Bool :=
  key.name == localname && (key.ns == none || namespaces.any (fun n => key.ns == some n))

/-- `QName(default_ns, name)` -/
def outName (name : String) : QName := ⟨some defaultNs, name⟩

/-- a value of a keyword argument: a scalar, or the list built by `ListElement` -/
inductive Val (V : Type) where
  | one (v : V)
  | many (vs : List V)
  deriving DecidableEq, Repr

/-- `kwargs` -/
abbrev Kw (V : Type) := String → Option (Val V)
def Kw.empty {V} : Kw V := fun _ => none
def Kw.set {V} (kw : Kw V) (a : String) (x : Val V) : Kw V := fun b => if b = a then some x else kw b

/-- an object seen through the argument names -/
abbrev Obj (V : Type) := String → Val V

/-- `TypeConvert`: `loads` (`none` = raises) and `dumps` -/
structure Codec (V : Type) where
  loads : String → Option V
  dumps : V → String

/-- a hand-written handler pair, as a parameter.  `handle` is called with each matching child
(`CustomElement`) or once with the element itself (`GenericElement`); `none` = raises. -/
structure CustomImpl (V : Type) where
  handle : Kw V → Xml → Option (Kw V)
  attrsOut : Obj V → List (String × String)
  childrenOut : Obj V → List Xml
  /-- the keyword arguments the handler may write (specification data, not used by `parse` / `to_xml`) -/
  own : List String := []
  /-- what the handler stores under each of its arguments when it reads its own output
  (specification data; `none` = nothing stored, the constructor default applies) -/
  eff : Obj V → String → Option (Val V) := fun _ _ => none
  /-- the local names of the child elements the handler's `to_xml` may write (specification data) -/
  childNames : List String := []

inductive Property (V : Type) where
  | attr (adm arg : String) (c : Codec V) (required : Bool) (dflt : V)
  | attrElement (adm arg : String) (c : Codec V) (required : Bool) (dflt : V) (parseOnly : Bool)
  | listElement (adm arg : String) (c : Codec V) (required : Bool) (parseOnly : Bool)
  | handleText (arg : String) (c : Codec V)
  | typeAttribute (defName labelName arg : String) (cDef cLabel : Codec V) (required : Bool)
  | customElement (adm : String) (arg : Option String) (required : Bool) (impl : CustomImpl V)
  | genericElement (arg : Option String) (required : Bool) (impl : CustomImpl V)

variable {V : Type} [DecidableEq V]

/-! ### `get_handlers` -/

/-- `TypeAttribute`'s two handlers: convert, compare with a value already found, store -/
def typeHandler (arg : String) (c : Codec V) (kw : Kw V) (v : String) : Option (Kw V) :=
  match c.loads v with
  | none => none
  | some found =>
    match kw arg with
    | some x => if x = .one found then some (kw.set arg (.one found)) else none
    | none => some (kw.set arg (.one found))

/-- the attribute handler a property registers under `key`, if any
(`TypeAttribute` registers the definition name first, then the label name) -/
def Property.attrHandler? : Property V → String → Option (Kw V → String → Option (Kw V))
  | .attr adm arg c _ _, key =>
    if key = adm then some (fun kw v => (c.loads v).map fun x => kw.set arg (.one x)) else none
  | .typeAttribute d l arg cd cl _, key =>
    if key = l then some (typeHandler arg cl)
    else if key = d then some (typeHandler arg cd) else none
  | _, _ => none

/-- `AttrElement`: "multiple … elements found" when the argument is already there -/
def attrElementHandler (arg : String) (c : Codec V) (kw : Kw V) (x : Xml) : Option (Kw V) :=
  if (kw arg).isSome then none else (c.loads x.text).map fun v => kw.set arg (.one v)

/-- `ListElement`: `kwargs.setdefault(arg, []).append(convert(text))` -/
def listElementHandler (arg : String) (c : Codec V) (kw : Kw V) (x : Xml) : Option (Kw V) :=
  match c.loads x.text with
  | none => none
  | some v =>
    match kw arg with
    | none => some (kw.set arg (.many [v]))
    | some (.many vs) => some (kw.set arg (.many (vs ++ [v])))
    | some (.one _) => none

/-- the element handler a property registers under `key` (one entry per namespace in `qnames`) -/
def Property.elemHandler? : Property V → QName → Option (Kw V → Xml → Option (Kw V))
  | .attrElement adm arg c _ _ _, key => if matchesName key adm then some (attrElementHandler arg c) else none
  | .listElement adm arg c _ _, key => if matchesName key adm then some (listElementHandler arg c) else none
  | .customElement adm _ _ impl, key => if matchesName key adm then some impl.handle else none
  | _, _ => none

def Property.textHandler? : Property V → Option (String × Codec V)
  | .handleText arg c => some (arg, c)
  | _ => none

def Property.generic? : Property V → Option (CustomImpl V)
  | .genericElement _ _ impl => some impl
  | _ => none

/-- `prop.required` / `prop.arg_name` as used for `required_args` -/
def Property.requiredArg? : Property V → Option String
  | .attr _ arg _ r _ => if r then some arg else none
  | .attrElement _ arg _ r _ _ => if r then some arg else none
  | .listElement _ arg _ r _ => if r then some arg else none
  | .handleText _ _ => none
  | .typeAttribute _ _ arg _ _ r => if r then some arg else none
  | .customElement _ arg r _ => if r then arg else none
  | .genericElement arg r _ => if r then arg else none

/-! ### `ElementParser.__init__`: dictionaries, a later property replaces an earlier one -/

def lookupAttr (ps : List (Property V)) (key : String) : Option (Kw V → String → Option (Kw V)) :=
  ps.reverse.findSome? (·.attrHandler? key)

def lookupElem (ps : List (Property V)) (key : QName) : Option (Kw V → Xml → Option (Kw V)) :=
  ps.reverse.findSome? (·.elemHandler? key)

/-! ### `ElementParser.parse` -/

/-- `for key, value in element.attrib.items(): attr_handlers.get(key, null_handler)(kwargs, value)` -/
def parseAttrs (ps : List (Property V)) : List (String × String) → Kw V → Option (Kw V)
  | [], kw => some kw
  | (k, v) :: rest, kw =>
    match lookupAttr ps k with
    | none => parseAttrs ps rest kw
    | some h => (h kw v).bind (parseAttrs ps rest)

/-- `for child in element.getchildren(): element_handlers.get(child.tag, null_handler)(kwargs, child)` -/
def parseChildren (ps : List (Property V)) : List Xml → Kw V → Option (Kw V)
  | [], kw => some kw
  | x :: rest, kw =>
    match lookupElem ps x.tag with
    | none => parseChildren ps rest kw
    | some h => (h kw x).bind (parseChildren ps rest)

def parseText (ps : List (Property V)) (e : Xml) (kw : Kw V) : Option (Kw V) :=
  match ps.findSome? (·.textHandler?) with
  | none => some kw
  | some (arg, c) => (c.loads e.text).map fun v => kw.set arg (.one v)

def parseGenerics (e : Xml) : List (CustomImpl V) → Kw V → Option (Kw V)
  | [], kw => some kw
  | g :: rest, kw => (g.handle kw e).bind (parseGenerics e rest)

/-- the four passes of `ElementParser.parse` before the check for required items -/
def parseStages (ps : List (Property V)) (e : Xml) : Option (Kw V) := do
  let kw ← parseAttrs ps e.attrs Kw.empty
  let kw ← parseChildren ps e.children kw
  let kw ← parseText ps e kw
  parseGenerics e (ps.filterMap (·.generic?)) kw

/-- the keyword arguments handed to the constructor; `none` = `ParseError`
(conversion failure, duplicate `AttrElement`, inconsistent type attributes, missing required items) -/
def parseKw (ps : List (Property V)) (e : Xml) : Option (Kw V) :=
  (parseStages ps e).bind fun kw =>
    if (ps.filterMap (·.requiredArg?)).all (fun a => (kw a).isSome) then some kw else none

/-- `cls(**kwargs)`: arguments that were not found take the constructor default `cd` -/
def parse (ps : List (Property V)) (cd : Obj V) (e : Xml) : Option (Obj V) :=
  (parseKw ps e).map fun kw a => (kw a).getD (cd a)

/-! ### `ElementParser.to_xml` -/

def leafElem (name : String) (text : String) : Xml := .node (outName name) [] [] text

def Property.attrsOut (o : Obj V) : Property V → List (String × String)
  | .attr adm arg c _ dflt =>
    match o arg with
    | .one v => if v ≠ dflt then [(adm, c.dumps v)] else []
    | .many _ => []
  | .typeAttribute d l arg cd cl _ =>
    match o arg with
    | .one v => [(l, cl.dumps v), (d, cd.dumps v)]
    | .many _ => []
  | .customElement _ _ _ impl => impl.attrsOut o
  | .genericElement _ _ impl => impl.attrsOut o
  | _ => []

def Property.childrenOut (o : Obj V) : Property V → List Xml
  | .attrElement adm arg c _ dflt parseOnly =>
    if parseOnly then [] else
    match o arg with
    | .one v => if v ≠ dflt then [leafElem adm (c.dumps v)] else []
    | .many _ => []
  | .listElement adm arg c _ parseOnly =>
    if parseOnly then [] else
    match o arg with
    | .many vs => vs.map fun v => leafElem adm (c.dumps v)
    | .one _ => []
  | .customElement _ _ _ impl => impl.childrenOut o
  | .genericElement _ _ impl => impl.childrenOut o
  | _ => []

def textOut (ps : List (Property V)) (o : Obj V) : String :=
  match ps.findSome? (·.textHandler?) with
  | none => ""
  | some (arg, c) =>
    match o arg with
    | .one v => c.dumps v
    | .many _ => ""

/-- `ElementParser.to_xml(parent, obj)`: the element appended to the parent -/
def toXml (ps : List (Property V)) (adm : String) (o : Obj V) : Xml :=
  .node (outName adm) (ps.flatMap (·.attrsOut o)) (ps.flatMap (·.childrenOut o)) (textOut ps o)

/-! ### names and arguments (used by the hypotheses of the round-trip theorem) -/

def Property.attrKeys : Property V → List String
  | .attr adm _ _ _ _ => [adm]
  | .typeAttribute d l _ _ _ _ => [d, l]
  | _ => []

def Property.elemNames : Property V → List String
  | .attrElement adm _ _ _ _ _ => [adm]
  | .listElement adm _ _ _ _ => [adm]
  | .customElement adm _ _ _ => [adm]
  | _ => []

/-- the argument a declarative property writes with `to_xml` and reads back with `parse` -/
def Property.declArg? : Property V → Option String
  | .attr _ arg _ _ _ => some arg
  | .attrElement _ arg _ _ _ parseOnly => if parseOnly then none else some arg
  | .listElement _ arg _ _ parseOnly => if parseOnly then none else some arg
  | .handleText arg _ => some arg
  | .typeAttribute _ _ arg _ _ _ => some arg
  | _ => none

def declArgs (ps : List (Property V)) : List String := ps.filterMap (·.declArg?)

/-- the arguments a property may write: its declarative argument, or what a hand-written handler declares -/
def Property.ownArgs : Property V → List String
  | .customElement _ _ _ impl => impl.own
  | .genericElement _ _ impl => impl.own
  | .attr _ arg _ _ _ => [arg]
  | .attrElement _ arg _ _ _ parseOnly => if parseOnly then [] else [arg]
  | .listElement _ arg _ _ parseOnly => if parseOnly then [] else [arg]
  | .handleText arg _ => [arg]
  | .typeAttribute _ _ arg _ _ _ => [arg]

def allArgs (ps : List (Property V)) : List String := ps.flatMap (·.ownArgs)

omit [DecidableEq V] in
def Property.isCustom : Property V → Bool
  | .customElement .. => true
  | .genericElement .. => true
  | _ => false

end Earverif.XmlCodec
