/-
The three type renderers as functions of the concatenated input, and the final assembly
`renderAll = RenderSpec.out`.
-/
import Earverif.Proofs.C03Chans
import Earverif.Proofs.C03Fixed
import Earverif.Proofs.C02Fir
namespace Earverif.Renderer
open Earverif.Stream Earverif.Timeline Earverif.RenderSpec
set_option linter.unusedSectionVars false
set_option linter.unusedSimpArgs false

variable {V : Type} [RMod V] [LawfulRMod V]

/-! ### ObjectRenderer = channel loop, then Delay and the adapter on the two halves of the rows -/

/-- The gain stage of `ObjectRenderer.render` alone. -/
def objChansRender (c : Cfg V) (ch : List (Nat × ObjBpc V)) (S0 : Int) (b : List (List Rat)) :
    Except Err (List (Nat × ObjBpc V) × List (V × V)) :=
  procChans (interpObject c.sr) GainKern.upd S0 (track b) ch (List.replicate b.length 0)

/-- Per-block sums of the direct and the diffuse path. -/
def addBlocks (ds vs : List (List V)) : List (List V) := List.zipWith (List.zipWith (· + ·)) ds vs

theorem obj_subRun_factor (c : Cfg V) : ∀ (blocks : List (List (List Rat))) (st : ObjState V) (S0 : Int)
    (ch' : List (Nat × ObjBpc V)) (Is : List (List (V × V))),
    subRun (objChansRender c) st.chans S0 blocks = .ok (ch', Is) →
    subRun (fun s S1 b => ObjState.render c s S1 b) st S0 blocks =
      .ok (⟨ch', (Delay.run 0 st.delaymem (Is.map (·.map Prod.fst))).2,
            (Vbs.run (Fir.step c.taps) c.block_size 0 st.vbs (Is.map (·.map Prod.snd))).2⟩,
           addBlocks (Delay.run 0 st.delaymem (Is.map (·.map Prod.fst))).1
             (Vbs.run (Fir.step c.taps) c.block_size 0 st.vbs (Is.map (·.map Prod.snd))).1) := by
  intro blocks
  induction blocks with
  | nil =>
    intro st S0 ch' Is h
    simp only [subRun] at h
    cases h
    simp [subRun, Delay.run, Vbs.run, addBlocks]
  | cons b bs ih =>
    intro st S0 ch' Is h
    simp only [subRun] at h
    cases h1 : objChansRender c st.chans S0 b with
    | error e => rw [h1] at h; cases h
    | ok r =>
      obtain ⟨ch1, I⟩ := r
      rw [h1] at h; simp only at h
      cases h2 : subRun (objChansRender c) ch1 (S0 + b.length) bs with
      | error e => rw [h2] at h; cases h
      | ok r2 =>
        obtain ⟨ch2, Is'⟩ := r2
        rw [h2] at h; cases h
        have hr : ObjState.render c st S0 b =
            .ok (⟨ch1, (Delay.process 0 st.delaymem (I.map Prod.fst)).2,
                  (Vbs.process (Fir.step c.taps) c.block_size 0 st.vbs (I.map Prod.snd)).1⟩,
                 List.zipWith (· + ·) (Delay.process 0 st.delaymem (I.map Prod.fst)).1
                   (Vbs.process (Fir.step c.taps) c.block_size 0 st.vbs (I.map Prod.snd)).2) := by
          unfold objChansRender at h1
          simp only [ObjState.render, h1, bind, Except.bind, pure, Except.pure]
        have := ih ⟨ch1, (Delay.process 0 st.delaymem (I.map Prod.fst)).2,
          (Vbs.process (Fir.step c.taps) c.block_size 0 st.vbs (I.map Prod.snd)).1⟩ (S0 + b.length) ch' Is' h2
        simp only [subRun, hr, this, List.map_cons, Delay.run, Vbs.run, addBlocks, List.zipWith_cons_cons]

theorem flatten_addBlocks : ∀ (ds vs : List (List V)), ds.map List.length = vs.map List.length →
    (addBlocks ds vs).flatten = List.zipWith (· + ·) ds.flatten vs.flatten := by
  intro ds
  induction ds with
  | nil => intro vs _; simp [addBlocks]
  | cons d ds ih =>
    intro vs h
    cases vs with
    | nil => simp at h
    | cons v vs =>
      simp only [List.map_cons, List.cons.injEq] at h
      simp only [addBlocks, List.zipWith_cons_cons, List.flatten_cons]
      rw [List.zipWith_append h.1]
      congr 1
      exact ih vs h.2

/-! ### Accepted items and their processing-block lists -/

/-- The processing blocks of a timeline (empty if the interpreter rejects it). -/
def allOf {M S K : Type} (interp : S → M → Except Err (S × List (PBlock K))) (st : S) (blocks : List M) :
    List (PBlock K) :=
  match interpAll interp st blocks with
  | .ok a => a
  | .error _ => []

/-- A DirectSpeakers/HOA timeline in the property's quantifier (see `ObjAccepted`). -/
structure FixedAccepted {G : Type} (sr : Nat) (blocks : List (MetaBlock G)) : Prop where
  interp_ok : ∃ all, interpAll (interpFixed sr) {} blocks = .ok all
  nonneg : ∀ m ∈ blocks, NonNegBlock m
  start_nonneg : ∀ m ms, blocks = m :: ms → 0 ≤ (blockTimes m).1

/-- Same as `Earverif.Timeline.ObjAccepted` (restated here because this file does not import the property file). -/
structure ObjAccepted' (sr : Nat) (blocks : List (MetaBlock (V × V))) : Prop where
  interp_ok : ∃ all, interpAll (interpObject sr) {} blocks = .ok all
  nonneg : ∀ m ∈ blocks, NonNegBlock m
  start_nonneg : ∀ m ms, blocks = m :: ms → 0 ≤ (blockTimes m).1

theorem ceil_zero : ceil 0 = 0 := by
  apply Int.le_antisymm
  · exact (ceil_le_iff 0 0).mpr (by norm_num)
  · have := (lt_ceil_iff 0 (-1)).mpr (by norm_num); omega

theorem start_lb {G : Type} (sr : Nat) (blocks : List (MetaBlock G))
    (h0 : ∀ m ms, blocks = m :: ms → 0 ≤ (blockTimes m).1) :
    ∀ m ms, blocks = m :: ms → (0 : Int) ≤ ceil ((blockTimes m).1 * sr) := by
  intro m ms hm
  have := h0 m ms hm
  have h1 : (0 : Rat) ≤ (blockTimes m).1 * sr := mul_nonneg this (by positivity)
  have := ceil_mono h1
  rw [ceil_zero] at this
  exact this

theorem fixed_accepted_spec {G ι : Type} (sr : Nat) (upd : G → Nat → ι → V → V) (hupd : ∀ g k, upd g k = upd g 0)
    (blocks : List (MetaBlock G)) (h : FixedAccepted sr blocks) :
    interpAll (interpFixed sr) {} blocks = .ok (allOf (interpFixed sr) {} blocks) ∧
    ChainLB 0 (allOf (interpFixed sr) {} blocks) ∧
    ∀ t x o, effAll upd (allOf (interpFixed sr) {} blocks) t x o =
      fixedEff upd (gainAt sr (fixedTimeline blocks) t) x o := by
  obtain ⟨all, hall⟩ := h.interp_ok
  have ha : allOf (interpFixed sr) {} blocks = all := by simp only [allOf, hall]
  rw [ha]
  obtain ⟨h1, h2, _⟩ := fixed_all_spec upd hupd blocks {} all hall h.nonneg
  exact ⟨hall, h2 0 (start_lb sr blocks h.start_nonneg), h1⟩

theorem obj_accepted_spec (sr : Nat) (blocks : List (MetaBlock (V × V))) (h : ObjAccepted' sr blocks) :
    interpAll (interpObject sr) {} blocks = .ok (allOf (interpObject sr) {} blocks) ∧
    ChainLB 0 (allOf (interpObject sr) {} blocks) ∧
    ∀ t x o, effAll GainKern.upd (allOf (interpObject sr) {} blocks) t x o =
      o + RMod.smul x (gainAt sr (objTimeline none blocks) t).row := by
  obtain ⟨all, hall⟩ := h.interp_ok
  have ha : allOf (interpObject sr) {} blocks = all := by simp only [allOf, hall]
  rw [ha]
  obtain ⟨h1, h2, _⟩ := obj_all_spec blocks {} all hall ⟨rfl, Or.inl rfl⟩ h.nonneg
  refine ⟨hall, h2 0 (start_lb sr blocks h.start_nonneg), ?_⟩
  intro t x o
  rw [h1]; rfl

/-- Initial channel states satisfy the invariant. -/
theorem chansInv_init {α I M S K : Type} (interp : S → M → Except Err (S × List (PBlock K))) (st0 : S)
    (tOf : I → α) (blocksOf : I → List M) :
    ∀ (items : List I),
      (∀ it ∈ items, interpAll interp st0 (blocksOf it) = .ok (allOf interp st0 (blocksOf it)) ∧
        ChainLB 0 (allOf interp st0 (blocksOf it))) →
      ChansInv interp 0 (items.map fun it => (tOf it, (⟨blocksOf it, st0, []⟩ : Bpc M S K)))
        (items.map fun it => allOf interp st0 (blocksOf it)) := by
  intro items
  induction items with
  | nil => intro _; trivial
  | cons it items ih =>
    intro h
    obtain ⟨h1, h2⟩ := h it List.mem_cons_self
    exact ⟨⟨0, h2⟩, bpcInv_init interp st0 _ h1 h2, ih (fun it' hit => h it' (List.mem_cons_of_mem _ hit))⟩

/-- `rowFold` over a list of items whose kernels add a contribution. -/
theorem rowFold_sum {α I K ι : Type} (upd : K → Nat → ι → V → V) (s : Int) (xs : α → Option ι)
    (tOf : I → α) (allsOf : I → List (PBlock K)) (contrib : I → V) :
    ∀ (items : List I) (o : V),
      (∀ it ∈ items, ∀ o, rowStep upd s (xs (tOf it)) (allsOf it) o = o + contrib it) →
      rowFold upd s xs (items.map tOf) (items.map allsOf) o = (items.map contrib).foldl (· + ·) o := by
  intro items
  induction items with
  | nil => intro o _; rfl
  | cons it items ih =>
    intro o h
    simp only [List.map_cons, rowFold, List.foldl_cons]
    rw [h it List.mem_cons_self o]
    exact ih _ (fun it' hit => h it' (List.mem_cons_of_mem _ hit))

/-! ### The input as the renderers see it -/

theorem track_length (b : List (List Rat)) (t : Nat) : (track b t).length = b.length := by simp [track]
theorem track_append (b1 b2 : List (List Rat)) (t : Nat) : track (b1 ++ b2) t = track b1 t ++ track b2 t := by
  simp [track]
theorem tracks_length (b : List (List Rat)) (ts : List Nat) : (tracks b ts).length = b.length := by simp [tracks]
theorem tracks_append (b1 b2 : List (List Rat)) (ts : List Nat) :
    tracks (b1 ++ b2) ts = tracks b1 ts ++ tracks b2 ts := by simp [tracks]

/-- Sample of track `tr` at index `i` of the input followed by the tail's zero frames = `xAt` of the input. -/
theorem xAt_tail (x : List (List Rat)) (k n : Nat) (tr i : Nat) :
    ((x ++ List.replicate k (List.replicate n (0 : Rat))).getD i []).getD tr 0 = xAt x tr (i : Int) := by
  unfold xAt
  rw [if_pos (by omega), Int.toNat_natCast]
  simp only [List.getD_eq_getElem?_getD, List.getElem?_append]
  by_cases hi : i < x.length
  · rw [if_pos hi]
  · rw [if_neg hi, List.getElem?_eq_none (by omega : x.length ≤ i)]
    simp only [List.getElem?_replicate, Option.getD_none, List.getElem?_nil]
    split
    · simp only [Option.getD_some, List.getElem?_replicate]; split <;> rfl
    · rfl

theorem getElem?_track (X : List (List Rat)) (tr i : Nat) (hi : i < X.length) :
    (track X tr)[i]? = some ((X.getD i []).getD tr 0) := by
  simp only [track, List.getElem?_map, List.getD_eq_getElem?_getD, List.getElem?_eq_getElem hi, Option.map_some,
    Option.getD_some]

theorem getElem?_tracks (X : List (List Rat)) (ts : List Nat) (i : Nat) (hi : i < X.length) :
    (tracks X ts)[i]? = some (ts.map fun tr => (X.getD i []).getD tr 0) := by
  simp only [tracks, List.getElem?_map, List.getD_eq_getElem?_getD, List.getElem?_eq_getElem hi, Option.map_some,
    Option.getD_some]

/-! ### Fixed-gain kernels against the specification -/

/-- `DirectSpeakersRenderer`'s kernel (`FixedGains.process`). -/
def dsUpd : V → Nat → Rat → V → V := fun g _ x o => o + RMod.smul x g

theorem gainAt_noramp {G : Type} (sr : Nat) (tl : List (SpecBlock G)) (h : ∀ b ∈ tl, b.prev = none) (t : Int) :
    ∀ p g0 g1, gainAt sr tl t ≠ .ramp p g0 g1 := by
  intro p g0 g1
  unfold gainAt
  cases hf : tl.find? (·.covers sr t) with
  | none => simp
  | some b =>
    simp only
    have hb := h b (List.mem_of_find?_eq_some hf)
    split
    · simp
    · rw [hb]; simp

theorem fixedTimeline_prev {G : Type} (blocks : List (MetaBlock G)) : ∀ b ∈ fixedTimeline blocks, b.prev = none := by
  intro b hb
  simp only [fixedTimeline, List.mem_map] at hb
  obtain ⟨m, _, rfl⟩ := hb
  rfl

theorem fixedEff_ds (sr : Nat) (blocks : List (MetaBlock V)) (t : Int) (x : Rat) (o : V) :
    fixedEff dsUpd (gainAt sr (fixedTimeline blocks) t) x o =
      o + RMod.smul x (gainAt sr (fixedTimeline blocks) t).row := by
  have hn := gainAt_noramp sr (fixedTimeline blocks) (fixedTimeline_prev blocks) t
  cases hg : gainAt sr (fixedTimeline blocks) t with
  | silent => simp only [fixedEff]; exact (silent_row x o).symm
  | const g => rfl
  | ramp p g0 g1 => exact absurd hg (hn p g0 g1)

theorem fixedEff_hoa (sr : Nat) (blocks : List (MetaBlock (List V))) (t : Int) (xs : List Rat) (o : V) :
    fixedEff matUpd (gainAt sr (fixedTimeline blocks) t) xs o =
      o + (gainAt sr (fixedTimeline blocks) t).mat xs := by
  have hn := gainAt_noramp sr (fixedTimeline blocks) (fixedTimeline_prev blocks) t
  cases hg : gainAt sr (fixedTimeline blocks) t with
  | silent => simp only [fixedEff, GainSpec.mat]; exact (LawfulRMod.add_zero o).symm
  | const g => rfl
  | ramp p g0 g1 => exact absurd hg (hn p g0 g1)

/-! ### The three renderers over `parts ++ [tail]` -/

/-- All blocks a session feeds: the input blocks, then the tail block of zeros. -/
def allBlocks (c : Cfg V) (parts : List (List (List Rat))) : List (List (List Rat)) := parts ++ [tailBlock c]

theorem allBlocks_flatten (c : Cfg V) (parts : List (List (List Rat))) :
    (allBlocks c parts).flatten =
      parts.flatten ++ List.replicate c.overall_delay (List.replicate c.n_in (0 : Rat)) := by
  simp [allBlocks, tailBlock]

theorem allBlocks_length (c : Cfg V) (parts : List (List (List Rat))) :
    (allBlocks c parts).flatten.length = parts.flatten.length + c.overall_delay := by
  rw [allBlocks_flatten]; simp

/-- DirectSpeakers: for ANY partition, no exception, as many rows as frames per call, and row `i` is the sum over
items of `x_item[i] · gainAt(i)`. -/
theorem ds_stream (c : Cfg V) (dss : List (DsItem V)) (hacc : ∀ it ∈ dss, FixedAccepted c.sr it.blocks)
    (parts : List (List (List Rat))) :
    ∃ ds' o2s, subRun (dsRender c) (dss.map fun it => (it.track, ⟨it.blocks, {}, []⟩)) 0 (allBlocks c parts) =
        .ok (ds', o2s) ∧
      o2s.map List.length = (allBlocks c parts).map List.length ∧
      ∀ i, i < (allBlocks c parts).flatten.length → o2s.flatten[i]? =
        some (sumV (dss.map fun it =>
          RMod.smul (xAt parts.flatten it.track i) (gainAt c.sr (fixedTimeline it.blocks) i).row)) := by
  have hupd : ∀ (g : V) k, dsUpd g k = dsUpd g 0 := fun _ _ => rfl
  have hinv := chansInv_init (interpFixed c.sr) ({} : IState V) (fun it : DsItem V => it.track) (·.blocks) dss
    (fun it hit => ⟨(fixed_accepted_spec c.sr dsUpd hupd it.blocks (hacc it hit)).1,
      (fixed_accepted_spec c.sr dsUpd hupd it.blocks (hacc it hit)).2.1⟩)
  obtain ⟨ds', o2s, e, hl, hrow⟩ := chans_subRun_spec (interpFixed c.sr) interpFixed_yield_le_two dsUpd
    (fun b t => track b t) track_length track_append (allBlocks c parts) _ _ 0 hinv
  refine ⟨ds', o2s, e, hl, ?_⟩
  intro i hi
  rw [hrow i, if_pos hi]
  congr 1
  simp only [List.map_map, Function.comp_def]
  rw [rowFold_sum dsUpd _ _ (fun it : DsItem V => it.track) (fun it => allOf (interpFixed c.sr) {} it.blocks)
    (fun it => RMod.smul (xAt parts.flatten it.track i) (gainAt c.sr (fixedTimeline it.blocks) i).row)]
  · rfl
  · intro it hit o
    rw [getElem?_track _ _ _ hi, allBlocks_flatten, xAt_tail]
    simp only [rowStep]
    rw [(fixed_accepted_spec c.sr dsUpd hupd it.blocks (hacc it hit)).2.2, fixedEff_ds, Int.zero_add]

/-- HOA: same with the decode matrix. -/
theorem hoa_stream (c : Cfg V) (hoas : List (HoaItem V)) (hacc : ∀ it ∈ hoas, FixedAccepted c.sr it.blocks)
    (parts : List (List (List Rat))) :
    ∃ hoa' o3s, subRun (hoaRender c) (hoas.map fun it => (it.tracks, ⟨it.blocks, {}, []⟩)) 0 (allBlocks c parts) =
        .ok (hoa', o3s) ∧
      o3s.map List.length = (allBlocks c parts).map List.length ∧
      ∀ i, i < (allBlocks c parts).flatten.length → o3s.flatten[i]? =
        some (sumV (hoas.map fun it =>
          (gainAt c.sr (fixedTimeline it.blocks) i).mat (it.tracks.map fun tr => xAt parts.flatten tr i))) := by
  have hupd : ∀ (g : List V) k, matUpd g k = matUpd g 0 := fun _ _ => rfl
  have hinv := chansInv_init (interpFixed c.sr) ({} : IState (List V)) (fun it : HoaItem V => it.tracks) (·.blocks)
    hoas (fun it hit => ⟨(fixed_accepted_spec c.sr matUpd hupd it.blocks (hacc it hit)).1,
      (fixed_accepted_spec c.sr matUpd hupd it.blocks (hacc it hit)).2.1⟩)
  obtain ⟨hoa', o3s, e, hl, hrow⟩ := chans_subRun_spec (interpFixed c.sr) interpFixed_yield_le_two matUpd
    (fun b ts => tracks b ts) tracks_length tracks_append (allBlocks c parts) _ _ 0 hinv
  refine ⟨hoa', o3s, e, hl, ?_⟩
  intro i hi
  rw [hrow i, if_pos hi]
  congr 1
  simp only [List.map_map, Function.comp_def]
  rw [rowFold_sum matUpd _ _ (fun it : HoaItem V => it.tracks) (fun it => allOf (interpFixed c.sr) {} it.blocks)
    (fun it => (gainAt c.sr (fixedTimeline it.blocks) i).mat (it.tracks.map fun tr => xAt parts.flatten tr i))]
  · rfl
  · intro it hit o
    rw [getElem?_tracks _ _ _ hi, allBlocks_flatten]
    simp only [rowStep, xAt_tail]
    rw [(fixed_accepted_spec c.sr matUpd hupd it.blocks (hacc it hit)).2.2, fixedEff_hoa, Int.zero_add]

/-- Objects, gain stage: row `i` of the `(direct, diffuse)` rows is `objAt(i)`. -/
theorem objI_stream (c : Cfg V) (objs : List (ObjItem V)) (hacc : ∀ it ∈ objs, ObjAccepted' c.sr it.blocks)
    (parts : List (List (List Rat))) :
    ∃ ch' Is, subRun (objChansRender c) (objs.map fun it => (it.track, ⟨it.blocks, {}, []⟩)) 0 (allBlocks c parts) =
        .ok (ch', Is) ∧
      Is.map List.length = (allBlocks c parts).map List.length ∧
      ∀ i, i < (allBlocks c parts).flatten.length → Is.flatten[i]? = some (objAt c.sr objs parts.flatten i) := by
  have hinv := chansInv_init (interpObject c.sr) ({} : IState (V × V)) (fun it : ObjItem V => it.track) (·.blocks)
    objs (fun it hit => ⟨(obj_accepted_spec c.sr it.blocks (hacc it hit)).1,
      (obj_accepted_spec c.sr it.blocks (hacc it hit)).2.1⟩)
  obtain ⟨ch', Is, e, hl, hrow⟩ := chans_subRun_spec (V := V × V) (interpObject c.sr) interpObject_yield_le_two
    GainKern.upd (fun b t => track b t) track_length track_append (allBlocks c parts) _ _ 0 hinv
  refine ⟨ch', Is, e, hl, ?_⟩
  intro i hi
  rw [hrow i, if_pos hi]
  congr 1
  simp only [List.map_map, Function.comp_def]
  rw [rowFold_sum GainKern.upd _ _ (fun it : ObjItem V => it.track)
    (fun it => allOf (interpObject c.sr) {} it.blocks)
    (fun it => RMod.smul (xAt parts.flatten it.track i) (gainAt c.sr (objTimeline none it.blocks) i).row)]
  · rfl
  · intro it hit o
    rw [getElem?_track _ _ _ hi, allBlocks_flatten, xAt_tail]
    simp only [rowStep]
    rw [(obj_accepted_spec c.sr it.blocks (hacc it hit)).2.2, Int.zero_add]

/-! ### ObjectRenderer output stream -/

theorem objAt_neg (sr : Nat) (objs : List (ObjItem V)) (x : List (List Rat)) (t : Int) (ht : t < 0) :
    objAt sr objs x t = 0 := by
  unfold objAt sumV
  apply foldl_zeros
  intro v hv
  obtain ⟨it, _, rfl⟩ := List.mem_map.mp hv
  have : xAt x it.track t = 0 := by unfold xAt; rw [if_neg (by omega)]
  rw [this, LawfulRMod.zero_smul]

/-- The diffuse part of the specification at output sample `s`. -/
def specDiffuse (c : Cfg V) (objs : List (ObjItem V)) (x : List (List Rat)) (s : Nat) : V :=
  sumV ((List.range c.taps.length).map fun k =>
    RMod.pmul (c.taps.getD k 0) (objAt c.sr objs x ((s : Int) + c.decorrelator_delay - k)).2)

theorem getD_of_getElem? {α : Type} (l : List α) (i : Nat) (d a : α) (h : l[i]? = some a) : l.getD i d = a := by
  simp [List.getD_eq_getElem?_getD, h]

/-- Objects: for ANY partition, no exception, as many rows as frames per call, and row `s + overall_delay` of the
concatenation is `direct(s) + Σ_k f[k]·diffuse(s + (N−1)//2 − k)`: the direct path delayed by `overall_delay`, the
diffuse path through the FIR delayed by `block_size`. -/
theorem obj_stream (c : Cfg V) (hB : 1 ≤ c.block_size) (objs : List (ObjItem V))
    (hacc : ∀ it ∈ objs, ObjAccepted' c.sr it.blocks) (parts : List (List (List Rat))) :
    ∃ obj' o1s, subRun (fun s S1 b => ObjState.render c s S1 b) (ObjState.init c objs) 0 (allBlocks c parts) =
        .ok (obj', o1s) ∧
      o1s.map List.length = (allBlocks c parts).map List.length ∧
      ∀ s, s < parts.flatten.length → o1s.flatten[s + c.overall_delay]? =
        some ((objAt c.sr objs parts.flatten s).1 + specDiffuse c objs parts.flatten s) := by
  obtain ⟨ch', Is, e, hl, hrow⟩ := objI_stream c objs hacc parts
  have hfac := obj_subRun_factor c (allBlocks c parts) (ObjState.init c objs) 0 ch' Is e
  obtain ⟨d1, _, d3⟩ := delay_run_eq (0 : V) (Is.map (·.map Prod.fst)) (List.replicate c.overall_delay 0)
  obtain ⟨v1, v3⟩ := vbs_fir_eq c.taps c.block_size hB (Is.map (·.map Prod.snd))
  have hI1 : (Is.map (·.map Prod.fst)).flatten = Is.flatten.map Prod.fst := by rw [List.map_flatten]
  have hI2 : (Is.map (·.map Prod.snd)).flatten = Is.flatten.map Prod.snd := by rw [List.map_flatten]
  have hl1 : (Is.map (·.map Prod.fst)).map List.length = Is.map List.length := by
    simp only [List.map_map]; apply List.map_congr_left; intro l _; simp
  have hl2 : (Is.map (·.map Prod.snd)).map List.length = Is.map List.length := by
    simp only [List.map_map]; apply List.map_congr_left; intro l _; simp
  have hN : Is.flatten.length = parts.flatten.length + c.overall_delay := by
    rw [← allBlocks_length, List.length_flatten, List.length_flatten, hl]
  simp only [ObjState.init, Delay.init] at hfac
  refine ⟨_, _, hfac, ?_, ?_⟩
  · -- lengths
    have hd : (Delay.run (0 : V) (List.replicate c.overall_delay 0) (Is.map (·.map Prod.fst))).1.map List.length =
        (allBlocks c parts).map List.length := by rw [d3, hl1, hl]
    have hv : (Vbs.run (Fir.step c.taps) c.block_size 0
        (Vbs.init (Fir.step c.taps) c.block_size 0 (Fir.init c.taps)) (Is.map (·.map Prod.snd))).1.map List.length =
        (allBlocks c parts).map List.length := by rw [v3, hl2, hl]
    generalize (Delay.run (0 : V) (List.replicate c.overall_delay 0) (Is.map (·.map Prod.fst))).1 = ds at hd
    generalize (Vbs.run (Fir.step c.taps) c.block_size 0
        (Vbs.init (Fir.step c.taps) c.block_size 0 (Fir.init c.taps)) (Is.map (·.map Prod.snd))).1 = vs at hv
    generalize (allBlocks c parts).map List.length = ls at hd hv
    clear hfac d1 d3 v1 v3
    induction ls generalizing ds vs with
    | nil =>
      have : ds = [] := by simpa using hd
      subst this; rfl
    | cons n ls ih =>
      cases ds with
      | nil => simp at hd
      | cons d ds =>
        cases vs with
        | nil => simp at hv
        | cons v vs =>
          simp only [List.map_cons, List.cons.injEq] at hd hv
          simp only [addBlocks, List.zipWith_cons_cons, List.map_cons, List.length_zipWith, hd.1, hv.1, Nat.min_self]
          congr 1
          exact ih ds vs hd.2 hv.2
  · intro s hs
    rw [flatten_addBlocks _ _ (by rw [d3, v3, hl1, hl2])]
    rw [d1, v1, hI1, hI2]
    simp only [List.length_map, hN]
    have hD : c.overall_delay = c.block_size + c.decorrelator_delay := rfl
    have hs1 : (Is.flatten.map Prod.fst)[s]? = some (objAt c.sr objs parts.flatten s).1 := by
      rw [List.getElem?_map, hrow s (by rw [allBlocks_length]; omega)]; rfl
    have hfir : (firAll c.taps (Is.flatten.map Prod.snd))[s + c.decorrelator_delay]? =
        some (specDiffuse c objs parts.flatten s) := by
      unfold firAll
      rw [List.getElem?_map, List.length_map, List.getElem?_range (by omega)]
      simp only [Option.map_some]
      congr 1
      unfold Fir.at specDiffuse sumV
      congr 1
      apply List.map_congr_left
      intro k hk
      by_cases hks : k ≤ s + c.decorrelator_delay
      · rw [if_pos hks]
        have hidx : s + c.decorrelator_delay - k < (allBlocks c parts).flatten.length := by
          rw [allBlocks_length]; omega
        have : (Is.flatten.map Prod.snd).getD (s + c.decorrelator_delay - k) 0 =
            (objAt c.sr objs parts.flatten ((s + c.decorrelator_delay - k : Nat) : Int)).2 := by
          apply getD_of_getElem?
          rw [List.getElem?_map, hrow _ hidx]; rfl
        rw [this]
        congr 3
        omega
      · rw [if_neg hks, objAt_neg _ _ _ _ (by omega)]
        exact (LawfulRMod.pmul_zero _).symm
    have hdl : ((List.replicate c.overall_delay (0 : V) ++ Is.flatten.map Prod.fst).take
        (parts.flatten.length + c.overall_delay))[s + c.overall_delay]? =
        some (objAt c.sr objs parts.flatten s).1 := by
      rw [List.getElem?_take_of_lt (by omega), List.getElem?_append_right (by simp), List.length_replicate]
      have e1 : s + c.overall_delay - c.overall_delay = s := by omega
      rw [e1, hs1]
    have hvb : ((List.replicate c.block_size (0 : V) ++ firAll c.taps (Is.flatten.map Prod.snd)).take
        (parts.flatten.length + c.overall_delay))[s + c.overall_delay]? =
        some (specDiffuse c objs parts.flatten s) := by
      rw [List.getElem?_take_of_lt (by omega), List.getElem?_append_right (by simp; omega), List.length_replicate]
      have e2 : s + c.overall_delay - c.block_size = s + c.decorrelator_delay := by omega
      rw [e2, hfir]
    rw [List.getElem?_zipWith, hdl, hvb]

/-! ### Assembly -/

omit [LawfulRMod V] in
theorem rounds_spec : ∀ (bl : List (List (List Rat))) (o1s o2s o3s : List (List V)),
    o1s.map List.length = bl.map List.length → o2s.map List.length = bl.map List.length →
    o3s.map List.length = bl.map List.length →
    RoundsOK (rounds bl o1s o2s o3s) ∧ (rounds bl o1s o2s o3s).map (·.2.1) = o1s ∧
      (rounds bl o1s o2s o3s).map (·.2.2.1) = o2s ∧ (rounds bl o1s o2s o3s).map (·.2.2.2) = o3s := by
  intro bl
  induction bl with
  | nil =>
    intro o1s o2s o3s h1 h2 h3
    have e1 : o1s = [] := by simpa using h1
    have e2 : o2s = [] := by simpa using h2
    have e3 : o3s = [] := by simpa using h3
    subst e1 e2 e3
    exact ⟨fun r hr => by simp [rounds] at hr, rfl, rfl, rfl⟩
  | cons b bs ih =>
    intro o1s o2s o3s h1 h2 h3
    cases o1s with
    | nil => simp at h1
    | cons o1 o1s =>
      cases o2s with
      | nil => simp at h2
      | cons o2 o2s =>
        cases o3s with
        | nil => simp at h3
        | cons o3 o3s =>
          simp only [List.map_cons, List.cons.injEq] at h1 h2 h3
          obtain ⟨i0, i1, i2, i3⟩ := ih o1s o2s o3s h1.2 h2.2 h3.2
          refine ⟨?_, ?_, ?_, ?_⟩
          · intro r hr
            simp only [rounds, List.mem_cons] at hr
            rcases hr with rfl | hr
            · exact ⟨h1.1, h2.1, h3.1⟩
            · exact i0 r hr
          · simp only [rounds, List.map_cons, i1]
          · simp only [rounds, List.map_cons, i2]
          · simp only [rounds, List.map_cons, i3]

/-- Items in the property's quantifier and a usable block size. -/
structure SessionOK (c : Cfg V) (objs : List (ObjItem V)) (dss : List (DsItem V)) (hoas : List (HoaItem V)) : Prop where
  block_size_pos : 1 ≤ c.block_size
  objs_ok : ∀ it ∈ objs, ObjAccepted' c.sr it.blocks
  dss_ok : ∀ it ∈ dss, FixedAccepted c.sr it.blocks
  hoas_ok : ∀ it ∈ hoas, FixedAccepted c.sr it.blocks

/-- **`render_refines_spec`** — for every configuration with `block_size ≥ 1`, every mix of accepted items, every
input and EVERY partition of it into `render` calls (empty blocks included): no call raises, and all returned blocks
followed by the tail concatenate to exactly the sample-by-sample specification `RenderSpec.out` of the concatenated
input. -/
theorem render_refines_spec (c : Cfg V) (objs : List (ObjItem V)) (dss : List (DsItem V)) (hoas : List (HoaItem V))
    (hok : SessionOK c objs dss hoas) (parts : List (List (List Rat))) :
    renderAll c objs dss hoas parts = .ok (RenderSpec.out c objs dss hoas parts.flatten) := by
  obtain ⟨obj', o1s, e1, l1, r1⟩ := obj_stream c hok.block_size_pos objs hok.objs_ok parts
  obtain ⟨ds', o2s, e2, l2, r2⟩ := ds_stream c dss hok.dss_ok parts
  obtain ⟨hoa', o3s, e3, l3, r3⟩ := hoa_stream c hoas hok.hoas_ok parts
  obtain ⟨hrok, p1, p2, p3⟩ := rounds_spec (allBlocks c parts) o1s o2s o3s l1 l2 l3
  obtain ⟨outs, al, hrun, hflat⟩ := aligner_run_eq c.overall_delay _ hrok
  rw [renderAll_eq_run]
  have := run_factor c (parts ++ [tailBlock c]) (RState.init c objs dss hoas) obj' ds' hoa' o1s o2s o3s outs al
    e1 e2 e3 hrun
  rw [this]
  simp only
  congr 1
  rw [hflat, p1, p2, p3]
  -- lengths of the three streams
  have hlen : ∀ (os : List (List V)), os.map List.length = (allBlocks c parts).map List.length →
      os.flatten.length = parts.flatten.length + c.overall_delay := by
    intro os h
    rw [← allBlocks_length, List.length_flatten, List.length_flatten, h]
  have hA := hlen o1s l1
  have hB := hlen o2s l2
  have hC := hlen o3s l3
  apply List.ext_getElem?
  intro i
  unfold RenderSpec.out
  rw [List.getElem?_map]
  by_cases hi : i < parts.flatten.length
  · rw [List.getElem?_range hi]
    simp only [Option.map_some, List.getElem?_zipWith, List.getElem?_drop]
    have hr1 := r1 i hi
    rw [Nat.add_comm] at hr1
    rw [hr1, r2 i (by rw [allBlocks_length]; omega), r3 i (by rw [allBlocks_length]; omega)]
    rfl
  · have hrange : (List.range parts.flatten.length)[i]? = none :=
      List.getElem?_eq_none (by rw [List.length_range]; omega)
    rw [hrange]
    simp only [Option.map_none, List.getElem?_zipWith, List.getElem?_drop]
    have hnone : o1s.flatten[c.overall_delay + i]? = none := List.getElem?_eq_none (by omega)
    rw [hnone]

end Earverif.Renderer
