/-
C07 — no duplicates: no two solutions yielded by the pack-allocation search are `≈`.

Method: every solution found below a candidate of `candidate_partial_solutions` extends
that candidate's partial solution in place (`sol = F ++ E`, `Fills np F`); two different
candidates for a real head track put that track into entries that can never be the same
`AllocatedPack` of a solution (each already-open entry holds a real track, and real tracks
occur once); for a silent head track there is a single candidate unless a new pack must be
opened, and then the `packs[pack_i:]` restriction makes the pack opened by an earlier
candidate unavailable below every later candidate.
-/
import Earverif.Model.PackAlloc
import Earverif.Proofs.C07Sound
import Earverif.Proofs.C07Complete

namespace Earverif.PackAlloc
open List

/-! ### `Fills` is a preorder and decomposes along `++` -/

theorem fillsSlots_cons_iff (c c' : Channel) (s s' : Slot) (al fl : List (Channel × Slot)) :
    FillsSlots ((c, s) :: al) ((c', s') :: fl) ↔ (c' = c ∧ (s = none ∨ s' = s) ∧ FillsSlots al fl) := by
  simp only [FillsSlots]

theorem fills_cons_iff (a f : Allocated) (P F : Sol) :
    Fills (a :: P) (f :: F) ↔
      ((f.pack = a.pack ∧ FillsSlots a.allocation f.allocation) ∧ Fills P F) := by
  simp only [Fills]

theorem fillsSlots_refl : ∀ (al : List (Channel × Slot)), FillsSlots al al
  | [] => by simp [FillsSlots]
  | (c, s) :: al => (fillsSlots_cons_iff c c s s al al).2 ⟨rfl, Or.inr rfl, fillsSlots_refl al⟩

theorem fills_refl : ∀ (P : Sol), Fills P P
  | [] => by simp [Fills]
  | a :: P => (fills_cons_iff a a P P).2 ⟨⟨rfl, fillsSlots_refl _⟩, fills_refl P⟩

theorem fillsSlots_trans : ∀ (a b c : List (Channel × Slot)),
    FillsSlots a b → FillsSlots b c → FillsSlots a c
  | [], [], [], _, _ => by simp [FillsSlots]
  | [], [], _ :: _, _, h => by simp [FillsSlots] at h
  | [], _ :: _, _, h, _ => by simp [FillsSlots] at h
  | _ :: _, [], _, h, _ => by simp [FillsSlots] at h
  | _ :: _, _ :: _, [], _, h => by simp [FillsSlots] at h
  | (c1, s1) :: a, (c2, s2) :: b, (c3, s3) :: c, h1, h2 => by
    rw [fillsSlots_cons_iff] at h1 h2 ⊢
    obtain ⟨e1, o1, r1⟩ := h1
    obtain ⟨e2, o2, r2⟩ := h2
    refine ⟨e2.trans e1, ?_, fillsSlots_trans a b c r1 r2⟩
    rcases o1 with o1 | o1
    · exact Or.inl o1
    · subst o1
      rcases o2 with o2 | o2
      · exact Or.inl o2
      · exact Or.inr o2

theorem fills_trans : ∀ (a b c : Sol), Fills a b → Fills b c → Fills a c
  | [], [], [], _, _ => by simp [Fills]
  | [], [], _ :: _, _, h => by simp [Fills] at h
  | [], _ :: _, _, h, _ => by simp [Fills] at h
  | _ :: _, [], _, h, _ => by simp [Fills] at h
  | _ :: _, _ :: _, [], _, h => by simp [Fills] at h
  | x :: a, y :: b, z :: c, h1, h2 => by
    rw [fills_cons_iff] at h1 h2 ⊢
    exact ⟨⟨h2.1.1.trans h1.1.1, fillsSlots_trans _ _ _ h1.1.2 h2.1.2⟩, fills_trans a b c h1.2 h2.2⟩

theorem fills_append_inv : ∀ (A B F : Sol), Fills (A ++ B) F →
    ∃ FA FB, F = FA ++ FB ∧ Fills A FA ∧ Fills B FB
  | [], B, F, h => ⟨[], F, rfl, by simp [Fills], h⟩
  | _ :: _, _, [], h => by simp [Fills] at h
  | a :: A, B, f :: F, h => by
    rw [cons_append, fills_cons_iff] at h
    obtain ⟨FA, FB, rfl, h1, h2⟩ := fills_append_inv A B F h.2
    exact ⟨f :: FA, FB, rfl, (fills_cons_iff a f A FA).2 ⟨h.1, h1⟩, h2⟩

theorem fills_append : ∀ (A FA B FB : Sol), Fills A FA → Fills B FB → Fills (A ++ B) (FA ++ FB)
  | [], [], _, _, _, h => h
  | [], _ :: _, _, _, h, _ => by simp [Fills] at h
  | _ :: _, [], _, _, h, _ => by simp [Fills] at h
  | a :: A, f :: FA, B, FB, h1, h2 => by
    rw [fills_cons_iff] at h1
    rw [cons_append, cons_append, fills_cons_iff]
    exact ⟨h1.1, fills_append A FA B FB h1.2 h2⟩

theorem fills_cons_inv (a : Allocated) (B F : Sol) (h : Fills (a :: B) F) :
    ∃ f FB, F = f :: FB ∧ (f.pack = a.pack ∧ FillsSlots a.allocation f.allocation) ∧ Fills B FB := by
  cases F with
  | nil => simp [Fills] at h
  | cons f FB =>
    rw [fills_cons_iff] at h
    exact ⟨f, FB, rfl, h.1, h.2⟩

theorem fillsSlots_filled_sub : ∀ (al fl : List (Channel × Slot)), FillsSlots al fl →
    ∀ x ∈ filledSlots al, x ∈ filledSlots fl
  | [], _, _, x, hx => by simp [filledSlots] at hx
  | _ :: _, [], h, _, _ => by simp [FillsSlots] at h
  | (c, s) :: al, (c', s') :: fl, h, x, hx => by
    rw [fillsSlots_cons_iff] at h
    rw [filledSlots_cons, mem_append] at hx ⊢
    rcases hx with hx | hx
    · left
      rcases h.2.1 with hs | hs
      · subst hs; simp at hx
      · rw [hs]; exact hx
    · right; exact fillsSlots_filled_sub al fl h.2.2 x hx

theorem fills_mem : ∀ (X Y : Sol), Fills X Y → ∀ a ∈ X,
    ∃ g ∈ Y, g.pack = a.pack ∧ FillsSlots a.allocation g.allocation
  | [], _, _, a, ha => by cases ha
  | _ :: _, [], h, _, _ => by simp [Fills] at h
  | x :: X, y :: Y, h, a, ha => by
    rw [fills_cons_iff] at h
    simp only [mem_cons] at ha
    rcases ha with rfl | ha
    · exact ⟨y, by simp, h.1⟩
    · obtain ⟨g, hg, r⟩ := fills_mem X Y h.2 a ha
      exact ⟨g, by simp [hg], r⟩

/-- The entry already holds a real track. -/
def HasReal (a : Allocated) : Prop := ∃ tr : Track, some tr ∈ filledSlots a.allocation

theorem fills_hasReal : ∀ (X Y : Sol), Fills X Y → (∀ a ∈ X, HasReal a) → ∀ g ∈ Y, HasReal g
  | [], [], _, _, g, hg => by cases hg
  | [], _ :: _, h, _, _, _ => by simp [Fills] at h
  | _ :: _, [], h, _, _, _ => by simp [Fills] at h
  | x :: X, y :: Y, h, hr, g, hg => by
    rw [fills_cons_iff] at h
    simp only [mem_cons] at hg
    rcases hg with rfl | hg
    · obtain ⟨tr, htr⟩ := hr x (by simp)
      exact ⟨tr, fillsSlots_filled_sub _ _ h.1.2 _ htr⟩
    · exact fills_hasReal X Y h.2 (fun a ha => hr a (by simp [ha])) g hg

/-! ### the steps of the search fill in place -/

theorem tryAllocateSlots_fills (t : TrackRef) : ∀ (al al' : List (Channel × Slot)),
    tryAllocateSlots t al = some al' → FillsSlots al al' ∧ t ∈ filledSlots al'
  | [], _, h => by simp [tryAllocateSlots] at h
  | (c, s) :: rest, al', h => by
    simp only [tryAllocateSlots] at h
    split at h
    · rename_i hc
      cases h
      simp only [Bool.and_eq_true, Option.isNone_iff_eq_none] at hc
      refine ⟨(fillsSlots_cons_iff _ _ _ _ _ _).2 ⟨rfl, Or.inl hc.1, fillsSlots_refl rest⟩, ?_⟩
      simp [filledSlots_cons]
    · cases hr : tryAllocateSlots t rest with
      | none => simp [hr] at h
      | some r' =>
        simp [hr] at h
        subst h
        obtain ⟨i1, i2⟩ := tryAllocateSlots_fills t rest r' hr
        refine ⟨(fillsSlots_cons_iff _ _ _ _ _ _).2 ⟨rfl, Or.inr rfl, i1⟩, ?_⟩
        rw [filledSlots_cons, mem_append]
        right; exact i2

theorem tryAllocate_fills (t : TrackRef) (a a' : Allocated) (h : tryAllocate t a = some a') :
    a'.pack = a.pack ∧ FillsSlots a.allocation a'.allocation ∧ t ∈ filledSlots a'.allocation := by
  simp only [tryAllocate] at h
  cases hr : tryAllocateSlots t a.allocation with
  | none => simp [hr] at h
  | some al =>
    simp [hr] at h
    subst h
    exact ⟨rfl, tryAllocateSlots_fills t _ _ hr⟩

theorem obviousChannel_fills (tracks : List TrackRef) (c : Channel) (s s' : Slot)
    (tracks' : List TrackRef) (h : obviousChannel tracks c s = some (s', tracks')) :
    (s = none ∨ s' = s) ∧ tracks' <+ tracks := by
  unfold obviousChannel at h
  cases s with
  | some x =>
    simp at h
    obtain ⟨rfl, rfl⟩ := h
    exact ⟨Or.inr rfl, Sublist.refl _⟩
  | none =>
    refine ⟨Or.inl rfl, ?_⟩
    simp only at h
    split at h
    · cases h
    · split at h
      · simp at h
        obtain ⟨_, rfl⟩ := h
        exact eraseIdx_sublist _ _
      · simp at h
        obtain ⟨_, rfl⟩ := h
        exact Sublist.refl _

theorem obviousSlots_fills : ∀ (al : List (Channel × Slot)) (tracks : List TrackRef)
    (al' : List (Channel × Slot)) (tracks' : List TrackRef),
    obviousSlots tracks al = some (al', tracks') → FillsSlots al al' ∧ tracks' <+ tracks
  | [], tracks, al', tracks', h => by
    simp [obviousSlots] at h
    obtain ⟨rfl, rfl⟩ := h
    exact ⟨by simp [FillsSlots], Sublist.refl _⟩
  | (c, s) :: rest, tracks, al', tracks', h => by
    simp only [obviousSlots] at h
    split at h
    · cases h
    · rename_i s1 t1 h1
      split at h
      · cases h
      · rename_i r2 t2 h2
        simp at h
        obtain ⟨rfl, rfl⟩ := h
        obtain ⟨a1, a2⟩ := obviousChannel_fills tracks c s s1 t1 h1
        obtain ⟨b1, b2⟩ := obviousSlots_fills rest t1 r2 t2 h2
        exact ⟨(fillsSlots_cons_iff _ _ _ _ _ _).2 ⟨rfl, a1, b1⟩, b2.trans a2⟩

theorem obviousPacks_fills : ∀ (sol : Sol) (tracks : List TrackRef) (sol' : Sol)
    (tracks' : List TrackRef), obviousPacks tracks sol = some (sol', tracks') →
    Fills sol sol' ∧ tracks' <+ tracks
  | [], tracks, sol', tracks', h => by
    simp [obviousPacks] at h
    obtain ⟨rfl, rfl⟩ := h
    exact ⟨by simp [Fills], Sublist.refl _⟩
  | a :: rest, tracks, sol', tracks', h => by
    simp only [obviousPacks] at h
    split at h
    · cases h
    · rename_i al t1 h1
      split at h
      · cases h
      · rename_i r2 t2 h2
        simp at h
        obtain ⟨rfl, rfl⟩ := h
        obtain ⟨a1, a2⟩ := obviousSlots_fills a.allocation tracks al t1 h1
        obtain ⟨b1, b2⟩ := obviousPacks_fills rest t1 r2 t2 h2
        exact ⟨(fills_cons_iff _ _ _ _).2 ⟨⟨rfl, a1⟩, b1⟩, b2.trans a2⟩

theorem existingCandidates_spec' (t : TrackRef) : ∀ (post pre : List Allocated) (np : Sol),
    np ∈ existingCandidates t pre post →
    ∃ A a a' B, post = A ++ a :: B ∧ np = pre ++ A ++ a' :: B ∧ tryAllocate t a = some a'
  | [], _, _, h => by simp [existingCandidates] at h
  | a :: post, pre, np, h => by
    simp only [existingCandidates] at h
    have rec_ : np ∈ existingCandidates t (pre ++ [a]) post →
        ∃ A a0 a' B, a :: post = A ++ a0 :: B ∧ np = pre ++ A ++ a' :: B ∧
          tryAllocate t a0 = some a' := by
      intro h'
      obtain ⟨A, a0, a', B, e1, e2, e3⟩ := existingCandidates_spec' t post (pre ++ [a]) np h'
      exact ⟨a :: A, a0, a', B, by simp [e1], by simp [e2], e3⟩
    split at h
    · rename_i a' ha
      simp only [mem_cons] at h
      rcases h with rfl | h
      · exact ⟨[], a, a', post, rfl, by simp, ha⟩
      · exact rec_ h
    · exact rec_ h

/-! ### a real track cannot sit in two places -/

theorem mem_filled (S : Sol) (x : TrackRef) :
    x ∈ filled S ↔ ∃ a ∈ S, x ∈ filledSlots a.allocation := by
  induction S with
  | nil => simp [filled_nil]
  | cons a S ih => rw [filled_cons, mem_append, ih]; simp

theorem mem_realTracks_of (S : Sol) (y : Allocated) (tr : Track) (hy : y ∈ S)
    (h : some tr ∈ filledSlots y.allocation) : tr ∈ realTracks S := by
  simp only [realTracks, mem_filterMap, id]
  exact ⟨some tr, (mem_filled S _).2 ⟨y, hy, h⟩, rfl⟩

theorem realTracks_split (L R : Sol) (x : Allocated) :
    realTracks (L ++ x :: R) =
      realTracks L ++ ((filledSlots x.allocation).filterMap id ++ realTracks R) := by
  simp only [realTracks, filled_append, filled_cons, filterMap_append]

theorem two_places (L R : Sol) (x y : Allocated) (tr : Track)
    (hx : some tr ∈ filledSlots x.allocation) (hy : y ∈ L ++ R)
    (hy' : some tr ∈ filledSlots y.allocation) : ¬ (realTracks (L ++ x :: R)).Nodup := by
  intro hn
  rw [realTracks_split, nodup_append] at hn
  obtain ⟨_, h2, h3⟩ := hn
  have hmid : tr ∈ (filledSlots x.allocation).filterMap id := by
    simp only [mem_filterMap, id]; exact ⟨some tr, hx, rfl⟩
  simp only [mem_append] at hy
  rcases hy with hy | hy
  · exact h3 tr (mem_realTracks_of L y tr hy hy') tr (by simp only [mem_append]; left; exact hmid) rfl
  · rw [nodup_append] at h2
    exact h2.2.2 tr hmid tr (mem_realTracks_of R y tr hy hy') rfl

/-- Two partial solutions that put `t` into entries which can never be the same
`AllocatedPack` of a solution: different packs, or the first entry holds a real track
that also sits in another entry of the second partial solution. -/
def Dis (t : TrackRef) (np1 np2 : Sol) : Prop :=
  ∃ A1 a1 B1 A2 a2 B2, np1 = A1 ++ a1 :: B1 ∧ np2 = A2 ++ a2 :: B2 ∧
    t ∈ filledSlots a1.allocation ∧ t ∈ filledSlots a2.allocation ∧
    (a1.pack ≠ a2.pack ∨ ∃ (u : Track) (y : Allocated),
      some u ∈ filledSlots a1.allocation ∧ y ∈ A2 ++ B2 ∧ some u ∈ filledSlots y.allocation)

theorem dis_no_common (tr : Track) (np1 np2 F1 E1 F2 E2 : Sol) (hd : Dis (some tr) np1 np2)
    (h1 : Fills np1 F1) (h2 : Fills np2 F2) (hn : (realTracks (F2 ++ E2)).Nodup)
    (hp : F1 ++ E1 ~ F2 ++ E2) : False := by
  obtain ⟨A1, a1, B1, A2, a2, B2, rfl, rfl, t1, t2, hcase⟩ := hd
  obtain ⟨FA1, FX1, rfl, _, hX1⟩ := fills_append_inv A1 (a1 :: B1) F1 h1
  obtain ⟨f1, FB1, rfl, ⟨p1, s1⟩, _⟩ := fills_cons_inv a1 B1 FX1 hX1
  obtain ⟨FA2, FX2, rfl, hA2, hX2⟩ := fills_append_inv A2 (a2 :: B2) F2 h2
  obtain ⟨f2, FB2, rfl, ⟨p2, s2⟩, hB2⟩ := fills_cons_inv a2 B2 FX2 hX2
  have tf1 := fillsSlots_filled_sub _ _ s1 _ t1
  have tf2 := fillsSlots_filled_sub _ _ s2 _ t2
  have hsol2 : FA2 ++ f2 :: FB2 ++ E2 = FA2 ++ f2 :: (FB2 ++ E2) := by simp
  rw [hsol2] at hn hp
  have hmem : f1 ∈ FA2 ++ f2 :: (FB2 ++ E2) := (hp.mem_iff).1 (by simp)
  have key : f1 = f2 := by
    simp only [mem_append, mem_cons] at hmem
    rcases hmem with h | h | h
    · exact absurd hn (two_places FA2 (FB2 ++ E2) f2 f1 tr tf2 (by simp [h]) tf1)
    · exact h
    · exact absurd hn (two_places FA2 (FB2 ++ E2) f2 f1 tr tf2
        (by simp only [mem_append] at h ⊢; right; exact h) tf1)
  rcases hcase with hne | ⟨u, y, hu, hy, hy'⟩
  · apply hne
    rw [← p1, ← p2, key]
  · have hfill : Fills (A2 ++ B2) (FA2 ++ FB2) := fills_append A2 FA2 B2 FB2 hA2 hB2
    obtain ⟨g, hg, _, hgs⟩ := fills_mem _ _ hfill y hy
    have ug := fillsSlots_filled_sub _ _ hgs _ hy'
    have uf2 : some u ∈ filledSlots f2.allocation := by
      rw [← key]; exact fillsSlots_filled_sub _ _ s1 _ hu
    refine two_places FA2 (FB2 ++ E2) f2 g u uf2 ?_ ug hn
    simp only [mem_append] at hg ⊢
    rcases hg with hg | hg
    · left; exact hg
    · right; left; exact hg

/-! ### the candidates of one node are pairwise `Dis` (real head track) -/

theorem existingCandidates_pairwise (t : TrackRef) : ∀ (post pre : List Allocated),
    (∀ a ∈ post, HasReal a) → (existingCandidates t pre post).Pairwise (Dis t)
  | [], _, _ => by simp [existingCandidates]
  | a :: post, pre, hr => by
    have ih := existingCandidates_pairwise t post (pre ++ [a]) (fun x hx => hr x (by simp [hx]))
    simp only [existingCandidates]
    split
    · rename_i a' ha
      rw [pairwise_cons]
      refine ⟨?_, ih⟩
      intro np2 hnp2
      obtain ⟨A, b, b', B, e1, e2, e3⟩ := existingCandidates_spec' t post (pre ++ [a]) np2 hnp2
      obtain ⟨_, fa, ta⟩ := tryAllocate_fills t a a' ha
      obtain ⟨_, _, tb⟩ := tryAllocate_fills t b b' e3
      obtain ⟨u, hu⟩ := hr a (by simp)
      refine ⟨pre, a', post, pre ++ [a] ++ A, b', B, rfl, e2, ta, tb, Or.inr ⟨u, a, ?_, by simp, hu⟩⟩
      exact fillsSlots_filled_sub _ _ fa _ hu
    · exact ih

theorem newCandidates_mem {t : TrackRef} {packs : List Pack} {refs : Option (List Nat)} {P : Sol}
    {c : Sol × List Pack × Option (List Nat)} (h : c ∈ newCandidates t packs refs P) :
    ∃ p rp rr a, (p, rp, rr) ∈ candidateNewPacks t refs packs ∧
      tryAllocate t (emptyAllocation p) = some a ∧ c = (P ++ [a], rp, rr) := by
  simp only [newCandidates, mem_filterMap] at h
  obtain ⟨⟨p, rp, rr⟩, hc, hm⟩ := h
  simp only at hm
  cases ht : tryAllocate t (emptyAllocation p) with
  | none => simp [ht] at hm
  | some a =>
    simp [ht] at hm
    exact ⟨p, rp, rr, a, hc, ht, hm.symm⟩

/-- Raw new-pack candidates: different packs; for a silent track the earlier candidate's
pack is not available below the later one (`packs[pack_i:]`). -/
def RawDis (t : TrackRef) (c1 c2 : Pack × List Pack × Option (List Nat)) : Prop :=
  c1.1 ≠ c2.1 ∧ (t = none → c1.1 ∉ c2.2.1 ∧ c2.1 ∈ c2.2.1)

theorem candidateNewPacksAux_facts (t : TrackRef) (refs : Option (List Nat)) (all : List Pack) :
    ∀ (suffix : List Pack) (c : Pack × List Pack × Option (List Nat)),
    c ∈ candidateNewPacksAux t refs all suffix →
    c.1 ∈ suffix ∧ (t = none → (∀ p ∈ c.2.1, p ∈ suffix) ∧ c.1 ∈ c.2.1) ∧
      (suffix <+ all → c.2.1 <+ all)
  | [], _, h => by simp [candidateNewPacksAux] at h
  | p :: rest, c, h => by
    have rec_ : c ∈ candidateNewPacksAux t refs all rest →
        c.1 ∈ p :: rest ∧ (t = none → (∀ q ∈ c.2.1, q ∈ p :: rest) ∧ c.1 ∈ c.2.1) ∧
          (p :: rest <+ all → c.2.1 <+ all) := by
      intro h'
      obtain ⟨i1, i2, i3⟩ := candidateNewPacksAux_facts t refs all rest c h'
      refine ⟨by simp [i1], ?_, ?_⟩
      · intro ht
        obtain ⟨j1, j2⟩ := i2 ht
        exact ⟨fun q hq => by simp [j1 q hq], j2⟩
      · intro hs
        exact i3 ((sublist_cons_self p rest).trans hs)
    have head_ : ∀ rr, c = (p, (if t.isNone then p :: rest else all), rr) →
        c.1 ∈ p :: rest ∧ (t = none → (∀ q ∈ c.2.1, q ∈ p :: rest) ∧ c.1 ∈ c.2.1) ∧
          (p :: rest <+ all → c.2.1 <+ all) := by
      intro rr hc
      subst hc
      refine ⟨by simp, ?_, ?_⟩
      · intro ht
        subst ht
        simp
      · intro hs
        simp only
        split
        · exact hs
        · exact Sublist.refl _
    simp only [candidateNewPacksAux] at h
    cases refs with
    | none =>
      simp only [mem_cons] at h
      rcases h with h | h
      · exact head_ _ h
      · exact rec_ h
    | some r =>
      simp only at h
      cases hi : indexById p.root r with
      | none =>
        simp only [hi] at h
        exact rec_ h
      | some i =>
        simp only [hi, mem_cons] at h
        rcases h with h | h
        · exact head_ _ h
        · exact rec_ h

theorem candidateNewPacksAux_pairwise (t : TrackRef) (refs : Option (List Nat)) (all : List Pack) :
    ∀ (suffix : List Pack), suffix.Nodup →
    (candidateNewPacksAux t refs all suffix).Pairwise (RawDis t)
  | [], _ => by simp [candidateNewPacksAux]
  | p :: rest, hnd => by
    rw [nodup_cons] at hnd
    have ih := candidateNewPacksAux_pairwise t refs all rest hnd.2
    have hhead : ∀ rp rr, ∀ c2 ∈ candidateNewPacksAux t refs all rest, RawDis t (p, rp, rr) c2 := by
      intro rp rr c2 hc2
      obtain ⟨f1, f2, _⟩ := candidateNewPacksAux_facts t refs all rest c2 hc2
      refine ⟨fun e => hnd.1 (by simp only at e; rw [e]; exact f1), ?_⟩
      intro ht
      obtain ⟨g1, g2⟩ := f2 ht
      exact ⟨fun hm => hnd.1 (g1 p hm), g2⟩
    simp only [candidateNewPacksAux]
    cases refs with
    | none =>
      rw [pairwise_cons]
      exact ⟨hhead _ _, ih⟩
    | some r =>
      simp only
      cases hi : indexById p.root r with
      | none => simpa [hi] using ih
      | some i =>
        rw [pairwise_cons]
        exact ⟨hhead _ _, ih⟩

theorem candidateNewPacks_pairwise (t : TrackRef) (refs : Option (List Nat)) (packs : List Pack)
    (hnd : packs.Nodup) : (candidateNewPacks t refs packs).Pairwise (RawDis t) := by
  unfold candidateNewPacks
  split
  · simp
  · exact candidateNewPacksAux_pairwise t refs packs packs hnd

theorem candidateNewPacks_sublist (t : TrackRef) (refs : Option (List Nat)) (packs : List Pack)
    (c : Pack × List Pack × Option (List Nat)) (h : c ∈ candidateNewPacks t refs packs) :
    c.2.1 <+ packs := by
  unfold candidateNewPacks at h
  split at h
  · simp at h
  · exact (candidateNewPacksAux_facts t refs packs packs c h).2.2 (Sublist.refl _)

theorem cps_mem {t : TrackRef} {packs : List Pack} {refs : Option (List Nat)} {P : Sol}
    {c : Sol × List Pack × Option (List Nat)} (h : c ∈ candidatePartialSolutions t packs refs P) :
    (∃ np ∈ existingCandidates t [] P, c = (np, packs, refs)) ∨ c ∈ newCandidates t packs refs P := by
  simp only [candidatePartialSolutions] at h
  split at h
  · split at h
    · rename_i e tl heq
      simp only [mem_singleton] at h
      subst h
      have : c ∈ (existingCandidates t [] P).map (fun np => (np, packs, refs)) := by
        rw [heq]; simp
      simp only [mem_map] at this
      obtain ⟨np, hnp, rfl⟩ := this
      exact Or.inl ⟨np, hnp, rfl⟩
    · exact Or.inr h
  · simp only [mem_append, mem_map] at h
    rcases h with ⟨np, hnp, rfl⟩ | h
    · exact Or.inl ⟨np, hnp, rfl⟩
    · exact Or.inr h

/-- Every candidate extends `P` in place or appends one freshly opened pack. -/
theorem candidate_extends {t : TrackRef} {packs : List Pack} {refs : Option (List Nat)} {P : Sol}
    {c : Sol × List Pack × Option (List Nat)} (h : c ∈ candidatePartialSolutions t packs refs P) :
    c.2.1 <+ packs ∧
    (Fills P c.1 ∨ ∃ a, c.1 = P ++ [a] ∧ a.pack ∈ packs ∧ t ∈ filledSlots a.allocation) := by
  rcases cps_mem h with ⟨np, hnp, rfl⟩ | h
  · refine ⟨Sublist.refl _, Or.inl ?_⟩
    obtain ⟨A, a, a', B, e1, e2, e3⟩ := existingCandidates_spec' t P [] np hnp
    obtain ⟨f1, f2, _⟩ := tryAllocate_fills t a a' e3
    subst e1 e2
    simp only [nil_append]
    exact fills_append A A (a :: B) (a' :: B) (fills_refl A)
      ((fills_cons_iff _ _ _ _).2 ⟨⟨f1, f2⟩, fills_refl B⟩)
  · obtain ⟨p, rp, rr, a, hc, ht, rfl⟩ := newCandidates_mem h
    obtain ⟨f1, _, f3⟩ := tryAllocate_fills t _ a ht
    refine ⟨candidateNewPacks_sublist t refs packs _ hc, Or.inr ⟨a, rfl, ?_, f3⟩⟩
    rw [f1]
    exact (candidateNewPacks_spec t refs packs _ hc).1

theorem cps_pairwise_real (tr : Track) (packs : List Pack) (refs : Option (List Nat)) (P : Sol)
    (hreal : ∀ a ∈ P, HasReal a) (hnd : packs.Nodup) :
    (candidatePartialSolutions (some tr) packs refs P).Pairwise
      (fun c1 c2 => Dis (some tr) c1.1 c2.1) := by
  simp only [candidatePartialSolutions, Option.isNone_some, Bool.false_eq_true, if_false]
  rw [pairwise_append]
  refine ⟨?_, ?_, ?_⟩
  · rw [pairwise_map]
    exact existingCandidates_pairwise (some tr) P [] hreal
  · simp only [newCandidates]
    refine Pairwise.filterMap _ ?_ (candidateNewPacks_pairwise (some tr) refs packs hnd)
    intro c1 c2 hraw b1 hb1 b2 hb2
    obtain ⟨p1, rp1, rr1⟩ := c1
    obtain ⟨p2, rp2, rr2⟩ := c2
    simp only at hb1 hb2
    cases h1 : tryAllocate (some tr) (emptyAllocation p1) with
    | none => simp [h1] at hb1
    | some a1 =>
      cases h2 : tryAllocate (some tr) (emptyAllocation p2) with
      | none => simp [h2] at hb2
      | some a2 =>
        simp [h1] at hb1
        simp [h2] at hb2
        subst hb1 hb2
        obtain ⟨e1, _, t1⟩ := tryAllocate_fills _ _ a1 h1
        obtain ⟨e2, _, t2⟩ := tryAllocate_fills _ _ a2 h2
        refine ⟨P, a1, [], P, a2, [], rfl, rfl, t1, t2, Or.inl ?_⟩
        rw [e1, e2]
        exact hraw.1
  · intro c1 hc1 c2 hc2
    simp only [mem_map] at hc1
    obtain ⟨np, hnp, rfl⟩ := hc1
    obtain ⟨p, rp, rr, a2, _, ht, rfl⟩ := newCandidates_mem hc2
    obtain ⟨A, a, a', B, e1, e2, e3⟩ := existingCandidates_spec' (some tr) P [] np hnp
    obtain ⟨_, fa, ta⟩ := tryAllocate_fills _ a a' e3
    obtain ⟨_, _, t2⟩ := tryAllocate_fills _ _ a2 ht
    obtain ⟨u, hu⟩ := hreal a (by rw [e1]; simp)
    refine ⟨A, a', B, P, a2, [], by simpa using e2, rfl, ta, t2, Or.inr ⟨u, a, ?_, by rw [e1]; simp, hu⟩⟩
    exact fillsSlots_filled_sub _ _ fa _ hu

/-- Silent head track, no `_EMPTY` entry left: two candidates open different packs and
the earlier one's pack is not available below the later one. -/
def SilentDis (P : Sol) (c1 c2 : Sol × List Pack × Option (List Nat)) : Prop :=
  ∃ a1 a2, c1.1 = P ++ [a1] ∧ c2.1 = P ++ [a2] ∧ a1.pack ∉ c2.2.1 ∧ a2.pack ∈ c2.2.1

theorem cps_pairwise_silent (packs : List Pack) (refs : Option (List Nat)) (P : Sol)
    (hnd : packs.Nodup) (hex : existingCandidates none [] P = []) :
    (candidatePartialSolutions none packs refs P).Pairwise (SilentDis P) := by
  simp only [candidatePartialSolutions, Option.isNone_none, if_true, hex, map_nil]
  simp only [newCandidates]
  refine Pairwise.filterMap _ ?_ (candidateNewPacks_pairwise none refs packs hnd)
  intro c1 c2 hraw b1 hb1 b2 hb2
  obtain ⟨p1, rp1, rr1⟩ := c1
  obtain ⟨p2, rp2, rr2⟩ := c2
  simp only at hb1 hb2
  cases h1 : tryAllocate none (emptyAllocation p1) with
  | none => simp [h1] at hb1
  | some a1 =>
    cases h2 : tryAllocate none (emptyAllocation p2) with
    | none => simp [h2] at hb2
    | some a2 =>
      simp [h1] at hb1
      simp [h2] at hb2
      subst hb1 hb2
      obtain ⟨e1, _, _⟩ := tryAllocate_fills _ _ a1 h1
      obtain ⟨e2, _, _⟩ := tryAllocate_fills _ _ a2 h2
      obtain ⟨g1, g2⟩ := hraw.2 rfl
      refine ⟨a1, a2, rfl, rfl, ?_, ?_⟩
      · rw [e1]; exact g1
      · rw [e2]; exact g2

theorem tryAllocateSlots_none_full : ∀ (al : List (Channel × Slot)),
    tryAllocateSlots none al = none → ∀ cs ∈ al, cs.2 ≠ none
  | [], _, cs, h => by cases h
  | (c, s) :: rest, h, cs, hcs => by
    simp only [tryAllocateSlots, isCompatible, Bool.and_true] at h
    split at h
    · cases h
    · rename_i hs
      simp only [mem_cons] at hcs
      rcases hcs with rfl | hcs
      · intro he
        simp only at he
        subst he
        simp at hs
      · have : tryAllocateSlots none rest = none := by
          cases hr : tryAllocateSlots none rest with
          | none => rfl
          | some r => simp [hr] at h
        exact tryAllocateSlots_none_full rest this cs hcs

theorem full_of_existing_nil : ∀ (post pre : List Allocated),
    existingCandidates none pre post = [] → ∀ a ∈ post, ∀ cs ∈ a.allocation, cs.2 ≠ none
  | [], _, _, a, ha => by cases ha
  | a :: post, pre, h, x, hx => by
    simp only [existingCandidates] at h
    split at h
    · cases h
    · rename_i hno
      simp only [mem_cons] at hx
      rcases hx with rfl | hx
      · simp only [tryAllocate] at hno
        have : tryAllocateSlots none x.allocation = none := by
          cases hr : tryAllocateSlots none x.allocation with
          | none => rfl
          | some r => simp [hr] at hno
        exact tryAllocateSlots_none_full _ this
      · exact full_of_existing_nil post (pre ++ [a]) h x hx

theorem fillsSlots_of_full : ∀ (al fl : List (Channel × Slot)), FillsSlots al fl →
    (∀ cs ∈ al, cs.2 ≠ none) → fl = al
  | [], [], _, _ => rfl
  | [], _ :: _, h, _ => by simp [FillsSlots] at h
  | _ :: _, [], h, _ => by simp [FillsSlots] at h
  | (c, s) :: al, (c', s') :: fl, h, hf => by
    rw [fillsSlots_cons_iff] at h
    obtain ⟨rfl, hs, hr⟩ := h
    have ih := fillsSlots_of_full al fl hr (fun cs hcs => hf cs (by simp [hcs]))
    rcases hs with hs | hs
    · exact absurd hs (hf (c', s) (by simp))
    · rw [hs, ih]

theorem fills_of_full : ∀ (P F : Sol), Fills P F →
    (∀ a ∈ P, ∀ cs ∈ a.allocation, cs.2 ≠ none) → F = P
  | [], [], _, _ => rfl
  | [], _ :: _, h, _ => by simp [Fills] at h
  | _ :: _, [], h, _ => by simp [Fills] at h
  | a :: P, f :: F, h, hf => by
    rw [fills_cons_iff] at h
    have ih := fills_of_full P F h.2 (fun x hx => hf x (by simp [hx]))
    have e := fillsSlots_of_full _ _ h.1.2 (hf a (by simp))
    have : f = a := by
      cases a; cases f; simp_all
    rw [this, ih]

theorem silent_no_common (P E1 E2 F1 F2 : Sol) (c1 c2 : Sol × List Pack × Option (List Nat))
    (hd : SilentDis P c1 c2) (hfull : ∀ a ∈ P, ∀ cs ∈ a.allocation, cs.2 ≠ none)
    (h1 : Fills c1.1 F1) (h2 : Fills c2.1 F2) (hE2 : ∀ e ∈ E2, e.pack ∈ c2.2.1)
    (hp : F1 ++ E1 ~ F2 ++ E2) : False := by
  obtain ⟨a1, a2, e1, e2, hn, hm⟩ := hd
  rw [e1] at h1
  rw [e2] at h2
  obtain ⟨FP1, FX1, rfl, hP1, hX1⟩ := fills_append_inv P [a1] F1 h1
  obtain ⟨f1, FB1, rfl, ⟨p1, _⟩, _⟩ := fills_cons_inv a1 [] FX1 hX1
  obtain ⟨FP2, FX2, rfl, hP2, hX2⟩ := fills_append_inv P [a2] F2 h2
  obtain ⟨f2, FB2, rfl, ⟨p2, _⟩, _⟩ := fills_cons_inv a2 [] FX2 hX2
  rw [fills_of_full P FP1 hP1 hfull, fills_of_full P FP2 hP2 hfull, append_assoc, append_assoc,
    perm_append_left_iff] at hp
  have hmem : f1 ∈ f2 :: FB2 ++ E2 := (hp.mem_iff).1 (by simp)
  have hFB2 : FB2 = [] := by
    cases FB2 with
    | nil => rfl
    | cons x xs => rename_i hh; simp [Fills] at hh
  subst hFB2
  simp only [cons_append, nil_append, mem_cons] at hmem
  rcases hmem with h | h
  · apply hn
    rw [← p1, h, p2]; exact hm
  · apply hn
    rw [← p1]; exact hE2 f1 h

/-! ### solutions extend the partial solution in place -/

theorem fills_nil_inv (F : Sol) (h : Fills [] F) : F = [] := by
  cases F with
  | nil => rfl
  | cons f F => simp [Fills] at h

/-- What we know of a solution found from partial solution `P` with pack list `packs`. -/
def Extends (packs : List Pack) (P sol : Sol) : Prop :=
  ∃ F E, sol = F ++ E ∧ Fills P F ∧ ∀ e ∈ E, e.pack ∈ packs

theorem sub_extends_aux (k : List Pack → List TrackRef → Option (List Nat) → Sol → List Sol)
    (hk : ∀ packs tracks refs P sol, sol ∈ k packs tracks refs P → Extends packs P sol)
    (rp : List Pack) (rest : List TrackRef) (rr : Option (List Nat)) (np sol : Sol)
    (h : sol ∈ allocObviousWith k rp rest rr np) : Extends rp np sol := by
  simp only [allocObviousWith] at h
  split at h
  · simp at h
  · rename_i np' tracks' hob
    obtain ⟨F, E, rfl, hF, hE⟩ := hk _ _ _ _ _ h
    exact ⟨F, E, rfl, fills_trans _ _ _ (obviousPacks_fills np rest np' tracks' hob).1 hF, hE⟩

theorem allocImpl_extends : ∀ (fuel : Nat) (packs : List Pack) (tracks : List TrackRef)
    (refs : Option (List Nat)) (P sol : Sol), sol ∈ allocImpl fuel packs tracks refs P →
    Extends packs P sol
  | 0, _, _, _, _, _, h => by simp [allocImpl] at h
  | fuel + 1, packs, [], refs, P, sol, h => by
    simp only [allocImpl] at h
    split at h
    · simp only [mem_singleton] at h
      subst h
      exact ⟨sol, [], by simp, fills_refl sol, fun _ he => by cases he⟩
    · simp at h
  | fuel + 1, packs, t :: rest, refs, P, sol, h => by
    simp only [allocImpl] at h
    split at h
    · simp at h
    · simp only [mem_flatMap] at h
      obtain ⟨⟨np, rp, rr⟩, hc, hs⟩ := h
      obtain ⟨F, E, rfl, hF, hE⟩ := sub_extends_aux (allocImpl fuel) (allocImpl_extends fuel) rp rest rr np sol hs
      obtain ⟨hsub, hcase⟩ := candidate_extends hc
      simp only at hsub hcase hF hE
      have hpk : ∀ p ∈ rp, p ∈ packs := fun p hp => (mem_filter.1 (hsub.subset hp)).1
      rcases hcase with hfill | ⟨a, rfl, ha, _⟩
      · exact ⟨F, E, rfl, fills_trans _ _ _ hfill hF, fun e he => hpk _ (hE e he)⟩
      · obtain ⟨FP, FX, rfl, hP, hX⟩ := fills_append_inv P [a] F hF
        obtain ⟨f, FB, rfl, ⟨pf, _⟩, hB⟩ := fills_cons_inv a [] FX hX
        have := fills_nil_inv FB hB
        subst this
        refine ⟨FP, [f] ++ E, by simp, hP, ?_⟩
        intro e he
        simp only [singleton_append, mem_cons] at he
        rcases he with rfl | he
        · rw [pf]; exact (mem_filter.1 ha).1
        · exact hpk _ (hE e he)

/-! ### the invariant and the main induction -/

structure NInv (packs0 packs : List Pack) (tracks : List TrackRef) (P : Sol) : Prop where
  sub : ∀ p ∈ packs, p ∈ packs0
  good : Good packs0 P
  packsNodup : packs.Nodup
  realNodup : ((filled P ++ tracks).filterMap id).Nodup
  silentLast : SilentLast tracks
  realInv : (∀ x ∈ tracks, x = none) ∨ ∀ a ∈ P, HasReal a

theorem allocImpl_nodup (packs0 : List Pack) : ∀ (fuel : Nat) (packs : List Pack)
    (tracks : List TrackRef) (refs : Option (List Nat)) (P : Sol), NInv packs0 packs tracks P →
    (allocImpl fuel packs tracks refs P).Pairwise (fun a b => ¬ a ~ b)
  | 0, _, _, _, _, _ => by simp [allocImpl]
  | fuel + 1, packs, [], refs, P, _ => by
    simp only [allocImpl]
    split <;> simp
  | fuel + 1, packs, t :: rest, refs, P, h => by
    by_cases hprune : (t :: rest).length < countEmpty P
    · simp only [allocImpl]
      rw [if_pos hprune]
      exact Pairwise.nil
    -- every solution below this node has each real track once
    have hsub' : ∀ p ∈ packs.filter (couldPossiblyAllocate (t :: rest) refs (countEmpty P)),
        p ∈ packs0 := fun p hp => h.sub p (mem_filter.1 hp).1
    have hreal : ∀ c ∈ candidatePartialSolutions t
        (packs.filter (couldPossiblyAllocate (t :: rest) refs (countEmpty P))) refs P,
        ∀ y ∈ allocObviousWith (allocImpl fuel) c.2.1 rest c.2.2 c.1, (realTracks y).Nodup := by
      intro c hc y hy
      have hy' : y ∈ allocImpl (fuel + 1) packs (t :: rest) refs P := by
        simp only [allocImpl]
        rw [if_neg hprune]
        exact mem_flatMap.2 ⟨c, hc, hy⟩
      obtain ⟨_, _, hf, _⟩ := allocImpl_sound packs0 _ _ _ _ _ _ h.sub h.good hy'
      exact ((hf.filterMap id).nodup_iff).2 h.realNodup
    simp only [allocImpl]
    rw [if_neg hprune, pairwise_flatMap]
    constructor
    · -- inside one candidate: induction
      intro c hc
      obtain ⟨np, rp, rr⟩ := c
      simp only [allocObviousWith]
      split
      · simp
      · rename_i np' tracks' hob
        have st := candidatePartialSolutions_stepOK packs0 t _ refs P _ hsub' h.good hc
        obtain ⟨o1, o2, o3, o4⟩ := obviousPacks_spec packs0 np rest np' tracks' hob
        obtain ⟨f1, f2⟩ := obviousPacks_fills np rest np' tracks' hob
        obtain ⟨hsl, hcase⟩ := candidate_extends hc
        simp only at hsl hcase
        refine allocImpl_nodup packs0 fuel rp tracks' rr np' ⟨?_, o4 st.good, ?_, ?_, ?_, ?_⟩
        · exact fun p hp => hsub' p (st.packs_sub p hp)
        · exact (h.packsNodup.sublist filter_sublist).sublist hsl
        · -- filled np' ++ tracks' ~ filled np ++ rest ~ filled P ++ t :: rest
          have hp : filled np' ++ tracks' ~ filled P ++ t :: rest := by
            refine o2.trans ((Perm.append_right _ st.filled).trans ?_)
            simp only [cons_append]
            exact perm_middle.symm
          exact ((hp.filterMap id).nodup_iff).2 h.realNodup
        · exact h.silentLast.tail.sublist f2
        · cases t with
          | none =>
            left
            intro x hx
            exact silentLast_all_none h.silentLast x (by simp [f2.subset hx])
          | some tr =>
            right
            have hP : ∀ a ∈ P, HasReal a := by
              rcases h.realInv with hl | hr
              · exact absurd (hl (some tr) (by simp)) (by simp)
              · exact hr
            have hnp : ∀ a ∈ np, HasReal a := by
              rcases hcase with hfill | ⟨a, rfl, _, ta⟩
              · exact fills_hasReal P np hfill hP
              · intro x hx
                simp only [mem_append, mem_singleton] at hx
                rcases hx with hx | rfl
                · exact hP x hx
                · exact ⟨tr, ta⟩
            exact fills_hasReal np np' f1 hnp
    · -- two different candidates
      cases t with
      | some tr =>
        have hP : ∀ a ∈ P, HasReal a := by
          rcases h.realInv with hl | hr
          · exact absurd (hl (some tr) (by simp)) (by simp)
          · exact hr
        refine Pairwise.imp_of_mem ?_ (cps_pairwise_real tr _ refs P hP (h.packsNodup.sublist filter_sublist))
        intro c1 c2 _ hc2 hd x hx y hy hperm
        obtain ⟨F1, E1, rfl, hF1, _⟩ := sub_extends_aux (allocImpl fuel) (allocImpl_extends fuel) _ _ _ _ x hx
        obtain ⟨F2, E2, rfl, hF2, _⟩ := sub_extends_aux (allocImpl fuel) (allocImpl_extends fuel) _ _ _ _ y hy
        exact dis_no_common tr c1.1 c2.1 F1 E1 F2 E2 hd hF1 hF2 (hreal c2 hc2 _ hy) hperm
      | none =>
        cases hex : existingCandidates none [] P with
        | cons e tl =>
          simp only [candidatePartialSolutions, Option.isNone_none, if_true, hex, map_cons]
          exact pairwise_singleton _ _
        | nil =>
          have hfull := full_of_existing_nil P [] hex
          refine Pairwise.imp ?_ (cps_pairwise_silent _ refs P (h.packsNodup.sublist filter_sublist) hex)
          intro c1 c2 hd x hx y hy hperm
          obtain ⟨F1, E1, rfl, hF1, _⟩ := sub_extends_aux (allocImpl fuel) (allocImpl_extends fuel) _ _ _ _ x hx
          obtain ⟨F2, E2, rfl, hF2, hE2⟩ := sub_extends_aux (allocImpl fuel) (allocImpl_extends fuel) _ _ _ _ y hy
          exact silent_no_common P E1 E2 F1 F2 c1 c2 hd hfull hF1 hF2 hE2 hperm

end Earverif.PackAlloc
