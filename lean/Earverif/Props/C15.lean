/-
C15 — Timing repair makes rounded metadata renderable and is idempotent.

Model: `Earverif/Model/TimingFix.lean` (transliteration of `ear/fileio/adm/timing_fixes.py` and of
the metadata interpreters' timing checks).  Helper lemmas: `Earverif/Proofs/C15.lean`.

Hypotheses (`Hyp`), worked out from the code:
* either the channel is one block without rtime and duration, or every block has both;
* rtimes are *weakly* increasing.  Strictness is not needed: when rounding makes two rtimes equal
  the repair turns the first block into a zero-length block, which the interpreters accept
  (run on the real code: harness counter `feature:equal-rtimes-after-rounding`);
* the last rtime is strictly before the duration of every audioObject that has one.  At equality
  or beyond, `_clamp_blockFormat_end` raises `ValueError` (`excluded_start_at_object_end`).
Durations need not be positive for the repair itself (durations of all blocks but the last are
overwritten); acceptance by the renderer needs the last duration to be `≥ 0` (`HypAccept`,
`excluded_negative_last_duration`).  `audioObject.start` plays no role in the repair.

Excluded points, each run on the real code by `harness/c15.py` (distribution keys
`excluded-point:<hypothesis> => <what the code did>`):
* last rtime ≥ object duration            ⇒ `ValueError` from `fix_blockFormat_timings`
                                             (unless that block has duration ≤ 0 and ends inside)
* rtime xor duration                       ⇒ `AssertionError("not validated")` when the object has a
                                             duration (document validation rejects it earlier with
                                             `ValueError`), else untouched and rejected by the renderer
* several untimed / mixed timed+untimed    ⇒ repair runs, renderer: "overlapping blocks"
                                             (or its `assert not math.isinf` fails)
* decreasing rtimes                        ⇒ repair produces negative durations
* negative last duration, jumpPosition set ⇒ repair runs, renderer: "interpolation length is longer"
-/
import Earverif.Proofs.C15

namespace Earverif.TimingFix

/-- Inputs covered by the theorems. -/
inductive Hyp (objs : List Obj) (bs : List Block) : Prop
  /-- every block has rtime and duration, rtimes weakly increasing, last rtime before the end of
  every object that has a duration -/
  | timed (ht : AllTimed bs) (hm : Mono bs)
      (hl : ∀ o ∈ objs, ∀ D, o.duration = some D → LastBelow D bs)
  /-- a single block without rtime and duration -/
  | untimed (b : Block) (hb : bs = [b]) (hu : Untimed b)

/-- Extra hypothesis for acceptance by the renderer: the last duration is not negative and, for
an untimed block, no object has a negative duration. -/
def HypAccept (objs : List Obj) (bs : List Block) : Prop :=
  LastNonneg bs ∧ ((∃ b ∈ bs, Untimed b) → ∀ o ∈ objs, ∀ D, o.duration = some D → 0 ≤ D)

/-- "no interpolation length exceeds its block": for a timed block its duration, for an untimed
block (which lasts as long as the object) the duration of every object. -/
def InterpOK (objs : List Obj) (b : Block) : Prop :=
  ∀ il, hasIL b = true → b.il = some il →
    match b.duration with
    | some d => il ≤ d
    | none => ∀ o ∈ objs, ∀ D, o.duration = some D → il ≤ D

/-- Everything the proofs establish about a successful repair, in one place. -/
structure Post (objs : List Obj) (bs out : List Block) : Prop where
  rel : RelP Same bs out
  contig : Contig out
  interp : ∀ b ∈ out, InterpOK objs b
  within : ∀ o ∈ objs, ∀ D, o.duration = some D → Within D out
  stable : Stable objs out
  accept : HypAccept objs bs → ∀ o ∈ objs, accepted o out = .ok

theorem timed_not_untimed {b : Block} (h : Timed b) : ¬ Untimed b := by
  simp only [Timed, Untimed] at *; intro hu; simp [hu.1] at h

theorem fix_post (objs : List Obj) (bs : List Block) (h : Hyp objs bs) :
    ∃ out ws, fixTimings objs bs = .ok (out, ws) ∧ Post objs bs out := by
  cases h with
  | timed ht hm hl =>
    obtain ⟨out, ws, h1, h2, h3, h4, h5, h6⟩ := fix_timed objs bs ht hm hl
    have tout := rel_allTimed h2 ht
    refine ⟨out, ws, h1, h2, h3, ?_, h5, ⟨fun b hb => Or.inl (tout b hb), h3, fun b hb _ => h4 b hb, ?_⟩, ?_⟩
    · intro b hb il hil hs
      have tb := tout b hb
      have := h4 b hb il hil hs
      rcases b with ⟨r, _|d, o, j, il'⟩
      · simp [Timed] at tb
      · simpa [Block.d] using this
    · intro o ho D hD
      exact ⟨h5 o ho D hD, fun b hb hu => (timed_not_untimed (tout b hb) hu).elim⟩
    · intro ha o ho
      exact accept_timed o out none tout h3 (rel_mono h2 hm) (h6 ha.1) h4 (fun D hD => h5 o ho D hD)
        (by cases out <;> trivial)
  | untimed b hb hu =>
    subst hb
    obtain ⟨b', ws, h1, h2, h3, h4⟩ := fix_untimed objs b hu
    refine ⟨[b'], ws, h1, ⟨h2, trivial⟩, trivial, ?_, ?_, ⟨?_, trivial, ?_, ?_⟩, ?_⟩
    · intro x hx il hil hs
      simp only [List.mem_singleton] at hx; subst hx
      rw [h3.2]
      intro o ho D hD
      exact h4 o ho D hD il hil hs
    · intro o ho D hD x hx tx
      simp only [List.mem_singleton] at hx; subst hx
      exact (timed_not_untimed tx h3).elim
    · intro x hx; simp only [List.mem_singleton] at hx; subst hx; exact Or.inr h3
    · intro x hx tx; simp only [List.mem_singleton] at hx; subst hx
      exact (timed_not_untimed tx h3).elim
    · intro o ho D hD
      refine ⟨?_, ?_⟩
      · intro x hx tx; simp only [List.mem_singleton] at hx; subst hx
        exact (timed_not_untimed tx h3).elim
      · intro x hx _; simp only [List.mem_singleton] at hx; subst hx; exact h4 o ho D hD
    · intro ha o ho
      exact accept_untimed o b' h3 (fun D hD => ⟨h4 o ho D hD, ha.2 ⟨b, by simp, hu⟩ o ho D hD⟩)

/-- a successful run is the one described by `fix_post` -/
theorem post_of_ok {objs : List Obj} {bs out : List Block} {ws : List Warn} (h : Hyp objs bs)
    (hf : fixTimings objs bs = .ok (out, ws)) : Post objs bs out := by
  obtain ⟨out', ws', h1, h2⟩ := fix_post objs bs h
  rw [h1] at hf
  cases hf
  exact h2

/-! ## The property -/

/-- The repair does not raise on inputs meeting the hypotheses. -/
theorem fix_ok (objs : List Obj) (bs : List Block) (h : Hyp objs bs) :
    ∃ out ws, fixTimings objs bs = .ok (out, ws) := by
  obtain ⟨out, ws, h1, _⟩ := fix_post objs bs h
  exact ⟨out, ws, h1⟩

/-- Block start times are unchanged (and so are block count, types, jumpPosition flags and the
presence of durations / interpolation lengths: `RelP Same`). -/
theorem fix_rtime_unchanged (objs : List Obj) (bs out : List Block) (ws : List Warn) (h : Hyp objs bs)
    (hf : fixTimings objs bs = .ok (out, ws)) :
    out.map (·.rtime) = bs.map (·.rtime) ∧ RelP Same bs out :=
  ⟨rel_rtimes (post_of_ok h hf).rel, (post_of_ok h hf).rel⟩

/-- Every channel's blocks are contiguous: each block ends where the next one starts
(`Contig`: `a.r + a.d = b.r` for neighbours; all blocks keep rtime and duration). -/
theorem fix_contiguous (objs : List Obj) (bs out : List Block) (ws : List Warn) (h : Hyp objs bs)
    (hf : fixTimings objs bs = .ok (out, ws)) :
    Contig out ∧ (AllTimed bs → AllTimed out) :=
  ⟨(post_of_ok h hf).contig, rel_allTimed (post_of_ok h hf).rel⟩

/-- No interpolation length exceeds its block. -/
theorem fix_interp_le_duration (objs : List Obj) (bs out : List Block) (ws : List Warn) (h : Hyp objs bs)
    (hf : fixTimings objs bs = .ok (out, ws)) : ∀ b ∈ out, InterpOK objs b :=
  (post_of_ok h hf).interp

/-- No block extends past the duration of any object referencing the channel. -/
theorem fix_within_object (objs : List Obj) (bs out : List Block) (ws : List Warn) (h : Hyp objs bs)
    (hf : fixTimings objs bs = .ok (out, ws)) :
    ∀ o ∈ objs, ∀ D, o.duration = some D → ∀ b ∈ out, Timed b → b.r + b.d ≤ D :=
  (post_of_ok h hf).within

/-- The renderer's timing checks (`block_start_end` + the interpolation checks of
`InterpretObjectMetadata`) accept the repaired channel for every object referencing it. -/
theorem fix_accepted_by_renderer (objs : List Obj) (bs out : List Block) (ws : List Warn)
    (h : Hyp objs bs) (ha : HypAccept objs bs) (hf : fixTimings objs bs = .ok (out, ws)) :
    ∀ o ∈ objs, accepted o out = .ok :=
  (post_of_ok h hf).accept ha

/-- Repairing again changes nothing: `fix (fix b) = fix b` … -/
theorem fix_idempotent (objs : List Obj) (bs out : List Block) (ws : List Warn) (h : Hyp objs bs)
    (hf : fixTimings objs bs = .ok (out, ws)) :
    ∃ ws', fixTimings objs out = .ok (out, ws') :=
  ⟨[], stable_fix objs out (post_of_ok h hf).stable⟩

/-- … and warns about nothing. -/
theorem fix_second_run_silent (objs : List Obj) (bs out out' : List Block) (ws ws' : List Warn)
    (h : Hyp objs bs) (hf : fixTimings objs bs = .ok (out, ws))
    (hf' : fixTimings objs out = .ok (out', ws')) : ws' = [] ∧ out' = out := by
  rw [stable_fix objs out (post_of_ok h hf).stable] at hf'
  cases hf'
  exact ⟨rfl, rfl⟩

/-! ## Rounded timelines meet the hypotheses -/

/-- Round to `k` decimals: nearest multiple of `10^-k` (ties upwards). -/
def roundDec (k : Nat) (x : Rat) : Rat :=
  ((x * (10 : Rat) ^ k + 1 / 2).floor : Rat) * ((10 : Rat) ^ k)⁻¹

theorem pow10_pos (k : Nat) : (0 : Rat) < (10 : Rat) ^ k := by
  induction k with
  | zero => decide
  | succ k ih => rw [Rat.pow_succ]; grind

theorem roundDec_mono (k : Nat) (x y : Rat) (h : x ≤ y) : roundDec k x ≤ roundDec k y := by
  have hp := pow10_pos k
  have hi : (0 : Rat) ≤ ((10 : Rat) ^ k)⁻¹ := by
    have := Rat.inv_pos.2 hp; grind
  unfold roundDec
  apply Rat.mul_le_mul_of_nonneg_right _ hi
  apply Rat.intCast_le_intCast.2
  apply Rat.floor_monotone
  have := Rat.mul_le_mul_of_nonneg_right h (Rat.le_of_lt hp)
  grind

theorem roundDec_err (k : Nat) (x : Rat) :
    roundDec k x - x ≤ ((10 : Rat) ^ k)⁻¹ / 2 ∧ x - roundDec k x ≤ ((10 : Rat) ^ k)⁻¹ / 2 := by
  have hp := pow10_pos k
  have hi : (0 : Rat) < ((10 : Rat) ^ k)⁻¹ := Rat.inv_pos.2 hp
  have hpe : (10 : Rat) ^ k * ((10 : Rat) ^ k)⁻¹ = 1 := Rat.mul_inv_cancel _ (by grind)
  unfold roundDec
  generalize (10 : Rat) ^ k = p at *
  generalize p⁻¹ = e at *
  have h1 := Rat.floor_le (x * p + 1 / 2)
  have h2 := Rat.lt_floor_add_one (x * p + 1 / 2)
  generalize (x * p + 1 / 2).floor = n at *
  have h1' := Rat.mul_le_mul_of_nonneg_right h1 (Rat.le_of_lt hi)
  have h2' := Rat.mul_le_mul_of_nonneg_right (Rat.le_of_lt h2) (Rat.le_of_lt hi)
  have c : ((n + 1 : Int) : Rat) = (n : Rat) + 1 := by simp [Rat.intCast_add]
  rw [c] at h2'
  have e1 : (x * p + 1 / 2) * e = x + e / 2 := by grind
  constructor <;> grind

/-- A rounding function with unit `e`: monotone, error at most `e/2`. -/
structure Rounding (rnd : Rat → Rat) (e : Rat) : Prop where
  mono : ∀ x y, x ≤ y → rnd x ≤ rnd y
  err : ∀ x, rnd x - x ≤ e / 2 ∧ x - rnd x ≤ e / 2

theorem roundDec_rounding (k : Nat) : Rounding (roundDec k) ((10 : Rat) ^ k)⁻¹ :=
  ⟨roundDec_mono k, roundDec_err k⟩

/-- round every time of a block / an object -/
def roundBlock (rnd : Rat → Rat) (b : Block) : Block :=
  { b with rtime := b.rtime.map rnd, duration := b.duration.map rnd, il := b.il.map rnd }
def roundObj (rnd : Rat → Rat) (o : Obj) : Obj := ⟨o.start.map rnd, o.duration.map rnd⟩

/-- A valid exact timeline whose durations exceed the rounding unit `e`: all blocks timed,
contiguous, longer than `e`, and inside every object that has a duration. -/
structure ExactValid (e : Rat) (objs : List Obj) (bs : List Block) : Prop where
  timed : AllTimed bs
  contig : Contig bs
  long : ∀ b ∈ bs, e < b.d
  inside : ∀ o ∈ objs, ∀ D, o.duration = some D → Within D bs

theorem roundBlock_r {rnd : Rat → Rat} {b : Block} (h : Timed b) : (roundBlock rnd b).r = rnd b.r := by
  rcases b with ⟨_|r, _|d, o, j, il⟩ <;> simp [Timed] at h
  simp [roundBlock, Block.r]

theorem roundBlock_d {rnd : Rat → Rat} {b : Block} (h : Timed b) : (roundBlock rnd b).d = rnd b.d := by
  rcases b with ⟨_|r, _|d, o, j, il⟩ <;> simp [Timed] at h
  simp [roundBlock, Block.d]

theorem roundBlock_timed {rnd : Rat → Rat} {b : Block} (h : Timed b) : Timed (roundBlock rnd b) := by
  rcases b with ⟨_|r, _|d, o, j, il⟩ <;> simp [Timed] at h
  simp [roundBlock, Timed]

theorem rounded_mono {rnd : Rat → Rat} {e : Rat} (hr : Rounding rnd e) :
    ∀ (bs : List Block), AllTimed bs → Contig bs → (∀ b ∈ bs, e < b.d) → Mono (bs.map (roundBlock rnd))
  | [], _, _, _ => trivial
  | [_], _, _, _ => trivial
  | a :: b :: rest, ht, hc, hl => by
    have ih := rounded_mono hr (b :: rest) (fun x hx => ht x (by simp [hx])) hc.2
      (fun x hx => hl x (by simp [hx]))
    refine ⟨?_, ih⟩
    rw [roundBlock_r (ht a (by simp)), roundBlock_r (ht b (by simp))]
    apply hr.mono
    have := hc.1; have := hl a (by simp); have := hr.err 0
    grind

theorem rounded_last {rnd : Rat → Rat} {e : Rat} (hr : Rounding rnd e) (D : Rat) :
    ∀ (bs : List Block), AllTimed bs → (∀ b ∈ bs, e < b.d) → Within D bs →
      LastBelow (rnd D) (bs.map (roundBlock rnd)) ∧ LastNonneg (bs.map (roundBlock rnd))
  | [], _, _, _ => ⟨trivial, trivial⟩
  | [b], ht, hl, hw => by
    have tb := ht b (by simp)
    simp only [List.map, LastBelow, LastNonneg]
    rw [roundBlock_r tb, roundBlock_d tb]
    have := hw b (by simp) tb; have := hl b (by simp)
    have := hr.err D; have := hr.err b.r; have := hr.err b.d
    constructor <;> grind
  | a :: b :: rest, ht, hl, hw =>
    rounded_last hr D (b :: rest) (fun x hx => ht x (by simp [hx])) (fun x hx => hl x (by simp [hx]))
      (fun x hx => hw x (by simp [hx]))

theorem rounded_lastNonneg {rnd : Rat → Rat} {e : Rat} (hr : Rounding rnd e) :
    ∀ (bs : List Block), AllTimed bs → (∀ b ∈ bs, e < b.d) → LastNonneg (bs.map (roundBlock rnd))
  | [], _, _ => trivial
  | [b], ht, hl => by
    have tb := ht b (by simp)
    simp only [List.map, LastNonneg]
    rw [roundBlock_d tb]
    have := hl b (by simp); have := hr.err b.d; have := hr.err 0
    grind
  | a :: b :: rest, ht, hl =>
    rounded_lastNonneg hr (b :: rest) (fun x hx => ht x (by simp [hx])) (fun x hx => hl x (by simp [hx]))

/-- **Rounding lands inside the hypotheses.**  Rounding every time (rtimes, durations,
interpolation lengths, object starts and durations) of a valid exact timeline whose durations
exceed the rounding unit yields a channel meeting `Hyp` and `HypAccept`; in particular for
`rnd = roundDec k` with unit `10^-k`, `k ∈ {2,…,5}` or any other. -/
theorem rounding_meets_hypotheses (rnd : Rat → Rat) (e : Rat) (hr : Rounding rnd e)
    (objs : List Obj) (bs : List Block) (h : ExactValid e objs bs) :
    Hyp (objs.map (roundObj rnd)) (bs.map (roundBlock rnd)) ∧
    HypAccept (objs.map (roundObj rnd)) (bs.map (roundBlock rnd)) := by
  have tm : AllTimed (bs.map (roundBlock rnd)) := by
    intro x hx
    simp only [List.mem_map] at hx
    obtain ⟨b, hb, rfl⟩ := hx
    exact roundBlock_timed (h.timed b hb)
  refine ⟨Hyp.timed tm (rounded_mono hr bs h.timed h.contig h.long) ?_, rounded_lastNonneg hr bs h.timed h.long, ?_⟩
  · intro o ho D hD
    simp only [List.mem_map] at ho
    obtain ⟨o', ho', rfl⟩ := ho
    cases hd : o'.duration with
    | none => simp [roundObj, hd] at hD
    | some D' =>
      simp only [roundObj, hd, Option.map_some, Option.some.injEq] at hD
      subst hD
      exact (rounded_last hr D' bs h.timed h.long (h.inside o' ho' D' hd)).1
  · intro ⟨x, hx, hu⟩
    exact (timed_not_untimed (tm x hx) hu).elim

/-- the instance the property talks about: decimal rounding to `k` digits -/
theorem rounding_meets_hypotheses_dec (k : Nat) (objs : List Obj) (bs : List Block)
    (h : ExactValid ((10 : Rat) ^ k)⁻¹ objs bs) :
    Hyp (objs.map (roundObj (roundDec k))) (bs.map (roundBlock (roundDec k))) ∧
    HypAccept (objs.map (roundObj (roundDec k))) (bs.map (roundBlock (roundDec k))) :=
  rounding_meets_hypotheses _ _ (roundDec_rounding k) objs bs h

/-! ### Mixed rounding conventions (nearest / truncation / rounding up, chosen per value)

`rounding_meets_hypotheses` needs one monotone rounding function.  Different tools round
differently, and one document may mix conventions; then every written value is still within
`δ` (= the unit for floor/ceil, half a unit for nearest) of the exact one.  That alone suffices
when the exact durations exceed `2δ`. -/

/-- `b` is the timed block `a` with rtime and duration each moved by at most `δ`
(type, jumpPosition and interpolationLength are unconstrained). -/
def Near (δ : Rat) (a b : Block) : Prop :=
  Timed a ∧ Timed b ∧ b.r - a.r ≤ δ ∧ a.r - b.r ≤ δ ∧ b.d - a.d ≤ δ ∧ a.d - b.d ≤ δ

/-- `o'` is `o` with its duration (if any) moved by at most `δ`; the start is unconstrained. -/
def NearObj (δ : Rat) (o o' : Obj) : Prop :=
  match o.duration, o'.duration with
  | some D, some D' => D' - D ≤ δ ∧ D - D' ≤ δ
  | none, none => True
  | _, _ => False

def RelO (δ : Rat) : List Obj → List Obj → Prop
  | [], [] => True
  | o :: os, o' :: os' => NearObj δ o o' ∧ RelO δ os os'
  | _, _ => False

theorem relO_back (δ : Rat) : ∀ {objs objs' : List Obj}, RelO δ objs objs' →
    ∀ o' ∈ objs', ∀ D', o'.duration = some D' → ∃ o ∈ objs, ∃ D, o.duration = some D ∧ D - D' ≤ δ
  | [], [], _, o', ho', _, _ => by simp at ho'
  | _ :: _, [], h, _, _, _, _ => h.elim
  | [], _ :: _, h, _, _, _, _ => h.elim
  | o :: os, p :: ps, h, o', ho', D', hD' => by
    simp only [List.mem_cons] at ho'
    rcases ho' with rfl | ho'
    · have hn := h.1
      simp only [NearObj, hD'] at hn
      cases hd : o.duration with
      | none => simp [hd] at hn
      | some D => simp only [hd] at hn; exact ⟨o, by simp, D, hd, hn.2⟩
    · obtain ⟨o, ho, D, hD, hle⟩ := relO_back δ h.2 o' ho' D' hD'
      exact ⟨o, by simp [ho], D, hD, hle⟩

theorem near_allTimed (δ : Rat) : ∀ {bs bs' : List Block}, RelP (Near δ) bs bs' → AllTimed bs'
  | [], [], _ => by simp [AllTimed]
  | _ :: _, [], h => h.elim
  | [], _ :: _, h => h.elim
  | a :: as, b :: bs, h => by
    have ih := near_allTimed δ h.2
    intro x hx
    simp only [List.mem_cons] at hx
    rcases hx with rfl | hx
    · exact h.1.2.1
    · exact ih x hx

theorem near_mono (δ : Rat) : ∀ {bs bs' : List Block}, RelP (Near δ) bs bs' → Contig bs →
    (∀ b ∈ bs, 2 * δ < b.d) → Mono bs'
  | [], [], _, _, _ => trivial
  | _ :: _, [], h, _, _ => h.elim
  | [], _ :: _, h, _, _ => h.elim
  | [_], [_], _, _, _ => trivial
  | [_], _ :: _ :: _, h, _, _ => h.2.elim
  | _ :: _ :: _, [_], h, _, _ => h.2.elim
  | a :: a' :: as, b :: b' :: bs, h, hc, hl => by
    refine ⟨?_, near_mono δ h.2 hc.2 (fun x hx => hl x (by simp [hx]))⟩
    obtain ⟨_, _, h1, h2, _, _⟩ := h.1
    obtain ⟨_, _, h3, h4, _, _⟩ := h.2.1
    have := hc.1; have := hl a (by simp)
    grind

theorem near_last (δ : Rat) (hδ : 0 ≤ δ) (D D' : Rat) (hD : D - D' ≤ δ) :
    ∀ {bs bs' : List Block}, RelP (Near δ) bs bs' → (∀ b ∈ bs, 2 * δ < b.d) → Within D bs →
      LastBelow D' bs'
  | [], [], _, _, _ => trivial
  | _ :: _, [], h, _, _ => h.elim
  | [], _ :: _, h, _, _ => h.elim
  | [a], [b], h, hl, hw => by
    obtain ⟨ta, _, h1, h2, h3, h4⟩ := h.1
    have := hw a (by simp) ta; have := hl a (by simp)
    simp only [LastBelow]; grind
  | [_], _ :: _ :: _, h, _, _ => h.2.elim
  | _ :: _ :: _, [_], h, _, _ => h.2.elim
  | _ :: a' :: as, _ :: b' :: bs, h, hl, hw =>
    near_last δ hδ D D' hD (bs := a' :: as) (bs' := b' :: bs) h.2 (fun x hx => hl x (by simp [hx]))
      (fun x hx => hw x (by simp [hx]))

theorem near_lastNonneg (δ : Rat) (hδ : 0 ≤ δ) :
    ∀ {bs bs' : List Block}, RelP (Near δ) bs bs' → (∀ b ∈ bs, 2 * δ < b.d) → LastNonneg bs'
  | [], [], _, _ => trivial
  | _ :: _, [], h, _ => h.elim
  | [], _ :: _, h, _ => h.elim
  | [a], [b], h, hl => by
    obtain ⟨_, _, h1, h2, h3, h4⟩ := h.1
    have := hl a (by simp)
    simp only [LastNonneg]; grind
  | [_], _ :: _ :: _, h, _ => h.2.elim
  | _ :: _ :: _, [_], h, _ => h.2.elim
  | _ :: a' :: as, _ :: b' :: bs, h, hl =>
    near_lastNonneg δ hδ (bs := a' :: as) (bs' := b' :: bs) h.2 (fun x hx => hl x (by simp [hx]))

/-- **Any perturbation by at most `δ` per value lands inside the hypotheses** when the exact
timeline is contiguous, inside its objects and has durations above `2δ` — whatever mixture of
nearest / floor / ceil produced the written values (`δ` = one unit covers all three). -/
theorem perturbation_meets_hypotheses (δ : Rat) (hδ : 0 ≤ δ) (objs objs' : List Obj)
    (bs bs' : List Block) (hb : RelP (Near δ) bs bs') (ho : RelO δ objs objs') (hc : Contig bs)
    (hlong : ∀ b ∈ bs, 2 * δ < b.d) (hin : ∀ o ∈ objs, ∀ D, o.duration = some D → Within D bs) :
    Hyp objs' bs' ∧ HypAccept objs' bs' := by
  have tm := near_allTimed δ hb
  refine ⟨Hyp.timed tm (near_mono δ hb hc hlong) ?_, near_lastNonneg δ hδ hb hlong, ?_⟩
  · intro o' ho' D' hD'
    obtain ⟨o, hmem, D, hD, hle⟩ := relO_back δ ho o' ho' D' hD'
    exact near_last δ hδ D D' hle hb hlong (hin o hmem D hD)
  · intro ⟨x, hx, hu⟩
    exact (timed_not_untimed (tm x hx) hu).elim

/-! ## Excluded points (the hypotheses cannot be dropped) and non-vacuity -/

deriving instance DecidableEq for Except

private def q (n : Int) (d : Nat) : Rat := mkRat n d
private def ob (r d : Option Rat) (jp : Bool := false) (il : Option Rat := none) : Block := ⟨r, d, true, jp, il⟩

/-- Last block starts exactly at the object's end (`last rtime = D`, not `<`): `ValueError`. -/
theorem excluded_start_at_object_end :
    fixTimings [⟨none, some (q 1 2)⟩] [ob (some 0) (some (q 1 2)), ob (some (q 1 2)) (some (q 1 2))]
      = .error .valueError := by decide +kernel

/-- Negative last duration with a jumpPosition: the repair succeeds and changes nothing, the
interpreter rejects ("specified interpolation length is longer than block"). -/
theorem excluded_negative_last_duration :
    fixTimings [⟨none, none⟩] [ob (some 0) (some (q 1 2)), ob (some (q 1 2)) (some (q (-1) 2)) true]
      = .ok ([ob (some 0) (some (q 1 2)), ob (some (q 1 2)) (some (q (-1) 2)) true], []) ∧
    accepted ⟨none, none⟩ [ob (some 0) (some (q 1 2)), ob (some (q 1 2)) (some (q (-1) 2)) true]
      = .interpTooLong := by decide +kernel

/-- rtime without duration: `assert False, "not validated"`. -/
theorem excluded_rtime_xor_duration :
    fixTimings [⟨none, some 1⟩] [ob (some 0) none] = .error .assertion := by decide +kernel

/-- Two untimed blocks: untouched by the repair, rejected by the interpreter ("overlapping blocks"). -/
theorem excluded_two_untimed :
    fixTimings [⟨none, some 1⟩] [ob none none, ob none none] = .ok ([ob none none, ob none none], []) ∧
    accepted ⟨none, some 1⟩ [ob none none, ob none none] = .overlap := by decide +kernel

/-- Decreasing rtimes (0, 10, 5 with an object of duration 7): the first block is clamped to the
object and no longer meets the second one — contiguity is lost. -/
theorem excluded_decreasing_rtimes :
    fixTimings [⟨none, some 7⟩] [ob (some 0) (some 1), ob (some 10) (some 1), ob (some 5) (some 1)]
      = .ok ([ob (some 0) (some 7), ob (some 10) (some (-5)), ob (some 5) (some 1)],
             [⟨.expanded, 0⟩, ⟨.contracted, 1⟩, ⟨.endAdvanced, 0⟩]) := by decide +kernel

/-- Non-vacuity: a channel rounded to two decimals (thirds of a second) shared by two objects
meets `Hyp` and `HypAccept`; the model evaluates on it: the first block is expanded and its
interpolation length contracted, the last block is clamped twice. -/
private def exBlocks : List Block :=
  [ob (some 0) (some (q 33 100)) true (some (q 1 2)), ob (some (q 34 100)) (some (q 33 100)),
   ob (some (q 67 100)) (some (q 33 100))]
private def exObjs : List Obj := [⟨some 1, some (q 99 100)⟩, ⟨none, some (q 98 100)⟩]

example : Hyp exObjs exBlocks := by
  refine Hyp.timed ?_ ?_ ?_
  · intro b hb; simp [exBlocks, ob] at hb; rcases hb with rfl | rfl | rfl <;> simp [Timed]
  · refine ⟨?_, ?_, trivial⟩ <;> simp [exBlocks, ob, Block.r] <;> decide +kernel
  · intro o ho D hD
    simp [exObjs] at ho
    rcases ho with rfl | rfl <;> simp at hD <;> subst hD <;>
      simp [exBlocks, ob, LastBelow, Block.r] <;> decide +kernel

example : HypAccept exObjs exBlocks := by
  refine ⟨?_, ?_⟩
  · simp [exBlocks, ob, LastNonneg, Block.d]; decide +kernel
  · intro ⟨b, hb, hu⟩
    simp [exBlocks, ob] at hb; rcases hb with rfl | rfl | rfl <;> simp [Untimed] at hu

example : fixTimings exObjs exBlocks =
    .ok ([ob (some 0) (some (q 34 100)) true (some (q 34 100)), ob (some (q 34 100)) (some (q 33 100)),
          ob (some (q 67 100)) (some (q 31 100))],
         [⟨.expanded, 0⟩, ⟨.ilContracted, 0⟩, ⟨.endAdvanced, 2⟩, ⟨.endAdvanced, 2⟩]) := by decide +kernel

example : accepted ⟨some 1, some (q 99 100)⟩ exBlocks = .interpTooLong := by decide +kernel

/-- Non-vacuity of the untimed case. -/
example : Hyp [⟨some 1, some 1⟩] [ob none none true (some 2)] :=
  Hyp.untimed _ rfl ⟨rfl, rfl⟩
example : fixTimings [⟨some 1, some 1⟩] [ob none none true (some 2)] =
    .ok ([ob none none true (some 1)], [⟨.ilReducedToObject, 0⟩]) := by decide +kernel

/-- Non-vacuity of `ExactValid`/`Rounding`: thirds of a second are a valid exact timeline for
the unit 1/100. -/
example : ExactValid (q 1 100) [⟨none, some 1⟩]
    [ob (some 0) (some (q 1 3)), ob (some (q 1 3)) (some (q 1 3)), ob (some (q 2 3)) (some (q 1 3))] := by
  refine ⟨?_, ?_, ?_, ?_⟩
  · intro b hb; simp [ob] at hb; rcases hb with rfl | rfl | rfl <;> simp [Timed]
  · refine ⟨?_, ?_, trivial⟩ <;> simp [ob, Block.r, Block.d] <;> decide +kernel
  · intro b hb; simp [ob] at hb; rcases hb with rfl | rfl | rfl <;> simp [Block.d] <;> decide +kernel
  · intro o ho D hD b hb _
    simp at ho; subst ho; simp at hD; subst hD
    simp [ob] at hb; rcases hb with rfl | rfl | rfl <;> simp [Block.r, Block.d] <;> decide +kernel

/-- Non-vacuity of `Near`: thirds of a second written with mixed conventions (second rtime
rounded up, its duration truncated; third rtime truncated, its duration rounded up). -/
example : RelP (Near (q 1 100))
    [ob (some 0) (some (q 1 3)), ob (some (q 1 3)) (some (q 1 3)), ob (some (q 2 3)) (some (q 1 3))]
    [ob (some 0) (some (q 33 100)), ob (some (q 34 100)) (some (q 33 100)) true (some (q 34 100)),
     ob (some (q 66 100)) (some (q 34 100))] := by
  refine ⟨?_, ?_, ?_, trivial⟩ <;> simp [Near, ob, Timed, Block.r, Block.d] <;> decide +kernel

end Earverif.TimingFix
