/-
C15 / M1 — the renderer-side acceptance model of `Model/TimingFix.lean` (`accepted`, `blockStartEnd`,
`overlaps`, `interpCheck`) is the error behaviour of the metadata interpreters of
`Model/Timeline.lean` (`Timeline.blockStartEnd`, `interpObject`, `interpFixed`), which is the model
C02/C03 render with.  `accepted o bs` = the verdict of feeding the channel's blocks, as `MetaBlock`s
with the object's start / duration as `extra_data`, to ONE interpreter instance starting from the
initial state — for every sample rate (the sample rate only decides which processing blocks are
yielded, never whether an exception is raised).
-/
import Earverif.Model.TimingFix
import Earverif.Model.Timeline

set_option linter.unusedVariables false
set_option linter.unusedSimpArgs false

namespace Earverif.TimingFix
open Earverif.Timeline (MetaBlock IState Ext)

/-- the `TypeMetadata` the renderer sees for block `b` of a channel rendered for object `o`
(`extra_data.object_start`, `extra_data.object_duration`); the gains payload plays no role -/
def toMeta (o : Obj) (b : Block) : MetaBlock Unit :=
  ⟨o.start, o.duration, b.rtime, b.duration, b.jp, b.il, ()⟩

/-- exceptions of the interpreters as verdicts (`underrun` / `align` are raised by
`BlockProcessingChannel` / the aligner, never by an interpreter) -/
def errVerdict : Timeline.Err → Verdict
  | .endsAfterObject => .endsAfterObject
  | .rtimeDurationMix => .mixedTiming
  | .overlapping => .overlap
  | .interpTooLong => .interpTooLong
  | .assertInf => .assertInf
  | .underrun => .ok
  | .align _ => .ok

/-- feed the metadata blocks in sequence to one `InterpretObjectMetadata` instance -/
def runObject (sr : Nat) : IState Unit → List (MetaBlock Unit) → Verdict
  | _, [] => .ok
  | st, m :: rest =>
    match Timeline.interpObject sr st m with
    | .error e => errVerdict e
    | .ok r => runObject sr r.1 rest

/-- feed the metadata blocks in sequence to one `InterpretDirectSpeakersMetadata` instance -/
def runFixed (sr : Nat) : IState Unit → List (MetaBlock Unit) → Verdict
  | _, [] => .ok
  | st, m :: rest =>
    match Timeline.interpFixed sr st m with
    | .error e => errVerdict e
    | .ok r => runFixed sr r.1 rest

/-- `None` end = `np.inf` -/
def extOf : Option Rat → Ext Rat
  | some x => .fin x
  | none => .inf

/-- `Timeline.blockStartEnd` (incl. its overlap check) in terms of the `TimingFix` pieces -/
theorem blockStartEnd_link (o : Obj) (b : Block) (last : Option (Option Rat)) :
    Timeline.blockStartEnd (last.map extOf) (toMeta o b) =
      (match blockStartEnd o b with
       | .error .endsAfterObject => .error .endsAfterObject
       | .error _ => .error .rtimeDurationMix
       | .ok (s, e) => if overlaps last s then .error .overlapping else .ok (s, extOf e)) := by
  rcases b with ⟨_|r, _|d, io, jp, il⟩ <;> rcases o with ⟨os, _|D⟩ <;> rcases last with _|_|le <;>
    simp only [Timeline.blockStartEnd, blockStartEnd, toMeta, overlaps, extOf, Ext.ltFin, Ext.gtFin,
      Option.map_none, Option.map_some] <;>
    (try (by_cases h : os.getD 0 + D < os.getD 0 + r + d)) <;>
    (try (by_cases h2 : os.getD 0 + r < le)) <;> (try (by_cases h3 : os.getD 0 < le)) <;> simp [*, extOf]

theorem blockStartEnd_errors (o : Obj) (b : Block) (v : Verdict) (h : blockStartEnd o b = .error v) :
    v = .endsAfterObject ∨ v = .mixedTiming := by
  rcases b with ⟨_|r, _|d, io, jp, il⟩ <;> rcases o with ⟨os, _|D⟩ <;>
    simp only [blockStartEnd, Option.map_none, Option.map_some] at h <;> (try split at h) <;> simp_all

theorem acceptGo_cons (o : Obj) (last : Option (Option Rat)) (b : Block) (rest : List Block) :
    acceptGo o last (b :: rest) =
      (match blockStartEnd o b with
       | .error v => v
       | .ok (s, e) =>
         if overlaps last s then .overlap
         else match interpCheck b last s e with
           | some v => v
           | none => acceptGo o (some e) rest) := rfl

/-- DirectSpeakers (and any non-Objects) channel: `acceptGo` is `InterpretDirectSpeakersMetadata` -/
theorem acceptGo_eq_runFixed (sr : Nat) (o : Obj) : ∀ (bs : List Block) (last : Option (Option Rat))
    (st : IState Unit), (∀ b ∈ bs, b.isObjects = false) → st.tlast = last.map extOf →
    runFixed sr st (bs.map (toMeta o)) = acceptGo o last bs
  | [], _, _, _, _ => rfl
  | b :: rest, last, st, hb, h1 => by
    have hio : b.isObjects = false := hb b (by simp)
    rw [acceptGo_cons]
    simp only [List.map, runFixed, Timeline.interpFixed, h1, blockStartEnd_link]
    cases hbs : blockStartEnd o b with
    | error v =>
      rcases blockStartEnd_errors o b v hbs with rfl | rfl <;> simp [errVerdict]
    | ok p =>
      obtain ⟨s, e⟩ := p
      by_cases hov : overlaps last s = true
      · simp [hov, errVerdict]
      · simp only [hov, Bool.false_eq_true, ↓reduceIte, interpCheck, hio]
        exact acceptGo_eq_runFixed sr o rest (some e) _ (fun x hx => hb x (by simp [hx])) rfl

theorem ite_ok {ε α : Type} (c : Prop) [Decidable c] (a b : α) :
    (if c then (Except.ok a : Except ε α) else Except.ok b) = Except.ok (if c then a else b) := by
  split <;> rfl

theorem add_sub_self' (s e : Rat) : s + (e - s) = e := by grind

theorem interpObject_tail (sr : Nat) (o : Obj) (b : Block) (last : Option (Option Rat)) (st : IState Unit)
    (s : Rat) (e : Option Rat) (h2 : st.last_block_end = last.map extOf)
    (hbs : Timeline.blockStartEnd st.tlast (toMeta o b) = .ok (s, extOf e)) (hio : b.isObjects = true) :
    (match interpCheck b last s e with
     | some v => ∃ err, Timeline.interpObject sr st (toMeta o b) = .error err ∧ errVerdict err = v
     | none => ∃ st' ys, Timeline.interpObject sr st (toMeta o b) = .ok (st', ys) ∧
         st'.tlast = some (extOf e) ∧ st'.last_block_end = some (extOf e)) := by
  simp only [Timeline.interpObject, hbs]
  rcases b with ⟨br, bd, io, _|_, _|il⟩ <;> rcases e with _|e <;> rcases last with _|_|le <;>
    simp only [interpCheck, toMeta, Timeline.interpLength, Ext.subFin, Ext.addFin, Ext.gt, Ext.mulNat, h2, extOf,
      Option.map_none, Option.map_some] at hio ⊢ <;> subst hio <;>
    (try (by_cases hls : le = s)) <;> simp [errVerdict, add_sub_self', Rat.lt_irrefl, ite_ok, *] <;>
    (try (by_cases hx : e < s + 0)) <;> (try (by_cases hy : e < s + il)) <;> simp [errVerdict, *]

/-- Objects channel: `acceptGo` is `InterpretObjectMetadata` -/
theorem acceptGo_eq_runObject (sr : Nat) (o : Obj) : ∀ (bs : List Block) (last : Option (Option Rat))
    (st : IState Unit), (∀ b ∈ bs, b.isObjects = true) → st.tlast = last.map extOf →
    st.last_block_end = last.map extOf → runObject sr st (bs.map (toMeta o)) = acceptGo o last bs
  | [], _, _, _, _, _ => rfl
  | b :: rest, last, st, hb, h1, h2 => by
    have hio : b.isObjects = true := hb b (by simp)
    have hl := blockStartEnd_link o b last
    rw [← h1] at hl
    rw [acceptGo_cons]
    simp only [List.map, runObject]
    cases hbs : blockStartEnd o b with
    | error v =>
      rw [hbs] at hl
      have he : Timeline.interpObject sr st (toMeta o b) =
          .error (match v with | .endsAfterObject => .endsAfterObject | _ => .rtimeDurationMix) := by
        simp only [Timeline.interpObject]
        rcases blockStartEnd_errors o b v hbs with rfl | rfl <;> simp only [hl]
      rw [he]
      rcases blockStartEnd_errors o b v hbs with rfl | rfl <;> simp [errVerdict]
    | ok p =>
      obtain ⟨s, e⟩ := p
      rw [hbs] at hl
      simp only at hl ⊢
      by_cases hov : overlaps last s = true
      · simp only [hov, ↓reduceIte] at hl ⊢
        have he : Timeline.interpObject sr st (toMeta o b) = .error .overlapping := by
          simp only [Timeline.interpObject, hl]
        rw [he]; rfl
      · simp only [hov, Bool.false_eq_true, ↓reduceIte] at hl ⊢
        have ht := interpObject_tail sr o b last st s e h2 hl hio
        cases hc : interpCheck b last s e with
        | some v =>
          rw [hc] at ht
          obtain ⟨err, h3, h4⟩ := ht
          simp only [h3, h4]
        | none =>
          rw [hc] at ht
          obtain ⟨st', ys, h3, h4, h5⟩ := ht
          simp only [h3]
          exact acceptGo_eq_runObject sr o rest (some e) st' (fun x hx => hb x (by simp [hx])) h4 h5

/-- **accepted_eq_interpreters** (M1).  The verdict `accepted o bs` of `Model/TimingFix.lean` IS the
outcome of the C02/C03 interpreter models of `Model/Timeline.lean` on the same blocks, for every sample
rate `sr`: an Objects channel fed block by block to a fresh `InterpretObjectMetadata`
(`Timeline.interpObject`), a DirectSpeakers channel to a fresh `InterpretDirectSpeakersMetadata`
(`Timeline.interpFixed`); `.ok` = no exception, otherwise the exception raised by the first failing
block. -/
theorem accepted_eq_interpreters (sr : Nat) (o : Obj) (bs : List Block) :
    ((∀ b ∈ bs, b.isObjects = true) → runObject sr {} (bs.map (toMeta o)) = accepted o bs) ∧
    ((∀ b ∈ bs, b.isObjects = false) → runFixed sr {} (bs.map (toMeta o)) = accepted o bs) :=
  ⟨fun h => acceptGo_eq_runObject sr o bs none {} h rfl rfl,
   fun h => acceptGo_eq_runFixed sr o bs none {} h rfl⟩

/-- in particular: accepted iff the Timeline interpreter raises nothing on any block -/
theorem accepted_ok_iff_object (sr : Nat) (o : Obj) (bs : List Block) (h : ∀ b ∈ bs, b.isObjects = true) :
    accepted o bs = .ok ↔ runObject sr {} (bs.map (toMeta o)) = .ok := by
  rw [(accepted_eq_interpreters sr o bs).1 h]

theorem accepted_ok_iff_fixed (sr : Nat) (o : Obj) (bs : List Block) (h : ∀ b ∈ bs, b.isObjects = false) :
    accepted o bs = .ok ↔ runFixed sr {} (bs.map (toMeta o)) = .ok := by
  rw [(accepted_eq_interpreters sr o bs).2 h]

end Earverif.TimingFix
