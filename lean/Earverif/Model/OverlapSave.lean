/-
`ear/core/convolver.py::OverlapSaveConvolver` — the partitioned overlap-save FFT convolver the
`ObjectRenderer` uses for the decorrelation filters — transliterated (`__init__`, `filter_block`).

What is modelled literally: the split of the filter into partitions of `block_size` rows (the last
one shorter), the `2*block_size`-row `input_block` with the CURRENT block in its FIRST half and the
PREVIOUS block in its SECOND half, the queue `blocks_fd` into whose slot `k` the product with
partition `k` is accumulated, the inverse transform of slot 0 of which the first `block_size` rows are
returned, the zeroing of slot 0 and the rotation of the queue; the exceptions (`range()` step 0,
`IndexError` on `blocks_fd[0]` for an empty filter, the broadcasting `ValueError` of the slice
assignment).

The ONE abstraction (trusted, validated numerically by `harness/c02.py` on every run): the transform
pair.  A queue slot `blocks_fd[i]` (complex, `block_size+1` rows) is represented by its inverse
transform `irfft(blocks_fd[i])` (real, `2*block_size` rows) and a filter partition
`filter_blocks_fd[k] = rfft(f[start:end], 2*block_size)` by the rows `f[start:end]` themselves.  Because
`irfft` is linear (and `irfft(0) = 0`) and because of the convolution theorem for numpy's `rfft`/`irfft`
of even length `N = 2*block_size`,

    irfft(S + rfft(a, N) * rfft(b)) = irfft(S) + circConv N a b      (len a ≤ N, len b = N),

`block += filter_block * in_block_fd` becomes "add the circular convolution `circConv N a b`",
`circConv N a b [n] = Σ_{m < len a} a[m] · b[(n − m) mod N]` (`rfft(a, N)` zero-pads `a`: the padded
rows contribute no term).

The second part of the file (`ObjStateOS`, `RStateOS`, `renderAllOS`; `…TSOS` with track processors) is the renderer
of `Model/Renderer.lean` / `Model/RendererTS.lean` with this convolver in the place where `ObjectRenderer.__init__`
puts it (`VariableBlockSizeAdapter(block_size, n, OverlapSaveConvolver(block_size, n, filters).filter_block)`),
instead of the direct-form FIR stand-in, AND with the numpy exceptions those files totalise away (`ChkErr`: `IndexError`
for a track outside the input, `ValueError` of `np.stack([])`, `ValueError` of `np.dot` for a decode matrix of the wrong
width — see the second part); everything else is the same code.

Channels: all numpy operations involved act along axis 0 and element-wise across channels, so the
channels are processed independently; a row of the `(n, nchannels)` arrays is a frame `V` and
`RMod.pmul` is the channel-wise product (as in `Fir.at`).  Core Lean only.
-/
import Earverif.Model.Stream
import Earverif.Model.Renderer
import Earverif.Model.RendererTS
namespace Earverif.Stream

/-- Time-domain meaning of `irfft(rfft(a, N) * rfft(b))` (`b` of `N` rows): circular convolution of
length `N` of `a` (zero-padded / cropped to `N` rows, as `rfft(a, N)` does) with `b`, per channel. -/
def circConv {V : Type} [RMod V] (N : Nat) (a b : List V) : List V :=
  (List.range N).map fun n =>
    ((List.range (min a.length N)).map fun m =>
      RMod.pmul (a.getD m 0) (b.getD ((n + N - m) % N) 0)).foldl (· + ·) 0

inductive OSErr where
  | blockSizeZero   -- `range(0, len(f), 0)`: ValueError
  | emptyFilter     -- `self.blocks_fd[0]` with no partitions: IndexError
  | shape           -- `self.input_block[:B] = in_block_td` cannot broadcast: ValueError
  deriving Repr, DecidableEq

/-- State of an `OverlapSaveConvolver` (see the header for the representation of the spectra). -/
structure OS (V : Type) where
  block_size : Nat
  input_block : List V            -- `(2*block_size, nchannels)`
  filter_blocks : List (List V)   -- `filter_blocks_fd[k]`, represented by `f[start:end]`
  blocks : List (List V)          -- `blocks_fd[i]`, represented by `irfft(blocks_fd[i])` (`2*block_size` rows)

/-- `range(0, len(f), block_size)` for `block_size ≥ 1`. -/
def OS.starts (B L : Nat) : List Nat := (List.range ((L + B - 1) / B)).map (· * B)

/-- The body of `OverlapSaveConvolver.__init__` (for `block_size ≥ 1`). -/
def OS.init {V : Type} [RMod V] (B : Nat) (f : List V) : OS V :=
  { block_size := B
    -- self.input_block = np.zeros((block_size * 2, nchannels))
    input_block := List.replicate (2 * B) 0
    -- for start in range(0, len(f), B): end = min(len(f), start + B); rfft(f[start:end], 2B)
    filter_blocks := (OS.starts B f.length).map fun start => slice f start (min f.length (start + B))
    -- self.blocks_fd.append(np.zeros_like(block_fd))
    blocks := (OS.starts B f.length).map fun _ => List.replicate (2 * B) 0 }

/-- `OverlapSaveConvolver(block_size, nchannels, f)`. -/
def OS.new {V : Type} [RMod V] (B : Nat) (f : List V) : Except OSErr (OS V) :=
  if B = 0 then .error .blockSizeZero else .ok (OS.init B f)

/-- `OverlapSaveConvolver.filter_block`. -/
def OS.filterBlock {V : Type} [RMod V] (s : OS V) (blk : List V) : Except OSErr (OS V × List V) :=
  let B := s.block_size
  -- self.input_block[B:] = self.input_block[:B]
  let ib := setSlice s.input_block B (s.input_block.take B)
  -- self.input_block[:B] = in_block_td      (B rows, or one row broadcast to B rows; otherwise ValueError)
  if blk.length ≠ B ∧ blk.length ≠ 1 then .error .shape
  else
    let rows := if blk.length = B then blk else List.replicate B (blk.headD 0)
    let ib := setSlice ib 0 rows
    -- in_block_fd = rfft(self.input_block)
    -- for filter_block, block in zip(self.filter_blocks_fd, self.blocks_fd): block += filter_block * in_block_fd
    let blocks := List.zipWith (fun fb b => List.zipWith (· + ·) b (circConv (2 * B) fb ib)) s.filter_blocks s.blocks
    -- first_block_td = irfft(self.blocks_fd[0])
    match blocks with
    | [] => .error .emptyFilter
    | b0 :: rest =>
      -- self.blocks_fd[0][:] = 0.0 ; self.blocks_fd.append(self.blocks_fd.pop(0))
      -- return first_block_td[:B]
      .ok ({ s with input_block := ib, blocks := rest ++ [List.replicate (2 * B) 0] }, b0.take B)

/-- `filter_block` as the total block function the `VariableBlockSizeAdapter` model wraps.  For a
non-empty filter and blocks of `block_size` rows no exception is raised (`os_step_spec` in
`Proofs/C02OverlapSave.lean`), so nothing is hidden by the default. -/
def OS.step {V : Type} [RMod V] (s : OS V) (blk : List V) : OS V × List V :=
  match s.filterBlock blk with
  | .ok r => r
  | .error _ => (s, [])

/-- Successive `filter_block` calls. -/
def OS.run {V : Type} [RMod V] : OS V → List (List V) → Except OSErr (OS V × List (List V))
  | s, [] => .ok (s, [])
  | s, b :: bs =>
    match s.filterBlock b with
    | .error e => .error e
    | .ok (s', o) =>
      match OS.run s' bs with
      | .error e => .error e
      | .ok (s'', os) => .ok (s'', o :: os)

end Earverif.Stream

/-! ### `ObjectRenderer` / `Renderer` with the overlap-save convolver (cf. `Model/Renderer.lean`)

These copies of the renderer model also carry the two kinds of numpy exception that `Model/Renderer.lean` totalises
away (it reads `frame.getD track 0` and zips a decode matrix with however many samples there are):

* `input_samples[:, track_index]` in `DirectProcessor.process` raises `IndexError` when the track is not a column of
  the input (the width of the input is `c.n_in`, as in the C20 model: an empty block still has a width in numpy);
  it is evaluated on EVERY `render`/`get_tail` call, for each channel in turn, before that channel's
  `BlockProcessingChannel.process`;
* `np.stack([])` in `MultiTrackProcessor.process` raises `ValueError` for an HOA item without tracks (after the
  per-track processors ran);
* `np.dot(input_samples[ovl_samples], self.matrix.T)` in `FixedMatrix.process` raises `ValueError` when the decode
  matrix does not have one column per track — whenever that processing block is at the head of the queue and
  `process` is called on it, even if no sample overlaps (`np.dot` of a `(0, a)` with a `(b, m)` array, `a ≠ b`, raises).
-/
namespace Earverif.Renderer
open Earverif.Stream Earverif.Timeline

/-- An exception `ε` of the totalised model, or one of the numpy exceptions listed above. -/
inductive ChkErr (ε : Type) where
  | base (e : ε)
  | trackIndex    -- IndexError: `input_samples[:, track_index]`
  | emptyStack    -- ValueError: `np.stack([])` (HOA item without tracks)
  | dotShape      -- ValueError: `np.dot(input_samples[ovl_samples], self.matrix.T)`, shapes not aligned
  deriving Repr, DecidableEq

def liftC {ε α : Type} : Except ε α → Except (ChkErr ε) α
  | .ok a => .ok a
  | .error e => .error (.base e)

def ChkErr.map {ε ε' : Type} (f : ε → ε') : ChkErr ε → ChkErr ε'
  | .base e => .base (f e)
  | .trackIndex => .trackIndex
  | .emptyStack => .emptyStack
  | .dotShape => .dotShape

/-- The `while len(self.processing_queue)` loop of `BlockProcessingChannel.process` (`Timeline.bpcLoop`) for
processing blocks whose `process` raises when `okK` fails on the payload (`FixedMatrix.process`: `np.dot`). -/
def bpcLoopC {M S K ι V : Type} (okK : K → Bool) (interp : S → M → Except Err (S × List (PBlock K)))
    (upd : K → Nat → ι → V → V) (start_sample : Int) (inp : List ι) :
    Nat → Bpc M S K → List V → Except (ChkErr Err) (Bpc M S K × List V)
  | 0, b, out => .ok (b, out)
  | fuel + 1, b, out =>
    match b.queue with
    | [] => .ok (b, out)
    | pb :: q =>
      -- self.processing_queue[0].process(start_sample, input_samples, output_samples): np.dot raises first
      if okK pb.k = false then .error .dotShape
      else
        let end_sample : Int := start_sample + inp.length
        let out := pb.process upd start_sample inp out
        if pb.last_sample.ltFin end_sample then
          match refill interp none b.source b.istate q with
          | .error e => .error (.base e)
          | .ok b' => bpcLoopC okK interp upd start_sample inp fuel b' out
        else if pb.last_sample = .fin end_sample then .ok ({ b with queue := q }, out)
        else .ok (b, out)

/-- `BlockProcessingChannel.process` (`Timeline.Bpc.process`) with such blocks. -/
def bpcProcessC {M S K ι V : Type} (okK : K → Bool) (interp : S → M → Except Err (S × List (PBlock K)))
    (upd : K → Nat → ι → V → V) (start_sample : Int) (inp : List ι) (out : List V)
    (b : Bpc M S K) : Except (ChkErr Err) (Bpc M S K × List V) :=
  match refill interp (some start_sample) b.source b.istate b.queue with
  | .error e => .error (.base e)
  | .ok b => bpcLoopC okK interp upd start_sample inp b.fuel b out

/-- `for track_spec_processor, block_processing in self.block_processing_channels:
       track_samples = track_spec_processor.process(sample_rate, input_samples)     # chkT: may raise
       block_processing.process(sample_rate, start_sample, track_samples, output)`  # proc -/
def procChansC {α B ε V : Type} (chkT : α → Option (ChkErr ε))
    (proc : α → B → List V → Except (ChkErr ε) (B × List V)) :
    List (α × B) → List V → Except (ChkErr ε) (List (α × B) × List V)
  | [], out => .ok ([], out)
  | (t, b) :: rest, out =>
    match chkT t with
    | some e => .error e
    | none =>
      match proc t b out with
      | .error e => .error e
      | .ok (b', out) =>
        match procChansC chkT proc rest out with
        | .error e => .error e
        | .ok (rest', out) => .ok ((t, b') :: rest', out)

/-- `DirectProcessor.process`: `input_samples[:, self.track_index]` on an input of `n_in` columns. -/
def chkTrack {ε : Type} (n_in : Nat) (t : Nat) : Option (ChkErr ε) :=
  if t < n_in then none else some .trackIndex

/-- `MultiTrackProcessor.process` of direct tracks: the processors run in order (`IndexError` for the first track
outside the input), then `np.stack` (`ValueError` for no tracks at all). -/
def chkTracks {ε : Type} (n_in : Nat) (ts : List Nat) : Option (ChkErr ε) :=
  if ts.all (· < n_in) then (if ts.isEmpty then some .emptyStack else none) else some .trackIndex

/-- `np.dot(input_samples[ovl_samples], self.matrix.T)`: the decode matrix (given by its columns) must have one
column per track. -/
def okDot {V : Type} (ntracks : Nat) (cols : List V) : Bool := cols.length == ntracks

/-- State of `ObjectRenderer`; `decorrelators_vbs` wraps the overlap-save convolver. -/
structure ObjStateOS (V : Type) where
  chans : List (Nat × ObjBpc V)
  delaymem : List V
  vbs : Vbs (OS V) V

/-- `ObjectRenderer.__init__` + `set_rendering_items`:
`decorrelators = OverlapSaveConvolver(block_size, n, decorrelation_filters)`,
`decorrelators_vbs = VariableBlockSizeAdapter(block_size, n, decorrelators.filter_block)`.
(`block_size = 0` and an empty filter array make the real constructors raise: `OS.new`, `OSErr.emptyFilter`.) -/
def ObjStateOS.init {V : Type} [RMod V] (c : Cfg V) (items : List (ObjItem V)) : ObjStateOS V :=
  { chans := items.map fun it => (it.track, ⟨it.blocks, {}, []⟩)
    delaymem := Delay.init 0 c.overall_delay
    vbs := Vbs.init OS.step c.block_size 0 (OS.init c.block_size c.taps) }

/-- The channel loop of `ObjectRenderer.render` (`Renderer.procChans`, with the `IndexError` of a track outside
the input). -/
def objChansC {V : Type} [RMod V] (c : Cfg V) (start_sample : Int) (inp : List (List Rat))
    (chans : List (Nat × ObjBpc V)) (out : List (V × V)) :
    Except (ChkErr Err) (List (Nat × ObjBpc V) × List (V × V)) :=
  procChansC (chkTrack c.n_in)
    (fun t b out => liftC (b.process (interpObject c.sr) GainKern.upd start_sample (track inp t) out)) chans out

/-- `ObjectRenderer.render`. -/
def ObjStateOS.render {V : Type} [RMod V] (c : Cfg V) (st : ObjStateOS V) (start_sample : Int)
    (inp : List (List Rat)) : Except (ChkErr Err) (ObjStateOS V × List V) :=
  match objChansC c start_sample inp st.chans (List.replicate inp.length (0 : V × V)) with
  | .error e => .error e
  | .ok (chans, interpolated) =>
    let (direct_out, mem) := Delay.process 0 st.delaymem (interpolated.map Prod.fst)
    let (vbs, diffuse_out) := Vbs.process OS.step c.block_size 0 st.vbs (interpolated.map Prod.snd)
    .ok (⟨chans, mem, vbs⟩, List.zipWith (· + ·) direct_out diffuse_out)

/-- `DirectSpeakersRenderer.render` (`Renderer.dsRender`, with the `IndexError` of a track outside the input). -/
def dsRenderC {V : Type} [RMod V] (c : Cfg V) (chans : List (Nat × DsBpc V)) (start_sample : Int)
    (inp : List (List Rat)) : Except (ChkErr Err) (List (Nat × DsBpc V) × List V) :=
  procChansC (chkTrack c.n_in)
    (fun t b out => liftC (b.process (interpFixed c.sr) (fun g _ x o => o + RMod.smul x g) start_sample
      (track inp t) out))
    chans (List.replicate inp.length 0)

/-- `HOARenderer.render` (`Renderer.hoaRender`, with the `IndexError` / `ValueError` of `MultiTrackProcessor.process`
and the `ValueError` of `np.dot` in `FixedMatrix.process`). -/
def hoaRenderC {V : Type} [RMod V] (c : Cfg V) (chans : List (List Nat × HoaBpc V)) (start_sample : Int)
    (inp : List (List Rat)) : Except (ChkErr Err) (List (List Nat × HoaBpc V) × List V) :=
  procChansC (chkTracks c.n_in)
    (fun ts b out => bpcProcessC (okDot ts.length) (interpFixed c.sr) matUpd start_sample (tracks inp ts) out b)
    chans (List.replicate inp.length 0)

/-- State of `Renderer`. -/
structure RStateOS (V : Type) where
  aligner : Aligner V
  obj : ObjStateOS V
  ds : List (Nat × DsBpc V)
  hoa : List (List Nat × HoaBpc V)
  start_sample : Int

def RStateOS.init {V : Type} [RMod V] (c : Cfg V) (objs : List (ObjItem V)) (dss : List (DsItem V))
    (hoas : List (HoaItem V)) : RStateOS V :=
  { aligner := Aligner.init
    obj := ObjStateOS.init c objs
    ds := dss.map fun it => (it.track, ⟨it.blocks, {}, []⟩)
    hoa := hoas.map fun it => (it.tracks, ⟨it.blocks, {}, []⟩)
    start_sample := 0 }

/-- `Renderer.render`. -/
def RStateOS.render {V : Type} [RMod V] (c : Cfg V) (st : RStateOS V) (samples : List (List Rat)) :
    Except (ChkErr Err) (RStateOS V × List V) :=
  match st.obj.render c st.start_sample samples with
  | .error e => .error e
  | .ok (obj, o1) =>
    match liftC (liftA (st.aligner.add (st.start_sample - c.overall_delay) o1)) with
    | .error e => .error e
    | .ok al =>
      match dsRenderC c st.ds st.start_sample samples with
      | .error e => .error e
      | .ok (ds, o2) =>
        match liftC (liftA (al.add st.start_sample o2)) with
        | .error e => .error e
        | .ok al =>
          match hoaRenderC c st.hoa st.start_sample samples with
          | .error e => .error e
          | .ok (hoa, o3) =>
            match liftC (liftA (al.add st.start_sample o3)) with
            | .error e => .error e
            | .ok al =>
              match liftC (liftA al.get) with
              | .error e => .error e
              | .ok (ret, al) => .ok (⟨al, obj, ds, hoa, st.start_sample + samples.length⟩, ret)

/-- `Renderer.get_tail(sample_rate, n_channels)`. -/
def RStateOS.get_tail {V : Type} [RMod V] (c : Cfg V) (st : RStateOS V) :
    Except (ChkErr Err) (RStateOS V × List V) :=
  st.render c (List.replicate c.overall_delay (List.replicate c.n_in 0))

def RStateOS.run {V : Type} [RMod V] (c : Cfg V) : RStateOS V → List (List (List Rat)) →
    Except (ChkErr Err) (RStateOS V × List (List V))
  | st, [] => .ok (st, [])
  | st, b :: bs =>
    match st.render c b with
    | .error e => .error e
    | .ok (st, o) =>
      match RStateOS.run c st bs with
      | .error e => .error e
      | .ok (st, os) => .ok (st, o :: os)

/-- A whole session: all `render` calls, then `get_tail`; concatenated output. -/
def renderAllOS {V : Type} [RMod V] (c : Cfg V) (objs : List (ObjItem V)) (dss : List (DsItem V))
    (hoas : List (HoaItem V)) (parts : List (List (List Rat))) : Except (ChkErr Err) (List V) :=
  match RStateOS.run c (RStateOS.init c objs dss hoas) parts with
  | .error e => .error e
  | .ok (st, os) =>
    match st.get_tail c with
    | .error e => .error e
    | .ok (_, tail) => .ok (os.flatten ++ tail)

/-- Same, keeping the per-call outputs (for the driver). -/
def renderTraceOS {V : Type} [RMod V] (c : Cfg V) : RStateOS V → List (List (List Rat)) →
    List (List V) × Option (ChkErr Err)
  | st, [] =>
    match st.get_tail c with
    | .ok (_, tail) => ([tail], none)
    | .error e => ([], some e)
  | st, b :: bs =>
    match st.render c b with
    | .ok (st, o) => let (os, e) := renderTraceOS c st bs; (o :: os, e)
    | .error e => ([], some e)

end Earverif.Renderer

/-! ### the same with track processors (cf. `Model/RendererTS.lean`)

`IndexError` and the empty `np.stack` are exceptions of the track processors here (`TrackSpec.Err.index`,
`.emptyStack`, raised by `TrackSpec.step`/`stepMulti`); what is added is the `ValueError` of `np.dot` for a decode matrix
whose width is not the number of track specs of the HOA item. -/
namespace Earverif.RendererTS
open Earverif.Stream Earverif.Timeline Earverif.Renderer
open Earverif.TrackSpec (Spec Proc)

structure ObjStateTSOS (V : Type) where
  chans : List (Proc Rat × ObjBpc V)
  delaymem : List V
  vbs : Vbs (OS V) V

def ObjStateTSOS.init {V : Type} [RMod V] (c : Cfg V) (items : List (ObjItemTS V)) :
    Except TrackSpec.Err (ObjStateTSOS V) :=
  match mkChans (fun it : ObjItemTS V => TrackSpec.trackProcessor it.spec) (·.blocks) ({} : IState (V × V)) items with
  | .error e => .error e
  | .ok chans =>
    .ok { chans := chans
          delaymem := Delay.init 0 c.overall_delay
          vbs := Vbs.init OS.step c.block_size 0 (OS.init c.block_size c.taps) }

def ObjStateTSOS.render {V : Type} [RMod V] (c : Cfg V) (st : ObjStateTSOS V) (start_sample : Int)
    (inp : List (List Rat)) : Except (ChkErr ErrTS) (ObjStateTSOS V × List V) :=
  match liftC (procChansTS (interpObject c.sr) GainKern.upd start_sample (fun p => TrackSpec.step c.sr c.n_in p inp)
      st.chans (List.replicate inp.length (0 : V × V))) with
  | .error e => .error e
  | .ok (chans, interpolated) =>
    let (direct_out, mem) := Delay.process 0 st.delaymem (interpolated.map Prod.fst)
    let (vbs, diffuse_out) := Vbs.process OS.step c.block_size 0 st.vbs (interpolated.map Prod.snd)
    .ok (⟨chans, mem, vbs⟩, List.zipWith (· + ·) direct_out diffuse_out)

/-- The channel loop of `HOARenderer.render` (`RendererTS.procChansTS` for `hoaRenderTS`) with the `ValueError` of
`np.dot`: `track_samples` has one column per processor of the item. -/
def hoaChansTSC {V : Type} [RMod V] (c : Cfg V) (start_sample : Int) (inp : List (List Rat)) :
    List (List (Proc Rat) × HoaBpc V) → List V → Except (ChkErr ErrTS) (List (List (Proc Rat) × HoaBpc V) × List V)
  | [], out => .ok ([], out)
  | (ps, b) :: rest, out =>
    match TrackSpec.stepMulti c.sr c.n_in ps inp with
    | .error e => .error (.base (.track e))
    | .ok (ps', track_samples) =>
      match bpcProcessC (okDot ps.length) (interpFixed c.sr) matUpd start_sample track_samples out b with
      | .error e => .error (e.map .render)
      | .ok (b', out) =>
        match hoaChansTSC c start_sample inp rest out with
        | .error e => .error e
        | .ok (rest', out) => .ok ((ps', b') :: rest', out)

/-- `HOARenderer.render`. -/
def hoaRenderTSC {V : Type} [RMod V] (c : Cfg V) (chans : List (List (Proc Rat) × HoaBpc V)) (start_sample : Int)
    (inp : List (List Rat)) : Except (ChkErr ErrTS) (List (List (Proc Rat) × HoaBpc V) × List V) :=
  hoaChansTSC c start_sample inp chans (List.replicate inp.length 0)

structure RStateTSOS (V : Type) where
  aligner : Aligner V
  obj : ObjStateTSOS V
  ds : List (Proc Rat × DsBpc V)
  hoa : List (List (Proc Rat) × HoaBpc V)
  start_sample : Int

def RStateTSOS.init {V : Type} [RMod V] (c : Cfg V) (objs : List (ObjItemTS V)) (dss : List (DsItemTS V))
    (hoas : List (HoaItemTS V)) : Except TrackSpec.Err (RStateTSOS V) :=
  match ObjStateTSOS.init c objs with
  | .error e => .error e
  | .ok obj =>
    match mkChans (fun it : DsItemTS V => TrackSpec.trackProcessor it.spec) (·.blocks) ({} : IState V) dss with
    | .error e => .error e
    | .ok ds =>
      match mkChans (fun it : HoaItemTS V => TrackSpec.buildMulti it.specs) (·.blocks) ({} : IState (List V)) hoas with
      | .error e => .error e
      | .ok hoa => .ok { aligner := Aligner.init, obj := obj, ds := ds, hoa := hoa, start_sample := 0 }

def RStateTSOS.render {V : Type} [RMod V] (c : Cfg V) (st : RStateTSOS V) (samples : List (List Rat)) :
    Except (ChkErr ErrTS) (RStateTSOS V × List V) :=
  match st.obj.render c st.start_sample samples with
  | .error e => .error e
  | .ok (obj, o1) =>
    match liftC (liftR (liftA (st.aligner.add (st.start_sample - c.overall_delay) o1))) with
    | .error e => .error e
    | .ok al =>
      match liftC (dsRenderTS c st.ds st.start_sample samples) with
      | .error e => .error e
      | .ok (ds, o2) =>
        match liftC (liftR (liftA (al.add st.start_sample o2))) with
        | .error e => .error e
        | .ok al =>
          match hoaRenderTSC c st.hoa st.start_sample samples with
          | .error e => .error e
          | .ok (hoa, o3) =>
            match liftC (liftR (liftA (al.add st.start_sample o3))) with
            | .error e => .error e
            | .ok al =>
              match liftC (liftR (liftA al.get)) with
              | .error e => .error e
              | .ok (ret, al) => .ok (⟨al, obj, ds, hoa, st.start_sample + samples.length⟩, ret)

def RStateTSOS.get_tail {V : Type} [RMod V] (c : Cfg V) (st : RStateTSOS V) :
    Except (ChkErr ErrTS) (RStateTSOS V × List V) :=
  st.render c (tailFrames c)

def RStateTSOS.run {V : Type} [RMod V] (c : Cfg V) : RStateTSOS V → List (List (List Rat)) →
    Except (ChkErr ErrTS) (RStateTSOS V × List (List V))
  | st, [] => .ok (st, [])
  | st, b :: bs =>
    match st.render c b with
    | .error e => .error e
    | .ok (st, o) =>
      match RStateTSOS.run c st bs with
      | .error e => .error e
      | .ok (st, os) => .ok (st, o :: os)

def renderAllTSOS {V : Type} [RMod V] (c : Cfg V) (objs : List (ObjItemTS V)) (dss : List (DsItemTS V))
    (hoas : List (HoaItemTS V)) (parts : List (List (List Rat))) : Except (ChkErr ErrTS) (List V) :=
  match RStateTSOS.init c objs dss hoas with
  | .error e => .error (.base (.track e))
  | .ok st0 =>
    match RStateTSOS.run c st0 parts with
    | .error e => .error e
    | .ok (st, os) =>
      match st.get_tail c with
      | .error e => .error e
      | .ok (_, tail) => .ok (os.flatten ++ tail)

def renderTraceTSOS {V : Type} [RMod V] (c : Cfg V) : RStateTSOS V → List (List (List Rat)) →
    List (List V) × Option (ChkErr ErrTS)
  | st, [] =>
    match st.get_tail c with
    | .ok (_, tail) => ([tail], none)
    | .error e => ([], some e)
  | st, b :: bs =>
    match st.render c b with
    | .ok (st, o) => let (os, e) := renderTraceTSOS c st bs; (o :: os, e)
    | .error e => ([], some e)

end Earverif.RendererTS
