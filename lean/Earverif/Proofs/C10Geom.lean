/- Lemmas about the modelled geometric helpers of the DirectSpeakers panner (C10, round 2):
   `flatnonzero`, `argminFirst`, `closestIndex` (result is a candidate, is the minimum, is unique within
   `tol`; ties ⇒ none), `candidates` (LFE class), `geoOf` satisfies `GeoOk`. -/
import Earverif.Model.DirectSpeakersGeom
import Earverif.Proofs.C10

namespace Earverif.DS

/-! ### flatnonzero / argmin -/

theorem mem_flatnonzero {c : List Bool} {i : Nat} : i ∈ flatnonzero c ↔ c[i]? = some true := by
  unfold flatnonzero
  rw [List.mem_filter, List.mem_range]
  constructor
  · rintro ⟨hlt, h⟩
    rw [List.getD_eq_getElem?_getD, List.getElem?_eq_getElem hlt] at h
    rw [List.getElem?_eq_getElem hlt]
    simpa using h
  · intro h
    obtain ⟨hlt, hv⟩ := List.getElem?_eq_some_iff.mp h
    refine ⟨hlt, ?_⟩
    rw [List.getD_eq_getElem?_getD, h]; rfl

theorem argminFirst_none {l : List Rat} : argminFirst l = none → l = [] := by
  cases l with
  | nil => intro _; rfl
  | cons x xs =>
    intro h
    simp only [argminFirst] at h
    split at h
    · cases h
    · split at h <;> cases h

theorem argminFirst_lt : ∀ {l : List Rat} {j : Nat}, argminFirst l = some j → j < l.length
  | [], _, h => by simp [argminFirst] at h
  | x :: xs, j, h => by
    simp only [argminFirst] at h
    split at h
    · cases h; simp
    · rename_i j' hj'
      have := argminFirst_lt hj'
      split at h <;> cases h <;> (simp only [List.length_cons]; omega)

/-- `np.argmin`: the value at the returned index is ≤ every value. -/
theorem argminFirst_le : ∀ {l : List Rat} {j : Nat}, argminFirst l = some j →
    ∀ k, k < l.length → l.getD j 0 ≤ l.getD k 0
  | [], _, h => by simp [argminFirst] at h
  | x :: xs, j, h => by
    intro k hk
    simp only [argminFirst] at h
    split at h
    · rename_i hn
      cases h
      have : xs = [] := argminFirst_none hn
      subst this
      have : k = 0 := by simpa using hk
      subst this; exact le_refl _
    · rename_i j' hj'
      have ih := argminFirst_le hj'
      split at h
      · rename_i hlt
        cases h
        cases k with
        | zero => simpa using le_of_lt hlt
        | succ k => simpa using ih k (by simpa using hk)
      · rename_i hnlt
        cases h
        cases k with
        | zero => exact le_refl _
        | succ k =>
          have h1 : x ≤ xs.getD j' 0 := not_lt.mp hnlt
          have h2 := ih k (by simpa using hk)
          simpa using le_trans h1 h2

theorem two_le_countP (p : Rat → Bool) : ∀ (l : List Rat) (a b : Nat), a < b → b < l.length →
    p (l.getD a 0) = true → p (l.getD b 0) = true → 2 ≤ l.countP p
  | [], _, _, _, hb, _, _ => by simp at hb
  | x :: xs, 0, b + 1, _, hb, ha, hpb => by
    have hx : p x = true := by simpa using ha
    have hmem : xs.getD b 0 ∈ xs := by
      have hb' : b < xs.length := by simpa using hb
      rw [List.getD_eq_getElem?_getD, List.getElem?_eq_getElem hb']
      exact List.getElem_mem hb'
    have hpos : 0 < xs.countP p := List.countP_pos_iff.mpr ⟨_, hmem, by simpa using hpb⟩
    rw [List.countP_cons_of_pos hx]; omega
  | x :: xs, a + 1, b + 1, hab, hb, ha, hpb => by
    have ih := two_le_countP p xs a b (by omega) (by simpa using hb) (by simpa using ha) (by simpa using hpb)
    have := List.countP_cons (p := p) (a := x) (l := xs)
    rw [this]; omega

theorem countP_one_unique (p : Rat → Bool) (l : List Rat) (h : l.countP p = 1) (a b : Nat)
    (ha : a < l.length) (hb : b < l.length) (hpa : p (l.getD a 0) = true) (hpb : p (l.getD b 0) = true) :
    a = b := by
  rcases Nat.lt_trichotomy a b with hlt | heq | hgt
  · have := two_le_countP p l a b hlt hb hpa hpb; omega
  · exact heq
  · have := two_le_countP p l b a hgt ha hpb hpa; omega

/-! ### closeTo -/

theorem closeTo_tol_pos {sm tol s : Rat} (h : closeTo sm tol s = true) : 0 < tol := by
  simp only [closeTo, Bool.and_eq_true, decide_eq_true_eq] at h
  exact h.1

theorem closeTo_self {sm tol : Rat} (h : 0 < tol) : closeTo sm tol sm = true := by
  simp only [closeTo, Bool.and_eq_true, decide_eq_true_eq, Bool.or_eq_true]
  refine ⟨h, Or.inl ?_⟩
  have : 0 < tol * tol := mul_pos h h
  linarith

/-! ### closest_channel_index -/

/-- Unfolding of a successful `closestIndex`. -/
theorem closestIndex_some {positions : List Vec3} {cart : Vec3} {cands : List Bool} {tol : Rat} {i : Nat}
    (h : closestIndex positions cart cands tol = some i) :
    ∃ mi, argminFirst ((flatnonzero cands).map (fun i => sqDist (positions.getD i (0, 0, 0)) cart)) = some mi ∧
      ((flatnonzero cands).map (fun i => sqDist (positions.getD i (0, 0, 0)) cart)).countP
        (closeTo (((flatnonzero cands).map (fun i => sqDist (positions.getD i (0, 0, 0)) cart)).getD mi 0) tol) = 1 ∧
      (flatnonzero cands)[mi]? = some i := by
  unfold closestIndex at h
  simp only at h
  split at h
  · cases h
  · rename_i mi hmi
    split at h
    · rename_i hc
      exact ⟨mi, hmi, hc, h⟩
    · cases h

/-- The index returned by `closest_channel_index` is one of the candidates it was given. -/
theorem closestIndex_is_candidate {positions : List Vec3} {cart : Vec3} {cands : List Bool} {tol : Rat} {i : Nat}
    (h : closestIndex positions cart cands tol = some i) : cands[i]? = some true := by
  obtain ⟨mi, _, _, hi⟩ := closestIndex_some h
  exact mem_flatnonzero.mp (List.mem_of_getElem? hi)

theorem getD_map_sq {idxs : List Nat} {f : Nat → Rat} {k : Nat} (hk : k < idxs.length) :
    (idxs.map f).getD k 0 = f idxs[k] := by
  rw [List.getD_eq_getElem?_getD, List.getElem?_map, List.getElem?_eq_getElem hk]; rfl

/-- ... it is a closest candidate (squared distance to the position is minimal) ... -/
theorem closestIndex_is_min {positions : List Vec3} {cart : Vec3} {cands : List Bool} {tol : Rat} {i : Nat}
    (h : closestIndex positions cart cands tol = some i) (j : Nat) (hj : cands[j]? = some true) :
    sqDist (positions.getD i (0, 0, 0)) cart ≤ sqDist (positions.getD j (0, 0, 0)) cart := by
  obtain ⟨mi, hmi, _, hi⟩ := closestIndex_some h
  obtain ⟨k, hk, hkj⟩ := List.mem_iff_getElem.mp (mem_flatnonzero.mpr hj)
  have hmil : mi < (flatnonzero cands).length := by
    have := argminFirst_lt hmi; simpa using this
  have hle := argminFirst_le hmi k (by simpa using hk)
  rw [getD_map_sq hmil, getD_map_sq hk] at hle
  obtain ⟨_, hv⟩ := List.getElem?_eq_some_iff.mp hi
  rw [hv, hkj] at hle
  exact hle

/-- ... and the only candidate within `tol` of the minimum distance: every other candidate is farther than
    `min_dist + tol`.  (So two candidates tied within `tol` ⇒ `None`.) -/
theorem closestIndex_unique {positions : List Vec3} {cart : Vec3} {cands : List Bool} {tol : Rat} {i : Nat}
    (h : closestIndex positions cart cands tol = some i) (j : Nat) (hj : cands[j]? = some true) (hne : j ≠ i) :
    closeTo (sqDist (positions.getD i (0, 0, 0)) cart) tol (sqDist (positions.getD j (0, 0, 0)) cart) = false := by
  obtain ⟨mi, hmi, hcount, hi⟩ := closestIndex_some h
  obtain ⟨k, hk, hkj⟩ := List.mem_iff_getElem.mp (mem_flatnonzero.mpr hj)
  have hmil : mi < (flatnonzero cands).length := by
    have := argminFirst_lt hmi; simpa using this
  obtain ⟨_, hv⟩ := List.getElem?_eq_some_iff.mp hi
  rw [getD_map_sq hmil, hv] at hcount
  -- some element is within tol, hence tol > 0, hence the minimum itself is
  have hpos : 0 < tol := by
    have : 0 < ((flatnonzero cands).map (fun i => sqDist (positions.getD i (0, 0, 0)) cart)).countP
        (closeTo (sqDist (positions.getD i (0, 0, 0)) cart) tol) := by omega
    obtain ⟨a, _, ha⟩ := List.countP_pos_iff.mp this
    exact closeTo_tol_pos ha
  cases hc : closeTo (sqDist (positions.getD i (0, 0, 0)) cart) tol (sqDist (positions.getD j (0, 0, 0)) cart) with
  | false => rfl
  | true =>
    exfalso
    have hkm : k = mi := by
      refine countP_one_unique _ _ hcount k mi (by simpa using hk) (by simpa using hmil) ?_ ?_
      · rw [getD_map_sq hk, hkj]; exact hc
      · rw [getD_map_sq hmil, hv]; exact closeTo_self hpos
    subst hkm
    exact hne (hkj.symm.trans hv)

/-- Ties ⇒ none: two different candidates at the minimal distance make the result `None`. -/
theorem closestIndex_tie_none {positions : List Vec3} {cart : Vec3} {cands : List Bool} {tol : Rat}
    (a b : Nat) (ha : cands[a]? = some true) (hb : cands[b]? = some true) (hab : a ≠ b)
    (heq : sqDist (positions.getD a (0, 0, 0)) cart = sqDist (positions.getD b (0, 0, 0)) cart)
    (hmin : ∀ j, cands[j]? = some true →
      sqDist (positions.getD a (0, 0, 0)) cart ≤ sqDist (positions.getD j (0, 0, 0)) cart) :
    closestIndex positions cart cands tol = none := by
  cases h : closestIndex positions cart cands tol with
  | none => rfl
  | some i =>
    exfalso
    have hpos : 0 < tol := by
      obtain ⟨mi, _, hcount, _⟩ := closestIndex_some h
      have : 0 < ((flatnonzero cands).map (fun i => sqDist (positions.getD i (0, 0, 0)) cart)).countP
          (closeTo (((flatnonzero cands).map (fun i => sqDist (positions.getD i (0, 0, 0)) cart)).getD mi 0) tol) := by
        omega
      obtain ⟨x, _, hx⟩ := List.countP_pos_iff.mp this
      exact closeTo_tol_pos hx
    -- the result has the minimal distance, which is that of a (and b)
    have hia : sqDist (positions.getD i (0, 0, 0)) cart = sqDist (positions.getD a (0, 0, 0)) cart :=
      le_antisymm (closestIndex_is_min h a ha) (hmin i (closestIndex_is_candidate h))
    by_cases hai : a = i
    · have := closestIndex_unique h b hb (fun hbi => hab (hai.trans hbi.symm))
      rw [hia, ← heq, closeTo_self hpos] at this; cases this
    · have := closestIndex_unique h a ha hai
      rw [hia, closeTo_self hpos] at this; cases this

/-! ### candidate mask -/

/-- `within_bounds &= is_lfe` / `&= ~is_lfe`: every candidate has the block's LFE class. -/
theorem candidates_same_class {L : Layout} {lfe : Bool} {wb : List Bool} {i : Nat}
    (h : (candidates L lfe wb)[i]? = some true) : L.isLfe[i]? = some lfe ∧ wb[i]? = some true := by
  simp only [candidates, List.getElem?_zipWith] at h
  split at h
  · rename_i w f hw hf
    simp only [Option.some.injEq, Bool.and_eq_true, beq_iff_eq] at h
    exact ⟨by rw [hf, h.2], by rw [hw, h.1]⟩
  · cases h

/-- The loudspeaker chosen by the modelled `closest_channel_index` on the masked candidate set has the
    LFE class of the block (what the `closest` exit needs; no hypothesis on the geometry). -/
theorem closest_same_class {L : Layout} {G : LayoutGeom} {lfe : Bool} {gi : GeoIn} {c : Nat}
    (h : (geoOf L G lfe gi).closest = some c) : L.isLfe[c]? = some lfe :=
  (candidates_same_class (closestIndex_is_candidate h)).1

/-- The modelled geometry satisfies what the decision-structure theorems assumed of the captured one;
    only the point-source panner result remains a hypothesis. -/
theorem geoOf_ok {L : Layout} {G : LayoutGeom} {b : Block} {gi : GeoIn}
    (hnn : ∀ x ∈ gi.psp, 0 ≤ x) (hpow : sumSq gi.psp ≤ slack) :
    GeoOk L b (geoOf L G (isLfeChannel b) gi) :=
  ⟨fun _ hc => closestIndex_is_candidate hc, hnn, hpow⟩

/-! ### screen edge lock (polar) -/

theorem handleAzEl_no_lock (edges : Option ScreenEdges) (az el : Rat) :
    handleAzEl edges az el ⟨none, none⟩ = (az, el) := by
  cases edges <;> rfl

theorem handleAzEl_no_screen (az el : Rat) (sel : ScreenEdgeLock) : handleAzEl none az el sel = (az, el) := rfl

theorem handleAzEl_left (e : ScreenEdges) (az el : Rat) :
    handleAzEl (some e) az el ⟨some "left", none⟩ = (e.left, el) := by
  simp [handleAzEl, lockToScreenEdge]

theorem handleAzEl_right (e : ScreenEdges) (az el : Rat) :
    handleAzEl (some e) az el ⟨some "right", none⟩ = (e.right, el) := by
  simp [handleAzEl, lockToScreenEdge]

theorem handleAzEl_top (e : ScreenEdges) (az el : Rat) :
    handleAzEl (some e) az el ⟨none, some "top"⟩ = (az, e.top) := by
  simp [handleAzEl, lockToScreenEdge]

theorem handleAzEl_bottom (e : ScreenEdges) (az el : Rat) :
    handleAzEl (some e) az el ⟨none, some "bottom"⟩ = (az, e.bottom) := by
  simp [handleAzEl, lockToScreenEdge]

/-- The lock only ever replaces the values; min / max of the bounds are kept. -/
theorem applySelPolar_bounds (G : LayoutGeom) (az el : Bound) (sel : ScreenEdgeLock) :
    (applySelPolar G az el sel).1.min = az.min ∧ (applySelPolar G az el sel).1.max = az.max ∧
    (applySelPolar G az el sel).2.min = el.min ∧ (applySelPolar G az el sel).2.max = el.max := by
  simp [applySelPolar]

end Earverif.DS
