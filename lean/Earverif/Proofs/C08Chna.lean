/-
C08 — lemmas about the CHNA <-> audioTrackUID transfer model (`Model/ChnaTransfer.lean`): the round trip in both
directions, CHNA-only documents, rejection of conflicts, row order, `validate_trackIndex`, the table part of the chunk.
The property-level statements are in `Props/C08.lean`.
-/
import Earverif.Model.ChnaTransfer

set_option linter.unusedSimpArgs false

namespace Earverif.ChnaTransfer
open Earverif.Chna

/-! ### upper-casing -/

theorem upByte_idem_aux : ∀ n, n < 256 → upByte (upByte (UInt8.ofNat n)) = upByte (UInt8.ofNat n) := by
  decide +kernel

theorem upByte_idem (b : UInt8) : upByte (upByte b) = upByte b := by
  have := upByte_idem_aux b.toNat b.toNat_lt
  simpa using this

/-- `s.upper().upper() == s.upper()` -/
theorem up_idem (bs : Bytes) : up (up bs) = up bs := by
  unfold up
  rw [List.map_map]
  apply List.map_congr_left
  intro b _
  exact upByte_idem b

/-! ### the document side -/

/-- a track UID of a document from which `populate_chna_chunk` + `load_chna_chunk` give the same track UID back:
a track index; exactly one of audioTrackFormat / audioChannelFormat, of the kind its id announces (an
audioChannelFormat id starts with `AC_`, an audioTrackFormat id does not) and found again by `lookup_element` under
its upper-cased id; the pack format found under its own id; nothing pending; not the reserved UID -/
structure WFTrack (lookup : Bytes → Option Bytes) (t : TrackUID) : Prop where
  index : ∃ i, t.trackIndex = some i
  noPending : t.audioTrackFormatIDRef = none ∧ t.audioChannelFormatIDRef = none ∧ t.audioPackFormatIDRef = none
  kind : (∃ r, t.audioTrackFormat = some r ∧ t.audioChannelFormat = none ∧ acPrefix.isPrefixOf r = false ∧
            lookup (up r) = some r) ∨
         (∃ r, t.audioChannelFormat = some r ∧ t.audioTrackFormat = none ∧ acPrefix.isPrefixOf r = true ∧
            lookup (up r) = some r)
  pack : ∀ p, t.audioPackFormat = some p → lookup p = some p
  notSilent : up t.id ≠ silentUID

/-- a well-formed document: distinct UIDs (compared as the code compares them, upper-cased), every track UID
well-formed -/
structure WFDoc (lookup : Bytes → Option Bytes) (tracks : List TrackUID) : Prop where
  nodup : (tracks.map fun t => up t.id).Nodup
  each : ∀ t ∈ tracks, WFTrack lookup t

/-- a copy of a track UID without the information that the CHNA chunk carries: never a track index (AXML has none);
the format reference and the pack reference kept (as after parsing the AXML written for the document) or dropped -/
def forget (keepFormat keepPack : Bool) (t : TrackUID) : TrackUID :=
  { t with trackIndex := none,
           audioTrackFormat := if keepFormat then t.audioTrackFormat else none,
           audioChannelFormat := if keepFormat then t.audioChannelFormat else none,
           audioPackFormat := if keepPack then t.audioPackFormat else none }

theorem forget_id (a b : Bool) (t : TrackUID) : (forget a b t).id = t.id := rfl

/-- one track UID: the row written for it, loaded into a copy without track information, and the pending references
resolved, gives the track UID back -/
theorem loadInto_forget (lookup : Bytes → Option Bytes) (t : TrackUID) (h : WFTrack lookup t) (kf kp : Bool) :
    ∃ e m, entryOf t = .ok e ∧ e.audioTrackUID = t.id ∧ loadInto (forget kf kp t) e = .ok m ∧ m.id = t.id ∧
      resolveTrack lookup m = .ok t := by
  obtain ⟨id, idx, tf, cf, pf, tfr, cfr, pfr⟩ := t
  obtain ⟨⟨i, hi⟩, ⟨h1, h2, h3⟩, hk, hp, _⟩ := h
  simp only at hi h1 h2 h3 hk hp
  subst hi h1 h2 h3
  rcases hk with ⟨r, rfl, rfl, hpre, hl⟩ | ⟨r, rfl, rfl, hpre, hl⟩
  · -- audioTrackFormat
    have hpre' : ¬ acPrefix <+: r := by
      intro hh; rw [← List.isPrefixOf_iff_prefix] at hh; simp [hh] at hpre
    cases pf with
    | none =>
      cases kf <;> cases kp <;>
        simp [entryOf, forget, loadInto, loadFormatRef, loadPackRef, resolveTrack, hpre, hpre', hl, bind, Except.bind, pure,
          Except.pure]
    | some p =>
      have hlp := hp p rfl
      cases kf <;> cases kp <;>
        simp [entryOf, forget, loadInto, loadFormatRef, loadPackRef, resolveTrack, hpre, hpre', hl, hlp, bind, Except.bind,
          pure, Except.pure]
  · have hpre' : acPrefix <+: r := by rw [← List.isPrefixOf_iff_prefix]; exact hpre
    cases pf with
    | none =>
      cases kf <;> cases kp <;>
        simp [entryOf, forget, loadInto, loadFormatRef, loadPackRef, resolveTrack, hpre, hpre', hl, bind, Except.bind, pure,
          Except.pure]
    | some p =>
      have hlp := hp p rfl
      cases kf <;> cases kp <;>
        simp [entryOf, forget, loadInto, loadFormatRef, loadPackRef, resolveTrack, hpre, hpre', hl, hlp, bind, Except.bind,
          pure, Except.pure]

/-! ### the id map built before the row loop -/

theorem dictGet_none (l : List TrackUID) (k : Bytes) (h : k ∉ l.map fun t => up t.id) : dictGet l k = none := by
  induction l with
  | nil => rfl
  | cons t ts ih =>
    simp only [List.map_cons, List.mem_cons, not_or] at h
    simp only [dictGet, ih h.2]
    simp [Ne.symm h.1]

/-- with distinct (upper-cased) UIDs the map answers the position of the track UID -/
theorem dictGet_of_nodup (l : List TrackUID) (h : (l.map fun t => up t.id).Nodup) :
    ∀ j t, l[j]? = some t → dictGet l (up t.id) = some j := by
  induction l with
  | nil => intro j t ht; simp at ht
  | cons t0 ts ih =>
    simp only [List.map_cons, List.nodup_cons] at h
    intro j t ht
    cases j with
    | zero =>
      simp only [List.getElem?_cons_zero, Option.some.injEq] at ht
      subst ht
      simp [dictGet, dictGet_none ts _ h.1]
    | succ j =>
      simp only [List.getElem?_cons_succ] at ht
      simp [dictGet, ih h.2 j t ht]

/-! ### the row loop on a well-formed document -/

theorem loadRow_at (dict : Bytes → Option Nat) (pre rest : List TrackUID) (t m : TrackUID) (e : Entry)
    (hd : dict (up e.audioTrackUID) = some pre.length) (hl : loadInto t e = .ok m) :
    loadRow dict (pre ++ t :: rest) e = .ok (pre ++ m :: rest) := by
  unfold loadRow
  simp only [hd]
  have : (pre ++ t :: rest)[pre.length]? = some t := by simp
  simp only [this, hl, bind, Except.bind, pure, Except.pure]
  congr 1
  simp

theorem foldl_loadRow (lookup : Bytes → Option Bytes) (dict : Bytes → Option Nat) (kf kp : TrackUID → Bool) :
    ∀ (ts pre : List TrackUID), (∀ t ∈ ts, WFTrack lookup t) →
      (∀ j t, ts[j]? = some t → dict (up t.id) = some (pre.length + j)) →
      ∃ rows mids, ts.mapM entryOf = .ok rows ∧
        rows.foldlM (loadRow dict) (pre ++ ts.map fun t => forget (kf t) (kp t) t) = .ok (pre ++ mids) ∧
        mids.map (·.id) = ts.map (·.id) ∧ mids.mapM (resolveTrack lookup) = .ok ts ∧
        rows.map (·.audioTrackUID) = ts.map (·.id) := by
  intro ts
  induction ts with
  | nil => intro pre _ _; exact ⟨[], [], rfl, by simp [pure, Except.pure], rfl, rfl, rfl⟩
  | cons t ts ih =>
    intro pre hwf hd
    obtain ⟨e, m, he, heu, hm, hmid, hres⟩ := loadInto_forget lookup t (hwf t (by simp)) (kf t) (kp t)
    have hd0 := hd 0 t (by simp)
    obtain ⟨rows, mids, hrows, hfold, hids, hresolve, huids⟩ :=
      ih (pre ++ [m]) (fun u hu => hwf u (by simp [hu])) (by
        intro j u hu
        have := hd (j + 1) u (by simpa using hu)
        rw [this]
        simp only [List.length_append, List.length_cons, List.length_nil]
        congr 1
        omega)
    refine ⟨e :: rows, m :: mids, ?_, ?_, ?_, ?_, ?_⟩
    · simp [List.mapM_cons, he, hrows, bind, Except.bind, pure, Except.pure]
    · simp only [List.map_cons, List.foldlM_cons]
      rw [loadRow_at dict pre _ _ m e (by rw [heu]; simpa using hd0) hm]
      simp only [bind, Except.bind]
      have : pre ++ m :: List.map (fun t => forget (kf t) (kp t) t) ts
          = (pre ++ [m]) ++ List.map (fun t => forget (kf t) (kp t) t) ts := by simp
      rw [this, hfold]
      simp
    · simp [hmid, hids]
    · simp [List.mapM_cons, hres, hresolve, bind, Except.bind, pure, Except.pure]
    · simp [heu, huids]

theorem noDuplicates_of_nodup (l : List TrackUID) (h : (l.map fun t => up t.id).Nodup) : noDuplicates l = true := by
  induction l with
  | nil => rfl
  | cons t ts ih =>
    simp only [List.map_cons, List.nodup_cons] at h
    simp only [noDuplicates, Bool.and_eq_true, Bool.not_eq_eq_eq_not, Bool.not_true, ih h.2, and_true]
    rw [List.any_eq_false]
    intro u hu
    simp only [beq_iff_eq]
    intro heq
    exact h.1 (List.mem_map.mpr ⟨u, hu, heq⟩)

/-- **Transfer round trip, document side.**  For a well-formed document: `populate_chna_chunk` succeeds, and
`load_chna_chunk` of the rows into a copy of the document without track information (no track index; the format /
pack references kept or dropped, track UID by track UID) restores every track UID — index and references. -/
theorem transfer_roundtrip (lookup : Bytes → Option Bytes) (tracks : List TrackUID) (h : WFDoc lookup tracks)
    (kf kp : TrackUID → Bool) :
    ∃ rows, populateChna tracks = .ok rows ∧
      loadChna lookup (tracks.map fun t => forget (kf t) (kp t) t) rows = .ok tracks := by
  have hids : (tracks.map fun t => forget (kf t) (kp t) t).map (fun t => up t.id) = tracks.map fun t => up t.id := by
    simp [List.map_map, Function.comp_def, forget_id]
  obtain ⟨rows, mids, hrows, hfold, hmid, hres, _⟩ :=
    foldl_loadRow lookup (dictGet (tracks.map fun t => forget (kf t) (kp t) t)) kf kp tracks [] h.each (by
      intro j t ht
      have := dictGet_of_nodup (tracks.map fun t => forget (kf t) (kp t) t) (by rw [hids]; exact h.nodup) j
        (forget (kf t) (kp t) t) (by simp [ht])
      simpa [forget_id] using this)
  refine ⟨rows, hrows, ?_⟩
  have hmidup : (mids.map fun t => up t.id) = tracks.map fun t => up t.id := by
    have := congrArg (List.map up) hmid
    simpa [List.map_map, Function.comp_def] using this
  unfold loadChna loadRows
  simp only [List.nil_append] at hfold
  simp only [hfold, bind, Except.bind]
  have hsil : mids.any (fun t => up t.id == silentUID) = false := by
    rw [List.any_eq_false]
    intro m hm
    have : up m.id ∈ tracks.map fun t => up t.id := by
      rw [← hmidup]; exact List.mem_map.mpr ⟨m, hm, rfl⟩
    obtain ⟨t, ht, hte⟩ := List.mem_map.mp this
    have := (h.each t ht).notSilent
    simp only [beq_iff_eq]
    rw [← hte]; exact this
  have hnd : noDuplicates mids = true := noDuplicates_of_nodup mids (by rw [hmidup]; exact h.nodup)
  simp [hsil, hnd, hres, pure, Except.pure]

/-! ### the chunk side: a document without audioTrackUIDs (no AXML) -/

/-- what the row loop leaves for a row whose UID the document does not know: a new track UID with the upper-cased
UID, the row's index and the row's references pending -/
def pendOf (e : Entry) : TrackUID :=
  { id := up e.audioTrackUID, trackIndex := some e.trackIndex, audioTrackFormat := none, audioChannelFormat := none,
    audioPackFormat := none,
    audioTrackFormatIDRef := if acPrefix.isPrefixOf e.audioTrackFormatIDRef then none else some (up e.audioTrackFormatIDRef),
    audioChannelFormatIDRef := if acPrefix.isPrefixOf e.audioTrackFormatIDRef then some (up e.audioTrackFormatIDRef) else none,
    audioPackFormatIDRef := e.audioPackFormatIDRef }

/-- the audioTrackUID that a CHNA row alone describes: exactly the row's data — UID (upper-cased), index, the
reference as audioChannelFormat iff it starts with `AC_` (the element found under the upper-cased id), the pack
format found under the id as written -/
def trackOf (lookup : Bytes → Option Bytes) (e : Entry) : TrackUID :=
  { id := up e.audioTrackUID, trackIndex := some e.trackIndex,
    audioTrackFormat := if acPrefix.isPrefixOf e.audioTrackFormatIDRef then none else lookup (up e.audioTrackFormatIDRef),
    audioChannelFormat := if acPrefix.isPrefixOf e.audioTrackFormatIDRef then lookup (up e.audioTrackFormatIDRef) else none,
    audioPackFormat := e.audioPackFormatIDRef.bind lookup,
    audioTrackFormatIDRef := none, audioChannelFormatIDRef := none, audioPackFormatIDRef := none }

theorem loadInto_new (e : Entry) : loadInto (newTrack e.audioTrackUID) e = .ok (pendOf e) := by
  obtain ⟨idx, uid, ref, pack⟩ := e
  cases hp : acPrefix.isPrefixOf ref <;> cases pack <;>
    simp [loadInto, newTrack, loadFormatRef, loadPackRef, pendOf, hp, bind, Except.bind, pure, Except.pure]

theorem foldl_new (rows : List Entry) : ∀ pre : List TrackUID,
    rows.foldlM (loadRow (dictGet [])) pre = .ok (pre ++ rows.map pendOf) := by
  induction rows with
  | nil => intro pre; simp [pure, Except.pure]
  | cons e rows ih =>
    intro pre
    simp only [List.foldlM_cons, List.map_cons]
    have : loadRow (dictGet []) pre e = .ok (pre ++ [pendOf e]) := by
      unfold loadRow
      simp only [dictGet]
      have h1 : (pre ++ [newTrack e.audioTrackUID])[pre.length]? = some (newTrack e.audioTrackUID) := by simp
      simp only [h1, loadInto_new, bind, Except.bind, pure, Except.pure]
      congr 1
      simp
    simp only [this, bind, Except.bind, ih]
    simp

/-- a chunk that can be loaded on its own: distinct UIDs (upper-cased), none of them the reserved one, every
reference naming an element of the document (the common definitions) -/
structure WFChunk (lookup : Bytes → Option Bytes) (rows : List Entry) : Prop where
  nodup : (rows.map fun e => up e.audioTrackUID).Nodup
  notSilent : ∀ e ∈ rows, up e.audioTrackUID ≠ silentUID
  ref : ∀ e ∈ rows, ∃ x, lookup (up e.audioTrackFormatIDRef) = some x
  pack : ∀ e ∈ rows, ∀ p, e.audioPackFormatIDRef = some p → ∃ y, lookup p = some y

theorem resolve_pendOf (lookup : Bytes → Option Bytes) (e : Entry)
    (hr : ∃ x, lookup (up e.audioTrackFormatIDRef) = some x)
    (hp : ∀ p, e.audioPackFormatIDRef = some p → ∃ y, lookup p = some y) :
    resolveTrack lookup (pendOf e) = .ok (trackOf lookup e) := by
  obtain ⟨idx, uid, ref, pack⟩ := e
  obtain ⟨x, hx⟩ := hr
  simp only at hx hp
  cases hpre : acPrefix.isPrefixOf ref <;> cases pack with
    | none => simp [resolveTrack, pendOf, trackOf, hpre, hx, bind, Except.bind, pure, Except.pure]
    | some p =>
      obtain ⟨y, hy⟩ := hp p rfl
      simp [resolveTrack, pendOf, trackOf, hpre, hx, hy, bind, Except.bind, pure, Except.pure]

/-- **No AXML.**  Every row of a well-formed chunk yields an audioTrackUID with exactly the row's data, in row order. -/
theorem chna_only (lookup : Bytes → Option Bytes) (rows : List Entry) (h : WFChunk lookup rows) :
    loadChna lookup [] rows = .ok (rows.map (trackOf lookup)) := by
  unfold loadChna loadRows
  simp only [foldl_new, List.nil_append, bind, Except.bind]
  have hsil : (rows.map pendOf).any (fun t => up t.id == silentUID) = false := by
    rw [List.any_eq_false]
    intro m hm
    obtain ⟨e, he, rfl⟩ := List.mem_map.mp hm
    simp only [beq_iff_eq, pendOf, up_idem]
    exact h.notSilent e he
  have hnd : noDuplicates (rows.map pendOf) = true := by
    apply noDuplicates_of_nodup
    have : ((rows.map pendOf).map fun t => up t.id) = rows.map fun e => up e.audioTrackUID := by
      simp [List.map_map, Function.comp_def, pendOf, up_idem]
    rw [this]; exact h.nodup
  simp only [hsil, hnd, Bool.false_eq_true, if_false, Bool.not_true, pure, Except.pure]
  have : ∀ l : List Entry, (∀ e ∈ l, e ∈ rows) →
      (l.map pendOf).mapM (resolveTrack lookup) = .ok (l.map (trackOf lookup)) := by
    intro l
    induction l with
    | nil => intro _; rfl
    | cons e l ih =>
      intro hl
      have he := hl e (by simp)
      simp [List.mapM_cons, resolve_pendOf lookup e (h.ref e he) (h.pack e he),
        ih (fun x hx => hl x (by simp [hx])), bind, Except.bind, pure, Except.pure]
  exact this rows (fun _ h => h)

/-- … and writing the CHNA chunk again for the loaded document reproduces the rows, when the chunk names the
elements by their stored ids (upper-case UID; `lookup` answers the id asked for) -/
theorem populate_chna_only (lookup : Bytes → Option Bytes) (rows : List Entry)
    (huid : ∀ e ∈ rows, up e.audioTrackUID = e.audioTrackUID)
    (href : ∀ e ∈ rows, lookup (up e.audioTrackFormatIDRef) = some e.audioTrackFormatIDRef)
    (hpack : ∀ e ∈ rows, ∀ p, e.audioPackFormatIDRef = some p → lookup p = some p) :
    populateChna (rows.map (trackOf lookup)) = .ok rows := by
  unfold populateChna
  induction rows with
  | nil => rfl
  | cons e rows ih =>
    have h1 : entryOf (trackOf lookup e) = .ok e := by
      have hu := huid e (by simp)
      have hr := href e (by simp)
      have hp := hpack e (by simp)
      obtain ⟨idx, uid, ref, pack⟩ := e
      simp only at hu hr hp
      cases hpre : acPrefix.isPrefixOf ref <;> cases pack with
        | none => simp [entryOf, trackOf, hpre, hr, hu]
        | some p => simp [entryOf, trackOf, hpre, hr, hu, hp p rfl]
    simp [List.mapM_cons, h1, ih (fun x hx => huid x (by simp [hx])) (fun x hx => href x (by simp [hx]))
      (fun x hx => hpack x (by simp [hx])), bind, Except.bind, pure, Except.pure]

/-! ### rows in document order -/

theorem mapM_entryOf_uids : ∀ (tracks : List TrackUID) (rows : List Entry), tracks.mapM entryOf = .ok rows →
    rows.map (·.audioTrackUID) = tracks.map (·.id) ∧
    rows.map (fun e => some e.trackIndex) = tracks.map (·.trackIndex) := by
  intro tracks
  induction tracks with
  | nil => intro rows h; simp [pure, Except.pure] at h; subst h; simp
  | cons t ts ih =>
    intro rows h
    simp only [List.mapM_cons, bind, Except.bind] at h
    cases he : entryOf t with
    | error x => simp [he] at h
    | ok e =>
      simp only [he] at h
      cases hr : ts.mapM entryOf with
      | error x => simp [hr] at h
      | ok rs =>
        simp only [hr, pure, Except.pure, Except.ok.injEq] at h
        subst h
        obtain ⟨h1, h2⟩ := ih rs hr
        have : e.audioTrackUID = t.id ∧ some e.trackIndex = t.trackIndex := by
          unfold entryOf at he
          split at he
          · cases he
          · rename_i hidx
            split at he <;> cases he <;> simp [hidx]
        simp [h1, h2, this.1, this.2]

/-! ### conflicts -/

/-- a row (the first of the chunk) whose UID the document knows: whatever `loadInto` raises for the track UID found
is what `load_chna_chunk` raises -/
theorem load_first_row_error (lookup : Bytes → Option Bytes) (tracks : List TrackUID)
    (hnd : (tracks.map fun t => up t.id).Nodup) (j : Nat) (t : TrackUID) (e : Entry) (rest : List Entry) (x : Err)
    (ht : tracks[j]? = some t) (hu : up e.audioTrackUID = up t.id) (herr : loadInto t e = .error x) :
    loadChna lookup tracks (e :: rest) = .error x := by
  have hd := dictGet_of_nodup tracks hnd j t ht
  unfold loadChna loadRows
  simp only [List.foldlM_cons, bind, Except.bind]
  have : loadRow (dictGet tracks) tracks e = .error x := by
    unfold loadRow
    simp only [hu, hd, ht, herr, bind, Except.bind]
  simp [this]

/-- a document whose track UIDs have nothing pending, distinct UIDs, none reserved, is left as it is by an empty
chunk: a UID present in the AXML but absent from CHNA keeps `trackIndex = None` (no error) -/
theorem load_no_rows (lookup : Bytes → Option Bytes) (tracks : List TrackUID)
    (hnd : (tracks.map fun t => up t.id).Nodup) (hs : ∀ t ∈ tracks, up t.id ≠ silentUID)
    (hp : ∀ t ∈ tracks, t.audioTrackFormatIDRef = none ∧ t.audioChannelFormatIDRef = none ∧ t.audioPackFormatIDRef = none) :
    loadChna lookup tracks [] = .ok tracks := by
  unfold loadChna loadRows
  have hsil : tracks.any (fun t => up t.id == silentUID) = false := by
    rw [List.any_eq_false]; intro t ht; simpa using hs t ht
  simp only [List.foldlM_nil, pure, Except.pure, bind, Except.bind, hsil, noDuplicates_of_nodup tracks hnd,
    Bool.false_eq_true, if_false, Bool.not_true]
  have : ∀ l : List TrackUID, (∀ t ∈ l, t ∈ tracks) → l.mapM (resolveTrack lookup) = .ok l := by
    intro l
    induction l with
    | nil => intro _; rfl
    | cons t l ih =>
      intro hl
      obtain ⟨h1, h2, h3⟩ := hp t (hl t (by simp))
      have : resolveTrack lookup t = .ok t := by
        simp [resolveTrack, h1, h2, h3, bind, Except.bind, pure, Except.pure]
      simp [List.mapM_cons, this, ih (fun x hx => hl x (by simp [hx])), bind, Except.bind, pure, Except.pure]
  exact this tracks (fun _ h => h)

/-- the four ways in which a CHNA row contradicts the track UID it names, and what `loadInto` raises for each: another
track index (`AssertionError`); both format references set; a format reference of the other kind or with another
id (compared upper-cased); another pack format id -/
theorem loadInto_conflicts (t : TrackUID) (e : Entry) :
    (∀ i, t.trackIndex = some i → i ≠ e.trackIndex → loadInto t e = .error .indexMismatch) ∧
    ((t.trackIndex = none ∨ t.trackIndex = some e.trackIndex) →
      ((∃ a b, t.audioTrackFormat = some a ∧ t.audioChannelFormat = some b) → loadInto t e = .error .bothLinked) ∧
      (∀ c, t.audioChannelFormat = some c → t.audioTrackFormat = none →
        ¬ (acPrefix.isPrefixOf e.audioTrackFormatIDRef = true ∧ up e.audioTrackFormatIDRef = up c) →
        loadInto t e = .error .refConflict) ∧
      (∀ r, t.audioTrackFormat = some r → t.audioChannelFormat = none →
        ¬ (acPrefix.isPrefixOf e.audioTrackFormatIDRef = false ∧ up e.audioTrackFormatIDRef = up r) →
        loadInto t e = .error .refConflict) ∧
      (∀ c p q, t.audioChannelFormat = some c → t.audioTrackFormat = none →
        acPrefix.isPrefixOf e.audioTrackFormatIDRef = true → up e.audioTrackFormatIDRef = up c →
        e.audioPackFormatIDRef = some p → t.audioPackFormat = some q → up q ≠ up p →
        loadInto t e = .error .packConflict) ∧
      (∀ r p q, t.audioTrackFormat = some r → t.audioChannelFormat = none →
        acPrefix.isPrefixOf e.audioTrackFormatIDRef = false → up e.audioTrackFormatIDRef = up r →
        e.audioPackFormatIDRef = some p → t.audioPackFormat = some q → up q ≠ up p →
        loadInto t e = .error .packConflict)) := by
  obtain ⟨id, idx, tf, cf, pf, tfr, cfr, pfr⟩ := t
  obtain ⟨eidx, uid, ref, pack⟩ := e
  refine ⟨?_, ?_⟩
  · intro i hi hne
    simp only at hi; subst hi
    simp [loadInto, hne, bind, Except.bind]
  · intro hidx
    refine ⟨?_, ?_, ?_, ?_, ?_⟩
    · rintro ⟨a, b, ha, hb⟩
      simp only at ha hb; subst ha hb
      rcases hidx with h | h <;> simp only at h <;> subst h <;>
        simp [loadInto, loadFormatRef, bind, Except.bind, pure, Except.pure]
    · intro c hc htf hne
      simp only at hc htf hne; subst hc htf
      rcases hidx with h | h <;> simp only at h <;> subst h <;>
        simp only [loadInto, loadFormatRef, bind, Except.bind, pure, Except.pure, if_true, if_neg hne]
    · intro r hr hcf hne
      simp only at hr hcf hne; subst hr hcf
      rcases hidx with h | h <;> simp only at h <;> subst h <;>
        simp only [loadInto, loadFormatRef, bind, Except.bind, pure, Except.pure, if_true, if_neg hne]
    · intro c p q hc htf hpre hup hp hq hne
      simp only at hc htf hpre hup hp hq; subst hc htf hp hq
      have hc : acPrefix.isPrefixOf ref = true ∧ up ref = up c := ⟨hpre, hup⟩
      rcases hidx with h | h <;> simp only at h <;> subst h <;>
        simp only [loadInto, loadFormatRef, loadPackRef, bind, Except.bind, pure, Except.pure, if_true, if_pos hc,
          if_neg hne]
    · intro r p q hr hcf hpre hup hp hq hne
      simp only at hr hcf hpre hup hp hq; subst hr hcf hp hq
      have hc : acPrefix.isPrefixOf ref = false ∧ up ref = up r := ⟨hpre, hup⟩
      rcases hidx with h | h <;> simp only at h <;> subst h <;>
        simp only [loadInto, loadFormatRef, loadPackRef, bind, Except.bind, pure, Except.pure, if_true, if_pos hc,
          if_neg hne]

/-! ### `validate_trackIndex`, counts -/

theorem validateTrackIndex_ok_iff (tracks : List TrackUID) (n : Nat) :
    validateTrackIndex tracks n = .ok () ↔ ∀ t ∈ tracks, ∀ i, t.trackIndex = some i → i ≤ n := by
  unfold validateTrackIndex
  cases hany : tracks.any (fun t => match t.trackIndex with | some i => decide (n < i) | none => false) with
  | true =>
    simp only [if_true, reduceCtorEq, false_iff]
    intro h
    rw [List.any_eq_true] at hany
    obtain ⟨t, ht, hb⟩ := hany
    cases hi : t.trackIndex with
    | none => simp [hi] at hb
    | some i =>
      simp only [hi, decide_eq_true_eq] at hb
      have := h t ht i hi
      omega
  | false =>
    simp only [Bool.false_eq_true, if_false, true_iff]
    intro t ht i hi
    rw [List.any_eq_false] at hany
    have := hany t ht
    simp only [hi, decide_eq_true_eq] at this
    omega

theorem distinctCount_le (l : List Nat) : distinctCount l ≤ l.length := by
  induction l with
  | nil => simp [distinctCount]
  | cons x xs ih => simp only [distinctCount, List.length_cons]; split <;> omega

theorem numTracks_le_numUIDs (rows : List Entry) : numTracks rows ≤ numUIDs rows := by
  unfold numTracks numUIDs
  have := distinctCount_le (rows.map (·.trackIndex))
  simpa using this

/-! ### the table part of the chunk -/

theorem u16_decode (n : Nat) (h : n < 65536) :
    (UInt8.ofNat (n % 256)).toNat + 256 * (UInt8.ofNat (n / 256)).toNat = n := by
  simp only [UInt8.toNat_ofNat']
  omega

theorem readRows_flatten : ∀ (rows : List Entry) (bss : List Bytes) (tail : Bytes), rows.mapM encode = some bss →
    (∀ e ∈ rows, ∀ bs, encode e = some bs → bs.length = 40 ∧ decode bs = some e) →
    readRows rows.length (bss.flatten ++ tail) = some rows := by
  intro rows
  induction rows with
  | nil => intro bss tail _ _; rfl
  | cons e rows ih =>
    intro bss tail hm hrow
    simp only [List.mapM_cons, bind, Option.bind] at hm
    cases he : encode e with
    | none => simp [he] at hm
    | some bs =>
      simp only [he] at hm
      cases hr : rows.mapM encode with
      | none => simp [hr] at hm
      | some bs' =>
        simp only [hr, pure, Option.some.injEq] at hm
        subst hm
        obtain ⟨hlen, hdec⟩ := hrow e (by simp) bs he
        simp only [List.length_cons, readRows, List.flatten_cons, List.append_assoc]
        have h1 : (bs ++ (bs'.flatten ++ tail)).take 40 = bs := by rw [← hlen]; simp
        have h2 : (bs ++ (bs'.flatten ++ tail)).drop 40 = bs'.flatten ++ tail := by rw [← hlen]; simp
        rw [h1, h2, hdec, ih bs' tail hr (fun x hx => hrow x (by simp [hx]))]
        rfl

/-- **The table of the chunk.**  For fewer than 65 536 rows that the row codec round-trips, the chunk data written by
`ChnaChunk.asByteArray` (`numTracks` = number of distinct indices, `numUIDs` = number of rows) is read back by
`_read_chna_chunk` as the same rows; the `numTracks` consistency check passes. -/
theorem chunk_roundtrip (rows : List Entry) (hlen : rows.length < 65536)
    (hrow : ∀ e ∈ rows, ∃ bs, encode e = some bs ∧ bs.length = 40 ∧ decode bs = some e) :
    ∃ bs, encodeChunk rows = some bs ∧ decodeChunk bs = .ok rows := by
  have hm : ∃ bss, rows.mapM encode = some bss := by
    have : ∀ l : List Entry, (∀ e ∈ l, e ∈ rows) → ∃ bss, l.mapM encode = some bss := by
      intro l
      induction l with
      | nil => intro _; exact ⟨[], rfl⟩
      | cons e l ih =>
        intro hl
        obtain ⟨bs, he, _⟩ := hrow e (hl e (by simp))
        obtain ⟨bss, hb⟩ := ih (fun x hx => hl x (by simp [hx]))
        exact ⟨bs :: bss, by simp [List.mapM_cons, he, hb]⟩
    exact this rows (fun _ h => h)
  obtain ⟨bss, hbss⟩ := hm
  have hnt : numTracks rows < 65536 := Nat.lt_of_le_of_lt (numTracks_le_numUIDs rows) hlen
  refine ⟨u16 (numTracks rows) ++ u16 (numUIDs rows) ++ bss.flatten, ?_, ?_⟩
  · unfold encodeChunk
    have : ¬ 65536 ≤ numUIDs rows := by unfold numUIDs; omega
    simp [this, hbss]
  · unfold decodeChunk
    have hread := readRows_flatten rows bss [] hbss (fun e he bs hbs => by
      obtain ⟨bs', h1, h2, h3⟩ := hrow e he
      rw [h1] at hbs; injection hbs with hbs; subst hbs; exact ⟨h2, h3⟩)
    simp only [List.append_nil] at hread
    simp only [u16, List.cons_append, List.nil_append, List.length_cons, List.getD_cons_zero, List.getD_cons_succ,
      List.drop_succ_cons, List.drop_zero]
    have h0 : ¬ (bss.flatten.length + 1 + 1 + 1 + 1 < 4) := by omega
    simp only [h0, if_false, u16_decode _ hnt, u16_decode _ (show numUIDs rows < 65536 from hlen)]
    unfold numUIDs
    simp [hread]

end Earverif.ChnaTransfer
