/-
FROZEN copy of the handler tables (`Gen/C08_Handlers.lean` as extracted when the class-level proofs were written).
The `…Rows_eq` obligations in `Proofs/C08Tables.lean` compare the REGENERATED tables with these rows on every run
(`decide +kernel`); the `…Props_eq` theorems show that the concrete parsers of `Model/XmlBlocks.lean` /
`Model/XmlElements.lean` are what `ofRowG` builds from them.  Not regenerated.
-/
import Earverif.Model.XmlLeaf

namespace Earverif.C08Frozen
open Earverif.XmlCodec (Row)

/-- v1/audioProgramme -/
def f_v1_audioProgramme : List Row := [
  ⟨"Attribute", "audioProgrammeID", "id", "id", "StringType", "None", "None", true, false, "", [], "-"⟩,
  ⟨"Attribute", "audioProgrammeName", "audioProgrammeName", "audioProgrammeName", "StringType", "None", "None", true, false, "", [], "-"⟩,
  ⟨"Attribute", "audioProgrammeLanguage", "audioProgrammeLanguage", "audioProgrammeLanguage", "StringType", "None", "None", false, false, "", [], "-"⟩,
  ⟨"Attribute", "start", "start", "start", "TimeTypeV1", "None", "None", false, false, "", [], "-"⟩,
  ⟨"Attribute", "end", "end", "end", "TimeTypeV1", "None", "None", false, false, "", [], "-"⟩,
  ⟨"Attribute", "maxDuckingDepth", "maxDuckingDepth", "maxDuckingDepth", "FloatType", "None", "None", false, false, "", [], "-"⟩,
  ⟨"ListElement", "audioContentIDRef", "audioContentIDRef", "audioContents", "RefType", "-", "-", false, false, "", [], "-"⟩,
  ⟨"CustomElement", "audioProgrammeReferenceScreen", "referenceScreen", "referenceScreen", "-", "-", "-", false, false, "", [], "ElementParser.as_handler.<locals>.handle / ElementParser.as_handler.<locals>.to_xml"⟩,
  ⟨"CustomElement", "loudnessMetadata", "loudnessMetadata", "loudnessMetadata", "-", "-", "-", false, false, "", [], "ElementParser.as_list_handler.<locals>.handle / ElementParser.as_list_handler.<locals>.to_xml"⟩,
  ⟨"CustomElement", "alternativeValueSetIDRef", "-", "-", "-", "-", "-", false, false, "", [], "make_no_element_before_v2.<locals>.handle / make_no_element_before_v2.<locals>.to_xml"⟩
]

/-- v1/audioContent -/
def f_v1_audioContent : List Row := [
  ⟨"Attribute", "audioContentID", "id", "id", "StringType", "None", "None", true, false, "", [], "-"⟩,
  ⟨"Attribute", "audioContentName", "audioContentName", "audioContentName", "StringType", "None", "None", true, false, "", [], "-"⟩,
  ⟨"Attribute", "audioContentLanguage", "audioContentLanguage", "audioContentLanguage", "StringType", "None", "None", false, false, "", [], "-"⟩,
  ⟨"AttrElement", "dialogue", "dialogue", "dialogue", "IntType", "None", "None", false, false, "", [], "-"⟩,
  ⟨"ListElement", "audioObjectIDRef", "audioObjectIDRef", "audioObjects", "RefType", "-", "-", false, false, "", [], "-"⟩,
  ⟨"CustomElement", "loudnessMetadata", "loudnessMetadata", "loudnessMetadata", "-", "-", "-", false, false, "", [], "ElementParser.as_list_handler.<locals>.handle / ElementParser.as_list_handler.<locals>.to_xml"⟩,
  ⟨"CustomElement", "alternativeValueSetIDRef", "-", "-", "-", "-", "-", false, false, "", [], "make_no_element_before_v2.<locals>.handle / make_no_element_before_v2.<locals>.to_xml"⟩
]

/-- v1/audioObject -/
def f_v1_audioObject : List Row := [
  ⟨"Attribute", "audioObjectID", "id", "id", "StringType", "None", "None", true, false, "", [], "-"⟩,
  ⟨"Attribute", "audioObjectName", "audioObjectName", "audioObjectName", "StringType", "None", "None", true, false, "", [], "-"⟩,
  ⟨"Attribute", "start", "start", "start", "TimeTypeV1", "None", "None", false, false, "", [], "-"⟩,
  ⟨"Attribute", "duration", "duration", "duration", "TimeTypeV1", "None", "None", false, false, "", [], "-"⟩,
  ⟨"Attribute", "dialogue", "dialogue", "dialogue", "IntType", "None", "None", false, false, "", [], "-"⟩,
  ⟨"Attribute", "importance", "importance", "importance", "IntType", "None", "None", false, false, "", [], "-"⟩,
  ⟨"Attribute", "interact", "interact", "interact", "BoolType", "None", "None", false, false, "", [], "-"⟩,
  ⟨"Attribute", "disableDucking", "disableDucking", "disableDucking", "BoolType", "None", "None", false, false, "", [], "-"⟩,
  ⟨"ListElement", "audioPackFormatIDRef", "audioPackFormatIDRef", "audioPackFormats", "RefType", "-", "-", false, false, "", [], "-"⟩,
  ⟨"ListElement", "audioObjectIDRef", "audioObjectIDRef", "audioObjects", "RefType", "-", "-", false, false, "", [], "-"⟩,
  ⟨"ListElement", "audioComplementaryObjectIDRef", "audioComplementaryObjectIDRef", "audioComplementaryObjects", "RefType", "-", "-", false, false, "", [], "-"⟩,
  ⟨"ListElement", "audioTrackUIDRef", "audioTrackUIDRef", "audioTrackUIDs", "TrackUIDRefType", "-", "-", false, false, "", [], "-"⟩,
  ⟨"CustomElement", "gain", "-", "-", "-", "-", "-", false, false, "", [], "make_no_element_before_v2.<locals>.handle / make_no_element_before_v2.<locals>.to_xml"⟩,
  ⟨"CustomElement", "mute", "-", "-", "-", "-", "-", false, false, "", [], "make_no_element_before_v2.<locals>.handle / make_no_element_before_v2.<locals>.to_xml"⟩,
  ⟨"CustomElement", "positionOffset", "-", "-", "-", "-", "-", false, false, "", [], "make_no_element_before_v2.<locals>.handle / make_no_element_before_v2.<locals>.to_xml"⟩,
  ⟨"CustomElement", "alternativeValueSet", "-", "-", "-", "-", "-", false, false, "", [], "make_no_element_before_v2.<locals>.handle / make_no_element_before_v2.<locals>.to_xml"⟩,
  ⟨"CustomElement", "audioObjectInteraction", "audioObjectInteraction", "audioObjectInteraction", "-", "-", "-", false, false, "", [], "ElementParser.as_handler.<locals>.handle / ElementParser.as_handler.<locals>.to_xml"⟩
]

/-- v1/audioChannelFormat -/
def f_v1_audioChannelFormat : List Row := [
  ⟨"Attribute", "audioChannelFormatID", "id", "id", "StringType", "None", "None", true, false, "", [], "-"⟩,
  ⟨"Attribute", "audioChannelFormatName", "audioChannelFormatName", "audioChannelFormatName", "StringType", "None", "None", true, false, "", [], "-"⟩,
  ⟨"TypeAttribute", "typeDefinition", "type", "type", "-", "-", "-", true, false, "typeLabel", [("DirectSpeakers", 1), ("Matrix", 2), ("Objects", 3), ("HOA", 4), ("Binaural", 5)], "-"⟩,
  ⟨"CustomElement", "audioBlockFormat", "audioBlockFormats", "audioBlockFormats", "-", "-", "-", true, false, "", [], "MainElementHandler.make_block_format_handler.<locals>.handle / MainElementHandler.make_block_format_handler.<locals>.to_xml"⟩,
  ⟨"CustomElement", "frequency", "-", "-", "-", "-", "-", false, false, "", [], "handle_frequency / frequency_to_xml"⟩
]

/-- v1/audioPackFormat -/
def f_v1_audioPackFormat : List Row := [
  ⟨"Attribute", "audioPackFormatID", "id", "id", "StringType", "None", "None", true, false, "", [], "-"⟩,
  ⟨"Attribute", "audioPackFormatName", "audioPackFormatName", "audioPackFormatName", "StringType", "None", "None", true, false, "", [], "-"⟩,
  ⟨"TypeAttribute", "typeDefinition", "type", "type", "-", "-", "-", true, false, "typeLabel", [("DirectSpeakers", 1), ("Matrix", 2), ("Objects", 3), ("HOA", 4), ("Binaural", 5)], "-"⟩,
  ⟨"Attribute", "importance", "importance", "importance", "IntType", "None", "None", false, false, "", [], "-"⟩,
  ⟨"ListElement", "audioChannelFormatIDRef", "audioChannelFormatIDRef", "audioChannelFormats", "RefType", "-", "-", false, false, "", [], "-"⟩,
  ⟨"ListElement", "audioPackFormatIDRef", "audioPackFormatIDRef", "audioPackFormats", "RefType", "-", "-", false, false, "", [], "-"⟩,
  ⟨"AttrElement", "absoluteDistance", "absoluteDistance", "absoluteDistance", "FloatType", "None", "None", false, false, "", [], "-"⟩,
  ⟨"ListElement", "encodePackFormatIDRef", "encodePackFormatIDRef", "encodePackFormats", "RefType", "-", "-", false, false, "", [], "-"⟩,
  ⟨"ListElement", "decodePackFormatIDRef", "decodePackFormatIDRef", "decodePackFormats", "RefType", "-", "-", false, true, "", [], "-"⟩,
  ⟨"AttrElement", "inputPackFormatIDRef", "inputPackFormatIDRef", "inputPackFormat", "RefType", "None", "None", false, false, "", [], "-"⟩,
  ⟨"AttrElement", "outputPackFormatIDRef", "outputPackFormatIDRef", "outputPackFormat", "RefType", "None", "None", false, false, "", [], "-"⟩,
  ⟨"AttrElement", "normalization", "normalization", "normalization", "StringType", "None", "None", false, false, "", [], "-"⟩,
  ⟨"AttrElement", "nfcRefDist", "nfcRefDist", "nfcRefDist", "FloatType", "None", "None", false, false, "", [], "-"⟩,
  ⟨"AttrElement", "screenRef", "screenRef", "screenRef", "BoolType", "None", "None", false, false, "", [], "-"⟩
]

/-- v1/audioStreamFormat -/
def f_v1_audioStreamFormat : List Row := [
  ⟨"Attribute", "audioStreamFormatID", "id", "id", "StringType", "None", "None", true, false, "", [], "-"⟩,
  ⟨"Attribute", "audioStreamFormatName", "audioStreamFormatName", "audioStreamFormatName", "StringType", "None", "None", true, false, "", [], "-"⟩,
  ⟨"TypeAttribute", "formatDefinition", "format", "format", "-", "-", "-", true, false, "formatLabel", [("PCM", 1)], "-"⟩,
  ⟨"ListElement", "audioTrackFormatIDRef", "audioTrackFormatIDRef", "audioTrackFormats", "RefType", "-", "-", false, false, "", [], "-"⟩,
  ⟨"AttrElement", "audioChannelFormatIDRef", "audioChannelFormatIDRef", "audioChannelFormat", "RefType", "None", "None", false, false, "", [], "-"⟩,
  ⟨"AttrElement", "audioPackFormatIDRef", "audioPackFormatIDRef", "audioPackFormat", "RefType", "None", "None", false, false, "", [], "-"⟩
]

/-- v1/audioTrackFormat -/
def f_v1_audioTrackFormat : List Row := [
  ⟨"Attribute", "audioTrackFormatID", "id", "id", "StringType", "None", "None", true, false, "", [], "-"⟩,
  ⟨"Attribute", "audioTrackFormatName", "audioTrackFormatName", "audioTrackFormatName", "StringType", "None", "None", true, false, "", [], "-"⟩,
  ⟨"TypeAttribute", "formatDefinition", "format", "format", "-", "-", "-", true, false, "formatLabel", [("PCM", 1)], "-"⟩,
  ⟨"AttrElement", "audioStreamFormatIDRef", "audioStreamFormatIDRef", "audioStreamFormat", "RefType", "None", "None", false, false, "", [], "-"⟩
]

/-- v1/audioTrackUID -/
def f_v1_audioTrackUID : List Row := [
  ⟨"Attribute", "UID", "id", "id", "StringType", "None", "None", true, false, "", [], "-"⟩,
  ⟨"Attribute", "sampleRate", "sampleRate", "sampleRate", "IntType", "None", "None", false, false, "", [], "-"⟩,
  ⟨"Attribute", "bitDepth", "bitDepth", "bitDepth", "IntType", "None", "None", false, false, "", [], "-"⟩,
  ⟨"AttrElement", "audioTrackFormatIDRef", "audioTrackFormatIDRef", "audioTrackFormat", "RefType", "None", "None", false, false, "", [], "-"⟩,
  ⟨"CustomElement", "audioChannelFormatIDRef", "-", "-", "-", "-", "-", false, false, "", [], "make_no_element_before_v2.<locals>.handle / make_no_element_before_v2.<locals>.to_xml"⟩,
  ⟨"AttrElement", "audioPackFormatIDRef", "audioPackFormatIDRef", "audioPackFormat", "RefType", "None", "None", false, false, "", [], "-"⟩
]

/-- v1/audioBlockFormat:Objects -/
def f_v1_audioBlockFormat_Objects : List Row := [
  ⟨"Attribute", "audioBlockFormatID", "id", "id", "StringType", "None", "None", true, false, "", [], "-"⟩,
  ⟨"Attribute", "rtime", "rtime", "rtime", "TimeTypeV1", "None", "None", false, false, "", [], "-"⟩,
  ⟨"Attribute", "duration", "duration", "duration", "TimeTypeV1", "None", "None", false, false, "", [], "-"⟩,
  ⟨"GenericElement", "-", "-", "-", "-", "-", "-", false, false, "", [], "handle_objects_position / object_position_to_xml"⟩,
  ⟨"CustomElement", "channelLock", "-", "-", "-", "-", "-", false, false, "", [], "handle_channel_lock / channel_lock_to_xml"⟩,
  ⟨"CustomElement", "jumpPosition", "-", "-", "-", "-", "-", false, false, "", [], "handle_jump_position / jump_position_to_xml"⟩,
  ⟨"CustomElement", "objectDivergence", "-", "-", "-", "-", "-", false, false, "", [], "handle_divergence / divergence_to_xml"⟩,
  ⟨"AttrElement", "width", "width", "width", "FloatType", "0.0", "0.0", false, false, "", [], "-"⟩,
  ⟨"AttrElement", "height", "height", "height", "FloatType", "0.0", "0.0", false, false, "", [], "-"⟩,
  ⟨"AttrElement", "depth", "depth", "depth", "FloatType", "0.0", "0.0", false, false, "", [], "-"⟩,
  ⟨"AttrElement", "diffuse", "diffuse", "diffuse", "FloatType", "0.0", "0.0", false, false, "", [], "-"⟩,
  ⟨"AttrElement", "cartesian", "cartesian", "cartesian", "BoolType", "False", "False", false, false, "", [], "-"⟩,
  ⟨"AttrElement", "screenRef", "screenRef", "screenRef", "BoolType", "False", "False", false, false, "", [], "-"⟩,
  ⟨"CustomElement", "zoneExclusion", "zoneExclusion", "zoneExclusion", "-", "-", "-", false, false, "", [], "ElementParser.as_handler.<locals>.handle / ElementParser.as_handler.<locals>.to_xml"⟩,
  ⟨"CustomElement", "gain", "-", "-", "-", "-", "-", false, false, "", [], "handle_gain_element_v1 / gain_to_xml"⟩,
  ⟨"AttrElement", "importance", "importance", "importance", "IntType", "10", "10", false, false, "", [], "-"⟩
]

/-- v1/audioBlockFormat:DirectSpeakers -/
def f_v1_audioBlockFormat_DirectSpeakers : List Row := [
  ⟨"Attribute", "audioBlockFormatID", "id", "id", "StringType", "None", "None", true, false, "", [], "-"⟩,
  ⟨"Attribute", "rtime", "rtime", "rtime", "TimeTypeV1", "None", "None", false, false, "", [], "-"⟩,
  ⟨"Attribute", "duration", "duration", "duration", "TimeTypeV1", "None", "None", false, false, "", [], "-"⟩,
  ⟨"ListElement", "speakerLabel", "speakerLabel", "speakerLabel", "StringType", "-", "-", false, false, "", [], "-"⟩,
  ⟨"GenericElement", "-", "-", "-", "-", "-", "-", false, false, "", [], "handle_speaker_position / speaker_position_to_xml"⟩,
  ⟨"CustomElement", "gain", "-", "-", "-", "-", "-", false, false, "", [], "make_no_element_before_v2.<locals>.handle / make_no_element_before_v2.<locals>.to_xml"⟩,
  ⟨"CustomElement", "importance", "-", "-", "-", "-", "-", false, false, "", [], "make_no_element_before_v2.<locals>.handle / make_no_element_before_v2.<locals>.to_xml"⟩
]

/-- v1/audioBlockFormat:Binaural -/
def f_v1_audioBlockFormat_Binaural : List Row := [
  ⟨"Attribute", "audioBlockFormatID", "id", "id", "StringType", "None", "None", true, false, "", [], "-"⟩,
  ⟨"Attribute", "rtime", "rtime", "rtime", "TimeTypeV1", "None", "None", false, false, "", [], "-"⟩,
  ⟨"Attribute", "duration", "duration", "duration", "TimeTypeV1", "None", "None", false, false, "", [], "-"⟩,
  ⟨"CustomElement", "gain", "-", "-", "-", "-", "-", false, false, "", [], "make_no_element_before_v2.<locals>.handle / make_no_element_before_v2.<locals>.to_xml"⟩,
  ⟨"CustomElement", "importance", "-", "-", "-", "-", "-", false, false, "", [], "make_no_element_before_v2.<locals>.handle / make_no_element_before_v2.<locals>.to_xml"⟩
]

/-- v1/audioBlockFormat:HOA -/
def f_v1_audioBlockFormat_HOA : List Row := [
  ⟨"Attribute", "audioBlockFormatID", "id", "id", "StringType", "None", "None", true, false, "", [], "-"⟩,
  ⟨"Attribute", "rtime", "rtime", "rtime", "TimeTypeV1", "None", "None", false, false, "", [], "-"⟩,
  ⟨"Attribute", "duration", "duration", "duration", "TimeTypeV1", "None", "None", false, false, "", [], "-"⟩,
  ⟨"AttrElement", "equation", "equation", "equation", "StringType", "None", "None", false, false, "", [], "-"⟩,
  ⟨"AttrElement", "order", "order", "order", "IntType", "None", "None", false, false, "", [], "-"⟩,
  ⟨"AttrElement", "degree", "degree", "degree", "IntType", "None", "None", false, false, "", [], "-"⟩,
  ⟨"AttrElement", "normalization", "normalization", "normalization", "StringType", "None", "None", false, false, "", [], "-"⟩,
  ⟨"AttrElement", "nfcRefDist", "nfcRefDist", "nfcRefDist", "FloatType", "None", "None", false, false, "", [], "-"⟩,
  ⟨"AttrElement", "screenRef", "screenRef", "screenRef", "BoolType", "None", "None", false, false, "", [], "-"⟩,
  ⟨"CustomElement", "gain", "-", "-", "-", "-", "-", false, false, "", [], "make_no_element_before_v2.<locals>.handle / make_no_element_before_v2.<locals>.to_xml"⟩,
  ⟨"CustomElement", "importance", "-", "-", "-", "-", "-", false, false, "", [], "make_no_element_before_v2.<locals>.handle / make_no_element_before_v2.<locals>.to_xml"⟩
]

/-- v1/audioBlockFormat:Matrix -/
def f_v1_audioBlockFormat_Matrix : List Row := [
  ⟨"Attribute", "audioBlockFormatID", "id", "id", "StringType", "None", "None", true, false, "", [], "-"⟩,
  ⟨"Attribute", "rtime", "rtime", "rtime", "TimeTypeV1", "None", "None", false, false, "", [], "-"⟩,
  ⟨"Attribute", "duration", "duration", "duration", "TimeTypeV1", "None", "None", false, false, "", [], "-"⟩,
  ⟨"AttrElement", "outputChannelFormatIDRef", "outputChannelFormatIDRef", "outputChannelFormat", "RefType", "None", "None", false, false, "", [], "-"⟩,
  ⟨"AttrElement", "outputChannelIDRef", "outputChannelFormatIDRef", "outputChannelFormat", "RefType", "None", "None", false, true, "", [], "-"⟩,
  ⟨"CustomElement", "matrix", "-", "-", "-", "-", "-", false, false, "", [], "MainElementHandler.make_block_format_matrix_handler.<locals>.handle_matrix / MainElementHandler.make_block_format_matrix_handler.<locals>.matrix_to_xml"⟩,
  ⟨"CustomElement", "gain", "-", "-", "-", "-", "-", false, false, "", [], "make_no_element_before_v2.<locals>.handle / make_no_element_before_v2.<locals>.to_xml"⟩,
  ⟨"CustomElement", "importance", "-", "-", "-", "-", "-", false, false, "", [], "make_no_element_before_v2.<locals>.handle / make_no_element_before_v2.<locals>.to_xml"⟩
]

/-- v1/loudnessMetadata -/
def f_v1_loudnessMetadata : List Row := [
  ⟨"Attribute", "loudnessMethod", "loudnessMethod", "loudnessMethod", "StringType", "None", "None", false, false, "", [], "-"⟩,
  ⟨"Attribute", "loudnessRecType", "loudnessRecType", "loudnessRecType", "StringType", "None", "None", false, false, "", [], "-"⟩,
  ⟨"Attribute", "loudnessCorrectionType", "loudnessCorrectionType", "loudnessCorrectionType", "StringType", "None", "None", false, false, "", [], "-"⟩,
  ⟨"AttrElement", "integratedLoudness", "integratedLoudness", "integratedLoudness", "FloatType", "None", "None", false, false, "", [], "-"⟩,
  ⟨"AttrElement", "loudnessRange", "loudnessRange", "loudnessRange", "FloatType", "None", "None", false, false, "", [], "-"⟩,
  ⟨"AttrElement", "maxTruePeak", "maxTruePeak", "maxTruePeak", "FloatType", "None", "None", false, false, "", [], "-"⟩,
  ⟨"AttrElement", "maxMomentary", "maxMomentary", "maxMomentary", "FloatType", "None", "None", false, false, "", [], "-"⟩,
  ⟨"AttrElement", "maxShortTerm", "maxShortTerm", "maxShortTerm", "FloatType", "None", "None", false, false, "", [], "-"⟩,
  ⟨"AttrElement", "dialogueLoudness", "dialogueLoudness", "dialogueLoudness", "FloatType", "None", "None", false, false, "", [], "-"⟩
]

/-- v1/audioObjectInteraction -/
def f_v1_audioObjectInteraction : List Row := [
  ⟨"Attribute", "onOffInteract", "onOffInteract", "onOffInteract", "BoolType", "None", "False", true, false, "", [], "-"⟩,
  ⟨"Attribute", "gainInteract", "gainInteract", "gainInteract", "BoolType", "None", "None", false, false, "", [], "-"⟩,
  ⟨"Attribute", "positionInteract", "positionInteract", "positionInteract", "BoolType", "None", "None", false, false, "", [], "-"⟩,
  ⟨"GenericElement", "-", "-", "-", "-", "-", "-", false, false, "", [], "MainElementHandler.make_gainInteractionRange_handler.<locals>.handle_gainInteractionRange / MainElementHandler.make_gainInteractionRange_handler.<locals>.gainInteractionRange_to_xml"⟩,
  ⟨"GenericElement", "-", "-", "-", "-", "-", "-", false, false, "", [], "MainElementHandler.make_positionInteractionRange_handler.<locals>.handle_positionInteractionRange / MainElementHandler.make_positionInteractionRange_handler.<locals>.positionInteractionRange_to_xml"⟩
]

/-- v1/alternativeValueSet -/
def f_v1_alternativeValueSet : List Row := [
  ⟨"Attribute", "alternativeValueSetID", "id", "id", "StringType", "None", "None", true, false, "", [], "-"⟩,
  ⟨"CustomElement", "gain", "-", "-", "-", "-", "-", false, false, "", [], "handle_gain_element_v2 / optional_gain_to_xml"⟩,
  ⟨"AttrElement", "mute", "mute", "mute", "BoolType", "None", "None", false, false, "", [], "-"⟩,
  ⟨"GenericElement", "-", "-", "-", "-", "-", "-", false, false, "", [], "handle_position_offset / position_offset_to_xml"⟩,
  ⟨"CustomElement", "audioObjectInteraction", "audioObjectInteraction", "audioObjectInteraction", "-", "-", "-", false, false, "", [], "ElementParser.as_handler.<locals>.handle / ElementParser.as_handler.<locals>.to_xml"⟩
]

/-- v1/coefficient -/
def f_v1_coefficient : List Row := [
  ⟨"HandleText", "-", "inputChannelFormatIDRef", "inputChannelFormat", "RefType", "-", "-", false, false, "", [], "-"⟩,
  ⟨"GenericElement", "-", "-", "-", "-", "-", "-", false, false, "", [], "handle_gain_attribute_v1 / gain_attribute_to_xml"⟩,
  ⟨"Attribute", "phase", "phase", "phase", "FloatType", "None", "None", false, false, "", [], "-"⟩,
  ⟨"Attribute", "delay", "delay", "delay", "FloatType", "None", "None", false, false, "", [], "-"⟩,
  ⟨"Attribute", "gainVar", "gainVar", "gainVar", "StringType", "None", "None", false, false, "", [], "-"⟩,
  ⟨"Attribute", "phaseVar", "phaseVar", "phaseVar", "StringType", "None", "None", false, false, "", [], "-"⟩,
  ⟨"Attribute", "delayVar", "delayVar", "delayVar", "StringType", "None", "None", false, false, "", [], "-"⟩
]

/-- v2/audioProgramme -/
def f_v2_audioProgramme : List Row := [
  ⟨"Attribute", "audioProgrammeID", "id", "id", "StringType", "None", "None", true, false, "", [], "-"⟩,
  ⟨"Attribute", "audioProgrammeName", "audioProgrammeName", "audioProgrammeName", "StringType", "None", "None", true, false, "", [], "-"⟩,
  ⟨"Attribute", "audioProgrammeLanguage", "audioProgrammeLanguage", "audioProgrammeLanguage", "StringType", "None", "None", false, false, "", [], "-"⟩,
  ⟨"Attribute", "start", "start", "start", "TimeType", "None", "None", false, false, "", [], "-"⟩,
  ⟨"Attribute", "end", "end", "end", "TimeType", "None", "None", false, false, "", [], "-"⟩,
  ⟨"Attribute", "maxDuckingDepth", "maxDuckingDepth", "maxDuckingDepth", "FloatType", "None", "None", false, false, "", [], "-"⟩,
  ⟨"ListElement", "audioContentIDRef", "audioContentIDRef", "audioContents", "RefType", "-", "-", false, false, "", [], "-"⟩,
  ⟨"CustomElement", "audioProgrammeReferenceScreen", "referenceScreen", "referenceScreen", "-", "-", "-", false, false, "", [], "ElementParser.as_handler.<locals>.handle / ElementParser.as_handler.<locals>.to_xml"⟩,
  ⟨"CustomElement", "loudnessMetadata", "loudnessMetadata", "loudnessMetadata", "-", "-", "-", false, false, "", [], "ElementParser.as_list_handler.<locals>.handle / ElementParser.as_list_handler.<locals>.to_xml"⟩,
  ⟨"ListElement", "alternativeValueSetIDRef", "alternativeValueSetIDRef", "alternativeValueSets", "RefType", "-", "-", false, false, "", [], "-"⟩
]

/-- v2/audioContent -/
def f_v2_audioContent : List Row := [
  ⟨"Attribute", "audioContentID", "id", "id", "StringType", "None", "None", true, false, "", [], "-"⟩,
  ⟨"Attribute", "audioContentName", "audioContentName", "audioContentName", "StringType", "None", "None", true, false, "", [], "-"⟩,
  ⟨"Attribute", "audioContentLanguage", "audioContentLanguage", "audioContentLanguage", "StringType", "None", "None", false, false, "", [], "-"⟩,
  ⟨"AttrElement", "dialogue", "dialogue", "dialogue", "IntType", "None", "None", false, false, "", [], "-"⟩,
  ⟨"ListElement", "audioObjectIDRef", "audioObjectIDRef", "audioObjects", "RefType", "-", "-", false, false, "", [], "-"⟩,
  ⟨"CustomElement", "loudnessMetadata", "loudnessMetadata", "loudnessMetadata", "-", "-", "-", false, false, "", [], "ElementParser.as_list_handler.<locals>.handle / ElementParser.as_list_handler.<locals>.to_xml"⟩,
  ⟨"ListElement", "alternativeValueSetIDRef", "alternativeValueSetIDRef", "alternativeValueSets", "RefType", "-", "-", false, false, "", [], "-"⟩
]

/-- v2/audioObject -/
def f_v2_audioObject : List Row := [
  ⟨"Attribute", "audioObjectID", "id", "id", "StringType", "None", "None", true, false, "", [], "-"⟩,
  ⟨"Attribute", "audioObjectName", "audioObjectName", "audioObjectName", "StringType", "None", "None", true, false, "", [], "-"⟩,
  ⟨"Attribute", "start", "start", "start", "TimeType", "None", "None", false, false, "", [], "-"⟩,
  ⟨"Attribute", "duration", "duration", "duration", "TimeType", "None", "None", false, false, "", [], "-"⟩,
  ⟨"Attribute", "dialogue", "dialogue", "dialogue", "IntType", "None", "None", false, false, "", [], "-"⟩,
  ⟨"Attribute", "importance", "importance", "importance", "IntType", "None", "None", false, false, "", [], "-"⟩,
  ⟨"Attribute", "interact", "interact", "interact", "BoolType", "None", "None", false, false, "", [], "-"⟩,
  ⟨"Attribute", "disableDucking", "disableDucking", "disableDucking", "BoolType", "None", "None", false, false, "", [], "-"⟩,
  ⟨"ListElement", "audioPackFormatIDRef", "audioPackFormatIDRef", "audioPackFormats", "RefType", "-", "-", false, false, "", [], "-"⟩,
  ⟨"ListElement", "audioObjectIDRef", "audioObjectIDRef", "audioObjects", "RefType", "-", "-", false, false, "", [], "-"⟩,
  ⟨"ListElement", "audioComplementaryObjectIDRef", "audioComplementaryObjectIDRef", "audioComplementaryObjects", "RefType", "-", "-", false, false, "", [], "-"⟩,
  ⟨"ListElement", "audioTrackUIDRef", "audioTrackUIDRef", "audioTrackUIDs", "TrackUIDRefType", "-", "-", false, false, "", [], "-"⟩,
  ⟨"CustomElement", "gain", "-", "-", "-", "-", "-", false, false, "", [], "handle_gain_element_v2 / gain_to_xml"⟩,
  ⟨"AttrElement", "mute", "mute", "mute", "BoolType", "False", "False", false, false, "", [], "-"⟩,
  ⟨"GenericElement", "-", "-", "-", "-", "-", "-", false, false, "", [], "handle_position_offset / position_offset_to_xml"⟩,
  ⟨"CustomElement", "alternativeValueSet", "alternativeValueSets", "alternativeValueSets", "-", "-", "-", false, false, "", [], "ElementParser.as_list_handler.<locals>.handle / ElementParser.as_list_handler.<locals>.to_xml"⟩,
  ⟨"CustomElement", "audioObjectInteraction", "audioObjectInteraction", "audioObjectInteraction", "-", "-", "-", false, false, "", [], "ElementParser.as_handler.<locals>.handle / ElementParser.as_handler.<locals>.to_xml"⟩
]

/-- v2/audioChannelFormat -/
def f_v2_audioChannelFormat : List Row := [
  ⟨"Attribute", "audioChannelFormatID", "id", "id", "StringType", "None", "None", true, false, "", [], "-"⟩,
  ⟨"Attribute", "audioChannelFormatName", "audioChannelFormatName", "audioChannelFormatName", "StringType", "None", "None", true, false, "", [], "-"⟩,
  ⟨"TypeAttribute", "typeDefinition", "type", "type", "-", "-", "-", true, false, "typeLabel", [("DirectSpeakers", 1), ("Matrix", 2), ("Objects", 3), ("HOA", 4), ("Binaural", 5)], "-"⟩,
  ⟨"CustomElement", "audioBlockFormat", "audioBlockFormats", "audioBlockFormats", "-", "-", "-", true, false, "", [], "MainElementHandler.make_block_format_handler.<locals>.handle / MainElementHandler.make_block_format_handler.<locals>.to_xml"⟩,
  ⟨"CustomElement", "frequency", "-", "-", "-", "-", "-", false, false, "", [], "handle_frequency / frequency_to_xml"⟩
]

/-- v2/audioPackFormat -/
def f_v2_audioPackFormat : List Row := [
  ⟨"Attribute", "audioPackFormatID", "id", "id", "StringType", "None", "None", true, false, "", [], "-"⟩,
  ⟨"Attribute", "audioPackFormatName", "audioPackFormatName", "audioPackFormatName", "StringType", "None", "None", true, false, "", [], "-"⟩,
  ⟨"TypeAttribute", "typeDefinition", "type", "type", "-", "-", "-", true, false, "typeLabel", [("DirectSpeakers", 1), ("Matrix", 2), ("Objects", 3), ("HOA", 4), ("Binaural", 5)], "-"⟩,
  ⟨"Attribute", "importance", "importance", "importance", "IntType", "None", "None", false, false, "", [], "-"⟩,
  ⟨"ListElement", "audioChannelFormatIDRef", "audioChannelFormatIDRef", "audioChannelFormats", "RefType", "-", "-", false, false, "", [], "-"⟩,
  ⟨"ListElement", "audioPackFormatIDRef", "audioPackFormatIDRef", "audioPackFormats", "RefType", "-", "-", false, false, "", [], "-"⟩,
  ⟨"AttrElement", "absoluteDistance", "absoluteDistance", "absoluteDistance", "FloatType", "None", "None", false, false, "", [], "-"⟩,
  ⟨"ListElement", "encodePackFormatIDRef", "encodePackFormatIDRef", "encodePackFormats", "RefType", "-", "-", false, false, "", [], "-"⟩,
  ⟨"ListElement", "decodePackFormatIDRef", "decodePackFormatIDRef", "decodePackFormats", "RefType", "-", "-", false, true, "", [], "-"⟩,
  ⟨"AttrElement", "inputPackFormatIDRef", "inputPackFormatIDRef", "inputPackFormat", "RefType", "None", "None", false, false, "", [], "-"⟩,
  ⟨"AttrElement", "outputPackFormatIDRef", "outputPackFormatIDRef", "outputPackFormat", "RefType", "None", "None", false, false, "", [], "-"⟩,
  ⟨"AttrElement", "normalization", "normalization", "normalization", "StringType", "None", "None", false, false, "", [], "-"⟩,
  ⟨"AttrElement", "nfcRefDist", "nfcRefDist", "nfcRefDist", "FloatType", "None", "None", false, false, "", [], "-"⟩,
  ⟨"AttrElement", "screenRef", "screenRef", "screenRef", "BoolType", "None", "None", false, false, "", [], "-"⟩
]

/-- v2/audioStreamFormat -/
def f_v2_audioStreamFormat : List Row := [
  ⟨"Attribute", "audioStreamFormatID", "id", "id", "StringType", "None", "None", true, false, "", [], "-"⟩,
  ⟨"Attribute", "audioStreamFormatName", "audioStreamFormatName", "audioStreamFormatName", "StringType", "None", "None", true, false, "", [], "-"⟩,
  ⟨"TypeAttribute", "formatDefinition", "format", "format", "-", "-", "-", true, false, "formatLabel", [("PCM", 1)], "-"⟩,
  ⟨"ListElement", "audioTrackFormatIDRef", "audioTrackFormatIDRef", "audioTrackFormats", "RefType", "-", "-", false, false, "", [], "-"⟩,
  ⟨"AttrElement", "audioChannelFormatIDRef", "audioChannelFormatIDRef", "audioChannelFormat", "RefType", "None", "None", false, false, "", [], "-"⟩,
  ⟨"AttrElement", "audioPackFormatIDRef", "audioPackFormatIDRef", "audioPackFormat", "RefType", "None", "None", false, false, "", [], "-"⟩
]

/-- v2/audioTrackFormat -/
def f_v2_audioTrackFormat : List Row := [
  ⟨"Attribute", "audioTrackFormatID", "id", "id", "StringType", "None", "None", true, false, "", [], "-"⟩,
  ⟨"Attribute", "audioTrackFormatName", "audioTrackFormatName", "audioTrackFormatName", "StringType", "None", "None", true, false, "", [], "-"⟩,
  ⟨"TypeAttribute", "formatDefinition", "format", "format", "-", "-", "-", true, false, "formatLabel", [("PCM", 1)], "-"⟩,
  ⟨"AttrElement", "audioStreamFormatIDRef", "audioStreamFormatIDRef", "audioStreamFormat", "RefType", "None", "None", false, false, "", [], "-"⟩
]

/-- v2/audioTrackUID -/
def f_v2_audioTrackUID : List Row := [
  ⟨"Attribute", "UID", "id", "id", "StringType", "None", "None", true, false, "", [], "-"⟩,
  ⟨"Attribute", "sampleRate", "sampleRate", "sampleRate", "IntType", "None", "None", false, false, "", [], "-"⟩,
  ⟨"Attribute", "bitDepth", "bitDepth", "bitDepth", "IntType", "None", "None", false, false, "", [], "-"⟩,
  ⟨"AttrElement", "audioTrackFormatIDRef", "audioTrackFormatIDRef", "audioTrackFormat", "RefType", "None", "None", false, false, "", [], "-"⟩,
  ⟨"AttrElement", "audioChannelFormatIDRef", "audioChannelFormatIDRef", "audioChannelFormat", "RefType", "None", "None", false, false, "", [], "-"⟩,
  ⟨"AttrElement", "audioPackFormatIDRef", "audioPackFormatIDRef", "audioPackFormat", "RefType", "None", "None", false, false, "", [], "-"⟩
]

/-- v2/audioBlockFormat:Objects -/
def f_v2_audioBlockFormat_Objects : List Row := [
  ⟨"Attribute", "audioBlockFormatID", "id", "id", "StringType", "None", "None", true, false, "", [], "-"⟩,
  ⟨"Attribute", "rtime", "rtime", "rtime", "TimeType", "None", "None", false, false, "", [], "-"⟩,
  ⟨"Attribute", "duration", "duration", "duration", "TimeType", "None", "None", false, false, "", [], "-"⟩,
  ⟨"GenericElement", "-", "-", "-", "-", "-", "-", false, false, "", [], "handle_objects_position / object_position_to_xml"⟩,
  ⟨"CustomElement", "channelLock", "-", "-", "-", "-", "-", false, false, "", [], "handle_channel_lock / channel_lock_to_xml"⟩,
  ⟨"CustomElement", "jumpPosition", "-", "-", "-", "-", "-", false, false, "", [], "handle_jump_position / jump_position_to_xml"⟩,
  ⟨"CustomElement", "objectDivergence", "-", "-", "-", "-", "-", false, false, "", [], "handle_divergence / divergence_to_xml"⟩,
  ⟨"AttrElement", "width", "width", "width", "FloatType", "0.0", "0.0", false, false, "", [], "-"⟩,
  ⟨"AttrElement", "height", "height", "height", "FloatType", "0.0", "0.0", false, false, "", [], "-"⟩,
  ⟨"AttrElement", "depth", "depth", "depth", "FloatType", "0.0", "0.0", false, false, "", [], "-"⟩,
  ⟨"AttrElement", "diffuse", "diffuse", "diffuse", "FloatType", "0.0", "0.0", false, false, "", [], "-"⟩,
  ⟨"AttrElement", "cartesian", "cartesian", "cartesian", "BoolType", "False", "False", false, false, "", [], "-"⟩,
  ⟨"AttrElement", "screenRef", "screenRef", "screenRef", "BoolType", "False", "False", false, false, "", [], "-"⟩,
  ⟨"CustomElement", "zoneExclusion", "zoneExclusion", "zoneExclusion", "-", "-", "-", false, false, "", [], "ElementParser.as_handler.<locals>.handle / ElementParser.as_handler.<locals>.to_xml"⟩,
  ⟨"CustomElement", "gain", "-", "-", "-", "-", "-", false, false, "", [], "handle_gain_element_v2 / gain_to_xml"⟩,
  ⟨"AttrElement", "importance", "importance", "importance", "IntType", "10", "10", false, false, "", [], "-"⟩
]

/-- v2/audioBlockFormat:DirectSpeakers -/
def f_v2_audioBlockFormat_DirectSpeakers : List Row := [
  ⟨"Attribute", "audioBlockFormatID", "id", "id", "StringType", "None", "None", true, false, "", [], "-"⟩,
  ⟨"Attribute", "rtime", "rtime", "rtime", "TimeType", "None", "None", false, false, "", [], "-"⟩,
  ⟨"Attribute", "duration", "duration", "duration", "TimeType", "None", "None", false, false, "", [], "-"⟩,
  ⟨"ListElement", "speakerLabel", "speakerLabel", "speakerLabel", "StringType", "-", "-", false, false, "", [], "-"⟩,
  ⟨"GenericElement", "-", "-", "-", "-", "-", "-", false, false, "", [], "handle_speaker_position / speaker_position_to_xml"⟩,
  ⟨"CustomElement", "gain", "-", "-", "-", "-", "-", false, false, "", [], "handle_gain_element_v2 / gain_to_xml"⟩,
  ⟨"AttrElement", "importance", "importance", "importance", "IntType", "10", "10", false, false, "", [], "-"⟩
]

/-- v2/audioBlockFormat:Binaural -/
def f_v2_audioBlockFormat_Binaural : List Row := [
  ⟨"Attribute", "audioBlockFormatID", "id", "id", "StringType", "None", "None", true, false, "", [], "-"⟩,
  ⟨"Attribute", "rtime", "rtime", "rtime", "TimeType", "None", "None", false, false, "", [], "-"⟩,
  ⟨"Attribute", "duration", "duration", "duration", "TimeType", "None", "None", false, false, "", [], "-"⟩,
  ⟨"CustomElement", "gain", "-", "-", "-", "-", "-", false, false, "", [], "handle_gain_element_v2 / gain_to_xml"⟩,
  ⟨"AttrElement", "importance", "importance", "importance", "IntType", "10", "10", false, false, "", [], "-"⟩
]

/-- v2/audioBlockFormat:HOA -/
def f_v2_audioBlockFormat_HOA : List Row := [
  ⟨"Attribute", "audioBlockFormatID", "id", "id", "StringType", "None", "None", true, false, "", [], "-"⟩,
  ⟨"Attribute", "rtime", "rtime", "rtime", "TimeType", "None", "None", false, false, "", [], "-"⟩,
  ⟨"Attribute", "duration", "duration", "duration", "TimeType", "None", "None", false, false, "", [], "-"⟩,
  ⟨"AttrElement", "equation", "equation", "equation", "StringType", "None", "None", false, false, "", [], "-"⟩,
  ⟨"AttrElement", "order", "order", "order", "IntType", "None", "None", false, false, "", [], "-"⟩,
  ⟨"AttrElement", "degree", "degree", "degree", "IntType", "None", "None", false, false, "", [], "-"⟩,
  ⟨"AttrElement", "normalization", "normalization", "normalization", "StringType", "None", "None", false, false, "", [], "-"⟩,
  ⟨"AttrElement", "nfcRefDist", "nfcRefDist", "nfcRefDist", "FloatType", "None", "None", false, false, "", [], "-"⟩,
  ⟨"AttrElement", "screenRef", "screenRef", "screenRef", "BoolType", "None", "None", false, false, "", [], "-"⟩,
  ⟨"CustomElement", "gain", "-", "-", "-", "-", "-", false, false, "", [], "handle_gain_element_v2 / gain_to_xml"⟩,
  ⟨"AttrElement", "importance", "importance", "importance", "IntType", "10", "10", false, false, "", [], "-"⟩
]

/-- v2/audioBlockFormat:Matrix -/
def f_v2_audioBlockFormat_Matrix : List Row := [
  ⟨"Attribute", "audioBlockFormatID", "id", "id", "StringType", "None", "None", true, false, "", [], "-"⟩,
  ⟨"Attribute", "rtime", "rtime", "rtime", "TimeType", "None", "None", false, false, "", [], "-"⟩,
  ⟨"Attribute", "duration", "duration", "duration", "TimeType", "None", "None", false, false, "", [], "-"⟩,
  ⟨"AttrElement", "outputChannelFormatIDRef", "outputChannelFormatIDRef", "outputChannelFormat", "RefType", "None", "None", false, false, "", [], "-"⟩,
  ⟨"AttrElement", "outputChannelIDRef", "outputChannelFormatIDRef", "outputChannelFormat", "RefType", "None", "None", false, true, "", [], "-"⟩,
  ⟨"CustomElement", "matrix", "-", "-", "-", "-", "-", false, false, "", [], "MainElementHandler.make_block_format_matrix_handler.<locals>.handle_matrix / MainElementHandler.make_block_format_matrix_handler.<locals>.matrix_to_xml"⟩,
  ⟨"CustomElement", "gain", "-", "-", "-", "-", "-", false, false, "", [], "handle_gain_element_v2 / gain_to_xml"⟩,
  ⟨"AttrElement", "importance", "importance", "importance", "IntType", "10", "10", false, false, "", [], "-"⟩
]

/-- v2/loudnessMetadata -/
def f_v2_loudnessMetadata : List Row := [
  ⟨"Attribute", "loudnessMethod", "loudnessMethod", "loudnessMethod", "StringType", "None", "None", false, false, "", [], "-"⟩,
  ⟨"Attribute", "loudnessRecType", "loudnessRecType", "loudnessRecType", "StringType", "None", "None", false, false, "", [], "-"⟩,
  ⟨"Attribute", "loudnessCorrectionType", "loudnessCorrectionType", "loudnessCorrectionType", "StringType", "None", "None", false, false, "", [], "-"⟩,
  ⟨"AttrElement", "integratedLoudness", "integratedLoudness", "integratedLoudness", "FloatType", "None", "None", false, false, "", [], "-"⟩,
  ⟨"AttrElement", "loudnessRange", "loudnessRange", "loudnessRange", "FloatType", "None", "None", false, false, "", [], "-"⟩,
  ⟨"AttrElement", "maxTruePeak", "maxTruePeak", "maxTruePeak", "FloatType", "None", "None", false, false, "", [], "-"⟩,
  ⟨"AttrElement", "maxMomentary", "maxMomentary", "maxMomentary", "FloatType", "None", "None", false, false, "", [], "-"⟩,
  ⟨"AttrElement", "maxShortTerm", "maxShortTerm", "maxShortTerm", "FloatType", "None", "None", false, false, "", [], "-"⟩,
  ⟨"AttrElement", "dialogueLoudness", "dialogueLoudness", "dialogueLoudness", "FloatType", "None", "None", false, false, "", [], "-"⟩
]

/-- v2/audioObjectInteraction -/
def f_v2_audioObjectInteraction : List Row := [
  ⟨"Attribute", "onOffInteract", "onOffInteract", "onOffInteract", "BoolType", "None", "False", true, false, "", [], "-"⟩,
  ⟨"Attribute", "gainInteract", "gainInteract", "gainInteract", "BoolType", "None", "None", false, false, "", [], "-"⟩,
  ⟨"Attribute", "positionInteract", "positionInteract", "positionInteract", "BoolType", "None", "None", false, false, "", [], "-"⟩,
  ⟨"GenericElement", "-", "-", "-", "-", "-", "-", false, false, "", [], "MainElementHandler.make_gainInteractionRange_handler.<locals>.handle_gainInteractionRange / MainElementHandler.make_gainInteractionRange_handler.<locals>.gainInteractionRange_to_xml"⟩,
  ⟨"GenericElement", "-", "-", "-", "-", "-", "-", false, false, "", [], "MainElementHandler.make_positionInteractionRange_handler.<locals>.handle_positionInteractionRange / MainElementHandler.make_positionInteractionRange_handler.<locals>.positionInteractionRange_to_xml"⟩
]

/-- v2/alternativeValueSet -/
def f_v2_alternativeValueSet : List Row := [
  ⟨"Attribute", "alternativeValueSetID", "id", "id", "StringType", "None", "None", true, false, "", [], "-"⟩,
  ⟨"CustomElement", "gain", "-", "-", "-", "-", "-", false, false, "", [], "handle_gain_element_v2 / optional_gain_to_xml"⟩,
  ⟨"AttrElement", "mute", "mute", "mute", "BoolType", "None", "None", false, false, "", [], "-"⟩,
  ⟨"GenericElement", "-", "-", "-", "-", "-", "-", false, false, "", [], "handle_position_offset / position_offset_to_xml"⟩,
  ⟨"CustomElement", "audioObjectInteraction", "audioObjectInteraction", "audioObjectInteraction", "-", "-", "-", false, false, "", [], "ElementParser.as_handler.<locals>.handle / ElementParser.as_handler.<locals>.to_xml"⟩
]

/-- v2/coefficient -/
def f_v2_coefficient : List Row := [
  ⟨"HandleText", "-", "inputChannelFormatIDRef", "inputChannelFormat", "RefType", "-", "-", false, false, "", [], "-"⟩,
  ⟨"GenericElement", "-", "-", "-", "-", "-", "-", false, false, "", [], "handle_gain_attribute_v2 / gain_attribute_to_xml"⟩,
  ⟨"Attribute", "phase", "phase", "phase", "FloatType", "None", "None", false, false, "", [], "-"⟩,
  ⟨"Attribute", "delay", "delay", "delay", "FloatType", "None", "None", false, false, "", [], "-"⟩,
  ⟨"Attribute", "gainVar", "gainVar", "gainVar", "StringType", "None", "None", false, false, "", [], "-"⟩,
  ⟨"Attribute", "phaseVar", "phaseVar", "phaseVar", "StringType", "None", "None", false, false, "", [], "-"⟩,
  ⟨"Attribute", "delayVar", "delayVar", "delayVar", "StringType", "None", "None", false, false, "", [], "-"⟩
]

/-- audioProgrammeReferenceScreen -/
def f_audioProgrammeReferenceScreen : List Row := [
  ⟨"Attribute", "aspectRatio", "aspectRatio", "aspectRatio", "FloatType", "None", "<no-class>", true, false, "", [], "-"⟩,
  ⟨"CustomElement", "screenCentrePosition", "centrePosition", "centrePosition", "-", "-", "-", true, false, "", [], "handle_centre_position / centre_position_to_xml"⟩,
  ⟨"CustomElement", "screenWidth", "width", "width", "-", "-", "-", true, false, "", [], "handle_screen_width / screen_width_to_xml"⟩
]

/-- zoneExclusion -/
def f_zoneExclusion : List Row := [
  ⟨"CustomElement", "zone", "-", "-", "-", "-", "-", false, false, "", [], "handle_zone / zones_to_xml"⟩
]

end Earverif.C08Frozen
