/-
The numpy exceptions the renderer models of `Model/OverlapSave.lean` carry (`ChkErr`: `IndexError` for a track outside
the input, `ValueError` of `np.stack([])`, `ValueError` of `np.dot` for a decode matrix of the wrong width) versus the
totalised channel loops of `Model/Renderer.lean` (`procChans`, `Bpc.process`), which index with defaults.

`ChkRel strict P x y` relates a computation `x` with those exceptions to the totalised computation `y`:
* `x` succeeds  ⇒ `y` succeeds with a `P`-related result;
* `x` raises an exception of the totalised model ⇒ `y` raises the same one;
* `x` raises one of the three numpy exceptions ⇒ `strict` is false.
`strict` is instantiated with the static index conditions of a session (`IndexOK`): under them no numpy exception is
raised and the two models agree; without them (`strict := False`) the relation is the plain simulation.
-/
import Earverif.Model.OverlapSave
namespace Earverif.Renderer
open Earverif.Stream Earverif.Timeline

def ChkRel {ε α β : Type} (strict : Prop) (P : α → β → Prop) (x : Except (ChkErr ε) α) (y : Except ε β) : Prop :=
  match x with
  | .ok a => (match y with | .ok b => P a b | .error _ => False)
  | .error (.base e) => (match y with | .ok _ => False | .error e' => e = e')
  | .error _ => ¬ strict

section
variable {ε α β : Type} (strict : Prop) (P : α → β → Prop)

@[simp] theorem chkRel_ok_ok (a : α) (b : β) : ChkRel (ε := ε) strict P (.ok a) (.ok b) ↔ P a b := Iff.rfl
@[simp] theorem chkRel_ok_error (a : α) (e : ε) : ChkRel strict P (.ok a) (.error e : Except ε β) ↔ False := Iff.rfl
@[simp] theorem chkRel_base_error (e e' : ε) :
    ChkRel strict P (.error (.base e) : Except (ChkErr ε) α) (.error e' : Except ε β) ↔ e = e' := Iff.rfl
@[simp] theorem chkRel_base_ok (e : ε) (b : β) :
    ChkRel strict P (.error (.base e) : Except (ChkErr ε) α) (.ok b) ↔ False := Iff.rfl
@[simp] theorem chkRel_track (y : Except ε β) :
    ChkRel strict P (.error .trackIndex : Except (ChkErr ε) α) y ↔ ¬ strict := Iff.rfl
@[simp] theorem chkRel_stack (y : Except ε β) :
    ChkRel strict P (.error .emptyStack : Except (ChkErr ε) α) y ↔ ¬ strict := Iff.rfl
@[simp] theorem chkRel_dot (y : Except ε β) :
    ChkRel strict P (.error .dotShape : Except (ChkErr ε) α) y ↔ ¬ strict := Iff.rfl

@[simp] theorem liftC_ok (a : α) : liftC (.ok a : Except ε α) = .ok a := rfl
@[simp] theorem liftC_error (e : ε) : liftC (.error e : Except ε α) = .error (.base e) := rfl

/-- A totalised computation, lifted, is related to itself. -/
theorem chkRel_liftC (y : Except ε α) : ChkRel strict (fun r r' => r = r') (liftC y) y := by
  cases y with
  | ok a => simp
  | error e => simp

theorem ChkRel.mono {Q : α → β → Prop} {x : Except (ChkErr ε) α} {y : Except ε β} (h : ChkRel strict P x y)
    (hPQ : ∀ a b, P a b → Q a b) : ChkRel strict Q x y := by
  cases x with
  | ok a =>
    cases y with
    | ok b => exact hPQ a b h
    | error e => exact h
  | error e =>
    cases e with
    | base e0 =>
      cases y with
      | ok b => exact h
      | error e' => exact h
    | trackIndex => exact h
    | emptyStack => exact h
    | dotShape => exact h

/-- What the relation says when the totalised computation is known to succeed. -/
theorem ChkRel.of_ok {x : Except (ChkErr ε) α} {b : β} (h : ChkRel strict P x (.ok b)) :
    (∃ a, x = .ok a ∧ P a b) ∨
      (¬ strict ∧ (x = .error .trackIndex ∨ x = .error .emptyStack ∨ x = .error .dotShape)) := by
  cases x with
  | ok a => exact .inl ⟨a, rfl, h⟩
  | error e =>
    cases e with
    | base e0 => exact h.elim
    | trackIndex => exact .inr ⟨h, .inl rfl⟩
    | emptyStack => exact .inr ⟨h, .inr (.inl rfl)⟩
    | dotShape => exact .inr ⟨h, .inr (.inr rfl)⟩

end

/-- Closes the non-`ok/ok` cases of a step of a case analysis on two related computations. -/
macro "chk_close " h:ident : tactic =>
  `(tactic| (simp only [chkRel_ok_error, chkRel_base_error, chkRel_base_ok, chkRel_track, chkRel_stack, chkRel_dot,
      ChkErr.map] at $h:ident ⊢ <;> first | exact $h | (subst $h; rfl) | (rw [$h:ident]) | skip))

/-! ### `BlockProcessingChannel.process` with blocks that may raise (`bpcLoopC`, `bpcProcessC`) -/
section Bpc
variable {M S K ι V : Type}

/-- Everything still to be processed by a channel passes the check: the metadata blocks not yet pulled (`okM`) and the
processing blocks in the queue (`okK`). -/
def QOK (okM : M → Bool) (okK : K → Bool) (b : Bpc M S K) : Prop :=
  (∀ m ∈ b.source, okM m = true) ∧ (∀ pb ∈ b.queue, okK pb.k = true)

/-- The interpreter turns checked metadata into checked processing blocks. -/
def InterpOK (okM : M → Bool) (okK : K → Bool) (interp : S → M → Except Err (S × List (PBlock K))) : Prop :=
  ∀ st m st' new, interp st m = .ok (st', new) → okM m = true → ∀ pb ∈ new, okK pb.k = true

theorem refill_qok (okM : M → Bool) (okK : K → Bool) (interp : S → M → Except Err (S × List (PBlock K)))
    (hI : InterpOK okM okK interp) (check : Option Int) :
    ∀ (src : List M) (st : S) (q : List (PBlock K)) (b' : Bpc M S K),
      refill interp check src st q = .ok b' → (∀ m ∈ src, okM m = true) → (∀ pb ∈ q, okK pb.k = true) →
      QOK okM okK b' := by
  intro src
  induction src with
  | nil =>
    intro st q b' h hs hq
    simp only [refill, pure, Except.pure, Except.ok.injEq] at h
    subst h
    exact ⟨hs, hq⟩
  | cons m ms ih =>
    intro st q b' h hs hq
    by_cases hqe : q = []
    · subst hqe
      simp only [refill, ne_eq, not_true_eq_false, if_false, bind, Except.bind, List.nil_append] at h
      cases hi : interp st m with
      | error e => rw [hi] at h; cases h
      | ok r =>
        obtain ⟨st', new⟩ := r
        rw [hi] at h
        simp only at h
        have hnew := hI _ _ _ _ hi (hs m List.mem_cons_self)
        have hms : ∀ m' ∈ ms, okM m' = true := fun m' hm' => hs m' (List.mem_cons_of_mem _ hm')
        cases check with
        | none => exact ih st' new b' h hms hnew
        | some ss =>
          simp only at h
          split at h
          · simp only [throw, throwThe, MonadExceptOf.throw] at h
            cases h
          · exact ih st' new b' h hms hnew
    · simp only [refill, ne_eq, hqe, not_false_eq_true, if_true, pure, Except.pure, Except.ok.injEq] at h
      subst h
      exact ⟨hs, hq⟩

theorem bpcLoopC_rel (strict : Prop) (okM : M → Bool) (okK : K → Bool)
    (interp : S → M → Except Err (S × List (PBlock K))) (hI : InterpOK okM okK interp)
    (upd : K → Nat → ι → V → V) (ss : Int) (inp : List ι) :
    ∀ (fuel : Nat) (b : Bpc M S K) (out : List V), (strict → QOK okM okK b) →
      ChkRel strict (fun r r' => r = r' ∧ (strict → QOK okM okK r.1))
        (bpcLoopC okK interp upd ss inp fuel b out) (bpcLoop interp upd ss inp fuel b out) := by
  intro fuel
  induction fuel with
  | zero => intro b out h; simpa [bpcLoopC, bpcLoop, pure, Except.pure] using h
  | succ fuel ih =>
    intro b out h
    obtain ⟨src, ist, queue⟩ := b
    cases queue with
    | nil => simpa [bpcLoopC, bpcLoop, pure, Except.pure] using h
    | cons pb q =>
      simp only [bpcLoopC, bpcLoop, bind, Except.bind, pure, Except.pure]
      cases hk : okK pb.k with
      | false =>
        simp only [↓reduceIte, chkRel_dot]
        intro hs
        have := (h hs).2 pb List.mem_cons_self
        try simp only at this
        rw [hk] at this
        cases this
      | true =>
        simp only [Bool.true_eq_false, ↓reduceIte]
        have hq : strict → ∀ pb' ∈ q, okK pb'.k = true :=
          fun hs pb' hp => (h hs).2 pb' (List.mem_cons_of_mem _ hp)
        split
        · cases hr : refill interp none src ist q with
          | error e => simp
          | ok b' =>
            simp only
            exact ih b' _ (fun hs => refill_qok okM okK interp hI none src ist q b' hr (h hs).1 (hq hs))
        · split
          · simp only [chkRel_ok_ok, true_and]
            exact fun hs => ⟨(h hs).1, hq hs⟩
          · simp only [chkRel_ok_ok, true_and]
            exact h

theorem bpcProcessC_rel (strict : Prop) (okM : M → Bool) (okK : K → Bool)
    (interp : S → M → Except Err (S × List (PBlock K))) (hI : InterpOK okM okK interp)
    (upd : K → Nat → ι → V → V) (ss : Int) (inp : List ι) (out : List V) (b : Bpc M S K)
    (h : strict → QOK okM okK b) :
    ChkRel strict (fun r r' => r = r' ∧ (strict → QOK okM okK r.1))
      (bpcProcessC okK interp upd ss inp out b) (b.process interp upd ss inp out) := by
  simp only [bpcProcessC, Bpc.process, bind, Except.bind]
  cases hr : refill interp (some ss) b.source b.istate b.queue with
  | error e => simp
  | ok b' =>
    simp only
    exact bpcLoopC_rel strict okM okK interp hI upd ss inp _ b' out
      (fun hs => refill_qok okM okK interp hI (some ss) _ _ _ b' hr (h hs).1 (h hs).2)

/-- The HOA interpreter: the one processing block of a metadata block carries that block's decode matrix. -/
theorem interpFixed_ok {G : Type} (sr : Nat) (ok : G → Bool) :
    InterpOK (fun m : MetaBlock G => ok m.gains) ok (interpFixed sr) := by
  intro st m st' new h hm pb hp
  simp only [interpFixed] at h
  cases hb : blockStartEnd st.tlast m with
  | error e => rw [hb] at h; cases h
  | ok r =>
    obtain ⟨s, e⟩ := r
    rw [hb] at h
    simp only [Except.ok.injEq, Prod.mk.injEq] at h
    obtain ⟨-, rfl⟩ := h
    simp only [List.mem_singleton] at hp
    subst hp
    exact hm

end Bpc

/-! ### the channel loop -/
section Chans
variable {α M S K ι V : Type}

/-- `procChansC` against the totalised `procChans`, for any per-channel step `proc` related to `Bpc.process`, with a
per-channel invariant `Inv` that holds under `strict`. -/
theorem procChansC_rel (strict : Prop) (chkT : α → Option (ChkErr Err))
    (proc : α → Bpc M S K → List V → Except (ChkErr Err) (Bpc M S K × List V))
    (interp : S → M → Except Err (S × List (PBlock K))) (upd : K → Nat → ι → V → V) (ss : Int) (get : α → List ι)
    (Inv : α → Bpc M S K → Prop) (hbase : ∀ t e, chkT t ≠ some (.base e))
    (hproc : ∀ t b out, (strict → Inv t b) →
      ChkRel strict (fun r r' => r = r' ∧ (strict → Inv t r.1)) (proc t b out) (b.process interp upd ss (get t) out)) :
    ∀ (chans : List (α × Bpc M S K)) (out : List V), (strict → ∀ p ∈ chans, chkT p.1 = none ∧ Inv p.1 p.2) →
      ChkRel strict (fun r r' => r = r' ∧ (strict → ∀ p ∈ r.1, chkT p.1 = none ∧ Inv p.1 p.2))
        (procChansC chkT proc chans out) (procChans interp upd ss get chans out) := by
  intro chans
  induction chans with
  | nil => intro out _; simp [procChansC, procChans, pure, Except.pure]
  | cons p rest ih =>
    intro out h
    obtain ⟨t, b⟩ := p
    simp only [procChansC, procChans, bind, Except.bind, pure, Except.pure]
    cases hc : chkT t with
    | some e =>
      have hns : ¬ strict := by
        intro hs
        have := (h hs (t, b) List.mem_cons_self).1
        simp only at this
        rw [hc] at this
        cases this
      cases e with
      | base e0 => exact absurd hc (hbase t e0)
      | trackIndex => simpa using hns
      | emptyStack => simpa using hns
      | dotShape => simpa using hns
    | none =>
      simp only
      have h1 := hproc t b out (fun hs => (h hs (t, b) List.mem_cons_self).2)
      generalize proc t b out = ra at h1 ⊢
      generalize b.process interp upd ss (get t) out = rb at h1 ⊢
      rcases ra with e | r <;> rcases rb with e' | r'
      · cases e <;> chk_close h1
      · cases e <;> chk_close h1
      · chk_close h1
      · obtain ⟨b1, out1⟩ := r
        simp only [chkRel_ok_ok] at h1
        obtain ⟨rfl, hinv⟩ := h1
        simp only
        have h2 := ih out1 (fun hs p hp => h hs p (List.mem_cons_of_mem _ hp))
        generalize procChansC chkT proc rest out1 = ra at h2 ⊢
        generalize procChans interp upd ss get rest out1 = rb at h2 ⊢
        rcases ra with e | r <;> rcases rb with e' | r'
        · cases e <;> chk_close h2
        · cases e <;> chk_close h2
        · chk_close h2
        · obtain ⟨rest1, out2⟩ := r
          simp only [chkRel_ok_ok] at h2
          obtain ⟨rfl, hinv2⟩ := h2
          simp only [chkRel_ok_ok, true_and]
          intro hs p hp
          rcases List.mem_cons.mp hp with rfl | hp
          · exact ⟨(h hs (t, b) List.mem_cons_self).1, hinv hs⟩
          · exact hinv2 hs p hp

end Chans

end Earverif.Renderer

/-! ### the HOA channel loop with track processors -/
namespace Earverif.RendererTS
open Earverif.Stream Earverif.Timeline Earverif.Renderer
open Earverif.TrackSpec (Proc)

theorem stepList_length {α : Type} [TrackSpec.Sample α] (fs : Int) (nch : Nat) :
    ∀ (ps : List (Proc α)) (b : List (List α)) (ps' : List (Proc α)) (outs : List (List α)),
      TrackSpec.stepList fs nch ps b = .ok (ps', outs) → ps'.length = ps.length := by
  intro ps
  induction ps with
  | nil => intro b ps' outs h; simp only [TrackSpec.stepList, Except.ok.injEq, Prod.mk.injEq] at h; rw [← h.1]
  | cons p ps ih =>
    intro b ps' outs h
    simp only [TrackSpec.stepList] at h
    cases h1 : TrackSpec.step fs nch p b with
    | error e => rw [h1] at h; cases h
    | ok r =>
      obtain ⟨p1, o⟩ := r
      rw [h1] at h
      simp only at h
      cases h2 : TrackSpec.stepList fs nch ps b with
      | error e => rw [h2] at h; cases h
      | ok r2 =>
        obtain ⟨ps1, os⟩ := r2
        rw [h2] at h
        simp only [Except.ok.injEq, Prod.mk.injEq] at h
        rw [← h.1, List.length_cons, List.length_cons, ih b ps1 os h2]

theorem stepMulti_length {α : Type} [TrackSpec.Sample α] (fs : Int) (nch : Nat) (ps : List (Proc α))
    (b : List (List α)) (ps' : List (Proc α)) (o : List (List α))
    (h : TrackSpec.stepMulti fs nch ps b = .ok (ps', o)) : ps'.length = ps.length := by
  simp only [TrackSpec.stepMulti] at h
  cases h1 : TrackSpec.stepList fs nch ps b with
  | error e => rw [h1] at h; cases h
  | ok r =>
    obtain ⟨ps1, cols⟩ := r
    rw [h1] at h
    simp only at h
    split at h
    · cases h
    · simp only [Except.ok.injEq, Prod.mk.injEq] at h
      rw [← h.1]
      exact stepList_length fs nch ps b ps1 cols h1

/-- Every decode matrix still to be applied by an HOA channel has one column per processor of the item. -/
def HoaChanOK {V : Type} (p : List (Proc Rat) × HoaBpc V) : Prop :=
  QOK (fun m : MetaBlock (List V) => okDot p.1.length m.gains) (okDot p.1.length) p.2

theorem hoaChansTSC_rel {V : Type} [RMod V] (strict : Prop) (c : Cfg V) (ss : Int) (inp : List (List Rat)) :
    ∀ (chans : List (List (Proc Rat) × HoaBpc V)) (out : List V), (strict → ∀ p ∈ chans, HoaChanOK p) →
      ChkRel strict (fun r r' => r = r' ∧ (strict → ∀ p ∈ r.1, HoaChanOK p))
        (hoaChansTSC c ss inp chans out)
        (procChansTS (interpFixed c.sr) matUpd ss (fun ps => TrackSpec.stepMulti c.sr c.n_in ps inp) chans out) := by
  intro chans
  induction chans with
  | nil => intro out _; simp [hoaChansTSC, procChansTS]
  | cons p rest ih =>
    intro out h
    obtain ⟨ps, b⟩ := p
    simp only [hoaChansTSC, procChansTS]
    cases hst : TrackSpec.stepMulti c.sr c.n_in ps inp with
    | error e => simp
    | ok r0 =>
      obtain ⟨ps', track_samples⟩ := r0
      have hlen := stepMulti_length _ _ _ _ _ _ hst
      simp only
      have h1 := bpcProcessC_rel strict (fun m : MetaBlock (List V) => okDot ps.length m.gains) (okDot ps.length)
        (interpFixed c.sr) (interpFixed_ok c.sr _) matUpd ss track_samples out b
        (fun hs => h hs (ps, b) List.mem_cons_self)
      generalize bpcProcessC (okDot ps.length) (interpFixed c.sr) matUpd ss track_samples out b = ra at h1 ⊢
      generalize b.process (interpFixed c.sr) matUpd ss track_samples out = rb at h1 ⊢
      rcases ra with e | r <;> rcases rb with e' | r'
      · cases e <;> chk_close h1
      · cases e <;> chk_close h1
      · chk_close h1
      · obtain ⟨b1, out1⟩ := r
        simp only [chkRel_ok_ok] at h1
        obtain ⟨rfl, hinv⟩ := h1
        simp only
        have h2 := ih out1 (fun hs p hp => h hs p (List.mem_cons_of_mem _ hp))
        generalize hoaChansTSC c ss inp rest out1 = ra at h2 ⊢
        generalize procChansTS (interpFixed c.sr) matUpd ss (fun ps => TrackSpec.stepMulti c.sr c.n_in ps inp)
          rest out1 = rb at h2 ⊢
        rcases ra with e | r <;> rcases rb with e' | r'
        · cases e <;> chk_close h2
        · cases e <;> chk_close h2
        · chk_close h2
        · obtain ⟨rest1, out2⟩ := r
          simp only [chkRel_ok_ok] at h2
          obtain ⟨rfl, hinv2⟩ := h2
          simp only [chkRel_ok_ok, true_and]
          intro hs p hp
          rcases List.mem_cons.mp hp with rfl | hp
          · simp only [HoaChanOK, hlen]
            exact hinv hs
          · exact hinv2 hs p hp

end Earverif.RendererTS
