/-
Model of the id map and reference resolution of an ADM document: `ear.fileio.adm.adm.ADM`
(`addAudio…`, `elements`, `lookup_element` / `__getitem__`, `_without_duplicates`, `lazy_lookup_references`,
`_lazy_lookup_alternativeValueSets`) and the `lazy_lookup_references` method of every element class in
`ear/fileio/adm/elements/main_elements.py` and `block_formats.py`.  Core Lean only.

The model is generic in the type `ι` of id strings and in `up : ι → ι` (`str.upper()`); the driver instantiates it
with strings and ASCII upper-casing, `ChnaTransfer` with 7-bit byte strings.

An element is seen through what resolution reads and writes:
* `oid` — the identity of the Python object (`is`), given by whoever builds the document; resolved references hold
  the `oid` of the element found;
* `id` (`None` possible), `is_common_definition`;
* its reference fields *in the order in which the class's `lazy_lookup_references` treats them*; each has the
  pending `…IDRef` value (`none` = the attribute is `None`: the step is skipped; a single-valued `…IDRef` is a list
  of length one) and the current resolved value;
* `audioStreamFormat` of an audioTrackFormat and `encodePackFormats` of an audioPackFormat, which are written by the
  resolution of *other* elements (`_link_track_stream_format`, `add_encodePackFormat`);
* the ids of the alternativeValueSets of an audioObject.

Assumption (the harness never does otherwise): every list of the `ADM` holds elements of its own class, so
"`for audioObject in self.audioObjects`" is "the elements of class object".
-/
namespace Earverif.AdmRefs

inductive Cls where
  | programme | content | object | pack | channel | stream | track | trackUID
  deriving DecidableEq, Repr

inductive Err where
  /-- `AdmIDError("duplicate objects with id=…")` -/
  | admIDError
  /-- `assert len(common) <= 1, "duplicate common definitions found"` -/
  | assertionError
  /-- `KeyError('Unknown element requested …')` / `KeyError("unknown alternativeValueSet …")` -/
  | keyError
  /-- `None.upper()`; `decode_pack.encodePackFormats` / `audioTrackFormat.audioStreamFormat` on an element of
  another class (`slots=True`) -/
  | attributeError
  /-- `AdmError("audioTrackFormat … is linked to more than one audioStreamFormat")` -/
  | admError
  deriving DecidableEq, Repr

abbrev Oid := Nat

/-- how `lazy_lookup_references` treats one `…IDRef` attribute -/
inductive Mode where
  /-- `self.x = _lookup_elements(adm, self.xIDRef)` / `self.x = adm.lookup_element(self.xIDRef)` -/
  | plain
  /-- `audioTrackUIDRef`: `adm[ref] if ref is not None else None` (the silent track `ATU_00000000` was read as `None`) -/
  | silentOK
  /-- `decodePackFormatIDRef`: `self` is appended to `encodePackFormats` of every pack found -/
  | decode
  /-- `encodePackFormatIDRef`: every pack found is appended to `self.encodePackFormats` -/
  | encode
  /-- `AudioStreamFormat.audioTrackFormatIDRef`: `_link_track_stream_format(found, self)` one reference at a time -/
  | linkTracks
  /-- `AudioTrackFormat.audioStreamFormatIDRef`: `_link_track_stream_format(self, found)` -/
  | linkStream
  /-- `alternativeValueSetIDRef` of audioProgramme / audioContent: resolved by `_lazy_lookup_alternativeValueSets`
  after all elements, against the alternativeValueSets of the audioObjects -/
  | avs
  deriving DecidableEq, Repr

structure Field (ι : Type) where
  name : String
  mode : Mode
  /-- the `…IDRef` attribute -/
  pending : Option (List (Option ι))
  /-- the resolved attribute (`oid`s; `none` = `None`, the silent track); unused for decode / encode / link modes -/
  resolved : List (Option Oid)
  deriving DecidableEq, Repr

structure Elem (ι : Type) where
  oid : Oid
  cls : Cls
  id : Option ι
  common : Bool
  fields : List (Field ι)
  /-- `AudioTrackFormat.audioStreamFormat` -/
  streamLink : Option Oid
  /-- `AudioPackFormat.encodePackFormats` -/
  encodePacks : List Oid
  /-- `AudioObject.alternativeValueSets`: identity and id of each -/
  avs : List (Oid × Option ι)
  deriving DecidableEq, Repr

/-- `ADM`: the eight lists of `__attrs_post_init__` -/
structure ADM (ι : Type) where
  programmes : List (Elem ι)
  contents : List (Elem ι)
  objects : List (Elem ι)
  packFormats : List (Elem ι)
  channelFormats : List (Elem ι)
  streamFormats : List (Elem ι)
  trackFormats : List (Elem ι)
  trackUIDs : List (Elem ι)
  deriving Repr

namespace ADM
variable {ι : Type}

def empty : ADM ι := ⟨[], [], [], [], [], [], [], []⟩

/-- `addAudioProgramme` … `addAudioTrackUID`: append to the list of the class; nothing is checked at add time -/
def add (a : ADM ι) (e : Elem ι) : ADM ι :=
  match e.cls with
  | .programme => { a with programmes := a.programmes ++ [e] }
  | .content => { a with contents := a.contents ++ [e] }
  | .object => { a with objects := a.objects ++ [e] }
  | .pack => { a with packFormats := a.packFormats ++ [e] }
  | .channel => { a with channelFormats := a.channelFormats ++ [e] }
  | .stream => { a with streamFormats := a.streamFormats ++ [e] }
  | .track => { a with trackFormats := a.trackFormats ++ [e] }
  | .trackUID => { a with trackUIDs := a.trackUIDs ++ [e] }

/-- `ADM.elements`: `chain(*self._object_lists)` -/
def elements (a : ADM ι) : List (Elem ι) :=
  a.programmes ++ a.contents ++ a.objects ++ a.packFormats ++ a.channelFormats ++ a.streamFormats ++
    a.trackFormats ++ a.trackUIDs

end ADM

section
variable {ι : Type} [DecidableEq ι] (up : ι → ι)

/-- the condition of `lookup_element`: `element.id is not None and element.id.upper() == key_upper` -/
def matchesKey (key : ι) (e : Elem ι) : Bool := decide (e.id.map up = some (up key))

/-- `lookup_element` / `__getitem__` over `chain(*lists)`: the *first* element whose id matches, `none` = `KeyError` -/
def lookup (els : List (Elem ι)) (key : ι) : Option (Elem ι) := els.find? (matchesKey up key)

/-- … as a position -/
def lookupIdx (els : List (Elem ι)) (key : ι) : Option Nat := els.findIdx? (matchesKey up key)

/-! ### `_without_duplicates` -/

/-- the keys of the `OrderedDict`, in order of first insertion -/
def dedupKeys : List ι → List ι
  | [] => []
  | k :: ks => k :: (dedupKeys ks).filter (· ≠ k)

/-- the second loop of `_without_duplicates` for one key -/
def pickOne (l : List (Elem ι)) (k : ι) : Except Err (Elem ι) :=
  let objs := l.filter fun e => decide (e.id.map up = some k)
  let common := objs.filter (·.common)
  let nonCommon := objs.filter (!·.common)
  if 1 < common.length then .error .assertionError
  else if 1 < nonCommon.length then .error .admIDError
  else match nonCommon, common with
    | n :: _, _ => .ok n          -- (with a warning if there is a common definition as well)
    | [], c :: _ => .ok c
    | [], [] => .error .assertionError  -- `assert common or non_common`; unreachable for a key of the dictionary

/-- `ADM._without_duplicates(obj_list)`: elements without id first, then one element per distinct upper-cased id in
order of first appearance; two non-common elements with the same id are an `AdmIDError`; a common definition shadowed
by a non-common element is dropped. -/
def withoutDuplicates (l : List (Elem ι)) : Except Err (List (Elem ι)) := do
  let rest ← (dedupKeys (l.filterMap fun e => e.id.map up)).mapM (pickOne up l)
  pure (l.filter (·.id.isNone) ++ rest)

/-- the first loop of `lazy_lookup_references` -/
def dedupAll (a : ADM ι) : Except Err (ADM ι) := do
  let ap ← withoutDuplicates up a.programmes
  let ac ← withoutDuplicates up a.contents
  let ao ← withoutDuplicates up a.objects
  let apf ← withoutDuplicates up a.packFormats
  let acf ← withoutDuplicates up a.channelFormats
  let asf ← withoutDuplicates up a.streamFormats
  let atf ← withoutDuplicates up a.trackFormats
  let atu ← withoutDuplicates up a.trackUIDs
  pure ⟨ap, ac, ao, apf, acf, asf, atf, atu⟩

/-! ### one reference step -/

/-- `adm.lookup_element(ref)` / `adm[ref] if ref is not None else None`, as a position in the element chain -/
def lookupRef (st : List (Elem ι)) (silent : Bool) : Option ι → Except Err (Option Nat)
  | none => if silent then .ok none else .error .attributeError
  | some k => match lookupIdx up st k with
    | some i => .ok (some i)
    | none => .error .keyError

def oidAt (st : List (Elem ι)) (i : Option Nat) : Option Oid := i.bind fun i => st[i]?.map (·.oid)

/-- replace field `j` of element `i` -/
def setField (st : List (Elem ι)) (i j : Nat) (f : Field ι) : List (Elem ι) :=
  st.modify i fun e => { e with fields := e.fields.set j f }

/-- `add_encodePackFormat(decode_pack, new_encode_pack)` on positions: `AttributeError` unless the decode pack is an
audioPackFormat; appended unless already there (`is`) -/
def addEncode (st : List (Elem ι)) (decodeIdx : Nat) (newOid : Oid) : Except Err (List (Elem ι)) :=
  match st[decodeIdx]? with
  | none => .ok st
  | some d =>
    if d.cls ≠ .pack then .error .attributeError
    else if d.encodePacks.contains newOid then .ok st
    else .ok (st.modify decodeIdx fun e => { e with encodePacks := e.encodePacks ++ [newOid] })

/-- `_link_track_stream_format(audioTrackFormat, audioStreamFormat)` on positions: `AttributeError` unless the first
is an audioTrackFormat; `AdmError` if it is already linked to another stream -/
def linkTrackStream (st : List (Elem ι)) (trackIdx : Nat) (streamOid : Oid) : Except Err (List (Elem ι)) :=
  match st[trackIdx]? with
  | none => .ok st
  | some t =>
    if t.cls ≠ .track then .error .attributeError
    else match t.streamLink with
      | some s => if s ≠ streamOid then .error .admError else .ok st
      | none => .ok (st.modify trackIdx fun e => { e with streamLink := some streamOid })

/-- `add_encodePackFormat(decode_pack, self)` for one pack found by `decodePackFormatIDRef` -/
def decodeOne (self : Oid) (st : List (Elem ι)) (r : Option Nat) : Except Err (List (Elem ι)) :=
  match r with
  | some d => addEncode st d self
  | none => .ok st

/-- `add_encodePackFormat(self, encode_pack)` for one pack found by `encodePackFormatIDRef` -/
def encodeOne (selfIdx : Nat) (st : List (Elem ι)) (r : Option Nat) : Except Err (List (Elem ι)) :=
  match oidAt st r with
  | some o => addEncode st selfIdx o
  | none => .ok st

/-- `track_format = adm.lookup_element(ref); _link_track_stream_format(track_format, self)` -/
def linkTracksOne (self : Oid) (st : List (Elem ι)) (r : Option ι) : Except Err (List (Elem ι)) := do
  match ← lookupRef up st false r with
  | some ti => linkTrackStream st ti self
  | none => pure st

/-- `stream_format = adm.lookup_element(self.audioStreamFormatIDRef); _link_track_stream_format(self, stream_format)` -/
def linkStreamOne (selfIdx : Nat) (st : List (Elem ι)) (r : Option ι) : Except Err (List (Elem ι)) := do
  match oidAt st (← lookupRef up st false r) with
  | some so => linkTrackStream st selfIdx so
  | none => pure st

/-- one `if self.…IDRef is not None: …; self.…IDRef = None` statement: field `j` of the element at position `i` of
the chain, in the current state -/
def step (st : List (Elem ι)) (t : Nat × Nat) : Except Err (List (Elem ι)) :=
  match st[t.1]? with
  | none => .ok st
  | some e =>
    match e.fields[t.2]? with
    | none => .ok st
    | some f =>
      match f.pending with
      | none => .ok st
      | some refs =>
        match f.mode with
        | .avs => .ok st
        | .plain => do
          let rs ← refs.mapM (lookupRef up st false)
          pure (setField st t.1 t.2 { f with pending := none, resolved := rs.map (oidAt st) })
        | .silentOK => do
          let rs ← refs.mapM (lookupRef up st true)
          pure (setField st t.1 t.2 { f with pending := none, resolved := rs.map (oidAt st) })
        | .decode => do
          -- `for decode_pack in _lookup_elements(adm, self.decodePackFormatIDRef)`: all lookups first
          let rs ← refs.mapM (lookupRef up st false)
          let st ← rs.foldlM (decodeOne e.oid) st
          pure (setField st t.1 t.2 { f with pending := none })
        | .encode => do
          let rs ← refs.mapM (lookupRef up st false)
          let st ← rs.foldlM (encodeOne t.1) st
          pure (setField st t.1 t.2 { f with pending := none })
        | .linkTracks => do
          -- `for ref in self.audioTrackFormatIDRef: …` one reference at a time
          let st ← refs.foldlM (linkTracksOne up e.oid) st
          pure (setField st t.1 t.2 { f with pending := none })
        | .linkStream => do
          let st ← refs.foldlM (linkStreamOne up t.1) st
          pure (setField st t.1 t.2 { f with pending := none })

/-- the statements executed by `for element in self.elements: element.lazy_lookup_references(self)`, as positions
(element in the chain, field of the element) in execution order -/
def tasks (st : List (Elem ι)) : List (Nat × Nat) :=
  (List.range st.length).flatMap fun i => (List.range (st[i]?.map (·.fields.length) |>.getD 0)).map fun j => (i, j)

/-! ### `_lazy_lookup_alternativeValueSets` -/

/-- `avs_by_id`: every alternativeValueSet with an id, of every audioObject, keyed by the upper-cased id; a repeated
key is an `AdmIDError` -/
def avsTable (st : List (Elem ι)) : Except Err (List (ι × Oid)) :=
  ((st.filter (·.cls = .object)).flatMap (·.avs)).foldlM (fun tbl a =>
    match a.2 with
    | none => .ok tbl
    | some id => if tbl.any (·.1 = up id) then .error .admIDError else .ok (tbl ++ [(up id, a.1)])) []

/-- `get_avs` -/
def getAvs (tbl : List (ι × Oid)) : Option ι → Except Err (Option Oid)
  | none => .error .attributeError
  | some k => match tbl.find? (·.1 = up k) with
    | some p => .ok (some p.2)
    | none => .error .keyError

/-- the `alternativeValueSetIDRef` of one audioProgramme / audioContent -/
def avsElem (tbl : List (ι × Oid)) (e : Elem ι) : Except Err (Elem ι) := do
  if e.cls ≠ .programme ∧ e.cls ≠ .content then pure e else
  let fs ← e.fields.mapM fun f =>
    if f.mode ≠ .avs then pure f else
    match f.pending with
    | none => pure f
    | some refs => do
      let rs ← refs.mapM (getAvs up tbl)
      pure { f with pending := none, resolved := rs }
  pure { e with fields := fs }

def avsPass (st : List (Elem ι)) : Except Err (List (Elem ι)) := do
  let tbl ← avsTable up st
  st.mapM (avsElem up tbl)

/-! ### `lazy_lookup_references` -/

/-- the resolved chain cut back into the eight lists -/
def rebuild (a : ADM ι) (st : List (Elem ι)) : ADM ι :=
  let n1 := a.programmes.length
  let n2 := n1 + a.contents.length
  let n3 := n2 + a.objects.length
  let n4 := n3 + a.packFormats.length
  let n5 := n4 + a.channelFormats.length
  let n6 := n5 + a.streamFormats.length
  let n7 := n6 + a.trackFormats.length
  ⟨st.take n1, (st.drop n1).take (n2 - n1), (st.drop n2).take (n3 - n2), (st.drop n3).take (n4 - n3),
    (st.drop n4).take (n5 - n4), (st.drop n5).take (n6 - n5), (st.drop n6).take (n7 - n6), st.drop n7⟩

/-- the reference statements of all elements in order, on the element chain -/
def resolveChain (st : List (Elem ι)) : Except Err (List (Elem ι)) := do
  let st ← (tasks st).foldlM (step up) st
  avsPass up st

/-- `ADM.lazy_lookup_references` -/
def lazyLookupReferences (a : ADM ι) : Except Err (ADM ι) := do
  let a ← dedupAll up a
  let st ← resolveChain up a.elements
  pure (rebuild a st)

end

/-! ### the element classes: which reference attributes, in which order -/

section Classes
variable {ι : Type}

abbrev Pend (ι : Type) := Option (List (Option ι))
abbrev Res := List (Option Oid)

/-- a field's pending and current value, by attribute name (`none` = not mentioned: `IDRef` `None`, nothing resolved) -/
abbrev FieldArgs (ι : Type) := String → Option (Pend ι × Res)

/-- the reference attributes of each class in the order of its `lazy_lookup_references` (for audioProgramme /
audioContent the alternativeValueSet references, treated after all elements, come last) -/
def classFields : Cls → List (String × Mode)
  | .programme => [("audioContents", .plain), ("alternativeValueSets", .avs)]
  | .content => [("audioObjects", .plain), ("alternativeValueSets", .avs)]
  | .object => [("audioPackFormats", .plain), ("audioTrackUIDs", .silentOK), ("audioObjects", .plain),
      ("audioComplementaryObjects", .plain)]
  | .pack => [("audioChannelFormats", .plain), ("audioPackFormats", .plain), ("decodePackFormats", .decode),
      ("encodePackFormats", .encode), ("inputPackFormat", .plain), ("outputPackFormat", .plain)]
  | .channel => []
  | .stream => [("audioChannelFormat", .plain), ("audioPackFormat", .plain), ("audioTrackFormats", .linkTracks)]
  | .track => [("audioStreamFormat", .linkStream)]
  | .trackUID => [("audioTrackFormat", .plain), ("audioChannelFormat", .plain), ("audioPackFormat", .plain)]

def fieldsOf (c : Cls) (args : FieldArgs ι) : List (Field ι) :=
  (classFields c).map fun nm =>
    match args nm.1 with
    | some (p, r) => ⟨nm.1, nm.2, p, r⟩
    | none => ⟨nm.1, nm.2, none, []⟩

/-- the references of one audioBlockFormat (only `AudioBlockFormatMatrix` has any): `outputChannelFormatIDRef`, then
`inputChannelFormatIDRef` of every matrix coefficient -/
structure BlockRefs (ι : Type) where
  output : Option (Pend ι × Res)
  inputs : List (Pend ι × Res)

/-- `AudioChannelFormat.lazy_lookup_references`: block formats in order; in each the output reference first, then
the coefficients in order -/
def channelFields (blocks : List (BlockRefs ι)) : List (Field ι) :=
  blocks.flatMap fun b =>
    (match b.output with
      | some (p, r) => [⟨"outputChannelFormat", .plain, p, r⟩]
      | none => []) ++
    b.inputs.map fun (p, r) => ⟨"inputChannelFormat", .plain, p, r⟩

end Classes

/-- `str.upper()` for the driver's instance of the model (ASCII letters only; ids with other cased characters are
outside the generators) -/
def upStr (s : String) : String := String.ofList (s.toList.map Char.toUpper)

end Earverif.AdmRefs
