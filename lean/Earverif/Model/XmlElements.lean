/-
The eight main ADM elements (`MainElementHandler.make_*_handler`, BS.2076-1 and -2) as concrete instances of the
combinator model, with every hand-written handler concrete.  Core Lean only.

References are id strings (`RefType.dumps = .id`; resolution is `lazy_lookup_references`, outside the model) and an
element is seen through the constructor-argument names (`audioContentIDRef` holds the ids of `audioContents`, …).
-/
import Earverif.Model.XmlBlocks

namespace Earverif.XmlElements
open Earverif.XmlCodec Earverif.XmlCustom Earverif.XmlBlocks Earverif.TimeFormat

/-- `TypeDefinition` -/
def typeTable : List (String × Nat) :=
  [("DirectSpeakers", 1), ("Matrix", 2), ("Objects", 3), ("HOA", 4), ("Binaural", 5)]

/-- `FormatDefinition` -/
def formatTable : List (String × Nat) := [("PCM", 1)]

inductive TypeDef where
  | directSpeakers | matrix | objects | hoa | binaural
  deriving DecidableEq, Repr

def TypeDef.name : TypeDef → String
  | .directSpeakers => "DirectSpeakers"
  | .matrix => "Matrix"
  | .objects => "Objects"
  | .hoa => "HOA"
  | .binaural => "Binaural"

def TypeDef.value : TypeDef → Nat
  | .directSpeakers => 1
  | .matrix => 2
  | .objects => 3
  | .hoa => 4
  | .binaural => 5

def TypeDef.toXV (t : TypeDef) : XV := .leaf (.enum t.name t.value)

/-- `type_handler` -/
def typeProp : Property XV :=
  .typeAttribute "typeDefinition" "typeLabel" "type" (liftCodec (enumDefCodec typeTable))
    (liftCodec (enumLabelCodec typeTable)) true

/-- `format_handler` -/
def formatProp : Property XV :=
  .typeAttribute "formatDefinition" "formatLabel" "format" (liftCodec (enumDefCodec formatTable))
    (liftCodec (enumLabelCodec formatTable)) true

/-- `RefList(name)` (the argument `nameIDRef` holds the referenced ids) -/
abbrev refList (adm : String) : Property XV := .listElement adm adm (liftCodec stringCodec) false false

/-- `RefElement(name)` -/
abbrev refElem (adm : String) : Property XV := .attrElement adm adm (liftCodec stringCodec) false noneLeaf false

abbrev timeAttr (v2 : Bool) (adm : String) : Property XV := .attr adm adm (liftCodec (timeCodec v2)) false noneLeaf
abbrev intAttr (adm : String) : Property XV := .attr adm adm (liftCodec intCodec) false noneLeaf

/-- a reference-list property that exists only from BS.2076-2 -/
def refListV2 (v2 : Bool) (adm : String) : Property XV :=
  if v2 then refList adm else .customElement adm none false noV2Impl

def strs (ss : List String) : Val XV := .many (ss.map fun s => .leaf (.str s))

/-! ### audioProgramme -/

structure Programme where
  id : String
  audioProgrammeName : String
  audioProgrammeLanguage : Option String
  start : Option Time
  end_ : Option Time
  maxDuckingDepth : Option Int
  audioContents : List String
  referenceScreen : Screen
  loudnessMetadata : List Loudness
  /-- BS.2076-2 -/
  alternativeValueSets : List String
  deriving DecidableEq, Repr

def programmePs (v2 : Bool) : List (Property XV) :=
  [ strAttr "audioProgrammeID" "id" true, strAttr "audioProgrammeName" "audioProgrammeName" true,
    strAttr "audioProgrammeLanguage" "audioProgrammeLanguage" false, timeAttr v2 "start", timeAttr v2 "end",
    numAttr "maxDuckingDepth", refList "audioContentIDRef",
    .customElement "audioProgrammeReferenceScreen" (some "referenceScreen") false screenImpl,
    .customElement "loudnessMetadata" (some "loudnessMetadata") false loudnessListImpl,
    refListV2 v2 "alternativeValueSetIDRef" ]

def Programme.toObj (p : Programme) : Obj XV := fun a =>
  if a = "id" then .one (.leaf (.str p.id))
  else if a = "audioProgrammeName" then .one (.leaf (.str p.audioProgrammeName))
  else if a = "audioProgrammeLanguage" then .one (optStrV p.audioProgrammeLanguage)
  else if a = "start" then .one (optTime p.start)
  else if a = "end" then .one (optTime p.end_)
  else if a = "maxDuckingDepth" then .one (optNumV p.maxDuckingDepth)
  else if a = "audioContentIDRef" then strs p.audioContents
  else if a = "referenceScreen" then .one (.screen p.referenceScreen)
  else if a = "loudnessMetadata" then .many (p.loudnessMetadata.map .loud)
  else if a = "alternativeValueSetIDRef" then strs p.alternativeValueSets
  else .one noneLeaf

/-- `make_audio_programme` / `AudioProgramme` defaults: the default screen, empty lists, the rest `None` -/
def programmeDefaults : Obj XV := fun a =>
  if a = "referenceScreen" then .one (.screen defaultScreen)
  else if a = "audioContentIDRef" ∨ a = "loudnessMetadata" ∨ a = "alternativeValueSetIDRef" then .many []
  else .one noneLeaf

/-! ### audioContent -/

structure Content where
  id : String
  audioContentName : String
  audioContentLanguage : Option String
  dialogue : Option Int
  audioObjects : List String
  loudnessMetadata : List Loudness
  /-- BS.2076-2 -/
  alternativeValueSets : List String
  deriving DecidableEq, Repr

def contentPs (v2 : Bool) : List (Property XV) :=
  [ strAttr "audioContentID" "id" true, strAttr "audioContentName" "audioContentName" true,
    strAttr "audioContentLanguage" "audioContentLanguage" false, optElem "dialogue" intCodec,
    refList "audioObjectIDRef",
    .customElement "loudnessMetadata" (some "loudnessMetadata") false loudnessListImpl,
    refListV2 v2 "alternativeValueSetIDRef" ]

def Content.toObj (c : Content) : Obj XV := fun a =>
  if a = "id" then .one (.leaf (.str c.id))
  else if a = "audioContentName" then .one (.leaf (.str c.audioContentName))
  else if a = "audioContentLanguage" then .one (optStrV c.audioContentLanguage)
  else if a = "dialogue" then .one (optIntV c.dialogue)
  else if a = "audioObjectIDRef" then strs c.audioObjects
  else if a = "loudnessMetadata" then .many (c.loudnessMetadata.map .loud)
  else if a = "alternativeValueSetIDRef" then strs c.alternativeValueSets
  else .one noneLeaf

def contentDefaults : Obj XV := fun a =>
  if a = "audioObjectIDRef" ∨ a = "loudnessMetadata" ∨ a = "alternativeValueSetIDRef" then .many []
  else .one noneLeaf

/-! ### audioObject -/

structure AObject where
  id : String
  audioObjectName : String
  start : Option Time
  duration : Option Time
  dialogue : Option Int
  importance : Option Int
  interact : Option Bool
  disableDucking : Option Bool
  audioPackFormats : List String
  audioObjects : List String
  audioComplementaryObjects : List String
  /-- `None` = the silent track `ATU_00000000` -/
  audioTrackUIDs : List (Option String)
  /-- BS.2076-2 -/
  gain : Int
  /-- BS.2076-2 -/
  mute : Bool
  /-- BS.2076-2 -/
  positionOffset : Option PositionOffset
  /-- BS.2076-2 -/
  alternativeValueSets : List AVS
  audioObjectInteraction : Option Interaction
  deriving DecidableEq, Repr

def uidRef : Option String → XV
  | some s => .leaf (.str s)
  | none => noneLeaf

/-- the attributes and reference lists of audioObject -/
def objectHead (v2 : Bool) : List (Property XV) :=
  [ strAttr "audioObjectID" "id" true, strAttr "audioObjectName" "audioObjectName" true,
    timeAttr v2 "start", timeAttr v2 "duration", intAttr "dialogue", intAttr "importance",
    boolAttr "interact" false, boolAttr "disableDucking" false,
    refList "audioPackFormatIDRef", refList "audioObjectIDRef", refList "audioComplementaryObjectIDRef",
    .listElement "audioTrackUIDRef" "audioTrackUIDRef" (liftCodec trackUIDRefCodec) false false ]

def objectPs (v2 : Bool) : List (Property XV) :=
  objectHead v2 ++
  [ gainElemV2 v2,
    (if v2 then .attrElement "mute" "mute" (liftCodec boolCodec) false (.leaf (.bool false)) false
      else .customElement "mute" none false noV2Impl),
    (if v2 then .genericElement none false offsetImpl else .customElement "positionOffset" none false noV2Impl),
    (if v2 then .customElement "alternativeValueSet" (some "alternativeValueSets") false (avsListImpl true)
      else .customElement "alternativeValueSet" none false noV2Impl),
    .customElement "audioObjectInteraction" (some "audioObjectInteraction") false (interactionImpl v2) ]

def AObject.toObj (o : AObject) : Obj XV := fun a =>
  if a = "id" then .one (.leaf (.str o.id))
  else if a = "audioObjectName" then .one (.leaf (.str o.audioObjectName))
  else if a = "start" then .one (optTime o.start)
  else if a = "duration" then .one (optTime o.duration)
  else if a = "dialogue" then .one (optIntV o.dialogue)
  else if a = "importance" then .one (optIntV o.importance)
  else if a = "interact" then .one (optBoolV o.interact)
  else if a = "disableDucking" then .one (optBoolV o.disableDucking)
  else if a = "audioPackFormatIDRef" then strs o.audioPackFormats
  else if a = "audioObjectIDRef" then strs o.audioObjects
  else if a = "audioComplementaryObjectIDRef" then strs o.audioComplementaryObjects
  else if a = "audioTrackUIDRef" then .many (o.audioTrackUIDs.map uidRef)
  else if a = "gain" then .one (.leaf (.num o.gain))
  else if a = "mute" then .one (.leaf (.bool o.mute))
  else if a = "positionOffset" then .one (optOffset o.positionOffset)
  else if a = "alternativeValueSets" then .many (o.alternativeValueSets.map .avs)
  else if a = "audioObjectInteraction" then .one (optInteraction o.audioObjectInteraction)
  else .one noneLeaf

def objectDefaults : Obj XV := fun a =>
  if a = "gain" then .one (.leaf (.num 100000))
  else if a = "mute" then .one (.leaf (.bool false))
  else if a = "audioPackFormatIDRef" ∨ a = "audioObjectIDRef" ∨ a = "audioComplementaryObjectIDRef" ∨
      a = "audioTrackUIDRef" ∨ a = "alternativeValueSets" then .many []
  else .one noneLeaf

/-! ### audioPackFormat -/

structure PackFormat where
  id : String
  audioPackFormatName : String
  type : TypeDef
  importance : Option Int
  audioChannelFormats : List String
  audioPackFormats : List String
  absoluteDistance : Option Int
  encodePackFormats : List String
  inputPackFormat : Option String
  outputPackFormat : Option String
  normalization : Option String
  nfcRefDist : Option Int
  screenRef : Option Bool
  deriving DecidableEq, Repr

def packPs : List (Property XV) :=
  [ strAttr "audioPackFormatID" "id" true, strAttr "audioPackFormatName" "audioPackFormatName" true, typeProp,
    intAttr "importance", refList "audioChannelFormatIDRef", refList "audioPackFormatIDRef",
    optElem "absoluteDistance" floatCodec, refList "encodePackFormatIDRef",
    .listElement "decodePackFormatIDRef" "decodePackFormatIDRef" (liftCodec stringCodec) false true,
    refElem "inputPackFormatIDRef", refElem "outputPackFormatIDRef", optElem "normalization" stringCodec,
    optElem "nfcRefDist" floatCodec, optElem "screenRef" boolCodec ]

def PackFormat.toObj (p : PackFormat) : Obj XV := fun a =>
  if a = "id" then .one (.leaf (.str p.id))
  else if a = "audioPackFormatName" then .one (.leaf (.str p.audioPackFormatName))
  else if a = "type" then .one p.type.toXV
  else if a = "importance" then .one (optIntV p.importance)
  else if a = "audioChannelFormatIDRef" then strs p.audioChannelFormats
  else if a = "audioPackFormatIDRef" then strs p.audioPackFormats
  else if a = "absoluteDistance" then .one (optNumV p.absoluteDistance)
  else if a = "encodePackFormatIDRef" then strs p.encodePackFormats
  else if a = "inputPackFormatIDRef" then .one (optStrV p.inputPackFormat)
  else if a = "outputPackFormatIDRef" then .one (optStrV p.outputPackFormat)
  else if a = "normalization" then .one (optStrV p.normalization)
  else if a = "nfcRefDist" then .one (optNumV p.nfcRefDist)
  else if a = "screenRef" then .one (optBoolV p.screenRef)
  else .one noneLeaf

def packDefaults : Obj XV := fun a =>
  if a = "audioChannelFormatIDRef" ∨ a = "audioPackFormatIDRef" ∨ a = "encodePackFormatIDRef" then .many []
  else .one noneLeaf

/-! ### audioChannelFormat -/

structure ChannelFormat where
  id : String
  audioChannelFormatName : String
  type : TypeDef
  audioBlockFormats : List Block
  frequency : Frequency
  deriving DecidableEq, Repr

def channelPs (v2 : Bool) : List (Property XV) :=
  [ strAttr "audioChannelFormatID" "id" true, strAttr "audioChannelFormatName" "audioChannelFormatName" true, typeProp,
    .customElement "audioBlockFormat" (some "audioBlockFormats") true (blocksImpl v2),
    .customElement "frequency" none false frequencyImpl ]

def ChannelFormat.toObj (c : ChannelFormat) : Obj XV := fun a =>
  if a = "id" then .one (.leaf (.str c.id))
  else if a = "audioChannelFormatName" then .one (.leaf (.str c.audioChannelFormatName))
  else if a = "type" then .one c.type.toXV
  else if a = "audioBlockFormats" then .many (c.audioBlockFormats.map .block)
  else if a = "frequency" then .one (.freq c.frequency)
  else .one noneLeaf

def channelDefaults : Obj XV := fun a =>
  if a = "audioBlockFormats" then .many []
  else if a = "frequency" then .one (.freq ⟨none, none⟩)
  else .one noneLeaf

/-! ### audioStreamFormat, audioTrackFormat, audioTrackUID -/

/-- the `format` is always `FormatDefinition.PCM` -/
def pcm : XV := .leaf (.enum "PCM" 1)

structure StreamFormat where
  id : String
  audioStreamFormatName : String
  audioTrackFormats : List String
  audioChannelFormat : Option String
  audioPackFormat : Option String
  deriving DecidableEq, Repr

def streamPs : List (Property XV) :=
  [ strAttr "audioStreamFormatID" "id" true, strAttr "audioStreamFormatName" "audioStreamFormatName" true, formatProp,
    refList "audioTrackFormatIDRef", refElem "audioChannelFormatIDRef", refElem "audioPackFormatIDRef" ]

def StreamFormat.toObj (s : StreamFormat) : Obj XV := fun a =>
  if a = "id" then .one (.leaf (.str s.id))
  else if a = "audioStreamFormatName" then .one (.leaf (.str s.audioStreamFormatName))
  else if a = "format" then .one pcm
  else if a = "audioTrackFormatIDRef" then strs s.audioTrackFormats
  else if a = "audioChannelFormatIDRef" then .one (optStrV s.audioChannelFormat)
  else if a = "audioPackFormatIDRef" then .one (optStrV s.audioPackFormat)
  else .one noneLeaf

def streamDefaults : Obj XV := fun a => if a = "audioTrackFormatIDRef" then .many [] else .one noneLeaf

structure TrackFormat where
  id : String
  audioTrackFormatName : String
  audioStreamFormat : Option String
  deriving DecidableEq, Repr

def trackPs : List (Property XV) :=
  [ strAttr "audioTrackFormatID" "id" true, strAttr "audioTrackFormatName" "audioTrackFormatName" true, formatProp,
    refElem "audioStreamFormatIDRef" ]

def TrackFormat.toObj (t : TrackFormat) : Obj XV := fun a =>
  if a = "id" then .one (.leaf (.str t.id))
  else if a = "audioTrackFormatName" then .one (.leaf (.str t.audioTrackFormatName))
  else if a = "format" then .one pcm
  else if a = "audioStreamFormatIDRef" then .one (optStrV t.audioStreamFormat)
  else .one noneLeaf

structure TrackUID where
  id : String
  sampleRate : Option Int
  bitDepth : Option Int
  audioTrackFormat : Option String
  /-- BS.2076-2 -/
  audioChannelFormat : Option String
  audioPackFormat : Option String
  deriving DecidableEq, Repr

def trackUIDPs (v2 : Bool) : List (Property XV) :=
  [ strAttr "UID" "id" true, intAttr "sampleRate", intAttr "bitDepth", refElem "audioTrackFormatIDRef",
    (if v2 then refElem "audioChannelFormatIDRef" else .customElement "audioChannelFormatIDRef" none false noV2Impl),
    refElem "audioPackFormatIDRef" ]

def TrackUID.toObj (u : TrackUID) : Obj XV := fun a =>
  if a = "id" then .one (.leaf (.str u.id))
  else if a = "sampleRate" then .one (optIntV u.sampleRate)
  else if a = "bitDepth" then .one (optIntV u.bitDepth)
  else if a = "audioTrackFormatIDRef" then .one (optStrV u.audioTrackFormat)
  else if a = "audioChannelFormatIDRef" then .one (optStrV u.audioChannelFormat)
  else if a = "audioPackFormatIDRef" then .one (optStrV u.audioPackFormat)
  else .one noneLeaf

/-! ### a document: the main elements of one `audioFormatExtended` -/

structure Document where
  programmes : List Programme
  contents : List Content
  objects : List AObject
  packFormats : List PackFormat
  channelFormats : List ChannelFormat
  streamFormats : List StreamFormat
  trackFormats : List TrackFormat
  trackUIDs : List TrackUID
  deriving Repr

/-- the concrete hand-written implementation for a row of the regenerated table, chosen by the handler names
recorded there (the `as_handler` / `as_list_handler` / "not before v2" closures by the element name) -/
def implX (v2 : Bool) (r : Row) : CustomImpl XV :=
  if r.handler = "handle_objects_position / object_position_to_xml" then positionImpl
  else if r.handler = "handle_channel_lock / channel_lock_to_xml" then channelLockImpl
  else if r.handler = "handle_jump_position / jump_position_to_xml" then jumpImpl
  else if r.handler = "handle_divergence / divergence_to_xml" then divergenceImpl
  else if r.handler = "handle_gain_element_v1 / gain_to_xml" then gainImpl false
  else if r.handler = "handle_gain_element_v2 / gain_to_xml" then gainImpl true
  else if r.handler = "handle_gain_element_v2 / optional_gain_to_xml" then optGainImpl
  else if r.handler = "handle_speaker_position / speaker_position_to_xml" then speakerImpl
  else if r.handler = "handle_position_offset / position_offset_to_xml" then offsetImpl
  else if r.handler = "handle_gain_attribute_v1 / gain_attribute_to_xml" then gainAttrImpl false
  else if r.handler = "handle_gain_attribute_v2 / gain_attribute_to_xml" then gainAttrImpl true
  else if r.handler = "handle_frequency / frequency_to_xml" then frequencyImpl
  else if r.handler = "handle_centre_position / centre_position_to_xml" then centreImpl
  else if r.handler = "handle_screen_width / screen_width_to_xml" then widthImpl
  else if r.handler = "MainElementHandler.make_gainInteractionRange_handler.<locals>.handle_gainInteractionRange / MainElementHandler.make_gainInteractionRange_handler.<locals>.gainInteractionRange_to_xml" then gainRangeImpl v2
  else if r.handler = "MainElementHandler.make_positionInteractionRange_handler.<locals>.handle_positionInteractionRange / MainElementHandler.make_positionInteractionRange_handler.<locals>.positionInteractionRange_to_xml" then posRangeImpl
  else if r.handler = "MainElementHandler.make_block_format_matrix_handler.<locals>.handle_matrix / MainElementHandler.make_block_format_matrix_handler.<locals>.matrix_to_xml" then matrixImpl v2
  else if r.handler = "MainElementHandler.make_block_format_handler.<locals>.handle / MainElementHandler.make_block_format_handler.<locals>.to_xml" then blocksImpl v2
  else if r.handler = "make_no_element_before_v2.<locals>.handle / make_no_element_before_v2.<locals>.to_xml" then noV2Impl
  else if r.handler = "ElementParser.as_handler.<locals>.handle / ElementParser.as_handler.<locals>.to_xml" then
    (if r.admName = "zoneExclusion" then zoneImpl
     else if r.admName = "audioProgrammeReferenceScreen" then screenImpl
     else if r.admName = "audioObjectInteraction" then interactionImpl v2
     else noImpl)
  else if r.handler = "ElementParser.as_list_handler.<locals>.handle / ElementParser.as_list_handler.<locals>.to_xml" then
    (if r.admName = "loudnessMetadata" then loudnessListImpl
     else if r.admName = "alternativeValueSet" then avsListImpl v2
     else noImpl)
  else noImpl

/-- the parser built from table rows -/
def propsX (v2 : Bool) (rows : List Row) : List (Property XV) := rows.map (ofRowG liftCodec XV.leaf (implX v2))

end Earverif.XmlElements
