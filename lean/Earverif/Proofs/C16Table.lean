/-
C16: the finitely many sample codes that the general error analysis does not cover
(0, ±2^f, ±M and the most negative code), closed by kernel evaluation of the model.
Core Lean only, no axioms.
-/
import Earverif.Model.Pcm

namespace Earverif.Pcm
open Earverif.Ieee

/-- round trip of the codes `±2^f`, `f < k`, for scale `2^k - 1` -/
def powOk (b : Nat) (f : Nat) : Bool :=
  encode b (decode b (2 ^ f)) == 2 ^ f && encode b (decode b (-(2 ^ f))) == -(2 ^ f)
  && decide (decode b (2 ^ f) ≤ 1)
  && rn53 (decode b (2 ^ f) * (scale b : Rat)) == ((2 ^ f : Int) : Rat)

theorem pow_table16 : ∀ f < 15, powOk 16 f = true := by decide +kernel
theorem pow_table24 : ∀ f < 23, powOk 24 f = true := by decide +kernel
theorem pow_table32 : ∀ f < 31, powOk 32 f = true := by decide +kernel

/-- the remaining special codes: 0, ±M, -2^(b-1); and the decoded value of the most negative
code lies in [-1 - 1/M, -1) -/
def specialOk (b : Nat) : Bool :=
  encode b (decode b 0) == 0
  && encode b (decode b (scale b)) == scale b
  && encode b (decode b (-(scale b))) == -(scale b)
  && encode b (decode b (-(2 ^ (b - 1)))) == -(scale b)
  && decide (-1 - 1 / (scale b : Rat) ≤ decode b (-(2 ^ (b - 1))))
  && decide (decode b (-(2 ^ (b - 1))) < -1)
  && decode b (scale b) == 1
  && decode b (-(scale b)) == -1
  && rn53 (scale b : Rat) == (scale b : Rat)
  && rn53 (decode b (scale b) * (scale b : Rat)) == (scale b : Rat)

theorem special_table : specialOk 16 = true ∧ specialOk 24 = true ∧ specialOk 32 = true := by
  decide +kernel

end Earverif.Pcm
