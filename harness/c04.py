"""C04 — file-to-file rendering contract of OfflineRenderDriver vs the Lean glue model and a direct oracle."""
import io
import os
import shutil
import tempfile
import warnings
from fractions import Fraction

import numpy as np

from .common import Spec, Driver
from . import c04_layout as LY

FRAME_CHOICES_QUICK = [0, 1, 7, 100, 300]
FRAME_CHOICES_LONG = [8191, 8192, 8193, 12345]


def make_adm(rng, n_layout_names, layout_channel_names, passthrough=None, special=None):
    """Build an ADM document + number of input tracks. Returns (adm, n_tracks, info)."""
    from ear.fileio.adm.builder import ADMBuilder
    from ear.fileio.adm.elements import (AudioBlockFormatObjects, AudioBlockFormatDirectSpeakers,
                                         ObjectPolarPosition, ObjectCartesianPosition, DirectSpeakerPolarPosition,
                                         BoundCoordinate, JumpPosition, ScreenEdgeLock)
    from ear.fileio.adm.generate_ids import generate_ids

    b = ADMBuilder()
    b.load_common_definitions()
    info = {"items": [], "programmes": 1, "comp": False}
    two_prog = rng.random() < 0.3 and passthrough is None
    prog1 = b.create_programme(audioProgrammeName="p1")
    c1 = b.create_content(audioContentName="c1", parent=prog1)
    track = 0

    def objects_blocks(rounded):
        lock = lambda: (ScreenEdgeLock(horizontal=rng.choice(["left", "right"])) if rng.random() < 0.35
                        else ScreenEdgeLock())
        pos = lambda: (ObjectPolarPosition(azimuth=float(rng.randint(-180, 180)), elevation=float(rng.randint(-30, 60)),
                                           distance=1.0, screenEdgeLock=lock())
                       if rng.random() < 0.7 else
                       ObjectCartesianPosition(X=rng.randint(-10, 10) / 10.0, Y=rng.randint(-10, 10) / 10.0,
                                               Z=rng.randint(-10, 10) / 10.0))
        p = pos()
        cart = isinstance(p, ObjectCartesianPosition)
        if rng.random() < 0.5:
            return [AudioBlockFormatObjects(position=p, cartesian=cart, gain=rng.choice([1.0, 0.5, 0.25]),
                                            diffuse=rng.choice([0.0, 0.0, 0.5, 1.0]),
                                            screenRef=(not cart) and rng.random() < 0.3)]
        mk = (lambda: ObjectCartesianPosition(X=rng.randint(-10, 10) / 10.0, Y=rng.randint(-10, 10) / 10.0, Z=0.0)) if cart \
            else (lambda: ObjectPolarPosition(azimuth=float(rng.randint(-180, 180)), elevation=0.0, distance=1.0))
        d1 = Fraction(rng.randint(1, 40), 10000)
        d2 = Fraction(rng.randint(1, 40), 10000)
        dur1 = d1 + (Fraction(1, 100000) if rounded else 0)  # a duration error that the repair option fixes
        return [AudioBlockFormatObjects(rtime=Fraction(0), duration=dur1, position=p, cartesian=cart),
                AudioBlockFormatObjects(rtime=d1, duration=d2, position=mk(), cartesian=cart,
                                        jumpPosition=JumpPosition(flag=rng.random() < 0.5,
                                                                  interpolationLength=None))]

    def add_item(parent, rounded=False):
        nonlocal track
        if special == "edgelock":  # content whose rendering depends on the reproduction screen
            bf = AudioBlockFormatObjects(position=ObjectPolarPosition(
                azimuth=float(rng.choice([0, 10, -20])), elevation=0.0, distance=1.0,
                screenEdgeLock=ScreenEdgeLock(horizontal=rng.choice(["left", "right"]))))
            it = b.create_item_objects(track, "lock%d" % track, parent=parent, block_formats=[bf])
            track += 1
            info["items"].append("obj:edgelock")
            return it
        kind = rng.choice(["ds", "ds", "obj", "obj", "hoa"]) if passthrough is None else "ds"
        if kind == "ds":
            name = rng.choice(layout_channel_names + ["M+030", "M-030", "LFE1", "M+110"]) if passthrough is None else passthrough
            bf = AudioBlockFormatDirectSpeakers(
                position=DirectSpeakerPolarPosition(bounded_azimuth=BoundCoordinate(float(rng.randint(-180, 180))),
                                                    bounded_elevation=BoundCoordinate(0.0),
                                                    bounded_distance=BoundCoordinate(1.0)),
                speakerLabel=[name])
            it = b.create_item_direct_speakers(track, "ds%d" % track, parent=parent, block_formats=[bf])
            track += 1
            info["items"].append("ds:" + name)
        elif kind == "obj":
            it = b.create_item_objects(track, "obj%d" % track, parent=parent, block_formats=objects_blocks(rounded))
            track += 1
            info["items"].append("obj")
        else:
            it = b.create_item_hoa([track, track + 1, track + 2, track + 3], [0, 1, 1, 1], [0, -1, 0, 1],
                                   "hoa%d" % track, parent=parent, normalization=rng.choice(["SN3D", "N3D"]))
            track += 4
            info["items"].append("hoa")
        return it

    rounded = rng.random() < 0.25
    info["rounded"] = rounded
    n_items = rng.randint(1, 3) if passthrough is None and special is None else 1
    items1 = [add_item(c1, rounded and i == 0) for i in range(n_items)]
    comp = None
    if rng.random() < 0.3 and passthrough is None:
        # complementary group: the last object of programme 1 gets an alternative
        alt = add_item(c1)
        items1[-1].audio_object.audioComplementaryObjects.append(alt.audio_object)
        comp = (items1[-1].audio_object, alt.audio_object)
        info["comp"] = True
    prog2 = None
    if two_prog:
        prog2 = b.create_programme(audioProgrammeName="p2")
        c2 = b.create_content(audioContentName="c2", parent=prog2)
        add_item(c2)
        info["programmes"] = 2
    generate_ids(b.adm)
    return b.adm, track, prog1, prog2, comp, info


SCREENS = {
    # name -> (yaml text, constructor kwargs or None for "no screen"); "default" = key absent
    "null": ("screen: null\n", None),
    "narrow": ("screen:\n  type: polar\n  aspectRatio: 1.78\n  centrePosition: {az: 0.0, el: 0.0, r: 1.0}\n  widthAzimuth: 40.0\n",
               dict(aspectRatio=1.78, az=0.0, el=0.0, r=1.0, widthAzimuth=40.0)),
    "offset": ("screen:\n  type: polar\n  aspectRatio: 1.5\n  centrePosition: {az: 10.0, el: 5.0, r: 1.0}\n  widthAzimuth: 30.0\n",
               dict(aspectRatio=1.5, az=10.0, el=5.0, r=1.0, widthAzimuth=30.0)),
}


def reference_layout(lay, screen_kind):
    """The layout the speakers file describes, built WITHOUT the library's with_real_layout / YAML loader
    (speaker positions in the generated files are the nominal ones, so only the screen can differ)."""
    from attr import evolve
    from ear.common import PolarScreen, PolarPosition
    if screen_kind == "default":
        return lay
    kw = SCREENS[screen_kind][1]
    if kw is None:
        return evolve(lay, screen=None)
    return evolve(lay, screen=PolarScreen(aspectRatio=kw["aspectRatio"],
                                          centrePosition=PolarPosition(kw["az"], kw["el"], kw["r"]),
                                          widthAzimuth=kw["widthAzimuth"]))


def speakers_variant(rng, lay):
    """Return (yaml text or None, speakers list [(channel, names, gain)] or None, kind, screen kind)."""
    names = lay.channel_names
    k = rng.choice(["none", "none", "perm", "perm", "gains", "extra", "screen-only", "positions"])
    screen_kind = rng.choice(["default", "default", "null", "narrow", "offset"]) if k != "none" else "default"
    if k == "none":
        return None, None, k, "default"
    if k == "screen-only":
        screen_kind = rng.choice(["null", "narrow", "offset"])
        return SCREENS[screen_kind][0], None, k + ":" + screen_kind, screen_kind
    chans = list(range(len(names)))
    if k in ("perm", "gains", "extra", "positions"):
        rng.shuffle(chans)
    if k == "extra":
        off = rng.randint(1, 3)
        chans = [c + off if c >= len(names) // 2 else c for c in chans]  # leaves unused output channels
    sp = []
    lines = ["speakers:"]
    for name, ch, channel in zip(names, chans, lay.channels):
        g = 1.0 if k in ("perm", "positions") else rng.choice([1.0, 0.5, 0.25, 2.0])
        sp.append((ch, [name], g))
        entry = "  - {channel: %d, names: %s, gain_linear: %r" % (ch, name, g)
        if k == "positions":
            pp = channel.polar_nominal_position
            entry += ", position: {az: %r, el: %r, r: 1.0}" % (float(pp.azimuth), float(pp.elevation))
        lines.append(entry + "}")
    text = "\n".join(lines) + "\n"
    if screen_kind != "default":
        text += SCREENS[screen_kind][0]
    return text, sp, k + ("" if screen_kind == "default" else ":" + screen_kind), screen_kind


DIRECTED_GAINS = {"gain0": 0.0, "gain0-int": 0, "neg": -1.0, "big": 2.0, "half": 0.5}


def choose_speakers(rng, lay, directed=None, pt=None, legacy=False):
    """Speakers file for one file-to-file run.
    -> (yaml text | None, speakers [(channel, names, gain)] | None, label, reference Layout, intent | None).
    `directed`: a deterministic file in which the loudspeaker that carries the signal (`pt`) has the gain
    DIRECTED_GAINS[directed] (exactly 0, negative, > 1), all other entries unity; output channels reversed."""
    import yaml
    if directed is not None:
        names = list(lay.channel_names)
        n = len(names)
        entries = []
        for i, name in enumerate(names):
            e = dict(channel=n - 1 - i, names=[name], gain=None, pos=None, form="str")
            if name == pt:
                e["gain"] = DIRECTED_GAINS[directed]
            elif i % 2:
                e["gain"] = 1.0
            entries.append(e)
        screen = "null" if directed == "gain0" else "absent"
        obj = {"speakers": [dict([("channel", e["channel"]), ("names", e["names"][0])] +
                                 ([("gain_linear", e["gain"])] if e["gain"] is not None else [])) for e in entries]}
        if screen == "null":
            obj["screen"] = None
        intent = dict(speakers=entries, screen=screen, kind="directed-" + directed)
        text = yaml.safe_dump(obj, sort_keys=False)
    elif legacy:
        text, speakers, sk, screen_kind = speakers_variant(rng, lay)
        return text, speakers, sk, reference_layout(lay, screen_kind), screen_kind
    else:
        obj, intent = LY.gen_valid(rng, lay, render_safe=True)
        text = LY.dump_yaml(rng, obj)
    ref = LY.reference_output_layout(lay, intent)
    speakers = None if intent["speakers"] is None else [
        (e["channel"], list(e["names"]), 1.0 if e["gain"] is None else float(e["gain"])) for e in intent["speakers"]]
    return text, speakers, "g:" + intent["kind"], LY.build_reference_layout(lay, ref), intent


def write_input(path, adm, n_tracks, frames, bitdepth, rate, rng, full_scale=False):
    import lxml.etree
    from ear.fileio import openBw64
    from ear.fileio.adm.chna import populate_chna_chunk
    from ear.fileio.adm.xml import adm_to_xml
    from ear.fileio.bw64.chunks import ChnaChunk, FormatInfoChunk

    axml = lxml.etree.tostring(adm_to_xml(adm), pretty_print=True)
    chna = ChnaChunk()
    populate_chna_chunk(chna, adm)
    M = 2 ** (bitdepth - 1) - 1
    nprng = np.random.RandomState(rng.randint(0, 2 ** 31 - 1))
    if full_scale == "neg":   # negative-only full scale: overload must be detected on either sign
        codes = nprng.choice([-M, 0, M // 2, -M // 3], size=(frames, n_tracks))
        codes[0, :] = -M
    elif full_scale == "pos":
        codes = nprng.choice([M, 0, -M // 2, M // 3], size=(frames, n_tracks))
        codes[0, :] = M
    elif full_scale:
        codes = nprng.choice([-M, M, 0, M // 2], size=(frames, n_tracks))
    else:
        codes = nprng.randint(-M // 3, M // 3 + 1, size=(frames, n_tracks))
    samples = codes / float(M)
    fmt = FormatInfoChunk(formatTag=1, channelCount=n_tracks, sampleRate=rate, bitsPerSample=bitdepth)
    with openBw64(path, "w", chna=chna, formatInfo=fmt, axml=axml) as f:
        if frames:
            f.write(samples)
    return samples


def in_memory(in_path, lay_real, programme_id, comp_ids, conversion, fix):
    """In-memory rendering of the selected programme through the library's public API, one block + tail."""
    from ear.core import Renderer
    from ear.core.metadata_processing import (preprocess_rendering_items, convert_objects_to_cartesian,
                                              convert_objects_to_polar)
    from ear.core.select_items import select_rendering_items
    from ear.fileio import openBw64Adm
    from ear.fileio.adm import timing_fixes

    with openBw64Adm(in_path) as f:
        adm = f.adm
        adm.validate()
        timing_fixes.check_blockFormat_timings(adm, fix=fix)
        prog = adm[programme_id] if programme_id else None
        comps = [adm[c] for c in comp_ids]
        items = select_rendering_items(adm, audio_programme=prog, selected_complementary_objects=comps)
        items = preprocess_rendering_items(items)
        if conversion == "to_cartesian":
            items = convert_objects_to_cartesian(items)
        elif conversion == "to_polar":
            items = convert_objects_to_polar(items)
        r = Renderer(lay_real)
        r.set_rendering_items(items)
        chunks = list(f.iter_sample_blocks(1 << 20))
        x = np.concatenate(chunks, axis=0) if chunks else np.zeros((0, f.channels))
        out = [r.render(f.sampleRate, x), r.get_tail(f.sampleRate, f.channels)]
        return out, f.sampleRate, f.bitdepth, x.shape[0]


def OfflineBlocksize():
    from ear.cmdline.render_file import OfflineRenderDriver
    return OfflineRenderDriver.blocksize


def frac(x):
    fr = Fraction(float(x))
    return "%d/%d" % (fr.numerator, fr.denominator)


class C04(Spec):
    pid = "C04"
    lean_targets = ("Earverif.Props.C04", "Earverif.Props.C04Compose", "c04driver")
    props_module = "Earverif.Props.C04Compose"
    theorems = tuple("Earverif.FileRender." + t for t in (
        "run_frame_count", "run_channel_count", "upmix_column", "dot_single", "overload_iff", "run_failed_iff",
        "quantise_within_step", "quantise_clips", "run_blocking_invariant", "run_failed_iff_samples", "run_eq_runU",
        "file_frames_eq_input",
        "file_render_blocks_frames", "file_samples_eq_spec", "file_eye_upmix_same", "file_render_raises", "exSessionF_wf",
        "file_frames_eq_input_fir", "file_render_blocks_frames_fir")) + tuple("Earverif.FileRenderLayout." + t for t in (
        "speakers_file_channels", "speakers_file_routing", "speakers_file_column_nnz", "upmix_check_iff",
        "speakers_file_check_clean_iff", "parse_speaker_spec", "parse_polar_spec", "screen_null_vs_absent",
        "screen_list_form", "with_real_layout_screen", "load_output_layout_screen", "inside_angle_range_iff",
        "check_position_iff", "with_speakers_eq_upmix", "eye_identity", "outBlock_eye", "run_eye_upmix",
        "load_output_layout_spec",
        "programme_lookup_total", "lookupAll_ok", "get_rendering_items_spec", "get_rendering_items_lookup_error",
        "apply_conversion_spec", "fileParts_spec", "renderCalls_length"))
    trusted_base = (
        "model Earverif/Model/FileRender.lean: hand transliteration of OfflineRenderDriver.render_input_file / run glue, "
        "Layout.with_speakers routing, PeakMonitor and the truncating quantiser over exact rationals; float rounding of "
        "x*gain and x*M is C16's subject",
        "model Earverif/Model/FileRenderLayout.lean: hand transliteration of layout.load_real_layout / load_speakers on a "
        "PARSED YAML value, Layout.with_speakers / with_real_layout, check_positions (geom.inside_angle_range), "
        "check_upmix_matrix, OfflineRenderDriver.load_output_layout, lookup_adm_element / get_rendering_items and the "
        "block loop (iter_sample_blocks per C18's specIter, then get_tail); tied to the code by the `@` ops of the C04 driver",
        "PyYAML (text -> value), argparse and the filesystem are exercised by the harness but not modelled; "
        "select_rendering_items / preprocess_rendering_items / convert_objects_* are parameters of the glue model (C06/C07/C19)",
    )
    assumptions = (
        "the in-memory rendering used as reference is the library's own Renderer fed one block + tail (equal to any "
        "other blocking up to rounding: C02); codes are compared within +-1 because the model is exact and the code uses floats",
        "overload comparison is skipped when the exact peak is within 1e-9 of 1 unless the case was constructed to be exact",
        "speakers-file model: YAML values restricted to null/bool/int/finite float/str/list/dict; integers within the "
        "int64/float range; ADM ids ASCII (str.upper); the model answers `unsupported` (no claim, not compared) for a string "
        "where a number is expected (Python's float()/numpy accept numeric strings), for bool/float channel numbers and for "
        "`gain_linear: null` (numpy stores NaN)",
        "generated real positions and angles are multiples of 1/4 degree, so the +-360.0 float arithmetic of "
        "inside_angle_range is exact",
    )
    rule = ("generated BW64/ADM input files (items DirectSpeakers/Objects/HOA, 1-2 programmes, complementary group, "
            "rounded durations) x layout x speakers file variant x output gain x options; a case is one file-to-file run; "
            "non-trivial = non-empty audio and at least one non-zero output sample; distinct by all parameters. "
            "Speakers files: a grammar of valid files (permutations, shared output channels via one entry or equal channel "
            "numbers, first-entry-wins, gains 0 / negative / > 1 / integer, names as string or list, real positions on and "
            "around the range boundaries, screen absent / null / polar / cart, list or dict form, unknown keys) plus a "
            "deterministic directed set and a malformed stream (every key missing / null / of each wrong type, out-of-range "
            "and extra position keys, negative and non-integer channels, malformed screens, non-mapping documents); a case "
            "is one document x layout through load_real_layout, load_speakers, with_real_layout + check_* and "
            "load_output_layout; lookups: generated element lists x ids (case variants, unknown, wrong type) x conversion mode")

    def _one(self, ctx, tmp, idx, driver_lines, metas, long_frames=False, exact_overload=None, screen_probe=None,
             directed=None):
        from ear.core import bs2051, layout as layout_mod
        from ear.cmdline.render_file import OfflineRenderDriver
        from ear.fileio import openBw64

        rng = ctx.rng
        lname = rng.choice(bs2051.layout_names)
        lay = bs2051.get_layout(lname)
        # exact overload probes: one DirectSpeakers channel passed through to the like-named loudspeaker
        pt = rng.choice([n for n in lay.channel_names if not n.startswith("LFE")]) if (exact_overload or directed) else None
        adm, n_tracks, prog1, prog2, comp, info = make_adm(rng, None, lay.channel_names, passthrough=pt,
                                                           special="edgelock" if screen_probe else None)
        bitdepth = rng.choice([16, 24, 32])
        rate = rng.choice([48000, 44100])
        frames = rng.choice(FRAME_CHOICES_LONG if long_frames else FRAME_CHOICES_QUICK)
        if long_frames and long_frames is not True:
            frames = long_frames
        # speakers file: the older hand-written variants (needed by the overload and screen probes, which rewrite
        # them) or, half of the time and for the directed gain probes, a file from the grammar of c04_layout
        legacy = bool(exact_overload or screen_probe) or (directed is None and rng.random() < 0.5)
        yaml_text, speakers, sk, lay_real, screen_kind = choose_speakers(rng, lay, directed=directed, pt=pt, legacy=legacy)
        if screen_probe:  # a speakers file whose screen entry is `screen_probe`, with and without a speakers list
            while screen_kind != screen_probe:
                yaml_text, speakers, sk, lay_real, screen_kind = choose_speakers(rng, lay, legacy=True)
        gain_db = rng.choice([0.0, 0.0, -6.0, 3.0, round(rng.uniform(-12, 6), 2)])
        fail = rng.random() < 0.5
        conversion = rng.choice([None, None, "to_cartesian", "to_polar"])
        fix = info["rounded"] or rng.random() < 0.3
        prog_id = None
        if prog2 is not None:
            prog_id = rng.choice([None, prog1.id, prog2.id])
        elif rng.random() < 0.3:
            prog_id = prog1.id
        comp_ids = []
        if comp is not None and rng.random() < 0.6 and (prog_id is None or prog_id == prog1.id):
            comp_ids = [comp[1].id]
        full_scale = False
        if exact_overload is not None:
            full_scale = {"at": True, "above": True, "above-neg": "neg", "above-pos": "pos", "at-neg": "neg"}[exact_overload]
            gain_db = 0.0 if exact_overload.startswith("at") else 0.001
            fail = True
            conversion = None
            if speakers is not None:  # unit gains so that the peak is exactly full scale at 0 dB
                speakers = [(c, n, 1.0) for c, n, _ in speakers]
                yaml_text = "speakers:\n" + "".join("  - {channel: %d, names: %s, gain_linear: 1.0}\n" % (c, n[0]) for c, n, _ in speakers)
                if screen_kind != "default":
                    yaml_text += SCREENS[screen_kind][0]
            frames = max(frames, 7)
        if directed is not None:   # plain settings: the routing gain under test is the only thing that scales the signal
            gain_db, conversion, fail = 0.0, None, False
            frames = max(frames, 7)
        in_path = os.path.join(tmp, "in%d.wav" % idx)
        out_path = os.path.join(tmp, "out%d.wav" % idx)
        write_input(in_path, adm, n_tracks, frames, bitdepth, rate, rng, full_scale=full_scale)
        params = dict(layout=lname, speakers=sk, gain_db=gain_db, fail=fail, conversion=conversion, fix=fix,
                      programme=prog_id, comp=comp_ids, bitdepth=bitdepth, rate=rate, frames=frames,
                      items=info["items"], exact_overload=exact_overload, speakers_file=yaml_text)
        ctx.count("layout:" + lname); ctx.count("speakers:" + sk); ctx.count("bitdepth:%d" % bitdepth)
        ctx.count("frames:%d" % frames); ctx.count("conversion:%s" % conversion)
        for it in info["items"]:
            ctx.count("item:" + it.split(":")[0])
        # ---- the real file-to-file run
        drv = OfflineRenderDriver(target_layout=lname, speakers_file=io.StringIO(yaml_text) if yaml_text else None,
                                  output_gain_db=gain_db, fail_on_overload=fail, enable_block_duration_fix=fix,
                                  programme_id=prog_id, complementary_object_ids=comp_ids, conversion_mode=conversion)
        failed, err = False, None
        calls = []
        from ear.cmdline import render_file as _rf
        import contextlib as _cl
        saved_renderer = _rf.Renderer
        with warnings.catch_warnings():
            warnings.simplefilter("ignore")
            try:
                _rf.Renderer = LY.recording_renderer(calls)   # records the render / get_tail call sequence
                with _cl.redirect_stderr(io.StringIO()):     # check_positions / check_upmix_matrix messages
                    drv.run(in_path, out_path)
            except Exception as e:  # noqa
                if str(e) == "error: output overloaded":
                    failed = True
                else:
                    err = e
            finally:
                _rf.Renderer = saved_renderer
            # ---- reference: in-memory rendering + own routing (lay_real: reference layout, built without the code under test)
            try:
                blocks, rate2, bd2, n_in = in_memory(in_path, lay_real, prog_id, comp_ids, conversion, fix)
            except Exception as e:  # reference itself rejects the input: outside the quantifier
                import traceback as _tb
                if _tb.extract_tb(e.__traceback__)[-1].filename == __file__:
                    raise  # a bug in this harness, not a property of the code
                ctx.count("reference-rejects:" + type(e).__name__)
                if err is None and not failed:
                    ctx.hit("file renderer accepted an input the in-memory pipeline rejects", params, repr(e))
                return
        if err is not None:
            ctx.hit("OfflineRenderDriver.run raised although the in-memory pipeline renders the file", params,
                    "%s: %s" % (type(err).__name__, err))
            return
        with openBw64(out_path) as f:
            got = dict(rate=f.sampleRate, bitdepth=f.bitdepth, frames=len(f), channels=f.channels)
            out = f.read(len(f)) if len(f) else np.zeros((0, f.channels))
        self._calls.append((params, frames, list(calls)))
        M = 2 ** (bitdepth - 1) - 1
        got_codes = np.rint(out * M).astype(np.int64)
        g = 10.0 ** (gain_db / 20.0)
        rendered = np.concatenate(blocks, axis=0)
        L = len(lay.channels)
        if speakers is None:
            n_out = L
            routed = rendered * g
        else:
            n_out = max(c for c, _, _ in speakers) + 1
            routed = np.zeros((rendered.shape[0], n_out))
            for i, name in enumerate(lay.channel_names):
                for (c, names, sg) in speakers:
                    if name in names:
                        routed[:, c] += rendered[:, i] * g * sg
                        break
        want = dict(rate=rate, bitdepth=bitdepth, frames=frames, channels=n_out)
        peak = float(np.max(np.abs(routed))) if routed.size else 0.0
        nontrivial = frames > 0 and bool(np.any(got_codes != 0))
        ctx.case(tuple(sorted((k, str(v)) for k, v in params.items())), nontrivial,
                 sample=dict(params, out_format=got, peak=peak))
        # ---- direct predicate
        if got != want:
            ctx.hit("output file format/frame count/channel count differs", params, {"want": want, "got": got})
            return
        exact = np.clip(routed, -1.0, 1.0) * M
        dev = np.abs(got_codes - exact)
        if dev.size and float(dev.max()) >= 1.0 + 1e-6:
            fi, ci = np.unravel_index(int(np.argmax(dev)), dev.shape)
            ctx.hit("output sample differs from gain*routing*in-memory rendering by more than one step", params,
                    {"frame": int(fi), "channel": int(ci), "got_code": int(got_codes[fi, ci]),
                     "exact_scaled": float(exact[fi, ci])})
            return
        ambiguous = abs(peak - 1.0) < 1e-9 and exact_overload is None
        if not ambiguous:
            should_fail = fail and peak > 1.0
            if failed != should_fail:
                ctx.hit("fail-on-overload outcome wrong", params,
                        {"peak": peak, "fail_on_overload": fail, "run_failed": failed})
                return
        else:
            ctx.count("overload-boundary-ambiguous")
        ctx.count("overloaded" if peak > 1.0 else "not-overloaded")
        # ---- model correspondence (small cases only: exact rationals as text)
        if frames <= 300:
            sp_txt = "none" if speakers is None else " ; ".join("%d %s %s" % (c, ",".join(n), frac(sg)) for c, n, sg in speakers)
            blk = " # ".join("-" if b.shape[0] == 0 else " ; ".join(" ".join(frac(v) for v in fr) for fr in b)
                             for b in blocks)
            driver_lines.append(" | ".join([" ".join(lay.channel_names), sp_txt, frac(g), "1" if fail else "0", str(M), blk]))
            metas.append((params, got_codes, failed, n_out, ambiguous))

    def _flush(self, ctx, driver, lines, metas):
        outs = driver.run(lines)
        for line, (params, got_codes, failed, n_out, ambiguous) in zip(outs, metas):
            if line == "bad-op":
                ctx.disagree("driver rejected request", params, line, None)
                continue
            head, body = line.split("|", 1)
            kv = dict(t.split("=") for t in head.split())
            frames = [[int(v) for v in fr.split()] for fr in body.split(";") if fr.strip()]
            model = np.array(frames, dtype=np.int64).reshape(len(frames), int(kv["n"])) if frames else np.zeros((0, int(kv["n"])), dtype=np.int64)
            bad = None
            if int(kv["n"]) != n_out or model.shape != got_codes.shape:
                bad = ("shape", model.shape, got_codes.shape)
            elif model.size and int(np.abs(model - got_codes).max()) > 1:
                bad = ("codes", int(np.abs(model - got_codes).max()))
            elif not ambiguous and (kv["failed"] == "1") != failed:
                bad = ("failed", kv["failed"], failed)
            if bad:
                ctx.disagree("OfflineRenderDriver.run vs Earverif.FileRender.run", params, bad, "see replay")
            else:
                ctx.validated()
        lines.clear(); metas.clear()
        # the render / get_tail call sequence of render_input_file vs the model's block loop (C18's iteration spec)
        calls, self._calls = self._calls, []
        outs = driver.run(["@parts %d %d" % (OfflineBlocksize(), frames) for _, frames, _ in calls])
        for line, (params, frames, log) in zip(outs, calls):
            real = " ".join([str(len(log) - 1)] + [str(x) for x in log[:-1]]) if log and log[-1] == "tail" else "no-tail:%r" % (log[-3:],)
            if line != real:
                ctx.disagree("render_input_file call sequence vs Earverif.FileRenderLayout.fileParts/renderCalls", params, line[:200], real[:200])
            else:
                ctx.validated()
                ctx.count("block-calls:%d" % (len(log) - 1))

    _calls = []

    def correspond(self, ctx):
        driver = Driver("c04driver", "Earverif.Driver.C04")
        tmp = tempfile.mkdtemp(prefix="c04_")
        self._calls = []
        try:
            # ---- the speakers-file front end, the lookup glue, check_upmix_matrix / inside_angle_range (no rendering)
            LY.correspond_directed(ctx, driver)
            LY.correspond_speakers_files(ctx, driver, 90 if ctx.quick else 600, 110 if ctx.quick else 900)
            LY.correspond_checks(ctx, driver, 60 if ctx.quick else 400)
            LY.correspond_lookup(ctx, driver, 50 if ctx.quick else 400)
            # ---- file-to-file runs
            lines, metas = [], []
            n = 7 if ctx.quick else 150
            for i in range(n):
                self._one(ctx, tmp, i, lines, metas)
            # deterministic routing-gain probes: the loudspeaker that carries the signal is muted (gain exactly 0),
            # inverted, or amplified by the speakers file
            for i, d in enumerate(["gain0", "neg", "big", "gain0-int"] if ctx.quick
                                  else ["gain0", "neg", "big", "gain0-int", "half"] * 3):
                self._one(ctx, tmp, 500 + i, lines, metas, directed=d)
            for i, mode in enumerate(["at", "above-neg", "at-neg", "above-pos", "above"] if ctx.quick
                                     else ["at", "above", "above-neg", "at-neg", "above-pos"] * 4):
                self._one(ctx, tmp, 1000 + i, lines, metas, exact_overload=mode)
            # lengths at and around the 8192-frame processing block: the exact multiples always, the others by draw
            for i, fl in enumerate([8192, 16384] + ([None] if ctx.quick else [8191, 8193, 12345, 24576, None, None, None])):
                self._one(ctx, tmp, 2000 + i, lines, metas, long_frames=fl if fl else True)
            for i, sk in enumerate(["null", "narrow", "null"] if ctx.quick else ["null", "narrow", "offset"] * 6):
                self._one(ctx, tmp, 3000 + i, lines, metas, screen_probe=sk)
            self._flush(ctx, driver, lines, metas)
        finally:
            shutil.rmtree(tmp, ignore_errors=True)

    def search(self, ctx, deep):
        if not deep or not ctx.quick:
            return  # thorough already ran the large budget in correspond
        LY.search_speakers_files(ctx, 400)
        tmp = tempfile.mkdtemp(prefix="c04s_")
        try:
            lines, metas = [], []
            for i in range(40):
                self._one(ctx, tmp, i, lines, metas, long_frames=(i % 8 == 0))
        finally:
            shutil.rmtree(tmp, ignore_errors=True)


SPEC = C04()

REGISTRY = dict(
    text="PARTIAL: Lean theorems over two hand models. (1) Glue of OfflineRenderDriver.run (Earverif.FileRender.run_frame_count, "
    "run_channel_count, upmix_column, dot_single, overload_iff, run_failed_iff, quantise_within_step, quantise_clips, "
    "run_blocking_invariant, run_failed_iff_samples) prove for all block sequences, layouts and speakers lists: frames out = frames the renderer "
    "returned, one channel per loudspeaker or per output channel of the speakers file, routing/scaling by the speakers file, "
    "overload flag <=> some output sample exceeds full scale (any blocking, incl. empty blocks), failure <=> flag and "
    "fail_on_overload (run_failed_iff_samples: failed <=> fail_on_overload and some sample of the scaled, upmixed "
    "concatenated output has magnitude > 1), written code within one step of the exact sample and clipped outside [-1,1], "
    "result independent of how the renderer output is cut into blocks. (2) Speakers-file front end on a parsed YAML value "
    "(Earverif.FileRenderLayout.*): speakers_file_channels (with_speakers succeeds => every channel entry is an integer, "
    "rows = 1 + max channel, every listed channel below that, one column per layout channel), speakers_file_routing (each "
    "layout channel goes to the row of the FIRST entry listing its name, Python negative indices included, scaled by its "
    "gain, takes its position; unlisted => silent, not rejected), speakers_file_column_nnz / upmix_check_iff / "
    "speakers_file_check_clean_iff (check_upmix_matrix is silent exactly for matrices with one non-zero per column and at "
    "most one per row; for a speakers file: every channel listed with non-zero gain and no shared output), "
    "parse_speaker_spec / parse_polar_spec (names and channel required - no default channel index -, names string or list, "
    "gain_linear default 1, unknown keys ignored, position keys exactly az/el/r within range), screen_null_vs_absent / "
    "screen_list_form / with_real_layout_screen / load_output_layout_screen (absent => default screen, null => no screen, "
    "the BS.2051 layout's own screen is never kept), inside_angle_range_iff / check_position_iff (range test = some "
    "whole-turn representative inside [lo, hi]), with_speakers_eq_upmix / eye_identity / load_output_layout_spec (the "
    "parsed file yields exactly FileRender.upmix / nChannels, identity without a speakers list; outBlock_eye / "
    "run_eye_upmix: with n_channels = len(channels) and upmix = eye(n) the WHOLE result record - channel count, codes, "
    "peaks, failure - equals that of the run without a speakers file, runU being run with n_channels/upmix given "
    "directly, run_eq_runU), programme_lookup_total / "
    "lookupAll_ok / get_rendering_items_spec / get_rendering_items_lookup_error / apply_conversion_spec (an id that does "
    "not exist is KeyError, a wrong-type element ValueError, never a default; lookups, select, preprocess, convert in that "
    "order). (3) Compositions with the C02/C03 renderer model that has the partitioned overlap-save convolver and the numpy "
    "exceptions inside (renderAllOS): file_samples_eq_spec is the C04 sentence as ONE theorem from input audio + metadata "
    "to file codes - for every session inside SessionWF (accepted timelines, block_size >= 1, tracks inside the input, "
    "decode matrices of the right width, >= 1 decorrelator tap), every input and every blocksize >= 1: reading with "
    "iter_sample_blocks(blocksize) (C18 specIter via fileParts_spec: blocks tile the file), one render per block + one "
    "get_tail, scaling/upmixing/monitoring/writing raises no renderer exception and returns the result record res (the "
    "file is then completely written; the real run afterwards raises 'error: output overloaded' iff res.failed), the "
    "written frames are EXACTLY quantise M applied to "
    "exactOut = gain * U * RenderSpec.out(input) frame by frame (the sample-by-sample C03 specification; block structure, "
    "latency compensation and tail gone), there are input.length of them with nChannels samples each, and every code is "
    "within one quantisation step of exact*M inside full scale and +-M outside (quantise_within_step / quantise_clips), "
    "and res.failed <=> fail_on_overload and some sample of exactOut has magnitude > 1 (the property's last sentence "
    "about the specified output of the whole input, not about renderer blocks; kernel-evaluated instances: loud file with "
    "the option fails and is written clipped, without the option or quiet it does not); file_eye_upmix_same: for the same "
    "sessions, a speakers file without a speakers list (upmix = eye(n)) gives the same result record and the same exactOut "
    "as no speakers file, which is why speakers = none stands for both; "
    "file_frames_eq_input / file_render_blocks_frames are the frame-count corollaries, file_render_raises says a renderer "
    "exception (e.g. IndexError for a track outside the file's channels) aborts the run; exSessionF_wf + a kernel-"
    "evaluated three-frame file are the non-vacuity instances; *_fir are the older statements about the FIR stand-in "
    "model. Holds for every accepted "
    "session. Tied to the code on every run: OfflineRenderDriver.run on generated files vs model and an independent "
    "reference (incl. deterministic gain 0 / negative / > 1 probes and the recorded render/get_tail call sequence); "
    "load_real_layout / load_speakers / with_real_layout / check_* / load_output_layout / lookup_adm_element / "
    "get_rendering_items / check_upmix_matrix / inside_angle_range vs the model on valid, directed and malformed inputs; the "
    "full contract is additionally evaluated directly. Remaining outside: YAML text parsing (PyYAML), argparse, the "
    "filesystem, select/preprocess/convert themselves (parameters here; C06/C07/C19), float rounding (C16), the "
    "same-sample-rate / same-bit-depth clause (no theorem: the model's input is a list of exact frames without a format "
    "chunk, so M is a free parameter of run/runFile and not tied to 2^(bits-1)-1 of the input file, and the sample rate "
    "only enters through the renderer's Cfg; the clause is covered only by the direct predicate, which compares "
    "sampleRate, bitdepth, frame count and channel count of every written file with the input's on every run), Python "
    "dynamic-typing corners answered `unsupported` (numeric strings, bool/float channels, null gain).",
    note="Trusted: Lean kernel, the two hand models + correspondence harness; PyYAML/argparse/filesystem not modelled; "
    "output format chunk (same sample rate / bit depth as the input) not modelled: M is a free parameter of the theorems, "
    "the clause is checked by the direct predicate only; "
    "in-memory reference uses the library's own Renderer/select_rendering_items; the layout reference (harness/c04_layout.py "
    "reference_output_layout) is written from the documentation and does not call the code under test.",
    technique="Lean 4 proofs (induction over blocks/frames/entries, case analysis of the parser, rational arithmetic) about "
    "glue models + differential correspondence (file-to-file and parsed-YAML level) + independent-reference direct predicate",
    design_ref="DESIGN.md section 4, C04",
)
