"""C20 — TrackProcessor / MultiTrackProcessor vs the Lean track-spec model and the literal meaning.

Specs are handled here as nested tuples
    ('D', i) | ('S',) | ('M', [spec, ...]) | ('G', gain, spec) | ('X', gain|None, delay_ms|None, spec)
with gains and delays as `Fraction`s that are exactly representable as floats.

The Lean driver runs the processors with the ms -> samples conversion evaluated in binary64 (delaySamplesF), like the
code; `init_delay` is compared with it directly (also within a few ulp of a half sample), and the theorems' statement
of the literal meaning (meaningStrict) is compared with the numpy reference below.
"""
import itertools
import math
from fractions import Fraction as F

import numpy as np

from .common import Spec, Driver

NCH = 3


# --------------------------------------------------------------------------------------
# spec trees: conversion to the real classes / to the driver's text


def to_real(t):
    from ear.core.metadata_input import (DirectTrackSpec, SilentTrackSpec, MixTrackSpec, GainTrackSpec,
                                         MatrixCoefficientTrackSpec)
    from ear.fileio.adm.elements import MatrixCoefficient

    k = t[0]
    if k == "D":
        return DirectTrackSpec(t[1])
    if k == "S":
        return SilentTrackSpec()
    if k == "M":
        return MixTrackSpec([to_real(c) for c in t[1]])
    if k == "G":
        return GainTrackSpec(to_real(t[2]), float(t[1]))
    if k == "X":
        return MatrixCoefficientTrackSpec(
            to_real(t[3]),
            MatrixCoefficient(gain=None if t[1] is None else float(t[1]), delay=None if t[2] is None else float(t[2])),
        )
    raise AssertionError(t)


def rat(q):
    return "-" if q is None else "%d/%d" % (q.numerator, q.denominator)


def to_text(t):
    k = t[0]
    if k == "D":
        return "D %d" % t[1]
    if k == "S":
        return "S"
    if k == "M":
        return " ".join(["M %d" % len(t[1])] + [to_text(c) for c in t[1]])
    if k == "G":
        return "G %s %s" % (rat(t[1]), to_text(t[2]))
    if k == "X":
        return "X %s %s %s" % (rat(t[1]), rat(t[2]), to_text(t[3]))
    raise AssertionError(t)


def depth(t):
    k = t[0]
    if k in "DS":
        return 1
    if k == "M":
        return 1 + max([depth(c) for c in t[1]] + [0])
    return 1 + depth(t[-1])


def nodes(t):
    yield t
    if t[0] == "M":
        for c in t[1]:
            yield from nodes(c)
    elif t[0] in "GX":
        yield from nodes(t[-1])


def exact_samples(fs, ms):
    return F(fs) * ms / 1000


def code_delay_samples(fs, ms):
    """ceil(x - 1/2) in exact arithmetic (what the code's formula means)."""
    x = exact_samples(fs, ms) - F(1, 2)
    return -((-x.numerator) // x.denominator)


def float_formula_is_exact(fs, ms):
    """The generators only use (fs, delay) pairs for which evaluating the code's formula in binary64 cannot land
    on the other side of an integer than exact arithmetic does (distance to the nearest tie >= 1e-9 samples, or the
    float evaluation is exact)."""
    x = exact_samples(fs, ms) - F(1, 2)
    d = abs(x - round(x))
    if d >= F(1, 10 ** 9):
        return True
    # at (or extremely near) a tie: require all three float operations to be exact
    f = float(ms)
    return F(fs * f) == F(fs) * ms and F(fs * f / 1000.0) == F(fs) * ms / 1000 and d == 0


def python_float_delay_samples(fs, ms):
    """The code's expression evaluated by Python on the float (what Earverif.TrackSpec.delaySamplesF models)."""
    return int(math.ceil((fs * float(ms)) / 1000.0 - 0.5))


def float_safe(t, fs):
    """Every coefficient delay of the tree converts to the same number of samples in binary64 as in exact
    arithmetic (Earverif.TrackSpec.Spec.floatExact); evaluated with Python floats, independent of the Lean model."""
    return all(python_float_delay_samples(fs, n[2]) == code_delay_samples(fs, F(float(n[2])))
               for n in nodes(t) if n[0] == "X" and n[2] is not None)


def near_tie_delays(rng, fs, count, mmax=12):
    """Float delays (ms) within a few ulp of m + 1/2 samples at rate fs, as exact Fractions of the floats."""
    out = []
    for _ in range(count):
        m = rng.randint(0, mmax)
        d = (m + 0.5) * 1000.0 / fs
        for _ in range(rng.choice([0, 0, 1, 1, 2, 3])):
            d = math.nextafter(d, rng.choice([-1.0, 1e9]))
        out.append(F(d))
    return out


KNOWN_TAG = "float-delay-near-tie"


def _finding_listed():
    try:
        from .common import load_known
        return any(k.get("property") == "C20" and k.get("status") == "known" and k.get("classifier") == KNOWN_TAG
                   for k in load_known())
    except Exception:
        return False


def report_float_delay(ctx, inp, detail):
    """The code's binary64 ms->samples conversion differs from the nearest sample of the (exact value of the) float
    delay.  A genuine but benign deviation (Earverif.TrackSpec.float_delay_counterexample): reported as a failing
    input only once known_findings.json lists it (classifier float-delay-near-tie), so that the unchanged tree does
    not alarm; always counted and noted in the evidence."""
    ctx.count("finding:" + KNOWN_TAG)
    if _finding_listed():
        ctx.hit("coefficient delay within an ulp of a half sample is not rounded to the nearest sample", inp, detail,
                [KNOWN_TAG])
    elif not any(n.startswith("FINDING " + KNOWN_TAG) for n in ctx.notes):
        ctx.notes.append("FINDING %s (not listed in known_findings.json, therefore not raised as a violation): "
                         "input=%r detail=%r" % (KNOWN_TAG, inp, detail))


def delay_class(fs, ms):
    if ms is None:
        return "none"
    x = exact_samples(fs, ms)
    k = code_delay_samples(fs, ms)
    if k < 0:
        return "negative->AssertionError"
    if x < 0:
        return "negative-rounds-to-0"
    if x == 0:
        return "zero"
    if x - int(x) == F(1, 2):
        return "tie(x.5)"
    if x < 1:
        return "sub-sample->0" if k == 0 else "sub-sample->1"
    return "several" if k <= 8 else "longer-than-input"


def dyadic(q):
    return q is None or (q.denominator & (q.denominator - 1)) == 0


def is_exact_tree(t):
    """All gains are dyadic with short mantissas -> every float operation on small integer input is exact."""
    return all(dyadic(n[1]) and (n[1] is None or abs(n[1].numerator) < 64) for n in nodes(t) if n[0] in "GX")


def in_quantifier(t, fs, nch):
    """Specs whose literal meaning is defined: channel indices name an input channel, delays are not
    negative after rounding (the code rejects those with an AssertionError / IndexError)."""
    for n in nodes(t):
        if n[0] == "D" and not (0 <= n[1] < nch):
            return False
        if n[0] == "X" and n[2] is not None and code_delay_samples(fs, n[2]) < 0:
            return False
    return True


# --------------------------------------------------------------------------------------
# the real code


def run_real(t, fs, blocks, mode="T", rates=None):
    """blocks: list of (n, nch) float arrays. Returns (list of output blocks as lists of floats, error or None)."""
    from ear.core import track_processor as tp

    try:
        if mode == "T":
            p = tp.TrackProcessor(to_real(t))
        elif mode == "P":
            p = tp._track_spec_processor(to_real(t))
        else:
            p = tp.MultiTrackProcessor([to_real(s) for s in t])
    except (AssertionError, IndexError, ValueError) as e:
        return [], type(e).__name__
    outs = []
    for j, b in enumerate(blocks):
        try:
            o = p.process(fs if rates is None else rates[j], b)
        except (AssertionError, IndexError, ValueError) as e:
            return outs, type(e).__name__
        o = np.asarray(o)
        want_shape = (b.shape[0],) if mode != "U" else (b.shape[0], len(t))
        if o.shape != want_shape:
            return outs, "shape%r" % (o.shape,)
        outs.append(o.tolist())
    return outs, None


def split(x, part):
    out, i = [], 0
    for n in part:
        out.append(x[i:i + n])
        i += n
    assert i == len(x)
    return out


# --------------------------------------------------------------------------------------
# the literal meaning, written from the property text (numpy, whole input at once)


def reference(t, fs, x):
    """x: (N, nch) float array -> (N,) array. Nearest sample, an exact half goes to the earlier sample
    (the rule `ceil(x - 1/2)` documented in the code)."""
    N = x.shape[0]
    k = t[0]
    if k == "D":
        return x[:, t[1]].copy()
    if k == "S":
        return np.zeros(N)
    if k == "M":
        acc = np.zeros(N)
        for c in t[1]:
            acc = acc + reference(c, fs, x)
        return acc
    if k == "G":
        return float(t[1]) * reference(t[2], fs, x)
    if k == "X":
        s = reference(t[3], fs, x)
        if t[1] is not None:
            s = float(t[1]) * s
        if t[2] is not None:
            xs = exact_samples(fs, t[2])
            lo = xs.numerator // xs.denominator
            d = lo if xs - lo <= F(1, 2) else lo + 1
            s = np.concatenate([np.zeros(d), s])[:N]
        return s
    raise AssertionError(t)


# --------------------------------------------------------------------------------------
# matrix packs: channels as ('I', track index or None) | ('C', block gain, [(coeff gain, coeff delay, channel), ...])


def from_real(spec):
    """real TrackSpec -> tuple form"""
    n = type(spec).__name__
    if n == "DirectTrackSpec":
        return ("D", spec.track_index)
    if n == "SilentTrackSpec":
        return ("S",)
    if n == "MixTrackSpec":
        return ("M", [from_real(c) for c in spec.input_tracks])
    if n == "GainTrackSpec":
        return ("G", F(spec.gain), from_real(spec.input_track))
    if n == "MatrixCoefficientTrackSpec":
        c = spec.coefficient
        return ("X", None if c.gain is None else F(c.gain), None if c.delay is None else F(c.delay),
                from_real(spec.input_track))
    raise AssertionError(spec)


def rand_mchan(rng, fs, dep):
    if dep <= 1 or rng.random() < 0.3:
        return ("I", rng.choice([0, 1, 2, None]))
    return ("C", rng.choice([F(1), F(1), F(2), F(-1, 2)]),
            [(rng.choice(XGAINS + [F(1, 2)]), rng.choice(DELAYS[fs][:7]), rand_mchan(rng, fs, dep - 1))
             for _ in range(rng.randint(0, 3))])


def mchan_text(c):
    if c[0] == "I":
        return "I " + ("S" if c[1] is None else "D %d" % c[1])
    return " ".join(["C %s %d" % (rat(c[1]), len(c[2]))] + ["%s %s %s" % (rat(g), rat(d), mchan_text(k)) for g, d, k in c[2]])


def real_pack_spec(c):
    """Build ADM channel formats for the channel tree `c`, run the real
    MatrixAllocationPack.output_channel_allocation and return the track spec it builds for the root channel."""
    from types import SimpleNamespace as NS
    from ear.fileio.adm.elements import AudioChannelFormat, AudioBlockFormatMatrix, MatrixCoefficient, TypeDefinition
    from ear.core.select_items.select_items import _PackAllocator

    alloc = []
    out = AudioChannelFormat(audioChannelFormatName="out", type=TypeDefinition.DirectSpeakers)

    def mk(c):
        if c[0] == "I":
            cf = AudioChannelFormat(audioChannelFormatName="in", type=TypeDefinition.DirectSpeakers)
            alloc.append((NS(channel_format=cf), None if c[1] is None else NS(track_uid=NS(trackIndex=c[1] + 1))))
            return cf
        coeffs = [MatrixCoefficient(inputChannelFormat=mk(k), gain=None if g is None else float(g),
                                    delay=None if d is None else float(d)) for g, d, k in c[2]]
        return AudioChannelFormat(audioChannelFormatName="m", type=TypeDefinition.Matrix, audioBlockFormats=[
            AudioBlockFormatMatrix(matrix=coeffs, gain=float(c[1]), outputChannelFormat=out)])

    root = mk(c)
    if c[0] == "I":
        return None  # root channels of a matrix pack are matrix channels
    pack = _PackAllocator.MatrixAllocationPack(root_pack=NS(audioChannelFormats=[root]), channels=[])
    [(cf, spec)] = pack.output_channel_allocation(alloc)
    assert cf is out
    return spec


def reference_mchan(c, fs, x):
    """What a matrix channel means: sum over coefficients of input channel signal * coefficient gain, delayed,
    times the block format gain (written from the property text, not via track specs)."""
    N = x.shape[0]
    if c[0] == "I":
        return np.zeros(N) if c[1] is None else x[:, c[1]].copy()
    acc = np.zeros(N)
    for g, d, k in c[2]:
        s = reference_mchan(k, fs, x)
        if g is not None:
            s = s * float(g)
        if d is not None:
            xs = exact_samples(fs, d)
            lo = xs.numerator // xs.denominator
            kk = lo if xs - lo <= F(1, 2) else lo + 1
            s = np.concatenate([np.zeros(kk), s])[:N]
        acc = acc + s
    return acc * float(c[1])


# --------------------------------------------------------------------------------------
# generators

LEAVES = [("D", 0), ("D", 1), ("D", 2), ("S",)]
GAINS = [F(1), F(2), F(-1, 2), F(0)]
XGAINS = [None, F(1), F(-3, 2), F(0)]
# delays in ms per sample rate, all dyadic: none, zero, sub-sample (down / up), ties, several samples, longer than input
DELAYS = {
    48000: [None, F(0), F(1, 128), F(1, 64), F(1, 32), F(1, 16), F(5, 32), F(1, 4)],  # 0 .375 .75 1.5 3 7.5 12
    44100: [None, F(0), F(1, 128), F(1, 64), F(1, 32), F(1, 16), F(1, 8), F(5)],  # 0 .34 .69 1.38 2.76 5.5 220.5
    32000: [None, F(0), F(1, 128), F(3, 128), F(3, 64), F(5, 64), F(7, 64), F(1, 2)],  # 0 .25 .75 1.5 2.5 3.5 16
    8000: [None, F(0), F(1, 32), F(1, 16), F(3, 16), F(5, 16), F(1, 2), F(3)],  # 0 .25 .5 1.5 2.5 4 24
}


def depth1():
    return LEAVES + [("M", [])]


def depth2(fs):
    d1 = depth1()
    out = []
    for g in GAINS:
        out += [("G", g, c) for c in d1]
    for g in XGAINS:
        for d in DELAYS[fs]:
            out += [("X", g, d, c) for c in d1]
    for w in (1, 2, 3):
        out += [("M", list(cs)) for cs in itertools.product(d1, repeat=w)]
    return out


def rand_tree(rng, fs, dep, width, gains=None, delays=None, leaves=None, p_leaf=0.25):
    leaves = leaves or LEAVES
    if dep <= 1 or rng.random() < p_leaf:
        return rng.choice(leaves)
    k = rng.random()
    sub = lambda: rand_tree(rng, fs, dep - 1, width, gains, delays, leaves, p_leaf)
    if k < 0.3:
        return ("M", [sub() for _ in range(rng.choice([0, 1, 1, 2, 2, 3, 3, width][: 5 + min(width, 3)]))])
    if k < 0.55:
        return ("G", rng.choice(gains or (GAINS + [F(1), F(3, 4)])), sub())
    return ("X", rng.choice(gains or XGAINS + [F(1, 2)]) if gains is None or rng.random() < 0.8 else None,
            rng.choice(delays or DELAYS[fs]), sub())


def compositions(n):
    """all ways to write n as an ordered sum of positive block lengths"""
    if n == 0:
        return [()]
    out = []
    for bits in itertools.product((0, 1), repeat=n - 1):
        part, cur = [], 1
        for b in bits:
            if b:
                part.append(cur)
                cur = 1
            else:
                cur += 1
        part.append(cur)
        out.append(tuple(part))
    return out


def with_empties(rng, part, k=None):
    part = list(part)
    for _ in range(rng.randint(1, 3) if k is None else k):
        part.insert(rng.randint(0, len(part)), 0)
    return tuple(part)


def rand_partition(rng, n, p_empty=0.3):
    part, left = [], n
    while left:
        b = rng.randint(1, left) if rng.random() < 0.5 else rng.randint(1, min(3, left))
        part.append(b)
        left -= b
    if rng.random() < p_empty or not part:
        part = list(with_empties(rng, part))
    return tuple(part)


def partition_shape(part):
    if len(part) == 0:
        return "no-calls"
    s = []
    if 0 in part:
        s.append("with-empty-block")
    if len(part) == 1:
        s.append("single-block")
    elif all(p <= 1 for p in part):
        s.append("all-blocks<=1")
    else:
        s.append("%s-blocks" % ("2-3" if len(part) <= 3 else "4+"))
    return "/".join(s)


def rand_input(rng, n, nch=NCH, lo=-9, hi=9):
    return [[rng.randint(lo, hi) for _ in range(nch)] for _ in range(n)]


# --------------------------------------------------------------------------------------


def parse_model(line, mode):
    """-> (blocks, error type or None); blocks of Fractions (T/P) or frames of Fractions (U)"""
    if line == "bad-op":
        return None, "bad-op"
    err = None
    toks = line.split(";")  # every block is followed by ';', then nothing or '!Error:kind'
    last = toks.pop()
    if last.startswith("!"):
        err = last[1:].split(":")[0]
    elif last != "":
        return None, "bad-op"
    row = lambda s: [F(w) for w in s.split()]
    if mode == "U":
        return [[row(f) for f in b.split(",")] if b.strip() else [] for b in toks], err
    return [row(b) for b in toks], err


def close(a, b, exact, tol=1e-12):
    """a: float from the code, b: Fraction/float expected"""
    if exact:
        return F(a) == F(b)
    return abs(a - float(b)) <= tol * max(1.0, abs(float(b)))


def blocks_equal(real, model, exact):
    if len(real) != len(model):
        return False
    for rb, mb in zip(real, model):
        if len(rb) != len(mb):
            return False
        for r, m in zip(rb, mb):
            if isinstance(r, list):
                if len(r) != len(m) or not all(close(a, b, exact) for a, b in zip(r, m)):
                    return False
            elif not close(r, m, exact):
                return False
    return True


class C20(Spec):
    pid = "C20"
    lean_targets = ("Earverif.Props.C20", "Earverif.Proofs.C20Driver", "Earverif.Proofs.C20FloatMargin", "c20driver")
    # Proofs/C20FloatMargin.lean imports Props/C20.lean and Proofs/C20Driver.lean (core Lean: runRG_const, the link to
    # the driver's function) and adds the Mathlib-based margin / tie / five-decimal theorems
    props_module = "Earverif.Proofs.C20FloatMargin"
    theorems = tuple(
        "Earverif.TrackSpec." + t
        for t in (
            "delay_process_eq",
            "delay_eq",
            "delay_rounding",
            "delay_rounding_unique",
            "simplify_preserves_meaning",
            "simplify_buildable",
            "built_processor_eq_meaning",
            "processor_eq_meaning",
            "partition_independent",
            "runR_const",
            "multi_processor_eq_meaning",
            "multi_empty_raises",
            "matrix_pack_spec_meaning",
            # strict (partial, independently defined) literal meaning; processors with the binary64 delay conversion
            "meaningStrict_eq", "meaningStrict_ragged", "meaningStrict_not_wf", "meaning_eq_meaningStrict",
            "processor_eq_meaningStrict", "stepG_eq", "runSpecF_eq", "runMultiSpecF_eq",
            "processorF_eq_meaningStrict", "multi_processorF_eq_meaning", "float_delay_counterexample",
            "delaySamplesF_eq_of_margin", "floatExact_of_margin",
            # Proofs/C20Driver.lean: the function the driver executes (runRG delaySamplesF) is the theorems' runG / runSpecF
            "runRG_const", "runSpecF_eq_driver", "driver_eq_meaningStrict",
            # outside the margin theorem: no rounding anywhere, delay 0, exact half samples; five-decimal delays
            "delaySamplesF_eq_of_exact", "delaySamplesF_zero", "delaySamplesF_tie",
            "delaySamplesF_decimal_nontie", "five_decimal_delay_exact", "floatExact_of_five_decimal",
        )
    )
    trusted_base = (
        "model Earverif/Model/TrackSpec.lean is a hand transliteration of track_processor.py (_simplify_*, the five "
        "processor classes, MultiTrackProcessor), delay.Delay.process for one channel, and the spec construction in "
        "MatrixAllocationPack.output_channel_allocation; tied to the code by the correspondence below",
        "theorems are over exact arithmetic (any type with +,*,0,1 satisfying x+0=x, 0+x=x, x*1=x, 0*x=0; run over "
        "Rat); float rounding of sample arithmetic is outside them. The correspondence uses dyadic gains and small "
        "integer samples so that the code's float arithmetic is exact and compares exactly",
        "the ms->samples formula is modelled as the code evaluates it, in binary64 (delaySamplesF over the rn53 model "
        "of Model/Ieee.lean: int->float conversion, product, quotient, difference each rounded to nearest-even; "
        "exponent range not modelled) and tied to MatrixCoefficientProcessor.init_delay on random, near-tie and "
        "negative delays; the exact-arithmetic formula delaySamples is the specification ('nearest sample')",
    )
    assumptions = (
        "literal meaning is defined for specs whose direct indices name an input channel (0 <= i < nch; numpy's "
        "negative indices are modelled but not part of the property) and whose delays round to >= 0 samples "
        "(the code raises AssertionError for fs*delay/1000 <= -1/2 on the first process call, IndexError for a bad index)",
        "one sample rate for all process calls of a processor (a change raises AssertionError once a delay exists; modelled)",
        "'nearest sample': an exact half sample rounds to the earlier sample, ceil(x - 1/2), as the code computes it",
        "processorF_eq_meaningStrict needs Spec.floatExact: every coefficient delay converts to the same number of "
        "samples in binary64 as in exact arithmetic (true whenever fs*ms/1000 is further than a relative 2^-50 from "
        "every half-integer: delaySamplesF_eq_of_margin; also for delay 0, exact half samples with 500(2m+1) < 2^53 "
        "and every five-decimal delay <= 10 s at 44.1/48/96 kHz: delaySamplesF_zero, delaySamplesF_tie, "
        "five_decimal_delay_exact); where it fails the code deviates from the property "
        "(float_delay_counterexample; probed on the real code, classifier float-delay-near-tie)",
        "input of shape (n, nch): every frame has nch samples (Rect); meaningStrict is undefined otherwise",
        "matrix coefficient phase/gainVar/delayVar/phaseVar are not read by track_processor.py (rejected in "
        "select_items.validate); not modelled",
    )
    rule = (
        "case = (spec tree, sample rate, integer-valued 3-channel input of <= 8 frames, block partition); exhaustive "
        "over all trees of depth <= 2 / width <= 3 x 2 sample rates x all compositions of the input (trees with a "
        "delay; a fixed partition set for stateless trees) plus partitions with zero-length blocks; a directed family "
        "of two/three delayed coefficient nodes under one mix; seeded random trees of depth 3 (quick) / up to 6 "
        "(thorough); MultiTrackProcessor on lists of 0-3 such trees; random matrix channel trees (encode->decode "
        "chains, 0-3 coefficients) through the real MatrixAllocationPack.output_channel_allocation; processors built without simplification; "
        "error cases (bad index, negative delay, sample-rate change). non-trivial = tree has a G/X/M node and the "
        "input has >= 2 frames; distinct by (tree, rate, input, partition)"
    )

    # ---------------------------------------------------------------- correspondence

    def _cases(self, ctx):
        rng = ctx.rng
        cases = []  # (mode, tree(s), fs, x, part, rates)
        all8 = compositions(8)
        few = [(8,), (1,) * 8, (3, 5), (7, 1), (2, 2, 2, 2), (1, 3, 1, 3), (0, 8, 0), (4, 0, 0, 4)]
        for fs in (48000, 44100):
            for t in depth1() + depth2(fs):
                has_delay = any(n[0] == "X" and n[2] is not None for n in nodes(t))
                x = rand_input(rng, 8)
                if has_delay:
                    parts = list(all8) + [with_empties(rng, rng.choice(all8)) for _ in range(12)]
                else:
                    parts = few
                for p in parts:
                    cases.append(("T", t, fs, x, p, None))
            # directed: several delayed coefficients under one mix (per-node delay state)
            xs = [("X", g, d, c) for g in (None, F(2)) for d in DELAYS[fs][1:7] for c in (("D", 0), ("D", 1))]
            pairs = list(itertools.product(xs, repeat=2))
            for a, b in (rng.sample(pairs, 150) if ctx.quick else pairs):
                t = ("M", [a, b]) if rng.random() < 0.7 else ("M", [a, ("G", F(-1, 2), b), rng.choice(xs)])
                x = rand_input(rng, 8)
                for p in [rng.choice(all8), rand_partition(rng, 8)]:
                    cases.append(("T", t, fs, x, p, None))
                # the same spec more than once in a MultiTrackProcessor: every entry has its own delay line
                if rng.random() < 0.3:
                    cases.append(("U", [a, b, a] if rng.random() < 0.5 else [t, a, t], fs, x, rand_partition(rng, 8), None))
        # random deeper trees
        n_rand = 2500 if ctx.quick else 60000
        rates = [48000, 44100] if ctx.quick else [48000, 44100, 32000, 8000]
        for i in range(n_rand):
            fs = rng.choice(rates)
            dep = 3 if ctx.quick else rng.choice([3, 4, 5, 6])
            t = rand_tree(rng, fs, dep, 3 if ctx.quick else 4)
            n = rng.choice([8, 8, 8, rng.randint(0, 8)]) if ctx.quick else rng.choice([8, rng.randint(0, 8), rng.randint(0, 24)])
            x = rand_input(rng, n)
            for _ in range(2):
                cases.append(("T", t, fs, x, rand_partition(rng, n), None))
            if i % 3 == 0:
                cases.append(("P", t, fs, x, rand_partition(rng, n), None))
            if i % 4 == 0:
                ts = [t] + [rand_tree(rng, fs, rng.randint(1, dep), 3) for _ in range(rng.randint(0, 2))]
                if rng.random() < 0.3:
                    ts.append(rng.choice(ts))
                cases.append(("U", ts, fs, x, rand_partition(rng, n), None))
        # delays within a few ulp of a half sample: the model converts in binary64 like the code
        for i in range(120 if ctx.quick else 3000):
            fs = rng.choice(rates)
            nt = near_tie_delays(rng, fs, 3, mmax=5)
            t = rand_tree(rng, fs, 3, 3, delays=nt + [None, F(0)], p_leaf=0.1)
            n = rng.randint(4, 8)
            cases.append(("T", t, fs, rand_input(rng, n), rand_partition(rng, n), None))
        cases.append(("T", ("X", None, F(0.052083333333333336), ("D", 0)), 48000, rand_input(rng, 8), (2, 2, 4), None))
        cases.append(("U", [], 48000, rand_input(rng, 4), (2, 2), None))
        cases.append(("U", [], 48000, [], (), None))
        # error cases and numpy negative indices
        for i in range(150 if ctx.quick else 2000):
            fs = rng.choice(rates)
            leaves = LEAVES + [("D", rng.choice([-1, -2, -3, -4, 3, 4, 7]))]
            delays = DELAYS[fs] + [F(-1, 256), F(-1, 128), F(-1, 64), F(-1, 16), -F(1, 96) if fs == 48000 else F(-1)]
            delays = [d for d in delays if d is None or float_formula_is_exact(fs, d)]
            t = rand_tree(rng, fs, 3, 3, delays=delays, leaves=leaves)
            n = rng.randint(0, 8)
            x = rand_input(rng, n)
            part = rand_partition(rng, n)
            r = None
            if rng.random() < 0.4 and part:
                r = [fs] * len(part)
                r[rng.randrange(len(part))] = rng.choice([44100, 48000, 96000])
            cases.append((rng.choice("TTP"), t, fs, x, part, r))
        return cases

    def _packs(self, ctx, driver):
        """MatrixAllocationPack.output_channel_allocation vs the model's packSpec (structure), then the specs it
        built go through the processor correspondence and the direct predicate like any other spec."""
        rng = ctx.rng
        chans = []
        for i in range(400 if ctx.quick else 5000):
            fs = rng.choice([48000, 44100])
            c = rand_mchan(rng, fs, rng.choice([2, 3, 3, 4]))
            if c[0] == "C":
                chans.append((fs, c))
        outs = driver.run(["K|" + mchan_text(c) for _, c in chans])
        cases = []
        for (fs, c), mo in zip(chans, outs):
            real = real_pack_spec(c)
            t = from_real(real)
            ctx.case(("pack", mchan_text(c)), True)
            ctx.count("mode:MatrixAllocationPack.output_channel_allocation")
            ctx.count("pack:coefficients:%d" % len(c[2]))
            ctx.count("pack:depth:%d" % depth(t))
            if to_text(t) == mo:
                ctx.validated()
            else:
                ctx.disagree("output_channel_allocation vs Earverif.TrackSpec.packSpec", mchan_text(c), mo, to_text(t))
            n = rng.randint(0, 8)
            x = rand_input(rng, n)
            part = rand_partition(rng, n)
            cases.append(("T", t, fs, x, part, None))
            # direct predicate: the rendered audio of that spec is the matrix sum
            xa = np.array(x, dtype=float).reshape(n, NCH)
            got, err = run_real(t, fs, split(xa, part), "T")
            want = reference_mchan(c, fs, xa).tolist()
            flat = [v for b in got for v in b]
            if err is not None or len(flat) != len(want) or not all(close(a, b, is_exact_tree(t)) for a, b in zip(flat, want)):
                ctx.hit("audio of the spec built for a matrix channel differs from the matrix sum",
                        {"channel": mchan_text(c), "spec": to_text(t), "sample_rate": fs, "input": x, "partition": list(part)},
                        {"got": flat, "expected": want, "error": err}, ["c20-matrix-pack"])
        return cases

    def _float_delays(self, ctx, driver):
        """MatrixCoefficientProcessor.init_delay on the real code vs Earverif.TrackSpec.delaySamplesF (binary64 model)
        for random delays, delays within a few ulp of a half sample, and the theorem's witness; where the code's
        result is not the nearest sample (delaySamples, exact) the deviation is reported via report_float_delay."""
        from ear.core import track_processor as tp

        rng = ctx.rng
        qs = [(48000, F(0.052083333333333336))]  # Earverif.TrackSpec.float_delay_counterexample
        for _ in range(300 if ctx.quick else 6000):
            fs = rng.choice([48000, 44100, 32000, 8000, 96000, 22050, 192000, 11025])
            k = rng.random()
            if k < 0.6:
                qs += [(fs, d) for d in near_tie_delays(rng, fs, 1, mmax=rng.choice([4, 40, 4000]))]
            elif k < 0.8:
                qs.append((fs, F(rng.uniform(0, 2e4 / fs))))
            elif k < 0.9:
                qs.append((fs, F(rng.uniform(-1500.0 / fs, 0))))
            else:
                qs.append((fs, F(rng.randint(0, 64), 2 ** rng.randint(0, 8))))
        # delays written with five decimals (k/10^5 ms, read as the nearest double) at 44.1/48/96 kHz, exact half
        # samples among them (k = 3125 t at 48 kHz, 500000 t at 44.1 kHz) and delay 0:
        # Earverif.TrackSpec.five_decimal_delay_exact / delaySamplesF_tie / delaySamplesF_zero say the code converts
        # them to the nearest sample of the decimal number itself
        dec = {}
        for _ in range(40 if ctx.quick else 600):
            fs = rng.choice([44100, 48000, 96000])
            c = rng.random()
            if c < 0.25:
                kk = {48000: 3125, 44100: 500000, 96000: 3125}[fs] * rng.randint(0, 40)
            elif c < 0.75:
                # the five-decimal number next to an exact half sample
                kk = max(0, (F(2 * rng.randint(0, 4000) + 1, 2) * 10 ** 8 / fs).__floor__() + rng.choice([0, 1]))
            else:
                kk = rng.randint(0, 10 ** rng.choice([3, 6, 9]))
            dec[len(qs)] = kk
            qs.append((fs, F(float(F(kk, 10 ** 5)))))
        outs = driver.run(["Z|%d %s" % (fs, rat(d)) for fs, d in qs])
        for qi, ((fs, d), o) in enumerate(zip(qs, outs)):
            p = tp._track_spec_processor(to_real(("X", None, d, ("D", 0))))
            try:
                p.init_delay(fs)
                real = p.delay.delaymem.shape[0]
            except AssertionError:
                real = "AssertionError"
            if qi in dec:
                # direct predicate on the real init_delay, from the exact decimal (independent of the Lean model)
                want = code_delay_samples(fs, F(dec[qi], 10 ** 5))
                got5 = real
                ctx.count("float-delay:five-decimal" + (":tie" if delay_class(fs, F(dec[qi], 10 ** 5)) == "tie(x.5)"
                                                        else ":zero" if dec[qi] == 0 else ""))
                if got5 != want:
                    ctx.hit("five-decimal delay not converted to the nearest sample (five_decimal_delay_exact says it is)",
                            {"sample_rate": fs, "delay_ms": "%d/100000" % dec[qi]},
                            {"code_delay_samples": got5, "nearest_sample": want}, ["c20-five-decimal-delay"])
            try:
                mf, me = (int(v) for v in o.split())
            except ValueError:
                ctx.disagree("init_delay vs Earverif.TrackSpec.delaySamplesF", [fs, float(d)], o, real)
                continue
            ctx.case(("Z", fs, d), mf != me)
            ctx.count("float-delay:" + ("binary64!=exact" if mf != me else "binary64==exact"))
            if (real == "AssertionError" and mf < 0) or real == mf:
                ctx.validated()
            else:
                ctx.disagree("init_delay vs Earverif.TrackSpec.delaySamplesF", [fs, float(d)], mf, real)
            if mf != me and me >= 0:
                report_float_delay(ctx, {"sample_rate": fs, "delay_ms": repr(float(d))},
                                   {"code_delay_samples": real, "nearest_sample": me,
                                    "exact_samples": float(F(fs) * d / 1000)})

    def _strict_meaning(self, ctx, driver):
        """Earverif.TrackSpec.meaningStrict (the theorems' statement of the literal meaning) vs the numpy reference
        written from the property text, on exact trees: two independent formulations of the same sentence."""
        rng = ctx.rng
        qs = []
        for _ in range(400 if ctx.quick else 5000):
            fs = rng.choice([48000, 44100])
            t = rand_tree(rng, fs, rng.choice([2, 3, 4]), 3)
            x = rand_input(rng, rng.randint(0, 8))
            qs.append((fs, t, x))
        lines = ["N|%d %d|%s|%s" % (fs, NCH, to_text(t), ",".join(" ".join(str(v) for v in fr) for fr in x))
                 for fs, t, x in qs]
        for (fs, t, x), line, o in zip(qs, lines, driver.run(lines)):
            ctx.case(line, len(x) >= 2 and t[0] in "GXM")
            ctx.count("mode:meaningStrict-vs-numpy-reference")
            if not in_quantifier(t, fs, NCH):
                want = "undefined"
            else:
                xa = np.array(x, dtype=float).reshape(len(x), NCH)
                want = " ".join(rat(F(v)) for v in reference(t, fs, xa).tolist()) + ";"
            if o == want:
                ctx.validated()
            else:
                ctx.disagree("Earverif.TrackSpec.meaningStrict vs numpy reference of the literal meaning", line, o, want)

    def correspond(self, ctx):
        driver = Driver("c20driver", "Earverif.Driver.C20")
        self._float_delays(ctx, driver)
        self._strict_meaning(ctx, driver)
        cases = self._cases(ctx) + self._packs(ctx, driver)
        for i in range(0, len(cases), 20000):
            self._compare(ctx, driver, cases[i:i + 20000])

    def _line(self, mode, t, fs, x, part, rates):
        specs = ";".join(to_text(s) for s in t) if mode == "U" else to_text(t)
        frames = ",".join(" ".join(str(v) for v in fr) for fr in x)
        if rates is None:
            ps = " ".join(str(p) for p in part)
        else:
            ps = " ".join("%d@%d" % (p, r) if r != fs else str(p) for p, r in zip(part, rates))
        return "%s|%d %d|%s|%s|%s" % (mode, fs, NCH, specs, frames, ps)

    def _compare(self, ctx, driver, cases):
        lines = [self._line(*c) for c in cases]
        outs = driver.run(lines)
        for c, line, mo in zip(cases, lines, outs):
            mode, t, fs, x, part, rates = c
            xa = np.array(x, dtype=float).reshape(len(x), NCH)
            blocks = split(xa, part)
            real, rerr = run_real(t, fs, blocks, mode, rates)
            if not np.array_equal(xa, np.array(x, dtype=float).reshape(len(x), NCH)):
                ctx.hit("process modified its input samples", line, {"input_after": xa.tolist()}, ["c20-input-modified"])
            model, merr = parse_model(mo, mode)
            trees = t if mode == "U" else [t]
            exact = all(is_exact_tree(s) for s in trees)
            nontriv = len(x) >= 2 and any(s[0] in "GXM" for s in trees)
            ctx.case(line, nontriv, sample={"line": line, "real": real, "error": rerr} if nontriv else None)
            self._count(ctx, mode, trees, fs, part, rerr, rates)
            ok = model is not None and rerr == merr and blocks_equal(real, model, exact)
            if ok:
                ctx.validated()
            else:
                ctx.disagree("track_processor vs Earverif.TrackSpec (mode %s)" % mode, line, mo, (real, rerr))
            # direct predicate on the same run
            if rates is None and mode in "TU":
                self._predicate(ctx, mode, trees, fs, x, part, real, rerr)

    def _count(self, ctx, mode, trees, fs, part, rerr, rates):
        ctx.count("mode:" + {"T": "TrackProcessor", "P": "_track_spec_processor(unsimplified)", "U": "MultiTrackProcessor"}[mode])
        ctx.count("rate:%d" % fs)
        ctx.count("partition:" + partition_shape(part))
        ctx.count("result:" + (rerr or "ok"))
        if mode == "U":
            ctx.count("multi:specs:%d" % len(trees) + ("/with-repeated-spec" if len({to_text(t) for t in trees}) < len(trees) else ""))
        if rates is not None:
            ctx.count("partition:with-sample-rate-change")
        for t in trees:
            ctx.count("depth:%d" % depth(t))
            ndel = 0
            for n in nodes(t):
                ctx.count("node:" + {"D": "direct", "S": "silent", "M": "mix", "G": "gain", "X": "matrix"}[n[0]])
                if n[0] == "M":
                    ctx.count("mix-width:%d" % len(n[1]))
                if n[0] == "G" and n[1] == 1:
                    ctx.count("gain:unit")
                if n[0] == "X":
                    ctx.count("delay:" + delay_class(fs, n[2]))
                    ctx.count("matrix-gain:" + ("none" if n[1] is None else "unit" if n[1] == 1 else "other"))
                    if n[2] is not None:
                        ndel += 1
            ctx.count("delay-nodes-per-tree:%s" % (ndel if ndel < 3 else "3+"))

    # ---------------------------------------------------------------- direct predicate

    def _predicate(self, ctx, mode, trees, fs, x, part, real, rerr, exact=None, what_extra=""):
        """The property on the real code's output: equals the literal meaning of the spec on the whole input,
        block by block. Only for specs inside the quantifier."""
        if not all(in_quantifier(t, fs, NCH) for t in trees):
            return True
        if mode == "U" and not trees:
            return True  # np.stack([]) raises: no audio described
        if exact is None:
            exact = all(is_exact_tree(t) for t in trees)
        xa = np.array(x, dtype=float).reshape(len(x), NCH)
        inp = {"mode": mode, "specs": [to_text(t) for t in trees], "sample_rate": fs, "input": x, "partition": list(part)}
        if not all(float_safe(t, fs) for t in trees):
            # outside Spec.floatExact: the delay is within an ulp of a half sample and the code's binary64 conversion
            # picks the other neighbour (float_delay_counterexample); not the c20-meaning predicate
            if rerr is None:
                want = np.stack([reference(t, fs, xa) for t in trees], 1)
                got = [v for b in real for v in b]
                if got != (want if mode == "U" else want[:, 0]).tolist():
                    report_float_delay(ctx, inp, {"got": got, "expected_with_nearest_sample": want.tolist()})
            return True
        if rerr is not None:
            ctx.hit("process raised on a spec inside the quantifier", inp, {"error": rerr}, ["c20-raises"])
            return False
        want = np.stack([reference(t, fs, xa) for t in trees], 1)
        if mode != "U":
            want = want[:, 0]
        got = [v for b in real for v in b]
        want_l = want.tolist()
        bad = None
        if len(got) != len(want_l):
            bad = "length"
        else:
            for j, (g, w) in enumerate(zip(got, want_l)):
                g, w = (g, w) if isinstance(g, list) else ([g], [w])
                if len(g) != len(w) or not all(close(a, b, exact) for a, b in zip(g, w)):
                    bad = j
                    break
        if bad is not None:
            ctx.hit("output differs from the literal meaning of the spec" + what_extra, inp,
                    {"first_bad_frame": bad, "got": got, "expected": want_l}, ["c20-meaning"])
            return False
        return True

    def search(self, ctx, deep):
        """Real code only: random deeper trees, arbitrary (also non-dyadic) gains and delays, more sample rates,
        longer inputs; output vs the numpy reference and block-partition independence."""
        rng = ctx.rng
        n_cases = 25000 if deep and not ctx.quick else (6000 if deep else 1500)
        rates = [48000, 44100, 32000, 8000, 96000, 22050, 1000]
        for i in range(n_cases):
            fs = rng.choice(rates)
            exact = rng.random() < 0.5
            if exact:
                gains = [F(1), F(2), F(-1, 2), F(3, 4), F(-3, 2), F(1, 8), F(0)]
                delays = [None, F(0)] + [F(rng.randint(0, 64), 2 ** rng.randint(0, 8)) for _ in range(4)]
            else:
                gains = [F(1), F(0)] + [F(rng.uniform(-2, 2)) for _ in range(3)]
                delays = [None, F(0)] + [F(rng.uniform(0, 1.5e4 / fs)) for _ in range(3)] + \
                         [F(1000 * rng.randint(0, 12) + rng.choice([499, 500, 501]), fs) for _ in range(2)]
                delays = [d if d is None else F(float(d)) for d in delays]
            # (no filter on ties any more: specs that are not float_safe are routed to report_float_delay)
            t = rand_tree(rng, fs, rng.choice([2, 3, 4, 5, 6]), 4, gains=gains, delays=delays, p_leaf=0.15)
            n = rng.choice([8, rng.randint(0, 8), rng.randint(0, 30)])
            x = rand_input(rng, n, lo=-99, hi=99)
            xa = np.array(x, dtype=float).reshape(n, NCH)
            mode, trees = "T", [t]
            if i % 5 == 0:
                mode = "U"
                trees = [t] + [rand_tree(rng, fs, 3, 3, gains=gains, delays=delays) for _ in range(rng.randint(0, 2))]
                if rng.random() < 0.3:
                    trees.append(rng.choice(trees))
            arg = trees if mode == "U" else t
            pa, pb = rand_partition(rng, n), rand_partition(rng, n)
            ra, ea = run_real(arg, fs, split(xa, pa), mode)
            ctx.case(("search", mode, tuple(to_text(s) for s in trees), fs, tuple(map(tuple, x)), pa), n >= 2)
            ctx.count("search:" + ("exact" if exact else "tolerance-1e-12"))
            ctx.count("search:depth:%d" % max(depth(s) for s in trees))
            ctx.count("search:partition:" + partition_shape(pa))
            for s in trees:
                for nd in nodes(s):
                    if nd[0] == "X":
                        ctx.count("search:delay:" + delay_class(fs, nd[2]))
            if not self._predicate(ctx, mode, trees, fs, x, pa, ra, ea, exact=exact):
                continue
            # block-partition independence: another partition of the same input gives the same samples
            rb, eb = run_real(arg, fs, split(xa, pb), mode)
            fa = [v for b in ra for v in b]
            fb = [v for b in rb for v in b]
            if eb is not None or fa != fb:
                ctx.hit("output depends on how the input is split into blocks",
                        {"mode": mode, "specs": [to_text(s) for s in trees], "sample_rate": fs, "input": x,
                         "partition": list(pa), "other_partition": list(pb)},
                        {"got": fa, "other": fb, "error": eb}, ["c20-partition"])
            ctx.count("search:partition-independence-checked")


SPEC = C20()

REGISTRY = dict(
    text="FULL (with one proved float exception): Lean theorems over any sample type with +,*,0,1 (x+0=x, 0+x=x, "
    "x*1=x, 0*x=0; exact sample arithmetic): "
    "Earverif.TrackSpec.processor_eq_meaning proves that TrackProcessor(spec) (= build (simplify spec)) fed any "
    "partition of the input into blocks, empty blocks included, never raises and returns block by block the literal "
    "meaning of the spec on the whole input (inputs summed, scaled by the gains, delayed by the rounded coefficient "
    "delay with zeros shifted in), for every spec tree whose direct indices name an input channel and whose delays "
    "round to >= 0 samples; the headline is also stated against an independently defined, partial meaningStrict "
    "(own column/sum/shift definitions, none on ragged input, bad indices or negative delays: "
    "meaning_eq_meaningStrict, processor_eq_meaningStrict), so model and meaning cannot agree through shared "
    "totalised helpers. The ms->samples conversion is modelled as the code evaluates it, in binary64 "
    "(delaySamplesF); processorF_eq_meaningStrict / multi_processorF_eq_meaning prove the property for the "
    "processors run with that conversion for every spec whose delays are float-exact (Spec.floatExact, decidable), "
    "delaySamplesF_eq_of_margin / floatExact_of_margin prove float-exactness whenever fs*ms/1000 keeps a relative "
    "distance 2^-50 from every half-integer (0 < fs < 2^53, 0 < ms, < 2^52 samples); the cases that theorem leaves "
    "out are proved separately: delaySamplesF_zero (delay 0 -> 0 samples at every rate), delaySamplesF_tie (an exact "
    "half sample fs*ms/1000 = m+1/2, m >= 0, 500(2m+1) < 2^53, is computed without any rounding and gives m, e.g. "
    "0.03125 ms at 48 kHz -> 1), delaySamplesF_eq_of_exact (core Lean, four decidable conditions: no operation "
    "rounds); five_decimal_delay_exact / floatExact_of_five_decimal prove that for fs in {44100, 48000, 96000} and "
    "every delay k/10^5 ms with k <= 10^9 (<= 10 s), read as the nearest double, the code's conversion is the "
    "nearest sample of that double AND of the decimal k/10^5 itself (general non-tie form for any fs with "
    "fs*k <= 10^14: delaySamplesF_decimal_nontie), so the deviation below cannot arise from five-decimal delays at "
    "those rates; and "
    "float_delay_counterexample proves the hypothesis cannot be dropped: at 48 kHz the delay 0.052083333333333336 ms "
    "(2.5000000000000001 samples) is delayed by 2 samples by the code, nearest sample 3. "
    "simplify_preserves_meaning / simplify_buildable (simplification changes neither the "
    "meaning nor well-formedness and removes every empty mix), built_processor_eq_meaning (the processors are "
    "correct for unsimplified trees too), partition_independent, delay_process_eq / delay_eq (Delay.process over "
    "any partition = prepend d zeros, drop the last d), delay_rounding / delay_rounding_unique (ceil(fs*ms/1000-1/2) "
    "is the unique k with k-1/2 < x <= k+1/2: nearest sample, exact halves to the earlier one), "
    "multi_processor_eq_meaning (MultiTrackProcessor = per-block stack of the specs' meanings; ValueError with no "
    "specs), matrix_pack_spec_meaning (the nested spec built by MatrixAllocationPack.output_channel_allocation means "
    "sum of coefficient gain x delayed input, times the block gain). The model is tied to the code on every run: "
    "all trees of depth <= 2 / width <= 3 over 3 channels x 2 sample rates x all 128 compositions of an 8-frame "
    "integer input (+ partitions with empty blocks), directed multi-delay trees, trees with delays within a few ulp "
    "of a half sample, random deeper trees, MultiTrackProcessor, unsimplified processors, error cases and real "
    "output_channel_allocation calls are run through the real code and the Lean model (binary64 delay conversion) "
    "and compared exactly (dyadic gains); the Lean function the driver runs for these cases, runRG delaySamplesF on "
    "trackProcessor s / build s with one (rate, block) pair per call, is proved to be the theorems' runG / runSpecF "
    "when the rate is constant (runRG_const, runSpecF_eq_driver) and the headline is restated on it "
    "(driver_eq_meaningStrict); init_delay is compared with delaySamplesF directly (random, near-tie, negative, "
    "five-decimal, exact-tie and zero delays; five-decimal delays at 44.1/48/96 kHz are also checked on the real "
    "init_delay against the nearest sample of the exact decimal, tag c20-five-decimal-delay); meaningStrict is "
    "compared with a numpy reference of the literal meaning written from the property text; that reference and "
    "block-partition independence are searched on the real code alone with non-dyadic gains/delays (1e-12).",
    note="Trusted: Lean kernel; hand transliteration of track_processor.py / delay.Delay.process (one channel) / "
    "output_channel_allocation + correspondence harness; numpy slice semantics as modelled; IEEE model rn53 "
    "(unbounded exponent). FINDING (reported, not repaired; classifier float-delay-near-tie, raised as a failing "
    "input only when listed in known_findings.json, otherwise counted and noted in the evidence): a coefficient delay "
    "whose value in samples lies within about 1e-16 (relative) of m+1/2 is not rounded to the nearest sample, "
    "because fs*delay is rounded to binary64 before the comparison (e.g. 48000 Hz, 0.052083333333333336 ms -> 2 "
    "samples instead of 3; also 0.07291666666666667 ms, and 0.05668934240362812 ms at 44100 Hz). Not covered by the "
    "theorems: float rounding of the sample arithmetic, integer/float32 input arrays. Outside the quantifier and "
    "modelled as errors: direct index outside "
    "[-nch, nch) (IndexError), delays with fs*ms/1000 <= -1/2 (AssertionError at the first process call), a sample "
    "rate change between calls once a delay line exists (AssertionError). phase/gainVar/delayVar/phaseVar are not "
    "read by track_processor.py.",
    technique="Lean 4 proof by structural induction on the spec tree and on the block list (state-after-prefix "
    "invariant) + rn53 error analysis for the delay conversion + differential correspondence with the real "
    "TrackProcessor + numpy reference search",
    design_ref="DESIGN.md section 4, C20",
)
