/-
Class-level instantiation of the combinator model with every hand-written handler concrete: the block formats of
the five types (`make_block_format_*_handler`), the Matrix coefficient, loudnessMetadata, the reference screen,
audioObjectInteraction and alternativeValueSet, for BS.2076-1 and -2.  Core Lean only.

* `XV` extends the leaves with the structured values of the hand-written handlers and with the nested element
  classes (plain data: values on the printable grid, references as id strings).
* `singleImpl`, `listImpl`, `xpathImpl` are the recurring shapes of the hand-written handlers (`as_handler`,
  `as_list_handler` / the audioBlockFormat handler, the `GenericElement`s that read their own children through
  `xpath`); the concrete parsers (`objPs`, `dsPs`, …) are what `ofRowG` builds from the rows of the regenerated
  table (`Proofs/C08Blocks.lean`, `Proofs/C08Tables.lean`).
* `…toObj` is an object seen through the constructor-argument names, `…ofObj` the class constructor on keyword
  arguments (defined on the grid: a gain read with `gainUnit="dB"` is not representable in a nested element and makes
  `ofObj` fail — outside the model, see the harness).
-/
import Earverif.Model.XmlCustom

namespace Earverif.XmlBlocks
open Earverif.XmlCodec Earverif.XmlCustom Earverif.TimeFormat

/-! ### plain data of the nested classes (values on the printable grid, references as id strings) -/

/-- `AudioBlockFormatObjects` -/
structure ObjectsBlock where
  id : String
  rtime : Option Time
  duration : Option Time
  position : ObjectPosition
  channelLock : Option ChannelLock
  jumpPosition : JumpPosition
  objectDivergence : Option ObjectDivergence
  width : Int
  height : Int
  depth : Int
  diffuse : Int
  cartesian : Bool
  screenRef : Bool
  zoneExclusion : List Zone
  gain : Int
  importance : Int
  deriving DecidableEq, Repr

/-- `AudioBlockFormatDirectSpeakers` -/
structure DirectSpeakersBlock where
  id : String
  rtime : Option Time
  duration : Option Time
  speakerLabel : List String
  position : SpeakerPosition
  gain : Int
  importance : Int
  deriving DecidableEq, Repr

/-- `AudioBlockFormatHoa` -/
structure HoaBlock where
  id : String
  rtime : Option Time
  duration : Option Time
  equation : Option String
  order : Option Int
  degree : Option Int
  normalization : Option String
  nfcRefDist : Option Int
  screenRef : Option Bool
  gain : Int
  importance : Int
  deriving DecidableEq, Repr

/-- `AudioBlockFormatBinaural` -/
structure BinauralBlock where
  id : String
  rtime : Option Time
  duration : Option Time
  gain : Int
  importance : Int
  deriving DecidableEq, Repr

/-- `MatrixCoefficient`; `inputChannelFormat` is the id of the referenced audioChannelFormat (`to_xml` needs one) -/
structure Coefficient where
  inputChannelFormat : String
  gain : Option Int
  phase : Option Int
  delay : Option Int
  gainVar : Option String
  phaseVar : Option String
  delayVar : Option String
  deriving DecidableEq, Repr

/-- `AudioBlockFormatMatrix` -/
structure MatrixBlock where
  id : String
  rtime : Option Time
  duration : Option Time
  outputChannelFormat : Option String
  matrix : List Coefficient
  gain : Int
  importance : Int
  deriving DecidableEq, Repr

inductive Block where
  | objects (b : ObjectsBlock)
  | directSpeakers (b : DirectSpeakersBlock)
  | hoa (b : HoaBlock)
  | binaural (b : BinauralBlock)
  | matrix (b : MatrixBlock)
  deriving DecidableEq, Repr

/-- `LoudnessMetadata` -/
structure Loudness where
  loudnessMethod : Option String
  loudnessRecType : Option String
  loudnessCorrectionType : Option String
  integratedLoudness : Option Int
  loudnessRange : Option Int
  maxTruePeak : Option Int
  maxMomentary : Option Int
  maxShortTerm : Option Int
  dialogueLoudness : Option Int
  deriving DecidableEq, Repr

/-- `PolarScreen` / `CartesianScreen` (the kind is the kind of the centre position) -/
structure Screen where
  aspectRatio : Int
  centrePosition : CentrePosition
  width : Int
  deriving DecidableEq, Repr

/-- `AudioObjectInteraction` -/
structure Interaction where
  onOffInteract : Bool
  gainInteract : Option Bool
  positionInteract : Option Bool
  gainInteractionRange : Option GainRange
  positionInteractionRange : Option PosRange
  deriving DecidableEq, Repr

/-- `AlternativeValueSet` -/
structure AVS where
  id : String
  gain : Option Int
  mute : Option Bool
  positionOffset : Option PositionOffset
  audioObjectInteraction : Option Interaction
  deriving DecidableEq, Repr

inductive XV where
  | leaf (l : Leaf)
  | opos (p : ObjectPosition)
  | clock (c : ChannelLock)
  | jump (j : JumpPosition)
  | diverg (d : ObjectDivergence)
  | zones (zs : List Zone)
  /-- a gain read with `gainUnit="dB"` (`10 ** (k/100000/20)`, not on the printable grid) -/
  | gainDB (k : Int)
  | spos (p : SpeakerPosition)
  | freq (f : Frequency)
  | poff (p : PositionOffset)
  | cpos (c : CentrePosition)
  | grange (r : GainRange)
  | prange (r : PosRange)
  | screen (s : Screen)
  | interaction (i : Interaction)
  | avs (a : AVS)
  | loud (l : Loudness)
  | coeffs (cs : List Coefficient)
  | block (b : Block)
  deriving DecidableEq, Repr

/-- a leaf codec on the extended values -/
def liftCodec (c : Codec Leaf) : Codec XV where
  loads s := (c.loads s).map .leaf
  dumps | .leaf l => c.dumps l | _ => ""

/-- `xml.xpath(element, "{ns}name")`: the children with that local name, namespace by namespace -/
def xpathChildren (e : Xml) (name : String) : List Xml :=
  (none :: namespaces.map some).flatMap fun ns => e.children.filter fun c => c.tag = ⟨ns, name⟩

def setOne (kw : Kw XV) (a : String) (v : XV) : Kw XV := kw.set a (.one v)

/-- `GenericElement(handle_objects_position, object_position_to_xml)` -/
def positionImpl : CustomImpl XV where
  handle kw e := (parseObjectPosition (xpathChildren e "position")).map fun p => setOne kw "position" (.opos p)
  attrsOut _ := []
  childrenOut o := match o "position" with | .one (.opos p) => objectPositionToXml p | _ => []
  own := ["position"]
  eff o a := if a = "position" then (match o "position" with | .one (.opos p) => some (.one (.opos p)) | _ => none)
    else none

/-- `CustomElement("channelLock", handle_channel_lock, channel_lock_to_xml)` -/
def channelLockImpl : CustomImpl XV where
  handle kw x := (handleChannelLock x).map fun r => match r with
    | some c => setOne kw "channelLock" (.clock c)
    | none => kw
  attrsOut _ := []
  childrenOut o := match o "channelLock" with | .one (.clock c) => channelLockToXml (some c) | _ => []
  own := ["channelLock"]
  eff o a := if a = "channelLock" then (match o "channelLock" with | .one (.clock c) => some (.one (.clock c)) | _ => none)
    else none

/-- `CustomElement("jumpPosition", handle_jump_position, jump_position_to_xml)` -/
def jumpImpl : CustomImpl XV where
  handle kw x := (handleJumpPosition x).map fun j => setOne kw "jumpPosition" (.jump j)
  attrsOut _ := []
  childrenOut o := match o "jumpPosition" with | .one (.jump j) => jumpPositionToXml j | _ => []
  own := ["jumpPosition"]
  eff o a := if a = "jumpPosition" then
      (match o "jumpPosition" with | .one (.jump j) => if j.flag then some (.one (.jump j)) else none | _ => none)
    else none

/-- `CustomElement("objectDivergence", handle_divergence, divergence_to_xml)` -/
def divergenceImpl : CustomImpl XV where
  handle kw x := (handleDivergence x).map fun d => setOne kw "objectDivergence" (.diverg d)
  attrsOut _ := []
  childrenOut o := match o "objectDivergence" with | .one (.diverg d) => divergenceToXml (some d) | _ => []
  own := ["objectDivergence"]
  eff o a := if a = "objectDivergence" then
      (match o "objectDivergence" with | .one (.diverg d) => some (.one (.diverg d)) | _ => none)
    else none

/-- `zone_exclusion_handler.as_handler("zoneExclusion", default=[])` -/
def zoneImpl : CustomImpl XV where
  handle kw x := (parseZoneExclusionElement x).map fun zs => setOne kw "zoneExclusion" (.zones zs)
  attrsOut _ := []
  childrenOut o := match o "zoneExclusion" with | .one (.zones zs) => zoneExclusionToXml zs | _ => []
  own := ["zoneExclusion"]
  eff o a := if a = "zoneExclusion" then
      (match o "zoneExclusion" with | .one (.zones zs) => if zs ≠ [] then some (.one (.zones zs)) else none | _ => none)
    else none

def gainValue : Gain → XV
  | .linear k => .leaf (.num k)
  | .dB k => .gainDB k

/-- `CustomElement("gain", handle_gain_element_v1 | handle_gain_element_v2, gain_to_xml)` -/
def gainImpl (v2 : Bool) : CustomImpl XV where
  handle kw x := (handleGainElement v2 (kw "gain").isSome x).map fun g => setOne kw "gain" (gainValue g)
  attrsOut _ := []
  childrenOut o := match o "gain" with | .one (.leaf (.num k)) => gainToXml k | _ => []
  own := ["gain"]
  eff o a := if a = "gain" then
      (match o "gain" with | .one (.leaf (.num k)) => if k ≠ 100000 then some (.one (.leaf (.num k))) else none | _ => none)
    else none

/-- a handler that is not modelled (never selected for the Objects block) -/
def noImpl : CustomImpl XV := { handle := fun _ _ => none, attrsOut := fun _ => [], childrenOut := fun _ => [] }

/-- the concrete implementation for a row, by the element name / handler names recorded in the table -/
def objectsImpl (r : Row) : CustomImpl XV :=
  if r.handler = "handle_objects_position / object_position_to_xml" then positionImpl
  else if r.handler = "handle_channel_lock / channel_lock_to_xml" then channelLockImpl
  else if r.handler = "handle_jump_position / jump_position_to_xml" then jumpImpl
  else if r.handler = "handle_divergence / divergence_to_xml" then divergenceImpl
  else if r.admName = "zoneExclusion" then zoneImpl
  else if r.handler = "handle_gain_element_v1 / gain_to_xml" then gainImpl false
  else if r.handler = "handle_gain_element_v2 / gain_to_xml" then gainImpl true
  else noImpl

/-- the Objects block-format parser built from table rows -/
def objectsProps (rows : List Row) : List (Property XV) := rows.map (ofRowG liftCodec XV.leaf objectsImpl)

/-! ### the class `AudioBlockFormatObjects` -/

def optTime : Option Time → XV
  | some t => .leaf (.time t)
  | none => .leaf .none

/-- the object seen through the constructor-argument names -/
def ObjectsBlock.toObj (b : ObjectsBlock) : Obj XV := fun a =>
  if a = "id" then .one (.leaf (.str b.id))
  else if a = "rtime" then .one (optTime b.rtime)
  else if a = "duration" then .one (optTime b.duration)
  else if a = "position" then .one (.opos b.position)
  else if a = "channelLock" then .one (match b.channelLock with | some c => .clock c | none => .leaf .none)
  else if a = "jumpPosition" then .one (.jump b.jumpPosition)
  else if a = "objectDivergence" then .one (match b.objectDivergence with | some d => .diverg d | none => .leaf .none)
  else if a = "width" then .one (.leaf (.num b.width))
  else if a = "height" then .one (.leaf (.num b.height))
  else if a = "depth" then .one (.leaf (.num b.depth))
  else if a = "diffuse" then .one (.leaf (.num b.diffuse))
  else if a = "cartesian" then .one (.leaf (.bool b.cartesian))
  else if a = "screenRef" then .one (.leaf (.bool b.screenRef))
  else if a = "zoneExclusion" then .one (.zones b.zoneExclusion)
  else if a = "gain" then .one (.leaf (.num b.gain))
  else if a = "importance" then .one (.leaf (.int b.importance))
  else .one (.leaf .none)

/-- the constructor defaults of `AudioBlockFormatObjects` (`position` has none: it is always written) -/
def objectsDefaults : Obj XV := fun a =>
  if a = "jumpPosition" then .one (.jump ⟨false, none⟩)
  else if a = "width" ∨ a = "height" ∨ a = "depth" ∨ a = "diffuse" then .one (.leaf (.num 0))
  else if a = "cartesian" ∨ a = "screenRef" then .one (.leaf (.bool false))
  else if a = "zoneExclusion" then .one (.zones [])
  else if a = "gain" then .one (.leaf (.num 100000))
  else if a = "importance" then .one (.leaf (.int 10))
  else .one (.leaf .none)

/-- the Objects block-format parser, concretely (`Proofs/C08Blocks.lean`: this is what `ofRowG` builds from the
regenerated table rows) -/
def objPs (v2 : Bool) : List (Property XV) :=
  [ .attr "audioBlockFormatID" "id" (liftCodec stringCodec) true (.leaf .none),
    .attr "rtime" "rtime" (liftCodec (timeCodec v2)) false (.leaf .none),
    .attr "duration" "duration" (liftCodec (timeCodec v2)) false (.leaf .none),
    .genericElement none false positionImpl,
    .customElement "channelLock" none false channelLockImpl,
    .customElement "jumpPosition" none false jumpImpl,
    .customElement "objectDivergence" none false divergenceImpl,
    .attrElement "width" "width" (liftCodec floatCodec) false (.leaf (.num 0)) false,
    .attrElement "height" "height" (liftCodec floatCodec) false (.leaf (.num 0)) false,
    .attrElement "depth" "depth" (liftCodec floatCodec) false (.leaf (.num 0)) false,
    .attrElement "diffuse" "diffuse" (liftCodec floatCodec) false (.leaf (.num 0)) false,
    .attrElement "cartesian" "cartesian" (liftCodec boolCodec) false (.leaf (.bool false)) false,
    .attrElement "screenRef" "screenRef" (liftCodec boolCodec) false (.leaf (.bool false)) false,
    .customElement "zoneExclusion" (some "zoneExclusion") false zoneImpl,
    .customElement "gain" none false (gainImpl v2),
    .attrElement "importance" "importance" (liftCodec intCodec) false (.leaf (.int 10)) false ]


/-! ### builders for the recurring shapes of hand-written handlers -/

/-- a `CustomElement` that stores one value under `arg` and writes at most one element named `adm`: `read` converts
an element (given whether `arg` is already present in `kwargs`), `write` is the `to_xml` side on the object's value -/
def singleImpl (arg adm : String) (read : Bool → Xml → Option XV) (write : XV → List Xml) : CustomImpl XV where
  handle kw x := (read (kw arg).isSome x).map fun v => setOne kw arg v
  attrsOut _ := []
  childrenOut o := match o arg with | .one v => write v | .many _ => []
  own := [arg]
  eff o a := if a = arg then
      (match o arg with | .one v => if (write v).isEmpty then none else some (.one v) | .many _ => none)
    else none
  childNames := [adm]

/-- a `CustomElement` that appends one value per element to the list `arg` (`as_list_handler`, the
audioBlockFormat handler): `read` may look at the other keyword arguments, `write` at the other attributes -/
def listImpl (arg adm : String) (read : Kw XV → Xml → Option XV) (write : Obj XV → XV → Xml) : CustomImpl XV where
  handle kw x :=
    match read kw x with
    | none => none
    | some v =>
      match kw arg with
      | none => some (kw.set arg (.many [v]))
      | some (.many vs) => some (kw.set arg (.many (vs ++ [v])))
      | some (.one _) => none
  attrsOut _ := []
  childrenOut o := match o arg with | .many vs => vs.map (write o) | .one _ => []
  own := [arg]
  eff o a := if a = arg then
      (match o arg with | .many vs => if vs = [] then none else some (.many vs) | .one _ => none)
    else none
  childNames := [adm]

/-- a `GenericElement` that reads the children named `adm` (through `xpath`) and stores at most one value
under `arg`; `read` returns `some none` when nothing is to be stored -/
def xpathImpl (arg adm : String) (read : List Xml → Option (Option XV)) (write : XV → List Xml) : CustomImpl XV where
  handle kw e := (read (xpathChildren e adm)).map fun r => match r with
    | some v => setOne kw arg v
    | none => kw
  attrsOut _ := []
  childrenOut o := match o arg with | .one v => write v | .many _ => []
  own := [arg]
  eff o a := if a = arg then
      (match o arg with | .one v => if (write v).isEmpty then none else some (.one v) | .many _ => none)
    else none
  childNames := [adm]

/-- `make_no_element_before_v2(parent, el_name, not_default)` as used by the BS.2076-1 parsers: the handler
refuses the element; `to_xml` writes nothing (and raises when `not_default(obj)` — objects using a BS.2076-2
feature are outside the domain of the BS.2076-1 theorems, see the `Valid` predicates) -/
def noV2Impl : CustomImpl XV := { handle := fun _ _ => none, attrsOut := fun _ => [], childrenOut := fun _ => [] }

/-! ### reading values back from keyword arguments (the constructors) -/

def optStrV : Option String → XV
  | some s => .leaf (.str s)
  | none => .leaf .none
def optNumV : Option Int → XV
  | some k => .leaf (.num k)
  | none => .leaf .none
def optIntV : Option Int → XV
  | some k => .leaf (.int k)
  | none => .leaf .none
def optBoolV : Option Bool → XV
  | some b => .leaf (.bool b)
  | none => .leaf .none

def getStr : Val XV → Option String
  | .one (.leaf (.str s)) => some s
  | _ => none
def getOptStr : Val XV → Option (Option String)
  | .one (.leaf (.str s)) => some (some s)
  | .one (.leaf .none) => some none
  | _ => none
def getNum : Val XV → Option Int
  | .one (.leaf (.num k)) => some k
  | _ => none
def getOptNum : Val XV → Option (Option Int)
  | .one (.leaf (.num k)) => some (some k)
  | .one (.leaf .none) => some none
  | _ => none
def getInt : Val XV → Option Int
  | .one (.leaf (.int k)) => some k
  | _ => none
def getOptInt : Val XV → Option (Option Int)
  | .one (.leaf (.int k)) => some (some k)
  | .one (.leaf .none) => some none
  | _ => none
def getBool : Val XV → Option Bool
  | .one (.leaf (.bool b)) => some b
  | _ => none
def getOptBool : Val XV → Option (Option Bool)
  | .one (.leaf (.bool b)) => some (some b)
  | .one (.leaf .none) => some none
  | _ => none
def getOptTime : Val XV → Option (Option Time)
  | .one (.leaf (.time t)) => some (some t)
  | .one (.leaf .none) => some none
  | _ => none
def strOf : XV → Option String
  | .leaf (.str s) => some s
  | _ => none
def getStrs : Val XV → Option (List String)
  | .many vs => vs.mapM strOf
  | .one _ => none

/-! ### loudnessMetadata -/

abbrev noneLeaf : XV := .leaf .none
abbrev strAttr (adm arg : String) (req : Bool) : Property XV := .attr adm arg (liftCodec stringCodec) req noneLeaf
abbrev numElem (adm : String) : Property XV := .attrElement adm adm (liftCodec floatCodec) false noneLeaf false

def loudnessPs : List (Property XV) :=
  [ strAttr "loudnessMethod" "loudnessMethod" false, strAttr "loudnessRecType" "loudnessRecType" false,
    strAttr "loudnessCorrectionType" "loudnessCorrectionType" false,
    numElem "integratedLoudness", numElem "loudnessRange", numElem "maxTruePeak", numElem "maxMomentary",
    numElem "maxShortTerm", numElem "dialogueLoudness" ]

/-- every constructor default is `None` -/
def noneDefaults : Obj XV := fun _ => .one noneLeaf

def Loudness.toObj (l : Loudness) : Obj XV := fun a =>
  if a = "loudnessMethod" then .one (optStrV l.loudnessMethod)
  else if a = "loudnessRecType" then .one (optStrV l.loudnessRecType)
  else if a = "loudnessCorrectionType" then .one (optStrV l.loudnessCorrectionType)
  else if a = "integratedLoudness" then .one (optNumV l.integratedLoudness)
  else if a = "loudnessRange" then .one (optNumV l.loudnessRange)
  else if a = "maxTruePeak" then .one (optNumV l.maxTruePeak)
  else if a = "maxMomentary" then .one (optNumV l.maxMomentary)
  else if a = "maxShortTerm" then .one (optNumV l.maxShortTerm)
  else if a = "dialogueLoudness" then .one (optNumV l.dialogueLoudness)
  else .one noneLeaf

/-- `LoudnessMetadata(**kwargs)` -/
def Loudness.ofObj (o : Obj XV) : Option Loudness := do
  some ⟨← getOptStr (o "loudnessMethod"), ← getOptStr (o "loudnessRecType"), ← getOptStr (o "loudnessCorrectionType"),
    ← getOptNum (o "integratedLoudness"), ← getOptNum (o "loudnessRange"), ← getOptNum (o "maxTruePeak"),
    ← getOptNum (o "maxMomentary"), ← getOptNum (o "maxShortTerm"), ← getOptNum (o "dialogueLoudness")⟩

/-- `loudness_handler.as_list_handler("loudnessMetadata")` -/
def loudnessListImpl : CustomImpl XV :=
  listImpl "loudnessMetadata" "loudnessMetadata"
    (fun _ x => ((parse loudnessPs noneDefaults x).bind Loudness.ofObj).map .loud)
    (fun _ v => toXml loudnessPs "loudnessMetadata" (match v with | .loud l => l.toObj | _ => noneDefaults))

/-! ### audioProgrammeReferenceScreen (`screen_handler`, class `make_screen`) -/

/-- `kwargs.get("screen_type")` -/
def curType (kw : Kw XV) : Option String :=
  match kw "screen_type" with
  | some (.one (.leaf (.str t))) => some t
  | _ => none

/-- `CustomElement("screenCentrePosition", handle_centre_position, …, to_xml=centre_position_to_xml)` -/
def centreImpl : CustomImpl XV where
  handle kw x := (handleCentrePosition (curType kw) x).map fun r =>
    setOne (setOne kw "centrePosition" (.cpos r.1)) "screen_type" (.leaf (.str r.2))
  attrsOut _ := []
  childrenOut o := match o "centrePosition" with | .one (.cpos c) => [centrePositionToXml c] | _ => []
  own := ["centrePosition", "screen_type"]
  childNames := ["screenCentrePosition"]

/-- `CustomElement("screenWidth", handle_screen_width, …, to_xml=screen_width_to_xml)`; `isinstance(obj,
CartesianScreen)` is read through the pseudo-argument `screen_type` -/
def widthImpl : CustomImpl XV where
  handle kw x := (handleScreenWidth (curType kw) x).map fun r =>
    setOne (setOne kw "width" (.leaf (.num r.1))) "screen_type" (.leaf (.str r.2))
  attrsOut _ := []
  childrenOut o := match o "width", o "screen_type" with
    | .one (.leaf (.num w)), .one (.leaf (.str t)) => [screenWidthToXml (t == "cartesian") w]
    | _, _ => []
  own := ["width", "screen_type"]
  childNames := ["screenWidth"]

def screenPs : List (Property XV) :=
  [ .attr "aspectRatio" "aspectRatio" (liftCodec floatCodec) true noneLeaf,
    .customElement "screenCentrePosition" (some "centrePosition") true centreImpl,
    .customElement "screenWidth" (some "width") true widthImpl ]

def Screen.toObj (s : Screen) : Obj XV := fun a =>
  if a = "aspectRatio" then .one (.leaf (.num s.aspectRatio))
  else if a = "centrePosition" then .one (.cpos s.centrePosition)
  else if a = "width" then .one (.leaf (.num s.width))
  else if a = "screen_type" then .one (.leaf (.str s.centrePosition.kind))
  else .one noneLeaf

/-- `make_screen(aspectRatio, centrePosition, width, screen_type)`: the screen classes validate the type of the
centre position -/
def Screen.ofObj (o : Obj XV) : Option Screen := do
  let a ← getNum (o "aspectRatio")
  let w ← getNum (o "width")
  let t ← getStr (o "screen_type")
  match o "centrePosition" with
  | .one (.cpos c) => if c.kind = t then some ⟨a, c, w⟩ else none
  | _ => none

/-- `default_screen` -/
def defaultScreen : Screen := ⟨178000, .polar 0 0 100000, 5800000⟩

/-- `screen_handler.as_handler("referenceScreen", default=default_screen)` -/
def screenImpl : CustomImpl XV :=
  singleImpl "referenceScreen" "audioProgrammeReferenceScreen"
    (fun _ x => ((parse screenPs noneDefaults x).bind Screen.ofObj).map .screen)
    (fun v => match v with
      | .screen s => if s ≠ defaultScreen then [toXml screenPs "audioProgrammeReferenceScreen" s.toObj] else []
      | _ => [])

/-! ### audioObjectInteraction -/

def gainRangeImpl (v2 : Bool) : CustomImpl XV :=
  xpathImpl "gainInteractionRange" "gainInteractionRange"
    (fun es => (parseGainRange v2 es).map fun r => r.map .grange)
    (fun v => match v with | .grange r => gainRangeToXml (some r) | _ => [])

def posRangeImpl : CustomImpl XV :=
  xpathImpl "positionInteractionRange" "positionInteractionRange"
    (fun es => (parsePosRange es).map fun r => r.map .prange)
    (fun v => match v with | .prange r => posRangeToXml (some r) | _ => [])

abbrev boolAttr (adm : String) (req : Bool) : Property XV := .attr adm adm (liftCodec boolCodec) req noneLeaf

def interactionPs (v2 : Bool) : List (Property XV) :=
  [ boolAttr "onOffInteract" true, boolAttr "gainInteract" false, boolAttr "positionInteract" false,
    .genericElement none false (gainRangeImpl v2), .genericElement none false posRangeImpl ]

def Interaction.toObj (i : Interaction) : Obj XV := fun a =>
  if a = "onOffInteract" then .one (.leaf (.bool i.onOffInteract))
  else if a = "gainInteract" then .one (optBoolV i.gainInteract)
  else if a = "positionInteract" then .one (optBoolV i.positionInteract)
  else if a = "gainInteractionRange" then .one (match i.gainInteractionRange with | some r => .grange r | none => noneLeaf)
  else if a = "positionInteractionRange" then
    .one (match i.positionInteractionRange with | some r => .prange r | none => noneLeaf)
  else .one noneLeaf

/-- `AudioObjectInteraction(**kwargs)` -/
def Interaction.ofObj (o : Obj XV) : Option Interaction := do
  let oo ← getBool (o "onOffInteract")
  let gi ← getOptBool (o "gainInteract")
  let pi ← getOptBool (o "positionInteract")
  let gr ← match o "gainInteractionRange" with
    | .one (.grange r) => some (some r)
    | .one (.leaf .none) => some none
    | _ => none
  let pr ← match o "positionInteractionRange" with
    | .one (.prange r) => some (some r)
    | .one (.leaf .none) => some none
    | _ => none
  some ⟨oo, gi, pi, gr, pr⟩

/-- `make_audioObjectInteraction_handler().as_handler("audioObjectInteraction")` -/
def interactionImpl (v2 : Bool) : CustomImpl XV :=
  singleImpl "audioObjectInteraction" "audioObjectInteraction"
    (fun _ x => ((parse (interactionPs v2) noneDefaults x).bind Interaction.ofObj).map .interaction)
    (fun v => match v with
      | .interaction i => [toXml (interactionPs v2) "audioObjectInteraction" i.toObj]
      | _ => [])

/-! ### positionOffset, alternativeValueSet -/

/-- `position_offset_handler` -/
def offsetImpl : CustomImpl XV :=
  xpathImpl "positionOffset" "positionOffset"
    (fun es => (parsePositionOffset es).map fun r => r.map .poff)
    (fun v => match v with | .poff p => positionOffsetToXml (some p) | _ => [])

/-- `CustomElement("gain", handle_gain_element_v2, to_xml=optional_gain_to_xml)` (both versions) -/
def optGainImpl : CustomImpl XV :=
  singleImpl "gain" "gain" (fun present x => (handleGainElement true present x).map gainValue)
    (fun v => match v with | .leaf (.num k) => optionalGainToXml (some k) | _ => [])

def avsPs (v2 : Bool) : List (Property XV) :=
  [ strAttr "alternativeValueSetID" "id" true,
    .customElement "gain" none false optGainImpl,
    .attrElement "mute" "mute" (liftCodec boolCodec) false noneLeaf false,
    .genericElement none false offsetImpl,
    .customElement "audioObjectInteraction" (some "audioObjectInteraction") false (interactionImpl v2) ]

def optOffset : Option PositionOffset → XV
  | some p => .poff p
  | none => noneLeaf
def optInteraction : Option Interaction → XV
  | some i => .interaction i
  | none => noneLeaf

def AVS.toObj (a : AVS) : Obj XV := fun k =>
  if k = "id" then .one (.leaf (.str a.id))
  else if k = "gain" then .one (optNumV a.gain)
  else if k = "mute" then .one (optBoolV a.mute)
  else if k = "positionOffset" then .one (optOffset a.positionOffset)
  else if k = "audioObjectInteraction" then .one (optInteraction a.audioObjectInteraction)
  else .one noneLeaf

def getOptOffset : Val XV → Option (Option PositionOffset)
  | .one (.poff p) => some (some p)
  | .one (.leaf .none) => some none
  | _ => none
def getOptInteraction : Val XV → Option (Option Interaction)
  | .one (.interaction i) => some (some i)
  | .one (.leaf .none) => some none
  | _ => none

/-- `AlternativeValueSet(**kwargs)` (values on the grid) -/
def AVS.ofObj (o : Obj XV) : Option AVS := do
  some ⟨← getStr (o "id"), ← getOptNum (o "gain"), ← getOptBool (o "mute"), ← getOptOffset (o "positionOffset"),
    ← getOptInteraction (o "audioObjectInteraction")⟩

/-- `make_alternativeValueSet_handler().as_list_handler("alternativeValueSets")` -/
def avsListImpl (v2 : Bool) : CustomImpl XV :=
  listImpl "alternativeValueSets" "alternativeValueSet"
    (fun _ x => ((parse (avsPs v2) noneDefaults x).bind AVS.ofObj).map .avs)
    (fun _ v => toXml (avsPs v2) "alternativeValueSet" (match v with | .avs a => a.toObj | _ => noneDefaults))

/-! ### Matrix coefficient -/

/-- `gain_attribute_v1` / `gain_attribute_v2` (a `GenericElement` on the element's attributes) -/
def gainAttrImpl (v2 : Bool) : CustomImpl XV where
  handle kw e := (handleGainAttribute v2 e).map fun r => match r with
    | some g => setOne kw "gain" (gainValue g)
    | none => kw
  attrsOut o := match o "gain" with | .one (.leaf (.num k)) => gainAttributeToXml (some k) | _ => []
  childrenOut _ := []
  own := ["gain"]
  eff o a := if a = "gain" then
      (match o "gain" with | .one (.leaf (.num k)) => some (.one (.leaf (.num k))) | _ => none)
    else none

abbrev numAttr (adm : String) : Property XV := .attr adm adm (liftCodec floatCodec) false noneLeaf

def coeffPs (v2 : Bool) : List (Property XV) :=
  [ .handleText "inputChannelFormatIDRef" (liftCodec stringCodec),
    .genericElement none false (gainAttrImpl v2),
    numAttr "phase", numAttr "delay", strAttr "gainVar" "gainVar" false, strAttr "phaseVar" "phaseVar" false,
    strAttr "delayVar" "delayVar" false ]

def Coefficient.toObj (c : Coefficient) : Obj XV := fun a =>
  if a = "inputChannelFormatIDRef" then .one (.leaf (.str c.inputChannelFormat))
  else if a = "gain" then .one (optNumV c.gain)
  else if a = "phase" then .one (optNumV c.phase)
  else if a = "delay" then .one (optNumV c.delay)
  else if a = "gainVar" then .one (optStrV c.gainVar)
  else if a = "phaseVar" then .one (optStrV c.phaseVar)
  else if a = "delayVar" then .one (optStrV c.delayVar)
  else .one noneLeaf

/-- `MatrixCoefficient(**kwargs)` (values on the grid) -/
def Coefficient.ofObj (o : Obj XV) : Option Coefficient := do
  some ⟨← getStr (o "inputChannelFormatIDRef"), ← getOptNum (o "gain"), ← getOptNum (o "phase"), ← getOptNum (o "delay"),
    ← getOptStr (o "gainVar"), ← getOptStr (o "phaseVar"), ← getOptStr (o "delayVar")⟩

def parseCoefficient (v2 : Bool) (x : Xml) : Option Coefficient :=
  (parse (coeffPs v2) noneDefaults x).bind Coefficient.ofObj

/-- `handle_matrix` / `matrix_to_xml`: one `matrix` element (always written) holding the coefficients -/
def matrixImpl (v2 : Bool) : CustomImpl XV :=
  singleImpl "matrix" "matrix"
    (fun present x => if present then none                       -- "multiple matrix elements found"
      else ((xpathChildren x "coefficient").mapM (parseCoefficient v2)).map .coeffs)
    (fun v => match v with
      | .coeffs cs => [.node (outName "matrix") [] (cs.map fun c => toXml (coeffPs v2) "coefficient" c.toObj) ""]
      | _ => [])

/-! ### the other block formats -/

/-- `block_format_props` -/
def blockHead (v2 : Bool) : List (Property XV) :=
  [ strAttr "audioBlockFormatID" "id" true,
    .attr "rtime" "rtime" (liftCodec (timeCodec v2)) false noneLeaf,
    .attr "duration" "duration" (liftCodec (timeCodec v2)) false noneLeaf ]

/-- `make_gain_element_v2(...)` -/
def gainElemV2 (v2 : Bool) : Property XV := .customElement "gain" none false (if v2 then gainImpl true else noV2Impl)

/-- `make_default_importance_element_v2(...)` -/
def importanceV2 (v2 : Bool) : Property XV :=
  if v2 then .attrElement "importance" "importance" (liftCodec intCodec) false (.leaf (.int 10)) false
  else .customElement "importance" none false noV2Impl

/-- `GenericElement(handle_speaker_position, speaker_position_to_xml)` -/
def speakerImpl : CustomImpl XV :=
  xpathImpl "position" "position" (fun es => (parseSpeakerPosition es).map fun p => some (.spos p))
    (fun v => match v with | .spos p => speakerPositionToXml p | _ => [])

def dsPs (v2 : Bool) : List (Property XV) :=
  blockHead v2 ++
  [ .listElement "speakerLabel" "speakerLabel" (liftCodec stringCodec) false false,
    .genericElement none false speakerImpl, gainElemV2 v2, importanceV2 v2 ]

abbrev optElem (adm : String) (c : Codec Leaf) : Property XV := .attrElement adm adm (liftCodec c) false noneLeaf false

def hoaPs (v2 : Bool) : List (Property XV) :=
  blockHead v2 ++
  [ optElem "equation" stringCodec, optElem "order" intCodec, optElem "degree" intCodec,
    optElem "normalization" stringCodec, optElem "nfcRefDist" floatCodec, optElem "screenRef" boolCodec,
    gainElemV2 v2, importanceV2 v2 ]

def binauralPs (v2 : Bool) : List (Property XV) := blockHead v2 ++ [gainElemV2 v2, importanceV2 v2]

def matrixPs (v2 : Bool) : List (Property XV) :=
  blockHead v2 ++
  [ .attrElement "outputChannelFormatIDRef" "outputChannelFormatIDRef" (liftCodec stringCodec) false noneLeaf false,
    .attrElement "outputChannelIDRef" "outputChannelFormatIDRef" (liftCodec stringCodec) false noneLeaf true,
    .customElement "matrix" none false (matrixImpl v2), gainElemV2 v2, importanceV2 v2 ]

/-- the constructor defaults shared by the block-format classes: `gain=1.0`, `importance=10`, the rest `None` -/
def blockDefaults : Obj XV := fun a =>
  if a = "gain" then .one (.leaf (.num 100000))
  else if a = "importance" then .one (.leaf (.int 10))
  else .one noneLeaf

/-- `AudioBlockFormatDirectSpeakers`: `speakerLabel` is a list (`position` has no usable default: always written) -/
def dsDefaults : Obj XV := fun a => if a = "speakerLabel" then .many [] else blockDefaults a

/-- `AudioBlockFormatMatrix`: `matrix` is a list -/
def matrixDefaults : Obj XV := fun a => if a = "matrix" then .one (.coeffs []) else blockDefaults a

def DirectSpeakersBlock.toObj (b : DirectSpeakersBlock) : Obj XV := fun a =>
  if a = "id" then .one (.leaf (.str b.id))
  else if a = "rtime" then .one (optTime b.rtime)
  else if a = "duration" then .one (optTime b.duration)
  else if a = "speakerLabel" then .many (b.speakerLabel.map fun s => .leaf (.str s))
  else if a = "position" then .one (.spos b.position)
  else if a = "gain" then .one (.leaf (.num b.gain))
  else if a = "importance" then .one (.leaf (.int b.importance))
  else .one noneLeaf

def DirectSpeakersBlock.ofObj (o : Obj XV) : Option DirectSpeakersBlock := do
  let p ← match o "position" with | .one (.spos p) => some p | _ => none
  some ⟨← getStr (o "id"), ← getOptTime (o "rtime"), ← getOptTime (o "duration"), ← getStrs (o "speakerLabel"), p,
    ← getNum (o "gain"), ← getInt (o "importance")⟩

def HoaBlock.toObj (b : HoaBlock) : Obj XV := fun a =>
  if a = "id" then .one (.leaf (.str b.id))
  else if a = "rtime" then .one (optTime b.rtime)
  else if a = "duration" then .one (optTime b.duration)
  else if a = "equation" then .one (optStrV b.equation)
  else if a = "order" then .one (optIntV b.order)
  else if a = "degree" then .one (optIntV b.degree)
  else if a = "normalization" then .one (optStrV b.normalization)
  else if a = "nfcRefDist" then .one (optNumV b.nfcRefDist)
  else if a = "screenRef" then .one (optBoolV b.screenRef)
  else if a = "gain" then .one (.leaf (.num b.gain))
  else if a = "importance" then .one (.leaf (.int b.importance))
  else .one noneLeaf

def HoaBlock.ofObj (o : Obj XV) : Option HoaBlock := do
  some ⟨← getStr (o "id"), ← getOptTime (o "rtime"), ← getOptTime (o "duration"), ← getOptStr (o "equation"),
    ← getOptInt (o "order"), ← getOptInt (o "degree"), ← getOptStr (o "normalization"), ← getOptNum (o "nfcRefDist"),
    ← getOptBool (o "screenRef"), ← getNum (o "gain"), ← getInt (o "importance")⟩

def BinauralBlock.toObj (b : BinauralBlock) : Obj XV := fun a =>
  if a = "id" then .one (.leaf (.str b.id))
  else if a = "rtime" then .one (optTime b.rtime)
  else if a = "duration" then .one (optTime b.duration)
  else if a = "gain" then .one (.leaf (.num b.gain))
  else if a = "importance" then .one (.leaf (.int b.importance))
  else .one noneLeaf

def BinauralBlock.ofObj (o : Obj XV) : Option BinauralBlock := do
  some ⟨← getStr (o "id"), ← getOptTime (o "rtime"), ← getOptTime (o "duration"), ← getNum (o "gain"),
    ← getInt (o "importance")⟩

def MatrixBlock.toObj (b : MatrixBlock) : Obj XV := fun a =>
  if a = "id" then .one (.leaf (.str b.id))
  else if a = "rtime" then .one (optTime b.rtime)
  else if a = "duration" then .one (optTime b.duration)
  else if a = "outputChannelFormatIDRef" then .one (optStrV b.outputChannelFormat)
  else if a = "matrix" then .one (.coeffs b.matrix)
  else if a = "gain" then .one (.leaf (.num b.gain))
  else if a = "importance" then .one (.leaf (.int b.importance))
  else .one noneLeaf

def MatrixBlock.ofObj (o : Obj XV) : Option MatrixBlock := do
  let m ← match o "matrix" with | .one (.coeffs cs) => some cs | _ => none
  some ⟨← getStr (o "id"), ← getOptTime (o "rtime"), ← getOptTime (o "duration"),
    ← getOptStr (o "outputChannelFormatIDRef"), m, ← getNum (o "gain"), ← getInt (o "importance")⟩

/-- `AudioBlockFormatObjects(**kwargs)` (values on the grid; a gain read in dB is outside) -/
def ObjectsBlock.ofObj (o : Obj XV) : Option ObjectsBlock := do
  let p ← match o "position" with | .one (.opos p) => some p | _ => none
  let cl ← match o "channelLock" with
    | .one (.clock c) => some (some c)
    | .one (.leaf .none) => some none
    | _ => none
  let j ← match o "jumpPosition" with | .one (.jump j) => some j | _ => none
  let d ← match o "objectDivergence" with
    | .one (.diverg d) => some (some d)
    | .one (.leaf .none) => some none
    | _ => none
  let z ← match o "zoneExclusion" with | .one (.zones zs) => some zs | _ => none
  some ⟨← getStr (o "id"), ← getOptTime (o "rtime"), ← getOptTime (o "duration"), p, cl, j, d, ← getNum (o "width"),
    ← getNum (o "height"), ← getNum (o "depth"), ← getNum (o "diffuse"), ← getBool (o "cartesian"),
    ← getBool (o "screenRef"), z, ← getNum (o "gain"), ← getInt (o "importance")⟩

def Block.toObj : Block → Obj XV
  | .objects b => b.toObj
  | .directSpeakers b => b.toObj
  | .hoa b => b.toObj
  | .binaural b => b.toObj
  | .matrix b => b.toObj

/-- `TypeDefinition` member name of the class of a block format -/
def Block.kind : Block → String
  | .objects _ => "Objects"
  | .directSpeakers _ => "DirectSpeakers"
  | .hoa _ => "HOA"
  | .binaural _ => "Binaural"
  | .matrix _ => "Matrix"

/-- `make_block_format_handlers()[type]` by the name of the `TypeDefinition` member -/
def blockPs (v2 : Bool) (ty : String) : List (Property XV) :=
  if ty = "Objects" then objPs v2
  else if ty = "DirectSpeakers" then dsPs v2
  else if ty = "HOA" then hoaPs v2
  else if ty = "Binaural" then binauralPs v2
  else if ty = "Matrix" then matrixPs v2
  else []

def blockCd (ty : String) : Obj XV :=
  if ty = "Objects" then objectsDefaults
  else if ty = "DirectSpeakers" then dsDefaults
  else if ty = "Matrix" then matrixDefaults
  else blockDefaults

/-- `handlers[type].parse(el)`, including the class constructor -/
def parseBlock (v2 : Bool) (ty : String) (x : Xml) : Option Block :=
  (parse (blockPs v2 ty) (blockCd ty) x).bind fun o =>
    if ty = "Objects" then (ObjectsBlock.ofObj o).map .objects
    else if ty = "DirectSpeakers" then (DirectSpeakersBlock.ofObj o).map .directSpeakers
    else if ty = "HOA" then (HoaBlock.ofObj o).map .hoa
    else if ty = "Binaural" then (BinauralBlock.ofObj o).map .binaural
    else if ty = "Matrix" then (MatrixBlock.ofObj o).map .matrix
    else none

/-- the name of the `TypeDefinition` stored under `type` -/
def typeName? : Option (Val XV) → Option String
  | some (.one (.leaf (.enum n _))) => some n
  | _ => none

/-- `make_block_format_handler()`: parse by `kwargs["type"]`, write by `obj.type` -/
def blocksImpl (v2 : Bool) : CustomImpl XV :=
  listImpl "audioBlockFormats" "audioBlockFormat"
    (fun kw x => (typeName? (kw "type")).bind fun n => (parseBlock v2 n x).map .block)
    (fun o v => toXml (blockPs v2 ((typeName? (some (o "type"))).getD "")) "audioBlockFormat"
      (match v with | .block b => b.toObj | _ => noneDefaults))

/-- `CustomElement("frequency", handle_frequency, to_xml=frequency_to_xml)` -/
def frequencyImpl : CustomImpl XV where
  handle kw x :=
    (handleFrequency (match kw "frequency" with | some (.one (.freq f)) => f | _ => ⟨none, none⟩) x).map fun f =>
      setOne kw "frequency" (.freq f)
  attrsOut _ := []
  childrenOut o := match o "frequency" with | .one (.freq f) => frequencyToXml f | _ => []
  own := ["frequency"]
  eff o a := if a = "frequency" then
      (match o "frequency" with
        | .one (.freq f) => if f = ⟨none, none⟩ then none else some (.one (.freq f))
        | _ => none)
    else none
  childNames := ["frequency"]

end Earverif.XmlBlocks
