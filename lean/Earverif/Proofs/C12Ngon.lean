/- C12 — the virtual n-gon inside the pasted panner.

   * `cellPanner_continuousOn`: the pasting theorem specialised to a first-accept loop over TRIPLET CELLS, each with its own
     map from the three VBAP gains to an output vector (identity-remap for a Triplet region, remap ∘ centre-downmix ∘ remap for
     an inner triplet of a VirtualNgon);
   * `VirtualNgon.handleE`: the n-gon handler with the acceptance slack as a parameter (`ngon_handleE_eps`: with the code's
     −1e-11 it is `VirtualNgon.handle`); `ngon_handle_continuousOn`: at slack 0 every output coordinate of the n-gon handler is
     continuous on the union of the cones of its inner triplets, and there it is the (mixed) answer of ANY accepting inner
     triplet — the inner triplets are pasted along their shared edges (outer vertex – centre), `mix` is continuous because the
     mixed vector never vanishes (non-negative gains of unit power, positive centre downmix);
   * `pannerTNE`: a panner of Triplet and VirtualNgon regions with the slack as a parameter (`pannerTNE_eps`: the model's
     `PointSourcePanner.handle` for the code's slack); `panner_continuousOn_tri_ngon_partial`: at slack 0 it is continuous on
     the union of all cones, when cells of different regions meet only in shared OUTER faces (`MeetInOuterFace`: the virtual
     centre of an n-gon is never shared with another region). -/
import Earverif.Proofs.C12Paste

namespace Earverif.PointSource

open Set Filter Topology

/-! ### list plumbing -/

theorem firstAccept_flatMap {β γ : Type} (f : β → List (Option γ)) : ∀ l : List β,
    firstAccept (l.flatMap f) = firstAccept (l.map fun x => firstAccept (f x))
  | [] => rfl
  | x :: xs => by
    have ih := firstAccept_flatMap f xs
    simp only [List.flatMap_cons, List.map_cons]
    generalize f x = fx
    induction fx with
    | nil => simpa [firstAccept] using ih
    | cons a as iha =>
      cases a with
      | some v => simp [firstAccept]
      | none => simpa [firstAccept] using iha

/-- `sumsq` of a list all of whose coordinates depend continuously on a parameter -/
theorem continuousOn_sumsq {Z : Type} [TopologicalSpace Z] (S : Set Z) : ∀ (m : Nat) (L : Z → List ℝ),
    (∀ z, (L z).length = m) → (∀ c, ContinuousOn (fun z => (L z).getD c 0) S) → ContinuousOn (fun z => sumsq (L z)) S
  | 0, L, hl, _ => by
    have : (fun z => sumsq (L z)) = fun _ => (0 : ℝ) := by
      funext z
      have := List.eq_nil_of_length_eq_zero (hl z)
      rw [this]; simp [sumsq]
    rw [this]; exact continuousOn_const
  | m + 1, L, hl, hc => by
    have hform : ∀ z, L z = (L z).getD 0 0 :: (L z).tail := by
      intro z
      have := hl z
      cases h : L z with
      | nil => rw [h] at this; simp at this
      | cons x xs => simp
    have heq : (fun z => sumsq (L z)) = fun z => (L z).getD 0 0 * (L z).getD 0 0 + sumsq ((L z).tail) := by
      funext z
      conv_lhs => rw [hform z]
      simp [sumsq]
    rw [heq]
    refine ((hc 0).mul (hc 0)).add (continuousOn_sumsq S m (fun z => (L z).tail) (fun z => by simp [hl z]) ?_)
    intro c
    have : (fun z => ((L z).tail).getD c 0) = fun z => (L z).getD (c + 1) 0 := by
      funext z
      conv_rhs => rw [hform z]
      simp
    rw [this]; exact hc (c + 1)

theorem sumsq_ne_zero_of_mem {l : List ℝ} {x : ℝ} (hx : x ∈ l) (h0 : x ≠ 0) : sumsq l ≠ 0 :=
  fun h => h0 (sumsq_eq_zero h x hx)

/-! ### a first-accept loop over triplet cells -/

/-- a cell: position matrix, and the map from its three VBAP gains to the output vector -/
abbrev Cell := Mat3 ℝ × (Vec3 ℝ → List ℝ)

/-- first accepting cell, acceptance threshold `ε` -/
noncomputable def cellPannerE (ε : ℝ) (cells : List Cell) (p : Vec3 ℝ) : Option (List ℝ) :=
  firstAccept (cells.map fun X => (Triplet.handleE ε X.1 p).map X.2)

/-- exact (slack 0) acceptance cone of a cell, origin removed -/
def Cell.cone (X : Cell) : Set (Vec3 ℝ) := {p | Triplet.acceptsE 0 X.1 p} ∩ {p | p ≠ (0, 0, 0)}

/-- output of a cell at `p` -/
noncomputable def Cell.out (X : Cell) (p : Vec3 ℝ) : List ℝ := X.2 (Triplet.gains X.1 p)

/-- PASTING over triplet cells at slack 0.  Cells whose outputs have a common length, are coordinate-wise continuous on
    their cones and agree wherever two cones meet: every output coordinate of the first-accept loop is continuous on the
    union of the cones, there the loop's answer is the output of ANY cell containing the direction, elsewhere `None`. -/
theorem cellPanner_continuousOn (cells : List Cell) (n : Nat)
    (hlen : ∀ X ∈ cells, ∀ p, (X.out p).length = n)
    (hcont : ∀ X ∈ cells, ∀ c, ContinuousOn (fun p => (X.out p).getD c 0) X.cone)
    (hagree : ∀ X ∈ cells, ∀ Y ∈ cells, ∀ p, p ∈ X.cone → p ∈ Y.cone → ∀ c, (X.out p).getD c 0 = (Y.out p).getD c 0) :
    (∀ c, ContinuousOn (fun p => ((cellPannerE 0 cells p).map (·.getD c 0)).getD 0) {p | ∃ X ∈ cells, p ∈ X.cone}) ∧
    (∀ X ∈ cells, ∀ p ∈ X.cone, cellPannerE 0 cells p = some (X.out p)) ∧
    (∀ p, p ≠ (0, 0, 0) → (¬ ∃ X ∈ cells, p ∈ X.cone) → cellPannerE 0 cells p = none) := by
  have hcand : ∀ p, p ≠ (0, 0, 0) → ∀ (f : List ℝ → ℝ) (l : List Cell),
      (l.map fun X => (Triplet.handleE 0 X.1 p).map X.2).map (Option.map f) =
        candidates (l.map fun X => (X.cone, fun q => f (X.out q))) p := by
    intro p hp f l
    simp only [candidates, List.map_map]
    apply List.map_congr_left
    intro X _
    by_cases hacc : Triplet.acceptsE 0 X.1 p
    · have : p ∈ X.cone := ⟨hacc, hp⟩
      simp [Triplet.handleE, hacc, this, Cell.out]
    · have : p ∉ X.cone := fun h => hacc h.1
      simp [Triplet.handleE, hacc, this]
  have hU : ∀ f : List ℝ → ℝ, accUnion (cells.map fun X => (X.cone, fun q => f (X.out q))) =
      {p | ∃ X ∈ cells, p ∈ X.cone} := by
    intro f; ext p; simp [accUnion]
  refine ⟨fun c => ?_, ?_, ?_⟩
  · set rs : List (Set (Vec3 ℝ) × (Vec3 ℝ → ℝ)) := cells.map fun X => (X.cone, fun q => (X.out q).getD c 0) with hrs
    have main := firstAccept_continuousOn_aux {p : Vec3 ℝ | p ≠ (0, 0, 0)} rs 0
      (by
        intro x hx
        obtain ⟨X, _, rfl⟩ := List.mem_map.mp hx
        exact ⟨_, triplet_accept_isClosed 0 X.1, rfl⟩)
      (by
        intro x hx
        obtain ⟨X, hX, rfl⟩ := List.mem_map.mp hx
        exact hcont X hX c)
      (by
        intro x hx x' hx' p hp hp'
        obtain ⟨X, hX, rfl⟩ := List.mem_map.mp hx
        obtain ⟨Y, hY, rfl⟩ := List.mem_map.mp hx'
        exact hagree X hX Y hY p hp hp' c)
    rw [hrs, hU (fun l => l.getD c 0)] at main
    refine main.1.congr ?_
    intro p hp
    obtain ⟨X, _, hpX⟩ := hp
    simp only [cellPannerE, firstAccept_map, hcand p hpX.2 (fun l => l.getD c 0) cells]
  · intro X hX p hp
    have hsome : ∀ c, (cellPannerE 0 cells p).map (·.getD c 0) = some ((X.out p).getD c 0) := by
      intro c
      simp only [cellPannerE, firstAccept_map, hcand p hp.2 (fun l => l.getD c 0) cells]
      exact firstAccept_eq_of_agree _ p _ ⟨_, List.mem_map.mpr ⟨X, hX, rfl⟩, hp⟩ (by
        intro x hx hpx
        obtain ⟨Y, hY, rfl⟩ := List.mem_map.mp hx
        exact hagree Y hY X hX p hpx hp c)
    cases hres : cellPannerE 0 cells p with
    | none => have := hsome 0; rw [hres] at this; simp at this
    | some out =>
      congr 1
      have hmem := firstAccept_mem hres
      obtain ⟨Y, hY, he⟩ := List.mem_map.mp hmem
      have hlen' : out.length = n := by
        cases hh : Triplet.handleE 0 Y.1 p with
        | none => rw [hh] at he; simp at he
        | some g =>
          have hg : g = Triplet.gains Y.1 p := by
            unfold Triplet.handleE at hh
            split at hh
            · exact (Option.some.inj hh).symm
            · simp at hh
          rw [hh] at he
          simp only [Option.map_some, Option.some.injEq] at he
          rw [← he, hg]; exact hlen Y hY p
      apply list_ext_getD (by rw [hlen', hlen X hX p])
      intro c
      have := hsome c
      rw [hres] at this
      simpa using this
  · intro p hp hnone
    unfold cellPannerE
    rw [firstAccept_eq_none]
    intro x hx
    obtain ⟨X, hX, rfl⟩ := List.mem_map.mp hx
    have : ¬ Triplet.acceptsE 0 X.1 p := fun h => hnone ⟨X, hX, h, hp⟩
    simp [Triplet.handleE, this]

/-! ### the centre downmix `mix`, coordinate by coordinate -/

/-- `pv[:-1] += pv[-1] * centre_downmix; pv = pv[:-1]` (before the renormalisation) -/
noncomputable def mixRaw (cd v : List ℝ) : List ℝ :=
  (v.take cd.length).zipWith (fun x d => x + v.getD cd.length 0 * d) cd

theorem mix_eq (cd v : List ℝ) :
    VirtualNgon.mix cd v = (mixRaw cd v).map (· / Real.sqrt (sumsq (mixRaw cd v))) := by
  simp only [VirtualNgon.mix, normalise, norm, sqrt_real, zero_real, mixRaw]

theorem mixRaw_length (cd v : List ℝ) (hv : v.length = cd.length + 1) : (mixRaw cd v).length = cd.length := by
  simp [mixRaw, hv]

theorem mixRaw_getD (cd v : List ℝ) (hv : v.length = cd.length + 1) (c : Nat) :
    (mixRaw cd v).getD c 0 = if c < cd.length then v.getD c 0 + v.getD cd.length 0 * cd.getD c 0 else 0 := by
  simp only [mixRaw, List.getD_eq_getElem?_getD, List.getElem?_zipWith, List.getElem?_take]
  by_cases hc : c < cd.length
  · have h1 : c < v.length := by omega
    simp [hc, List.getElem?_eq_getElem h1]
  · have h2 : cd[c]? = none := List.getElem?_eq_none (by omega)
    simp [hc]

theorem mix_getD (cd v : List ℝ) (c : Nat) :
    (VirtualNgon.mix cd v).getD c 0 = (mixRaw cd v).getD c 0 / Real.sqrt (sumsq (mixRaw cd v)) := by
  rw [mix_eq]
  simp only [List.getD_eq_getElem?_getD, List.getElem?_map]
  cases (mixRaw cd v)[c]? with
  | none => simp
  | some x => simp

theorem mix_length (cd v : List ℝ) (hv : v.length = cd.length + 1) : (VirtualNgon.mix cd v).length = cd.length := by
  rw [mix_eq, List.length_map, mixRaw_length cd v hv]

/-- in its exact cone an invertible triplet answers with `pv/‖pv‖`, `pv ≥ 0`, `pv ≠ 0` -/
theorem gains_of_cone (P : Mat3 ℝ) (hd : det3 P ≠ 0) (p : Vec3 ℝ) (hp : p ≠ (0, 0, 0)) (ha : Triplet.acceptsE 0 P p) :
    ∃ s t u : ℝ, 0 ≤ s ∧ 0 ≤ t ∧ 0 ≤ u ∧ 0 < s * s + t * t + u * u ∧ p = comb3 s t u P ∧
      Triplet.gains P p = (s / Real.sqrt (s * s + t * t + u * u), t / Real.sqrt (s * s + t * t + u * u),
        u / Real.sqrt (s * s + t * t + u * u)) := by
  have hne := pv_ne_zero P hd p hp
  have hc := comb3_pv P hd p
  obtain ⟨h0, h1, h2⟩ := ha
  generalize Triplet.pv P p = v at hne hc h0 h1 h2
  obtain ⟨s, t, u⟩ := v
  simp only at h0 h1 h2 hc
  have hpos : 0 < s * s + t * t + u * u := by
    rcases lt_or_eq_of_le (by nlinarith [mul_self_nonneg s, mul_self_nonneg t, mul_self_nonneg u] : 0 ≤ s * s + t * t + u * u) with h | h
    · exact h
    · exfalso; apply hne
      have e0 : s * s = 0 := by nlinarith [mul_self_nonneg s, mul_self_nonneg t, mul_self_nonneg u]
      have e1 : t * t = 0 := by nlinarith [mul_self_nonneg s, mul_self_nonneg t, mul_self_nonneg u]
      have e2 : u * u = 0 := by nlinarith [mul_self_nonneg s, mul_self_nonneg t, mul_self_nonneg u]
      rw [mul_self_eq_zero.mp e0, mul_self_eq_zero.mp e1, mul_self_eq_zero.mp e2]
  refine ⟨s, t, u, h0, h1, h2, hpos, hc.symm, ?_⟩
  have := triplet_of_comb P hd s t u h0 h1 h2 hpos.ne'
  rw [hc] at this
  exact (handle_some_eq_gains this).symm

/-- the mixed vector of an inner triplet `([c0, c1, m], P)` never vanishes on the triplet's cone: the gains are
    non-negative of unit power and the centre downmix is positive -/
theorem mixRaw_ne_zero (cd : List ℝ) (hcd : ∀ d ∈ cd, 0 < d) (c0 c1 : Nat) (h01 : c0 ≠ c1) (h0 : c0 < cd.length)
    (h1 : c1 < cd.length) (P : Mat3 ℝ) (hd : det3 P ≠ 0) (p : Vec3 ℝ)
    (hp : p ∈ TRegion.cone ([c0, c1, cd.length], P)) :
    sumsq (mixRaw cd (tripletOut (cd.length + 1) ([c0, c1, cd.length], P) p)) ≠ 0 := by
  obtain ⟨s, t, u, hs, ht, hu, hpos, _, hg⟩ := gains_of_cone P hd p hp.2 hp.1
  set r := Real.sqrt (s * s + t * t + u * u) with hr
  have hrpos : 0 < r := Real.sqrt_pos.mpr hpos
  set v := tripletOut (cd.length + 1) ([c0, c1, cd.length], P) p with hv
  have hvl : v.length = cd.length + 1 := tripletOut_length _ _ _
  have hget : ∀ c, v.getD c 0 = if c = cd.length ∧ cd.length < cd.length + 1 then u / r else
      if c = c1 ∧ c1 < cd.length + 1 then t / r else if c = c0 ∧ c0 < cd.length + 1 then s / r else 0 := by
    intro c
    simp only [hv, tripletOut, hg, vecList]
    exact scatter3_getD _ _ _ _ _ _ _ _
  have hcdpos : ∀ c, c < cd.length → 0 < cd.getD c 0 := by
    intro c hc
    rw [List.getD_eq_getElem?_getD, List.getElem?_eq_getElem hc]
    exact hcd _ (List.getElem_mem hc)
  have hmem : ∀ c, c < cd.length → (mixRaw cd v).getD c 0 ∈ mixRaw cd v := by
    intro c hc
    have : c < (mixRaw cd v).length := by rw [mixRaw_length cd v hvl]; exact hc
    rw [List.getD_eq_getElem?_getD, List.getElem?_eq_getElem this]
    exact List.getElem_mem this
  have e0 : (mixRaw cd v).getD c0 0 = s / r + u / r * cd.getD c0 0 := by
    rw [mixRaw_getD cd v hvl, if_pos h0, hget c0, hget cd.length]
    have a1 : ¬ (c0 = cd.length ∧ cd.length < cd.length + 1) := fun h => by omega
    have a2 : ¬ (c0 = c1 ∧ c1 < cd.length + 1) := fun h => h01 h.1
    have a3 : c0 = c0 ∧ c0 < cd.length + 1 := ⟨rfl, by omega⟩
    have a4 : cd.length = cd.length ∧ cd.length < cd.length + 1 := ⟨rfl, by omega⟩
    rw [if_neg a1, if_neg a2, if_pos a3, if_pos a4]
  have e1 : (mixRaw cd v).getD c1 0 = t / r + u / r * cd.getD c1 0 := by
    rw [mixRaw_getD cd v hvl, if_pos h1, hget c1, hget cd.length]
    have a1 : ¬ (c1 = cd.length ∧ cd.length < cd.length + 1) := fun h => by omega
    have a3 : c1 = c1 ∧ c1 < cd.length + 1 := ⟨rfl, by omega⟩
    have a4 : cd.length = cd.length ∧ cd.length < cd.length + 1 := ⟨rfl, by omega⟩
    rw [if_neg a1, if_pos a3, if_pos a4]
  have hsr : 0 ≤ s / r := div_nonneg hs hrpos.le
  have htr : 0 ≤ t / r := div_nonneg ht hrpos.le
  have hur : 0 ≤ u / r := div_nonneg hu hrpos.le
  by_cases hzero : s = 0 ∧ u = 0
  · obtain ⟨rfl, rfl⟩ := hzero
    have htpos : 0 < t := by
      rcases lt_or_eq_of_le ht with h | h
      · exact h
      · rw [← h] at hpos; simp at hpos
    refine sumsq_ne_zero_of_mem (hmem c1 h1) ?_
    rw [e1]
    have : 0 < t / r := div_pos htpos hrpos
    rw [zero_div, zero_mul, add_zero]; exact this.ne'
  · refine sumsq_ne_zero_of_mem (hmem c0 h0) ?_
    rw [e0]
    have hc0 := hcdpos c0 h0
    have : 0 < s / r + u / r * cd.getD c0 0 := by
      by_cases hs0 : s = 0
      · have hu0 : u ≠ 0 := fun h => hzero ⟨hs0, h⟩
        have : 0 < u / r := div_pos (lt_of_le_of_ne hu (Ne.symm hu0)) hrpos
        have := mul_pos this hc0
        linarith
      · have : 0 < s / r := div_pos (lt_of_le_of_ne hs (Ne.symm hs0)) hrpos
        have := mul_nonneg hur hc0.le
        linarith
    exact this.ne'

/-- every coordinate of the mixed answer of an inner triplet is continuous on the triplet's cone -/
theorem mix_tripletOut_continuousOn (cd : List ℝ) (hcd : ∀ d ∈ cd, 0 < d) (c0 c1 : Nat) (h01 : c0 ≠ c1)
    (h0 : c0 < cd.length) (h1 : c1 < cd.length) (P : Mat3 ℝ) (hd : det3 P ≠ 0) (c : Nat) :
    ContinuousOn (fun p => (VirtualNgon.mix cd (tripletOut (cd.length + 1) ([c0, c1, cd.length], P) p)).getD c 0)
      (TRegion.cone ([c0, c1, cd.length], P)) := by
  set r : TRegion := ([c0, c1, cd.length], P) with hr
  have hT : ∀ k, ContinuousOn (fun p => (tripletOut (cd.length + 1) r p).getD k 0) r.cone :=
    fun k => tripletOut_continuousOn _ k r hd
  have hvl : ∀ p, (tripletOut (cd.length + 1) r p).length = cd.length + 1 := fun p => tripletOut_length _ _ _
  have hraw : ∀ k, ContinuousOn (fun p => (mixRaw cd (tripletOut (cd.length + 1) r p)).getD k 0) r.cone := by
    intro k
    have : (fun p => (mixRaw cd (tripletOut (cd.length + 1) r p)).getD k 0) = fun p =>
        if k < cd.length then (tripletOut (cd.length + 1) r p).getD k 0 +
          (tripletOut (cd.length + 1) r p).getD cd.length 0 * cd.getD k 0 else 0 := by
      funext p; exact mixRaw_getD cd _ (hvl p) k
    rw [this]
    by_cases hk : k < cd.length
    · simp only [hk, if_true]
      exact (hT k).add ((hT cd.length).mul continuousOn_const)
    · simp only [hk, if_false]; exact continuousOn_const
  have hss : ContinuousOn (fun p => sumsq (mixRaw cd (tripletOut (cd.length + 1) r p))) r.cone :=
    continuousOn_sumsq r.cone cd.length _ (fun p => mixRaw_length cd _ (hvl p)) hraw
  have : (fun p => (VirtualNgon.mix cd (tripletOut (cd.length + 1) r p)).getD c 0) = fun p =>
      (mixRaw cd (tripletOut (cd.length + 1) r p)).getD c 0 / Real.sqrt (sumsq (mixRaw cd (tripletOut (cd.length + 1) r p))) := by
    funext p; exact mix_getD cd _ c
  rw [this]
  refine (hraw c).div (Real.continuous_sqrt.comp_continuousOn hss) ?_
  intro p hp
  have hne := mixRaw_ne_zero cd hcd c0 c1 h01 h0 h1 P hd p hp
  have h0' := sumsq_nonneg (mixRaw cd (tripletOut (cd.length + 1) r p))
  exact (Real.sqrt_pos.mpr (lt_of_le_of_ne h0' (Ne.symm hne))).ne'

/-! ### the n-gon handler with the slack as a parameter -/

/-- `VirtualNgon.handle` with the threshold `ε` in place of `-1e-11` in its inner triplets -/
noncomputable def VirtualNgon.handleE (ε : ℝ) (g : VirtualNgon ℝ) (p : Vec3 ℝ) : Option (List ℝ) :=
  firstAccept (g.regions.map fun r =>
    (remap r.1 (g.centreDownmix.length + 1) ((Triplet.handleE ε r.2 p).map vecList)).map
      (VirtualNgon.mix g.centreDownmix))

/-- with the code's threshold this IS the model's `VirtualNgon.handle` -/
theorem ngon_handleE_eps (g : VirtualNgon ℝ) (p : Vec3 ℝ) : g.handleE tripletEps p = g.handle p := by
  unfold VirtualNgon.handleE VirtualNgon.handle
  simp only [handleE_eps]

/-- the output map of an inner triplet with local channels `ch`: remap into `m + 1` slots, then the centre downmix -/
noncomputable def ngonOut (cd : List ℝ) (ch : List Nat) (v : Vec3 ℝ) : List ℝ :=
  VirtualNgon.mix cd (scatter (zeros (cd.length + 1)) ch (vecList v))

/-- the inner triplets of an n-gon as cells -/
noncomputable def ngonCells (g : VirtualNgon ℝ) : List Cell :=
  g.regions.map fun r => (r.2, ngonOut g.centreDownmix r.1)

theorem ngon_handleE_cells (ε : ℝ) (g : VirtualNgon ℝ) (p : Vec3 ℝ) :
    g.handleE ε p = cellPannerE ε (ngonCells g) p := by
  unfold VirtualNgon.handleE cellPannerE ngonCells
  rw [List.map_map]
  congr 1
  apply List.map_congr_left
  intro r _
  simp only [Function.comp, remap, Option.map_map]
  rfl

/-- what is needed of the inner triplets of an n-gon: local channels `[c0, c1, m]` (`m` = the virtual centre), `c0 ≠ c1`
    real vertices of the n-gon -/
def InnerChOk (m : Nat) (r : TRegion) : Prop := ∃ c0 c1, r.1 = [c0, c1, m] ∧ c0 ≠ c1 ∧ c0 < m ∧ c1 < m

theorem InnerChOk.chOk {m : Nat} {r : TRegion} (h : InnerChOk m r) : r.chOk := by
  obtain ⟨c0, c1, hr, h01, h0, h1⟩ := h
  exact ⟨c0, c1, m, hr, h01, by omega, by omega⟩

theorem tripletOut_eq_of_faces (r r' : TRegion) (hd : det3 r.2 ≠ 0) (hd' : det3 r'.2 ≠ 0) (hch : r.chOk)
    (hch' : r'.chOk) (h : MeetInSharedFace r r') (n : Nat) (p : Vec3 ℝ) (hp : p ∈ r.cone) (hp' : p ∈ r'.cone) :
    tripletOut n r p = tripletOut n r' p := by
  apply list_ext_getD (by rw [tripletOut_length, tripletOut_length])
  intro c
  exact shared_face_agreement r r' hd hd' hch hch' h n c p hp.2 hp.1 hp'.1

/-- **THE N-GON AT SLACK 0.**  A virtual n-gon whose inner triplets `(o_i, o_{i+1}, centre)` are invertible, carry the
    local channels `[o_i, o_{i+1}, m]`, have a positive centre downmix, and any two of which meet only in a shared face
    (an edge `o_i`–centre, or the centre alone): every output coordinate of the handler (first accepting inner triplet, then
    `mix`) is a continuous function of the direction on the union of the inner cones — its acceptance set — and there the
    handler's answer is the mixed answer of ANY inner triplet containing the direction.
    IDEALISED like `panner_continuousOn_triplets_partial`: slack 0 instead of the code's −1e-11 (`ngon_handleE_eps`). -/
theorem ngon_handle_continuousOn_aux (g : VirtualNgon ℝ)
    (hdet : ∀ r ∈ g.regions, det3 r.2 ≠ 0) (hch : ∀ r ∈ g.regions, InnerChOk g.centreDownmix.length r)
    (hcd : ∀ d ∈ g.centreDownmix, 0 < d)
    (hface : ∀ r ∈ g.regions, ∀ r' ∈ g.regions, r ≠ r' → MeetInSharedFace r r') :
    (∀ c, ContinuousOn (fun p => ((g.handleE 0 p).map (·.getD c 0)).getD 0) {p | ∃ r ∈ g.regions, p ∈ TRegion.cone r}) ∧
    (∀ r ∈ g.regions, ∀ p ∈ TRegion.cone r, g.handleE 0 p =
      some (VirtualNgon.mix g.centreDownmix (tripletOut (g.centreDownmix.length + 1) r p))) ∧
    (∀ p, p ≠ (0, 0, 0) → (¬ ∃ r ∈ g.regions, p ∈ TRegion.cone r) → g.handleE 0 p = none) := by
  set cd := g.centreDownmix with hcdef
  have hout : ∀ r : TRegion, Cell.out (r.2, ngonOut cd r.1) = fun p =>
      VirtualNgon.mix cd (tripletOut (cd.length + 1) r p) := by
    intro r; funext p; rfl
  have hcone : ∀ r : TRegion, Cell.cone (r.2, ngonOut cd r.1) = r.cone := fun r => rfl
  have main := cellPanner_continuousOn (ngonCells g) cd.length
    (by
      intro X hX p
      obtain ⟨r, _, rfl⟩ := List.mem_map.mp hX
      rw [hout]
      exact mix_length cd _ (tripletOut_length _ _ _))
    (by
      intro X hX c
      obtain ⟨r, hr, rfl⟩ := List.mem_map.mp hX
      rw [hout, hcone]
      obtain ⟨c0, c1, hr1, h01, h0, h1⟩ := hch r hr
      have hre : r = ([c0, c1, cd.length], r.2) := by rw [← hr1]
      rw [hre]
      exact mix_tripletOut_continuousOn cd hcd c0 c1 h01 h0 h1 r.2 (hdet r hr) c)
    (by
      intro X hX Y hY p hp hp' c
      obtain ⟨r, hr, rfl⟩ := List.mem_map.mp hX
      obtain ⟨r', hr', rfl⟩ := List.mem_map.mp hY
      rw [hout, hout]
      by_cases e : r = r'
      · rw [e]
      · simp only
        rw [tripletOut_eq_of_faces r r' (hdet r hr) (hdet r' hr') (hch r hr).chOk (hch r' hr').chOk
          (hface r hr r' hr' e) _ p hp hp'])
  have hU : {p | ∃ X ∈ ngonCells g, p ∈ X.cone} = {p | ∃ r ∈ g.regions, p ∈ TRegion.cone r} := by
    ext p
    simp only [ngonCells, List.mem_map, mem_ofPred_eq]
    constructor
    · rintro ⟨X, ⟨r, hr, rfl⟩, hp⟩; exact ⟨r, hr, hp⟩
    · rintro ⟨r, hr, hp⟩; exact ⟨_, ⟨r, hr, rfl⟩, hp⟩
  refine ⟨fun c => ?_, ?_, ?_⟩
  · have := main.1 c
    rw [hU] at this
    simpa only [ngon_handleE_cells] using this
  · intro r hr p hp
    rw [ngon_handleE_cells]
    exact main.2.1 _ (List.mem_map.mpr ⟨r, hr, rfl⟩) p hp
  · intro p hp hnone
    rw [ngon_handleE_cells]
    apply main.2.2 p hp
    rw [← mem_ofPred_eq (p := fun p => ∃ X ∈ ngonCells g, p ∈ X.cone), hU]
    exact hnone

/-! ### `out[idx] = vals` for distinct indices -/

theorem scatter_getD_not_mem : ∀ (idx : List Nat) (vals out : List ℝ) (c : Nat), c ∉ idx →
    (scatter out idx vals).getD c 0 = out.getD c 0
  | [], _, _, _, _ => by simp [scatter]
  | _ :: _, [], _, _, _ => by simp [scatter]
  | i :: is, v :: vs, out, c, h => by
    simp only [scatter]
    rw [scatter_getD_not_mem is vs _ c (fun hm => h (List.mem_cons_of_mem _ hm)), getD_set_real]
    have : ¬ (c = i ∧ i < out.length) := fun hh => h (by simp [hh.1])
    rw [if_neg this]

theorem scatter_getD_nodup : ∀ (idx : List Nat) (vals out : List ℝ) (k : Nat), idx.Nodup → idx.length = vals.length →
    k < idx.length →
    (scatter out idx vals).getD (idx.getD k 0) 0 = if idx.getD k 0 < out.length then vals.getD k 0 else 0
  | [], _, _, _, _, _, hk => by simp at hk
  | _ :: _, [], _, _, _, hl, _ => by simp at hl
  | i :: is, v :: vs, out, 0, hnd, _, _ => by
    have hi : i ∉ is := (List.nodup_cons.mp hnd).1
    simp only [scatter, List.getD_cons_zero]
    rw [scatter_getD_not_mem is vs _ i hi, getD_set_real]
    by_cases h : i < out.length
    · simp [h]
    · simp only [h, and_false, if_false]
      rw [List.getD_eq_getElem?_getD, List.getElem?_eq_none (by omega)]; rfl
  | i :: is, v :: vs, out, k + 1, hnd, hl, hk => by
    simp only [scatter, List.getD_cons_succ]
    have := scatter_getD_nodup is vs (out.set i v) k (List.nodup_cons.mp hnd).2 (by simpa using hl) (by simpa using hk)
    rw [this, List.length_set]

theorem getD_idxOf {ch : List Nat} {c : Nat} (hc : c ∈ ch) : ch.getD (ch.idxOf c) 0 = c := by
  have h := List.idxOf_lt_length_of_mem hc
  rw [List.getD_eq_getElem?_getD, List.getElem?_eq_getElem h]
  simp

/-- `out = zeros(n); out[ch] = vals` read at channel `c`, for distinct `ch` -/
theorem scatter_zeros_getD (n : Nat) (ch : List Nat) (vals : List ℝ) (hnd : ch.Nodup) (hlen : ch.length = vals.length)
    (c : Nat) :
    (scatter (zeros n) ch vals).getD c 0 = if c ∈ ch ∧ c < n then vals.getD (ch.idxOf c) 0 else 0 := by
  by_cases hc : c ∈ ch
  · have hk := List.idxOf_lt_length_of_mem hc
    have := scatter_getD_nodup ch vals (zeros n) (ch.idxOf c) hnd hlen hk
    rw [getD_idxOf hc] at this
    rw [this]
    simp [hc, zeros]
  · rw [scatter_getD_not_mem ch vals _ c hc, getD_zeros]
    simp [hc]

/-- two values written through an injective channel map -/
theorem scatter_two (n m : Nat) (ch : List Nat) (hnd : ch.Nodup) (hlen : ch.length = m) (c0 c1 : Nat) (h01 : c0 ≠ c1)
    (h0 : c0 < m) (h1 : c1 < m) (a b : ℝ) (c : Nat) :
    (scatter (zeros n) ch (((zeros m).set c0 a).set c1 b)).getD c 0 =
      (if c = ch.getD c0 0 ∧ c < n then a else 0) + (if c = ch.getD c1 0 ∧ c < n then b else 0) := by
  have hW : ∀ k, ((((zeros m : List ℝ).set c0 a).set c1 b)).getD k 0 =
      if k = c1 then b else if k = c0 then a else 0 := by
    intro k
    rw [getD_set_real, getD_set_real, getD_zeros]
    simp only [List.length_set, zeros, List.length_replicate]
    by_cases e1 : k = c1
    · simp [e1, h1]
    · by_cases e0 : k = c0
      · simp [e0, h0, h01]
      · simp [e1, e0]
  have hg : ∀ k, k < m → ch.getD k 0 ∈ ch := by
    intro k hk
    rw [List.getD_eq_getElem?_getD, List.getElem?_eq_getElem (by omega)]
    exact List.getElem_mem _
  have hidx : ∀ k, k < m → ch.idxOf (ch.getD k 0) = k := by
    intro k hk
    have hk' : k < ch.length := by omega
    rw [List.getD_eq_getElem?_getD, List.getElem?_eq_getElem hk']
    exact hnd.idxOf_getElem k hk'
  have hne : ch.getD c0 0 ≠ ch.getD c1 0 := by
    intro h
    have := congrArg ch.idxOf h
    rw [hidx c0 h0, hidx c1 h1] at this
    exact h01 this
  rw [scatter_zeros_getD n ch _ hnd (by simp [zeros, hlen]) c, hW]
  by_cases e0 : c = ch.getD c0 0
  · subst e0
    have : ¬ (ch.getD c0 0 = ch.getD c1 0) := hne
    simp only [hg c0 h0, true_and, hidx c0 h0, this, false_and, if_false, add_zero, if_neg h01, if_true]
  · by_cases e1 : c = ch.getD c1 0
    · subst e1
      have : ¬ (ch.getD c1 0 = ch.getD c0 0) := fun h => hne h.symm
      simp only [hg c1 h1, true_and, hidx c1 h1, this, false_and, if_false, zero_add, if_true]
    · simp only [e0, e1, false_and, if_false, add_zero]
      split
      · rename_i hh
        have hk := List.idxOf_lt_length_of_mem hh.1
        have n1 : ch.idxOf c ≠ c1 := by
          intro h; apply e1; rw [← h, getD_idxOf hh.1]
        have n0 : ch.idxOf c ≠ c0 := by
          intro h; apply e0; rw [← h, getD_idxOf hh.1]
        simp [n1, n0]
      · rfl

/-! ### a panner of Triplet and VirtualNgon regions, slack as a parameter -/

/-- `Region.handle` with the threshold `ε` in the triplets (a QuadRegion never answers here: see `Region.noQuad`) -/
noncomputable def Region.handleE (ε : ℝ) : Region ℝ → Vec3 ℝ → Option (List ℝ)
  | .triplet _ P, p => (Triplet.handleE ε P p).map vecList
  | .ngon _ g, p => g.handleE ε p
  | .quad _ _, _ => none

def Region.noQuad : Region ℝ → Prop
  | .quad _ _ => False
  | _ => True

/-- `PointSourcePanner.handle` over Triplet and VirtualNgon regions with the threshold `ε` -/
noncomputable def pannerTNE (ε : ℝ) (regions : List (Region ℝ)) (n : Nat) (p : Vec3 ℝ) : Option (List ℝ) :=
  firstAccept (regions.map fun r => remap r.channels n (r.handleE ε p))

/-- with the code's threshold this IS the model's `PointSourcePanner.handle` (no QuadRegion in the list) -/
theorem pannerTNE_eps (regions : List (Region ℝ)) (hq : ∀ r ∈ regions, r.noQuad) (n : Nat)
    (roots : Nat → Option ℝ × Option ℝ) (p : Vec3 ℝ) :
    pannerTNE tripletEps regions n p = PointSourcePanner.handle regions n roots p := by
  unfold pannerTNE PointSourcePanner.handle PointSourcePanner.results
  rw [zipWith_eq_map_of_forall _ (fun r : Region ℝ => remap r.channels n (r.handleE tripletEps p))]
  · simp
  · intro k r hr
    cases r with
    | triplet ch P => simp [Region.handle, Region.handleE, handleE_eps]
    | ngon ch g => simp [Region.handle, Region.handleE, ngon_handleE_eps]
    | quad ch q => exact (hq _ hr).elim

/-- the triplet cells of a region with their channels INSIDE the region -/
noncomputable def Region.tcells : Region ℝ → List TRegion
  | .triplet ch P => [(ch, P)]
  | .ngon _ g => g.regions
  | .quad _ _ => []

/-- from the three gains of a cell (local channels `lch`) to the panner's output vector -/
noncomputable def Region.outMap (n : Nat) : Region ℝ → List Nat → Vec3 ℝ → List ℝ
  | .triplet _ _, lch, v => scatter (zeros n) lch (vecList v)
  | .ngon ch g, lch, v => scatter (zeros n) ch (ngonOut g.centreDownmix lch v)
  | .quad _ _, _, _ => []

noncomputable def Region.cells (n : Nat) (R : Region ℝ) : List Cell := R.tcells.map fun X => (X.2, R.outMap n X.1)

theorem firstAccept_singleton {γ : Type} (x : Option γ) : firstAccept [x] = x := by
  cases x <;> rfl

theorem region_handleE_cells (ε : ℝ) (n : Nat) (R : Region ℝ) (p : Vec3 ℝ) :
    remap R.channels n (R.handleE ε p) = cellPannerE ε (R.cells n) p := by
  cases R with
  | triplet ch P =>
    simp only [Region.channels, Region.handleE, Region.cells, Region.tcells, cellPannerE, List.map_cons, List.map_nil,
      firstAccept_singleton, remap, Option.map_map]
    rfl
  | ngon ch g =>
    simp only [Region.channels, Region.handleE, Region.cells, Region.tcells, remap]
    rw [ngon_handleE_cells, cellPannerE, firstAccept_map, cellPannerE, ngonCells]
    simp only [List.map_map]
    congr 1
    apply List.map_congr_left
    intro r _
    simp only [Function.comp, Option.map_map]
    rfl
  | quad ch q => simp [Region.handleE, Region.cells, Region.tcells, cellPannerE, remap, firstAccept]

theorem pannerTNE_cells (ε : ℝ) (regions : List (Region ℝ)) (n : Nat) (p : Vec3 ℝ) :
    pannerTNE ε regions n p = cellPannerE ε (regions.flatMap (Region.cells n)) p := by
  unfold pannerTNE
  conv_rhs => rw [cellPannerE, List.map_flatMap, firstAccept_flatMap]
  congr 1
  apply List.map_congr_left
  intro R _
  exact region_handleE_cells ε n R p

/-- what is needed of a region: a Triplet is invertible with three distinct channels; a VirtualNgon satisfies the
    hypotheses of `ngon_handle_continuousOn` and has as many distinct output channels as vertices -/
def Region.tnOk : Region ℝ → Prop
  | .triplet ch P => det3 P ≠ 0 ∧ TRegion.chOk (ch, P)
  | .ngon ch g => (∀ r ∈ g.regions, det3 r.2 ≠ 0) ∧ (∀ r ∈ g.regions, InnerChOk g.centreDownmix.length r) ∧
      (∀ d ∈ g.centreDownmix, 0 < d) ∧ (∀ r ∈ g.regions, ∀ r' ∈ g.regions, r ≠ r' → MeetInSharedFace r r') ∧
      ch.length = g.centreDownmix.length ∧ ch.Nodup
  | .quad _ _ => False

/-- output channel of the panner fed by row `a` of a cell with local channels `lch`; `None` for the virtual centre of
    an n-gon (row 2 of every inner triplet) -/
def Region.gchan : Region ℝ → List Nat → Fin 3 → Option Nat
  | .triplet _ _, lch, a => some (chanAt lch a)
  | .ngon ch _, lch, a => if a = 2 then none else some (ch.getD (chanAt lch a) 0)
  | .quad _ _, _, _ => none

/-- THE COMBINATORIAL HYPOTHESIS on two cells of DIFFERENT regions (`gX`, `gY`: panner output channel of each row, `None` for
    the virtual centre of an n-gon): their exact cones meet only in a shared vertex or edge made of REAL loudspeakers
    (never a virtual centre), on the same output channels. -/
def MeetInOuterFaceG (gX : Fin 3 → Option Nat) (X : TRegion) (gY : Fin 3 → Option Nat) (Y : TRegion) : Prop :=
  ∀ p : Vec3 ℝ, p ≠ (0, 0, 0) → Triplet.acceptsE 0 X.2 p → Triplet.acceptsE 0 Y.2 p →
    ∃ (i j i' j' : Fin 3) (s t : ℝ) (ci cj cj' : Nat), i ≠ j ∧ i' ≠ j' ∧ 0 ≤ s ∧ 0 ≤ t ∧
      p = edgePoint s t (row X.2 i) (row X.2 j) ∧ row X.2 i = row Y.2 i' ∧
      gX i = some ci ∧ gY i' = some ci ∧ gX j = some cj ∧ gY j' = some cj' ∧
      (t = 0 ∨ (row X.2 j = row Y.2 j' ∧ cj = cj'))

/-- ... for cells `X` of region `R` and `Y` of region `R'` -/
def MeetInOuterFace (R : Region ℝ) (X : TRegion) (R' : Region ℝ) (Y : TRegion) : Prop :=
  MeetInOuterFaceG (R.gchan X.1) X (R'.gchan Y.1) Y

theorem edgePoint_swap (s t : ℝ) (a b : Vec3 ℝ) : edgePoint s t a b = edgePoint t s b a := by
  obtain ⟨a0, a1, a2⟩ := a
  obtain ⟨b0, b1, b2⟩ := b
  simp only [edgePoint, add3, smul3]
  refine Prod.ext ?_ (Prod.ext ?_ ?_) <;> simp only <;> ring

/-- the mixed answer of an inner triplet `([c0, c1, m], P)` on its outer edge `P.1 P.2.1` -/
theorem ngonOut_on_edge (cd : List ℝ) (c0 c1 : Nat) (h01 : c0 ≠ c1) (h0 : c0 < cd.length) (h1 : c1 < cd.length)
    (P : Mat3 ℝ) (hd : det3 P ≠ 0) (s t : ℝ) (hs : 0 ≤ s) (ht : 0 ≤ t) (hne : s * s + t * t ≠ 0) :
    ngonOut cd [c0, c1, cd.length] (Triplet.gains P (edgePoint s t P.1 P.2.1)) =
      ((zeros cd.length).set c0 (s / Real.sqrt (s * s + t * t))).set c1 (t / Real.sqrt (s * s + t * t)) := by
  have h := ngon_candidate_on_edge ⟨[], zero3, cd, []⟩ c0 c1 P hd h01 h0 h1 s t hs ht hne
  obtain ⟨g, hg, _⟩ := triplet_on_edge P hd 0 1 (by decide) s t hs ht hne
  simp only [row] at hg
  simp only [VirtualNgon.candidate, hg, Option.map_some, remap, Option.some.injEq] at h
  rw [← handle_some_eq_gains hg]
  exact h

/-- the panner's output of one cell on an edge of REAL loudspeakers: the VBAP pair on their two channels, 0 elsewhere -/
theorem cell_out_on_edge (n : Nat) (R : Region ℝ) (hR : R.tnOk) (X : TRegion) (hX : X ∈ R.tcells) (i j : Fin 3)
    (hij : i ≠ j) (ci cj : Nat) (hci : R.gchan X.1 i = some ci) (hcj : R.gchan X.1 j = some cj) (s t : ℝ)
    (hs : 0 ≤ s) (ht : 0 ≤ t) (hne : s * s + t * t ≠ 0) (c : Nat) :
    (R.outMap n X.1 (Triplet.gains X.2 (edgePoint s t (row X.2 i) (row X.2 j)))).getD c 0 =
      (if c = ci ∧ c < n then s / Real.sqrt (s * s + t * t) else 0) +
        (if c = cj ∧ c < n then t / Real.sqrt (s * s + t * t) else 0) := by
  cases R with
  | quad ch q => exact hR.elim
  | triplet ch P =>
    simp only [Region.tcells, List.mem_singleton] at hX
    subst hX
    obtain ⟨hd, c0, c1, c2, hc, h01, h02, h12⟩ := hR
    simp only at hc hd
    obtain ⟨g, hg, gi, gj, gk⟩ := triplet_on_edge P hd i j hij s t hs ht hne
    simp only [Region.gchan, Option.some.injEq] at hci hcj
    simp only [Region.outMap]
    rw [← handle_some_eq_gains hg, hc, remap3_supported n c c0 c1 c2 h01 h02 h12 g i j hij gk, gi, gj, ← hc, hci, hcj]
  | ngon ch g =>
    obtain ⟨hdet, hch, hcd, _, hlen, hnd⟩ := hR
    simp only [Region.tcells] at hX
    obtain ⟨c0, c1, hX1, h01, h0, h1⟩ := hch X hX
    have hd := hdet X hX
    simp only [Region.gchan] at hci hcj
    have hi2 : i ≠ 2 := fun h => by simp [h] at hci
    have hj2 : j ≠ 2 := fun h => by simp [h] at hcj
    simp only [hi2, hj2, if_false, Option.some.injEq, hX1] at hci hcj
    simp only [Region.outMap, hX1]
    have key : ∀ (a b : ℝ) (hab : a * a + b * b ≠ 0), 0 ≤ a → 0 ≤ b →
        (scatter (zeros n) ch (ngonOut g.centreDownmix [c0, c1, g.centreDownmix.length]
          (Triplet.gains X.2 (edgePoint a b X.2.1 X.2.2.1)))).getD c 0 =
        (if c = ch.getD c0 0 ∧ c < n then a / Real.sqrt (a * a + b * b) else 0) +
          (if c = ch.getD c1 0 ∧ c < n then b / Real.sqrt (a * a + b * b) else 0) := by
      intro a b hab ha hb
      rw [ngonOut_on_edge g.centreDownmix c0 c1 h01 h0 h1 X.2 hd a b ha hb hab]
      exact scatter_two n _ ch hnd hlen c0 c1 h01 h0 h1 _ _ c
    fin_cases i <;> fin_cases j <;> simp only [ne_eq, not_true_eq_false, Fin.zero_eta, Fin.mk_one, Fin.reduceFinMk] at hij hi2 hj2
    · simp only [chanAt, List.getD_cons_zero, List.getD_cons_succ] at hci hcj
      simp only [row]
      rw [key s t hne hs ht]
      rw [hci, hcj]
    · simp only [chanAt, List.getD_cons_zero, List.getD_cons_succ] at hci hcj
      simp only [row]
      rw [edgePoint_swap, key t s (by rw [add_comm]; exact hne) ht hs]
      rw [hci, hcj, add_comm (t * t) (s * s), add_comm]

theorem outMap_length (n : Nat) (R : Region ℝ) (hR : R.tnOk) (lch : List Nat) (v : Vec3 ℝ) :
    (R.outMap n lch v).length = n := by
  cases R with
  | quad ch q => exact hR.elim
  | triplet ch P => simp [Region.outMap, scatter_length, zeros]
  | ngon ch g => simp [Region.outMap, scatter_length, zeros]

theorem ngonOut_length (cd : List ℝ) (lch : List Nat) (v : Vec3 ℝ) : (ngonOut cd lch v).length = cd.length := by
  unfold ngonOut
  exact mix_length cd _ (by simp [scatter_length, zeros])

theorem mem_cells_iff (n : Nat) (regions : List (Region ℝ)) (C : Cell) :
    C ∈ regions.flatMap (Region.cells n) ↔ ∃ R ∈ regions, ∃ X ∈ R.tcells, C = (X.2, R.outMap n X.1) := by
  simp only [List.mem_flatMap, Region.cells, List.mem_map]
  constructor
  · rintro ⟨R, hR, X, hX, rfl⟩; exact ⟨R, hR, X, hX, rfl⟩
  · rintro ⟨R, hR, X, hX, rfl⟩; exact ⟨R, hR, X, hX, rfl⟩

/-- **A PANNER OF TRIPLETS AND N-GONS AT SLACK 0** (`pannerTNE 0`; `pannerTNE_eps`: with the code's −1e-11 it is the model's
    `PointSourcePanner.handle`).  Every region is a well-formed Triplet or VirtualNgon (`Region.tnOk`: invertible cells,
    distinct channels, positive centre downmix, the inner triplets of one n-gon meet only in shared faces) and two cells of
    DIFFERENT regions meet only in a shared vertex / edge of real loudspeakers on the same output channels
    (`MeetInOuterFace`).  Then every output channel's gain is a continuous function of the direction on the union of all
    cones, and there the panner's answer is the answer of ANY cell containing the direction.
    Missing for the property: the code's slack −1e-11 (slivers, `triplet_sliver_bound`), QuadRegions, coverage (C05). -/
theorem panner_continuousOn_tri_ngon_aux (regions : List (Region ℝ)) (n : Nat)
    (hok : ∀ R ∈ regions, R.tnOk)
    (hcross : ∀ R ∈ regions, ∀ R' ∈ regions, R ≠ R' → ∀ X ∈ R.tcells, ∀ Y ∈ R'.tcells, MeetInOuterFace R X R' Y) :
    (∀ c, ContinuousOn (fun p => ((pannerTNE 0 regions n p).map (·.getD c 0)).getD 0)
      {p | ∃ R ∈ regions, ∃ X ∈ R.tcells, p ∈ TRegion.cone X}) ∧
    (∀ R ∈ regions, ∀ X ∈ R.tcells, ∀ p ∈ TRegion.cone X,
      pannerTNE 0 regions n p = some (R.outMap n X.1 (Triplet.gains X.2 p))) ∧
    (∀ p, p ≠ (0, 0, 0) → (¬ ∃ R ∈ regions, ∃ X ∈ R.tcells, p ∈ TRegion.cone X) → pannerTNE 0 regions n p = none) := by
  have main := cellPanner_continuousOn (regions.flatMap (Region.cells n)) n
    (by
      intro C hC p
      obtain ⟨R, hR, X, _, rfl⟩ := (mem_cells_iff n regions C).mp hC
      exact outMap_length n R (hok R hR) _ _)
    (by
      intro C hC c
      obtain ⟨R, hR, X, hX, rfl⟩ := (mem_cells_iff n regions C).mp hC
      have hRok := hok R hR
      cases R with
      | quad ch q => exact hRok.elim
      | triplet ch P =>
        simp only [Region.tcells, List.mem_singleton] at hX
        subst hX
        exact tripletOut_continuousOn n c (ch, P) hRok.1
      | ngon ch g =>
        obtain ⟨hdet, hch, hcd, _, hlen, hnd⟩ := hRok
        simp only [Region.tcells] at hX
        obtain ⟨c0, c1, hX1, h01, h0, h1⟩ := hch X hX
        have hXe : X = ([c0, c1, g.centreDownmix.length], X.2) := by rw [← hX1]
        have hfun : (fun p => (Cell.out (X.2, Region.outMap n (Region.ngon ch g) X.1) p).getD c 0) = fun p =>
            if c ∈ ch ∧ c < n then (VirtualNgon.mix g.centreDownmix
              (tripletOut (g.centreDownmix.length + 1) X p)).getD (ch.idxOf c) 0 else 0 := by
          funext p
          simp only [Cell.out, Region.outMap]
          rw [scatter_zeros_getD n ch _ hnd (by rw [ngonOut_length, hlen]) c]
          rfl
        rw [hfun]
        by_cases hc : c ∈ ch ∧ c < n
        · simp only [hc, and_self, if_true]
          have := mix_tripletOut_continuousOn g.centreDownmix hcd c0 c1 h01 h0 h1 X.2 (hdet X hX) (ch.idxOf c)
          rw [← hXe] at this
          exact this
        · simp only [hc, if_false]; exact continuousOn_const)
    (by
      intro C hC C' hC' p hp hp' c
      obtain ⟨R, hR, X, hX, rfl⟩ := (mem_cells_iff n regions C).mp hC
      obtain ⟨R', hR', Y, hY, rfl⟩ := (mem_cells_iff n regions C').mp hC'
      have hRok := hok R hR
      have hRok' := hok R' hR'
      simp only [Cell.out]
      by_cases e : R = R'
      · subst e
        cases R with
        | quad ch q => exact hRok.elim
        | triplet ch P =>
          simp only [Region.tcells, List.mem_singleton] at hX hY
          rw [hX, hY]
        | ngon ch g =>
          obtain ⟨hdet, hch, _, hface, _, _⟩ := hRok
          simp only [Region.tcells] at hX hY
          by_cases e' : X = Y
          · rw [e']
          · simp only [Region.outMap]
            have := tripletOut_eq_of_faces X Y (hdet X hX) (hdet Y hY) (hch X hX).chOk (hch Y hY).chOk
              (hface X hX Y hY e') (g.centreDownmix.length + 1) p hp hp'
            have h2 : ngonOut g.centreDownmix X.1 (Triplet.gains X.2 p) = ngonOut g.centreDownmix Y.1 (Triplet.gains Y.2 p) := by
              unfold ngonOut
              exact congrArg (VirtualNgon.mix g.centreDownmix) this
            rw [h2]
      · obtain ⟨i, j, i', j', s, t, ci, cj, cj', hij, hij', hs, ht, hpe, hri, hci, hci', hcj, hcj', hj⟩ :=
          hcross R hR R' hR' e X hX Y hY p hp.2 hp.1 hp'.1
        have hne : s * s + t * t ≠ 0 := by
          intro h0
          have hs0 : s = 0 := by nlinarith [mul_self_nonneg s, mul_self_nonneg t]
          have ht0 : t = 0 := by nlinarith [mul_self_nonneg s, mul_self_nonneg t]
          apply hp.2; rw [hpe, hs0, ht0]; simp [edgePoint, add3, smul3]
        have hpe' : p = edgePoint s t (row Y.2 i') (row Y.2 j') := by
          rcases hj with rfl | ⟨hrj, _⟩
          · rw [hpe, hri]; exact edgePoint_zero_right _ _ _ _
          · rw [hpe, hri, hrj]
        have h1 := cell_out_on_edge n R hRok X hX i j hij ci cj hci hcj s t hs ht hne c
        have h2 := cell_out_on_edge n R' hRok' Y hY i' j' hij' ci cj' hci' hcj' s t hs ht hne c
        rw [← hpe] at h1
        rw [← hpe'] at h2
        rw [h1, h2]
        congr 1
        rcases hj with rfl | ⟨_, hcc⟩
        · simp
        · rw [hcc])
  have hU : {p | ∃ C ∈ regions.flatMap (Region.cells n), p ∈ C.cone} =
      {p | ∃ R ∈ regions, ∃ X ∈ R.tcells, p ∈ TRegion.cone X} := by
    ext p
    simp only [mem_ofPred_eq]
    constructor
    · rintro ⟨C, hC, hp⟩
      obtain ⟨R, hR, X, hX, rfl⟩ := (mem_cells_iff n regions C).mp hC
      exact ⟨R, hR, X, hX, hp⟩
    · rintro ⟨R, hR, X, hX, hp⟩
      exact ⟨_, (mem_cells_iff n regions _).mpr ⟨R, hR, X, hX, rfl⟩, hp⟩
  refine ⟨fun c => ?_, ?_, ?_⟩
  · have := main.1 c
    rw [hU] at this
    simpa only [pannerTNE_cells] using this
  · intro R hR X hX p hp
    rw [pannerTNE_cells]
    exact main.2.1 _ ((mem_cells_iff n regions _).mpr ⟨R, hR, X, hX, rfl⟩) p hp
  · intro p hp hnone
    rw [pannerTNE_cells]
    apply main.2.2 p hp
    rw [← mem_ofPred_eq (p := fun p => ∃ C ∈ regions.flatMap (Region.cells n), p ∈ C.cone), hU]
    exact hnone

end Earverif.PointSource
