/- Line protocol for the C11 HOA decoder model. Input numbers are decimal floats with 17 significant digits;
   output floats are IEEE-754 binary64 bit patterns written as decimal integers (exact).
   in : `design <L> <C> <P> <normMeanPower 0|1> <maxRE 0|1> <scale none|speakers|components|order> <mute 0|1> <objGain>
          | G (L*P, row-major) | Y (C*P) | nN3D (C) | nrm (C) | gains (C) | orders (C ints) | coef (per-order table)`
        -> `ok d00 d01 …` (L*C, row-major)
        `norm <N3D|SN3D|FuMa> <n> <|m|>`      -> `<float>` | `raise`
        `normsq <N3D|SN3D|FuMa> <n> <|m|>`    -> `<num>/<den>` | `raise`   (exact square, model formula)
        `acn <n> <m>` -> `<int>` ;  `fromacn <k>` -> `<n> <m>`
        `route <C> <lfe bits e.g. 000100> | row-major decoder rows (k*C)` -> `ok …` ((#bits)*C) | `shape-error`
        `designpack <L> <C> <P> <normMeanPower> <maxRE> <scale> <mute> <objGain> <N3D|SN3D|FuMa>
          | G (L*P) | az (P, radians) | el (P, radians) | gains (C) | orders (C nats) | degrees (C ints) | coef`
        -> `ok d00 …` | `raise`   (the whole of HOADecoderDesign.design from the pack's metadata: norm_*, sph_harm inside)
        `sph <N3D|SN3D|FuMa> <n> <m> <az> <el>` -> `<float>` | `raise`      (hoa.sph_harm, one channel, one direction)
        `frame <C> <lfe bits> | decoder rows (k*C) | x (C)` -> `ok o0 o1 …` (#bits) | `shape-error`   (one rendered frame)
        `defaults` -> `<normMeanPower 0|1> <maxRE 0|1> <scale>`   (the model's default options `({} : Opts)`)
   `bad-op` for a malformed line. -/
import Earverif.Model.Hoa
import Earverif.Driver.Util
open Earverif.Hoa Earverif.Driver

def digitsVal (s : List Char) : Option Nat :=
  if s.all Char.isDigit then some (s.foldl (fun a c => a * 10 + (c.toNat - '0'.toNat)) 0) else none

/-- decimal float `[-]ddd[.ddd][e[+-]dd]` -> `Float` via `Float.ofScientific` -/
def parseFloat? (s : String) : Option Float := do
  let cs := s.toList
  let (neg, cs) := match cs with
    | '-' :: r => (true, r)
    | '+' :: r => (false, r)
    | r => (false, r)
  let (mant, ex) := match cs.span (fun c => c != 'e' && c != 'E') with
    | (a, []) => (a, ([] : List Char))
    | (a, _ :: b) => (a, b)
  let (ip, fp) := match mant.span (· != '.') with
    | (a, []) => (a, ([] : List Char))
    | (a, _ :: b) => (a, b)
  if ip.isEmpty && fp.isEmpty then none
  let m ← digitsVal (ip ++ fp)
  let e : Int ← match ex with
    | [] => some 0
    | '-' :: r => if r.isEmpty then none else (digitsVal r).map fun v => -(v : Int)
    | '+' :: r => if r.isEmpty then none else (digitsVal r).map fun v => (v : Int)
    | r => (digitsVal r).map fun v => (v : Int)
  let e := e - fp.length
  let x := if e < 0 then Float.ofScientific m true e.natAbs else Float.ofScientific m false e.natAbs
  some (if neg then -x else x)

def parseFloats? (s : String) : Option (Array Float) := (words s).toArray.mapM parseFloat?

def parseNats? (s : String) : Option (Array Nat) := (words s).toArray.mapM String.toNat?

/-- exact output: the IEEE-754 bit pattern as a decimal integer (`Float.toString` prints 6 decimals only) -/
def showFloat (x : Float) : String := toString x.toBits.toNat

def showFloats (xs : List Float) : String := String.intercalate " " (xs.map showFloat)

def matOfArray (n m : Nat) (a : Array Float) : Mat Float n m := Mat.ofFn fun i j => a[i.1 * m + j.1]!
def vecOfArray (n : Nat) (a : Array Float) : Vector Float n := Vector.ofFn fun i => a[i.1]!

def parseScale : String → Option MaxREScale
  | "none" => some .none
  | "speakers" => some .speakers
  | "components" => some .components
  | "order" => some .order
  | _ => none

def showScale : MaxREScale → String
  | .none => "none"
  | .speakers => "speakers"
  | .components => "components"
  | .order => "order"

def parseBool : String → Option Bool
  | "0" => some false
  | "1" => some true
  | _ => none

def convIdx : String → Option Nat
  | "N3D" => some 0
  | "SN3D" => some 1
  | "FuMa" => some 2
  | _ => none

def answerDesign (hd : List String) (parts : List String) : Option String := do
  match hd, parts with
  | [l, c, p, nmp, mx, sc, mu, og], [g, y, n3, nr, ga, od, cf] =>
    let L ← l.toNat?; let C ← c.toNat?; let P ← p.toNat?
    let o : Opts := ⟨← parseBool nmp, ← parseBool mx, ← parseScale sc⟩
    let mute ← parseBool mu
    let og ← parseFloat? og
    let G ← parseFloats? g; let Y ← parseFloats? y
    let n3 ← parseFloats? n3; let nr ← parseFloats? nr; let ga ← parseFloats? ga
    let od ← parseNats? od; let cf ← parseFloats? cf
    if G.size != L * P || Y.size != C * P || n3.size != C || nr.size != C || ga.size != C || od.size != C then none
    -- the table holds one entry per order 0..max(n), as ApproxMaxRECoefficients(max(n)) returns
    if o.maxRE && od.any (fun k => k ≥ cf.size) then none
    let ord : Vector Nat C := Vector.ofFn fun i => od[i.1]!
    let D := design o (matOfArray L P G) (matOfArray C P Y) (vecOfArray C n3) (vecOfArray C nr) ord
      (fun k => cf[k]!) (vecOfArray C ga) og mute
    some ("ok " ++ showFloats (D.toList.flatMap Vector.toList))
  | _, _ => none

def parseInts? (s : String) : Option (Array Int) := (words s).toArray.mapM String.toInt?

def answerDesignPack (hd : List String) (parts : List String) : Option String := do
  match hd, parts with
  | [l, c, p, nmp, mx, sc, mu, og, cv], [g, az, el, ga, od, dg, cf] =>
    let L ← l.toNat?; let C ← c.toNat?; let P ← p.toNat?
    let o : Opts := ⟨← parseBool nmp, ← parseBool mx, ← parseScale sc⟩
    let mute ← parseBool mu
    let og ← parseFloat? og
    let cv ← convIdx cv
    let G ← parseFloats? g; let az ← parseFloats? az; let el ← parseFloats? el
    let ga ← parseFloats? ga
    let od ← parseNats? od; let dg ← parseInts? dg; let cf ← parseFloats? cf
    if G.size != L * P || az.size != P || el.size != P || ga.size != C || od.size != C || dg.size != C then none
    if o.maxRE && od.any (fun k => k ≥ cf.size) then none
    let ord : Vector Nat C := Vector.ofFn fun i => od[i.1]!
    let deg : Vector Int C := Vector.ofFn fun i => dg[i.1]!
    match designPack o (matOfArray L P G) (vecOfArray P az) (vecOfArray P el) cv ord deg (fun k => cf[k]!)
        (vecOfArray C ga) og mute with
    | some D => some ("ok " ++ showFloats (D.toList.flatMap Vector.toList))
    | none => some "raise"
  | _, _ => none

def answerFrame (hd : List String) (parts : List String) : Option String := do
  match hd, parts with
  | [c, bits], [rows, x] =>
    let C ← c.toNat?
    let lfe ← bits.toList.mapM fun ch => parseBool ch.toString
    let a ← parseFloats? rows
    let xs ← parseFloats? x
    if C == 0 || a.size % C != 0 || xs.size != C then none
    let k := a.size / C
    let rs : List (Vector Float C) := (List.range k).map fun i => Vector.ofFn fun j => a[i * C + j.1]!
    match renderFrame lfe rs (vecOfArray C xs) with
    | some out => some ("ok " ++ showFloats out)
    | none => some "shape-error"
  | _, _ => none

def answerRoute (hd : List String) (parts : List String) : Option String := do
  match hd, parts with
  | [c, bits], [rows] =>
    let C ← c.toNat?
    let lfe ← bits.toList.mapM fun ch => parseBool ch.toString
    let a ← parseFloats? rows
    if C == 0 || a.size % C != 0 then none
    let k := a.size / C
    let rs : List (Vector Float C) := (List.range k).map fun i => Vector.ofFn fun j => a[i * C + j.1]!
    match route (0.0 : Float) lfe rs with
    | some out => some ("ok " ++ showFloats (out.flatMap Vector.toList))
    | none => some "shape-error"
  | _, _ => none

def answer (line : String) : String :=
  match (line.splitOn "|") with
  | [] => "bad-op"
  | hd :: parts =>
    let r : Option String :=
      match words hd with
      | "design" :: rest => answerDesign rest parts
      | ["norm", cv, n, m] => do
        let cv ← convIdx cv; let n ← n.toNat?; let m ← m.toNat?
        if !parts.isEmpty then none
        match (normBy cv n m : Option Float) with
        | some x => some (showFloat x)
        | none => some "raise"
      | ["normsq", cv, n, m] => do
        let cv ← convIdx cv; let n ← n.toNat?; let m ← m.toNat?
        if !parts.isEmpty then none
        let q : Option (Nat × Nat) := match cv with
          | 0 => some (n3dSq n m)
          | 1 => some (sn3dSq n m)
          | _ => fumaSq n m
        match q with
        | some (a, b) => let r := mkRat a b; some s!"{r.num}/{r.den}"
        | none => some "raise"
      | ["acn", n, m] => do
        if !parts.isEmpty then none
        some (toString (toAcn (← n.toInt?) (← m.toInt?)))
      | ["fromacn", k] => do
        if !parts.isEmpty then none
        let (n, m) := fromAcn (← k.toNat?)
        some s!"{n} {m}"
      | ["defaults"] =>
        -- the model's default options `({} : Opts)`, compared with a fresh `HOADecoderDesign(layout)` on every run
        if !parts.isEmpty then none
        else
          let o : Opts := {}
          some s!"{if o.normMeanPower then 1 else 0} {if o.maxRE then 1 else 0} {showScale o.maxREScale}"
      | "route" :: rest => answerRoute rest parts
      | "frame" :: rest => answerFrame rest parts
      | "designpack" :: rest => answerDesignPack rest parts
      | ["sph", cv, n, m, az, el] => do
        let cv ← convIdx cv; let n ← n.toNat?; let m ← m.toInt?
        let az ← parseFloat? az; let el ← parseFloat? el
        if !parts.isEmpty then none
        match (normBy cv n m.natAbs : Option Float) with
        | some nf => some (showFloat (sphHarm nf n m az el))
        | none => some "raise"
      | _ => none
    r.getD "bad-op"

def main : IO Unit := lineLoop answer
