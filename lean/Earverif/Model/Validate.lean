/-
Model of `ear.core.select_items.validate` and of the steps of
`ear.core.select_items.select_items.select_rendering_items` that can raise (C14).

Every function returns `Except Err α`:
* `Err.adm k m`    — the Python code raises `AdmError` (or a subclass); `k` is the raise statement (one `AdmKind` per
  `raise`, `AdmKind.site` = function and ordinal), `m : Msg` the structured diagnostic: every value the message
  formatting reads from the document (`.id`, `.type.name`, `len(...)`), in evaluation order;
* `Err.internal k` — a Python operation raises something else: attribute access on `None`
  (`attrNone`), `[x] = list` with `len ≠ 1` (`unpack`), `list[0]` of an empty list (`index`),
  `assert` (`assert`), arithmetic on `None` (`typeError`), `max()/min()` of an empty sequence or `list.index` of a
  missing element (`valueError`); `notImplemented` (`raise NotImplementedError`) is no longer produced: the code
  raises `AdmError` for unsupported pack types since commit 76cae51.
Reads that can fail WHILE A MESSAGE IS BUILT are modelled where they happen: `input_channel.id`
(`validateInputRefsChannel`), `audioPackFormat.encodePackFormats` / `acf.id` / `apf.id` in the reasons of
`possible_reference_errors`, `.index(...)` in `loop_exception` (`loopMsg`), the two `max(...)` of `diamond_exception`
(`diamondMsg`), `path[0]` / `path[-1]` in `get_path_param` (`pathParam`).

Parameter values (block rtime/duration, normalization, screenRef, nfcRefDist, absoluteDistance) are value tokens:
Python compares them with `!=`, the model compares tokens.

The functions are transliterations in the order the Python runs them.  The pack allocator is C07's model
`Earverif.PackAlloc` (`pack_allocation.allocate_packs` and the decision of `select_pack_mapping`), called
on the allocation problem built here from the document (`allocProblem`).
Recursion over the object / pack graphs uses fuel = number of elements (+1); after the loop
validations passed no path is longer than that.  Core Lean only.
-/
import Earverif.Model.AdmV
import Earverif.Model.PackAlloc
namespace Earverif.Validate
open Earverif.AdmV

/-- the parameter names `utils.get_single_param` / `get_path_param` are called with -/
inductive PName | rtime | duration | normalization | nfcRefDist | screenRef | absoluteDistance
  deriving DecidableEq, Repr

/-- one constructor per `raise AdmError(...)` statement reachable from `select_rendering_items` (`AdmKind.site` names
the function and the ordinal of the statement in it); the two parameter helpers of `utils.py` carry the parameter
name, `_PackAllocator.raise_error` has one statement for both `error_type`s -/
inductive AdmKind
  | objloop | leafstart | leafduration | leafgain | leafmute | leafoffset | leafavs
  | packchtype | subpacktype | packloop | diamond | objfreq | cartesian
  | hoablocks | hoafreq | hoaeq | hoaorder | hoadegree | hoadup | hoaempty
  | paramshare (n : PName) | parampath (n : PName)
  | nmxinput | nmxoutput | nmxencode | v2ref | tracknone | trackboth
  | coeffnoinput | blocktime
  | mxchblocks | mxchtime | mxchvar | mxchdelay
  | mxnoio | mxinmatrix | mxoutmatrix | mxencnotdec | mxdecone | mxencnonmatrix | mxencnoio | mxencnonenc | mxsubpack
  | mxinputch | mxoutmissing | mxoutdup | mxoutnotin | mxoutuncovered
  | streamboth | streamnone | tfnostream | compnotgroup | compmulti
  | noindex | nopack | streamnochannel | conflicting | ambiguous | unsupportedtype
  | avsnotin | avsdup | avsboth | avsmulti
  deriving DecidableEq, Repr

/-- the raise site of a kind: (qualified function name, 1-based ordinal of the `raise` statement among the `raise`
statements of that function in source order).  The harness recomputes this table from the Python sources with `ast`
on every run and compares. -/
def AdmKind.site : AdmKind → String × Nat
  | .objloop => ("_validate_loops.dfs", 1)
  | .leafstart => ("_validate_object_parameters_in_leaves", 1)
  | .leafduration => ("_validate_object_parameters_in_leaves", 2)
  | .leafgain => ("_validate_object_parameters_in_leaves", 3)
  | .leafmute => ("_validate_object_parameters_in_leaves", 4)
  | .leafoffset => ("_validate_object_parameters_in_leaves", 5)
  | .leafavs => ("_validate_object_parameters_in_leaves", 6)
  | .packchtype => ("_validate_pack_channel_types", 1)
  | .subpacktype => ("_validate_pack_subpack_types", 1)
  | .packloop => ("_validate_pack_channel_multitree.loop_exception", 1)
  | .diamond => ("_validate_pack_channel_multitree.diamond_exception", 1)
  | .objfreq => ("_validate_objects_channels", 1)
  | .cartesian => ("_validate_objects_channels", 2)
  | .hoablocks => ("_validate_hoa_channels", 1)
  | .hoafreq => ("_validate_hoa_channels", 2)
  | .hoaeq => ("_validate_hoa_order_degree", 1)
  | .hoaorder => ("_validate_hoa_order_degree", 2)
  | .hoadegree => ("_validate_hoa_order_degree", 3)
  | .hoadup => ("_validate_hoa_order_degree", 4)
  | .hoaempty => ("_validate_hoa_parameters_consistent", 1)
  | .paramshare _ => ("get_single_param", 1)
  | .parampath _ => ("get_path_param", 1)
  | .nmxinput => ("_validate_non_matrix_pack", 1)
  | .nmxoutput => ("_validate_non_matrix_pack", 2)
  | .nmxencode => ("_validate_non_matrix_pack", 3)
  | .v2ref => ("_validate_track_channel_ref_only_in_v2", 1)
  | .tracknone => ("_validate_track_uid_track_or_channel_ref", 1)
  | .trackboth => ("_validate_track_uid_track_or_channel_ref", 2)
  | .coeffnoinput => ("MatrixCoefficient.validate", 1)
  | .blocktime => ("AudioBlockFormat.validate", 1)
  | .mxchblocks => ("_validate_matrix_channel", 1)
  | .mxchtime => ("_validate_matrix_channel", 2)
  | .mxchvar => ("_validate_matrix_channel", 3)
  | .mxchdelay => ("_validate_matrix_channel", 4)
  | .mxnoio => ("_validate_matrix_apf_references", 1)
  | .mxinmatrix => ("_validate_matrix_apf_references", 2)
  | .mxoutmatrix => ("_validate_matrix_apf_references", 3)
  | .mxencnotdec => ("_validate_matrix_apf_references", 4)
  | .mxdecone => ("_validate_matrix_apf_references", 5)
  | .mxencnonmatrix => ("_validate_matrix_apf_references", 6)
  | .mxencnoio => ("_validate_matrix_apf_references", 7)
  | .mxencnonenc => ("_validate_matrix_apf_references", 8)
  | .mxsubpack => ("_validate_matrix_apf_references", 9)
  | .mxinputch => ("_validate_matrix_inputChannelFormat_references", 1)
  | .mxoutmissing => ("_validate_matrix_outputChannelFormat_references", 1)
  | .mxoutdup => ("_validate_matrix_outputChannelFormat_references", 2)
  | .mxoutnotin => ("_validate_matrix_outputChannelFormat_references", 3)
  | .mxoutuncovered => ("_validate_matrix_outputChannelFormat_references", 4)
  | .streamboth => ("AudioStreamFormat.validate", 1)
  | .streamnone => ("AudioStreamFormat.validate", 2)
  | .tfnostream => ("AudioTrackFormat.validate", 1)
  | .compnotgroup => ("_select_complementary_objects", 1)
  | .compmulti => ("_select_complementary_objects", 2)
  | .noindex => ("validate_selected_audioTrackUID", 1)
  | .nopack => ("validate_selected_audioTrackUID", 2)
  | .streamnochannel => ("validate_selected_audioTrackUID", 3)
  | .conflicting => ("_PackAllocator.raise_error", 1)
  | .ambiguous => ("_PackAllocator.raise_error", 1)
  | .unsupportedtype => ("_get_rendering_items", 1)
  | .avsnotin => ("_validate_avs_references_contained", 1)
  | .avsdup => ("_validate_avs_references_conflict", 1)
  | .avsboth => ("_validate_avs_references_conflict", 2)
  | .avsmulti => ("_validate_avs_references_conflict", 3)

/-- every kind, for the driver's site table -/
def AdmKind.all : List AdmKind :=
  [.objloop, .leafstart, .leafduration, .leafgain, .leafmute, .leafoffset, .leafavs, .packchtype, .subpacktype,
   .packloop, .diamond, .objfreq, .cartesian, .hoablocks, .hoafreq, .hoaeq, .hoaorder, .hoadegree, .hoadup, .hoaempty,
   .paramshare .rtime, .parampath .normalization, .nmxinput, .nmxoutput, .nmxencode, .v2ref, .tracknone, .trackboth,
   .coeffnoinput, .blocktime, .mxchblocks, .mxchtime, .mxchvar, .mxchdelay, .mxnoio, .mxinmatrix, .mxoutmatrix,
   .mxencnotdec, .mxdecone, .mxencnonmatrix, .mxencnoio, .mxencnonenc, .mxsubpack, .mxinputch, .mxoutmissing,
   .mxoutdup, .mxoutnotin, .mxoutuncovered, .streamboth, .streamnone, .tfnostream, .compnotgroup, .compmulti,
   .noindex, .nopack, .streamnochannel, .conflicting, .ambiguous, .unsupportedtype, .avsnotin, .avsdup, .avsboth,
   .avsmulti]

/-- `valueError`: `max()` of an empty sequence / `list.index` of a missing element / `min()` of an empty sequence -/
inductive IntKind | attrNone | unpack | index | assert | typeError | notImplemented | valueError
  deriving DecidableEq, Repr

/-- one reason of `possible_reference_errors` (family only) -/
inductive Diag | manyPacks | tracksNoPacks | packsNoTracks | trackPackNotInObject | packLacksChannel
  deriving DecidableEq, Repr

/-- kinds of top-level ADM elements (position in the ADM's element lists) -/
inductive EK | ap | ac | ao | apf | acf | asf | atf | atu
  deriving DecidableEq, Repr

/-- one value read from the document while a diagnostic message is formatted.  Every `.id`, `.type.name`, `len()`
that a `raise AdmError(...)` site evaluates appears as one `Acc` (in evaluation order); reads that can fail in Python
(attribute of `None`, `max()`/`.index()`/`[0]` of something possibly empty) are separate `R`-valued steps in the
function that raises. -/
inductive Acc
  | id (k : EK) (i : Nat)        -- `<element>.id` of a (non-None) element
  | tname (k : EK) (i : Nat)     -- `<element>.type.name`
  | block (c b : Nat)            -- `.id` of block `b` of channel `c`
  | avs (tok : Nat)              -- `.id` of an alternativeValueSet
  | num (n : Nat)                -- a `len(...)`
  | pname (n : PName)            -- parameter / attribute name
  | reason (r : Diag)            -- start of one reason of `AdmFormatRefError.reasons`
  | chna                         -- the context "CHNA" of `raise_error`
  deriving DecidableEq, Repr

/-- structured diagnostic: the values the message is built from -/
abbrev Msg := List Acc

inductive Err | adm (k : AdmKind) (m : Msg) | internal (k : IntKind)
  deriving DecidableEq, Repr

abbrev R := Except Err

/-- `for x in l: f(x)` -/
def forE {α : Type} : List α → (α → R Unit) → R Unit
  | [], _ => .ok ()
  | x :: xs, f => match f x with
    | .ok _ => forE xs f
    | .error e => .error e

/-- `for x in l: f(x)` where the message of an error names `x` (position `i` in the ADM's list) -/
def forEI {α : Type} : List α → Nat → (Nat → α → R Unit) → R Unit
  | [], _, _ => .ok ()
  | x :: xs, i, f => match f i x with
    | .ok _ => forEI xs (i + 1) f
    | .error e => .error e

/-- `[f(x) for x in l]` -/
def mapE {α β : Type} : List α → (α → R β) → R (List β)
  | [], _ => .ok []
  | x :: xs, f => match f x with
    | .ok y => match mapE xs f with
      | .ok ys => .ok (y :: ys)
      | .error e => .error e
    | .error e => .error e

/-- sum of `f i x` over the list with running index (number of rendering items). -/
def sumE {α : Type} : List α → Nat → (Nat → α → R Nat) → R Nat
  | [], _, _ => .ok 0
  | x :: xs, i, f => match f i x with
    | .ok n => match sumE xs (i + 1) f with
      | .ok m => .ok (n + m)
      | .error e => .error e
    | .error e => .error e

/-- `[x] = l` -/
def unpack1 {α : Type} : List α → R α
  | [x] => .ok x
  | _ => .error (.internal .unpack)

/-- `l[0]` -/
def first {α : Type} : List α → R α
  | x :: _ => .ok x
  | [] => .error (.internal .index)

/-- `min(...)` / `max(...)` of a sequence: `ValueError` when it is empty (only that matters here) -/
def minNonempty {α : Type} (l : List α) : R Unit :=
  if l.isEmpty then .error (.internal .valueError) else .ok ()

/-- `utils._paths_from` with fuel. -/
def pathsFrom (children : Nat → List Nat) : Nat → Nat → List (List Nat)
  | 0, start => [[start]]
  | f + 1, start =>
    [start] :: (children start).flatMap (fun c => (pathsFrom children f c).map (fun p => start :: p))

/-- `utils.pack_format_paths_from` -/
def packPaths (d : Doc) (p : Nat) : List (List Nat) :=
  pathsFrom (fun i => (d.pack i).packs) d.packs.length p

/-- `utils.object_paths_from` -/
def objectPaths (d : Doc) (o : Nat) : List (List Nat) :=
  pathsFrom (fun i => (d.obj i).objects) d.objects.length o

/-- `validate._pack_format_paths_channels` / the comprehension in `wrap_non_matrix_pack`:
`(path, channel)` for each path from `p` and each channel of the last pack on it. -/
def packPathsChannels (d : Doc) (p : Nat) : List (List Nat × Nat) :=
  (packPaths d p).flatMap (fun path => (d.pack (path.getLastD p)).channels.map (fun c => (path, c)))

/-- `utils.pack_format_channels` -/
def packChannels (d : Doc) (p : Nat) : List Nat := (packPathsChannels d p).map (·.2)

/-- `utils.pack_format_packs` (same packs as the last elements of the paths, same order). -/
def packPacks (d : Doc) (p : Nat) : List Nat := (packPaths d p).map (fun path => path.getLastD p)

/-! ### `ADM.validate()` — element validators in the order of `ADM.elements` (channels, streams, track formats):
`AudioChannelFormat.validate` → `AudioBlockFormat.validate` ("rtime and duration must be used together") →
`MatrixCoefficient.validate`; `AudioStreamFormat.validate`; `AudioTrackFormat.validate`.  attrs type validators
(`attr.validate(self)`) are outside the model. -/

/-- `AudioBlockFormat.validate` / `AudioBlockFormatMatrix.validate` for one block (both messages are constant strings) -/
def validateBlock (b : Block) : R Unit :=
  if b.rtime.isSome != b.duration.isSome then .error (.adm .blocktime [])
  else forE b.coeffs (fun co => if co.input.isNone then .error (.adm .coeffnoinput []) else .ok ())

def validateElements (d : Doc) : R Unit := do
  forE d.channels (fun c => forE c.blocks validateBlock)
  forEI d.streams 0 (fun i s =>
    if s.pack.isSome && s.channel.isSome then .error (.adm .streamboth [.id .asf i])
    else if s.pack.isNone && s.channel.isNone then .error (.adm .streamnone [.id .asf i])
    else .ok ())
  forEI d.trackFormats 0 (fun i t => if t.stream.isNone then .error (.adm .tfnostream [.id .atf i]) else .ok ())

/-! ### `_validate_loops` / `_validate_object_loops` -/

/-- `dfs(node, path)`; the `visited` set only prunes re-exploration and does not change the outcome.
Message: `' -> '.join(o.id for o in path + (node,))`. -/
def objLoopDfs (d : Doc) : Nat → Nat → List Nat → R Unit
  | 0, _, _ => .ok ()
  | f + 1, node, path =>
    if path.contains node then .error (.adm .objloop ((path ++ [node]).map (Acc.id .ao)))
    else forE (d.obj node).objects (fun c => objLoopDfs d f c (path ++ [node]))

def validateObjectLoops (d : Doc) : R Unit :=
  forE (List.range d.objects.length) (fun o => objLoopDfs d (d.objects.length + 1) o [])

/-- `_validate_object_parameters_in_leaves` (six `raise` statements, each formatting `obj.id`) -/
def validateObjectParams (d : Doc) : R Unit :=
  forEI d.objects 0 (fun i o =>
    if o.objects.isEmpty then .ok ()
    else if o.pstart then .error (.adm .leafstart [.id .ao i])
    else if o.pdur then .error (.adm .leafduration [.id .ao i])
    else if o.pgain then .error (.adm .leafgain [.id .ao i])
    else if o.pmute then .error (.adm .leafmute [.id .ao i])
    else if o.poffset then .error (.adm .leafoffset [.id .ao i])
    else if !o.avs.isEmpty then .error (.adm .leafavs [.id .ao i])
    else .ok ())

/-- `_validate_pack_channel_types` (`apf.id`, `apf.type.name`, `acf.id`, `acf.type.name`) -/
def validatePackChannelTypes (d : Doc) : R Unit :=
  forEI d.packs 0 (fun pi p =>
    forE p.channels (fun c =>
      if (d.chan c).type != p.type then
        .error (.adm .packchtype [.id .apf pi, .tname .apf pi, .id .acf c, .tname .acf c])
      else .ok ()))

/-- `_validate_pack_subpack_types` -/
def validatePackSubpackTypes (d : Doc) : R Unit :=
  forEI d.packs 0 (fun pi p =>
    forE p.packs (fun s =>
      if (d.pack s).type != p.type then
        .error (.adm .subpacktype [.id .apf pi, .tname .apf pi, .id .apf s, .tname .apf s])
      else .ok ()))

/-- node of the pack/channel multitree -/
inductive Node | pack (i : Nat) | chan (i : Nat)
  deriving DecidableEq, Repr

def mtChildren (d : Doc) : Node → List Node
  | .pack i => (d.pack i).packs.map Node.pack ++ (d.pack i).channels.map Node.chan
  | .chan _ => []

/-- fold with early exit -/
def foldE {α σ : Type} : List α → σ → (σ → α → R σ) → R σ
  | [], s, _ => .ok s
  | x :: xs, s, f => match f s x with
    | .ok s' => foldE xs s' f
    | .error e => .error e

/-- `n.id` of a multitree node (both element classes have `.id`); `type_names[type(n)]` is total on `Node` -/
def Node.acc : Node → Acc
  | .pack i => .id .apf i
  | .chan i => .id .acf i

/-- the `paths` dict of `_validate_pack_channel_multitree.dfs`: `id(node)` ↦ path, newest entry first -/
abbrev MtPaths := List (Node × List Node)

def mtLookup (paths : MtPaths) (n : Node) : Option (List Node) :=
  (paths.find? (fun e => e.1 == n)).map (·.2)

/-- `max(i for i, n in enumerate(l) if p(n))` together with `l[i]`; `none` = `max()` of an empty sequence -/
def lastWith (p : Node → Bool) : List Node → Nat → Option (Nat × Node)
  | [], _ => none
  | x :: xs, i => match lastWith p xs (i + 1) with
    | some r => some r
    | none => if p x then some (i, x) else none

/-- `loop_exception(path)` up to the `raise`: `node_idx = [id(n) for n in path[:-1]].index(id(node))`
(`ValueError` if absent), `loop_path = path[node_idx:]`, ids of `loop_path`.  `pre` = `path[:-1]`. -/
def loopMsg (pre : List Node) (node : Node) : R Msg :=
  match pre.findIdx? (fun n => n == node) with
  | none => .error (.internal .valueError)
  | some i => .ok (((pre ++ [node]).drop i).map Node.acc)

/-- `diamond_exception(node, path_a, path_b)` up to the `raise`: two `max(...)` over generators (`ValueError` when
empty), slicing, two dict lookups `type_names[type(...)]` (total on `Node`), the ids of `node`, `common_parent` and of
both sliced paths (the joins are evaluated for both message variants; the short variant prints only the first two) -/
def diamondMsg (node : Node) (pa pb : List Node) : R Msg :=
  match lastWith (fun n => pb.dropLast.contains n) pa.dropLast 0 with
  | none => .error (.internal .valueError)
  | some (ia, cp) =>
    match lastWith (fun n => n == cp) pb.dropLast 0 with
    | none => .error (.internal .valueError)
    | some (ib, _) =>
      if (pa.drop ia).length == 2 && (pb.drop ib).length == 2 then .ok [node.acc, cp.acc]
      else .ok ([node.acc, cp.acc] ++ (pa.drop ia).map Node.acc ++ (pb.drop ib).map Node.acc)

/-- `raise AdmError(<message>)` where building the message may itself raise -/
def raiseMsg {α : Type} (k : AdmKind) (m : R Msg) : R α :=
  match m with
  | .ok msg => .error (.adm k msg)
  | .error e => .error e

/-- `_validate_pack_channel_multitree.dfs(node, paths, path)` (`path` = the argument, before `path + (node,)`) -/
def mtDfs (d : Doc) : Nat → Node → MtPaths → List Node → R MtPaths
  | 0, _, paths, _ => .ok paths
  | f + 1, node, paths, path =>
    if path.contains node then raiseMsg .packloop (loopMsg path node)
    else match mtLookup paths node with
      | some pa => raiseMsg .diamond (diamondMsg node pa (path ++ [node]))
      | none => foldE (mtChildren d node) ((node, path ++ [node]) :: paths) (fun s c => mtDfs d f c s (path ++ [node]))

def validateMultitree (d : Doc) : R Unit :=
  forE (List.range d.packs.length) (fun p =>
    match mtDfs d (d.packs.length + 2) (.pack p) [] [] with
    | .ok _ => .ok ()
    | .error e => .error e)

/-- `_validate_objects_channels` -/
def validateObjectsChannels (d : Doc) : R Unit :=
  forEI d.channels 0 (fun ci c =>
    if c.type == .objects then
      if c.freq then .error (.adm .objfreq [.id .acf ci])
      else forEI c.blocks 0 (fun bi b => if b.cartMismatch then .error (.adm .cartesian [.block ci bi]) else .ok ())
    else .ok ())

/-- `_validate_hoa_channels` -/
def validateHoaChannels (d : Doc) : R Unit :=
  forEI d.channels 0 (fun ci c =>
    if c.type == .hoa then
      if c.blocks.length != 1 then .error (.adm .hoablocks [.id .acf ci, .num c.blocks.length])
      else if c.freq then .error (.adm .hoafreq [.id .acf ci])
      else .ok ()
    else .ok ())

def hoaPacks (d : Doc) : List Nat :=
  (List.range d.packs.length).filter (fun p => (d.pack p).type == .hoa)

/-- body of the channel loop in `_validate_hoa_order_degree` for pack `p`; state = set of (order, degree) seen -/
def hoaOrderDegreeStep (d : Doc) (p : Nat) (seen : List (Int × Int)) (c : Nat) : R (List (Int × Int)) :=
  match unpack1 (d.chan c).blocks with
  | .error e => .error e
  | .ok b =>
    if b.equation then .error (.adm .hoaeq [.block c 0])
    else match b.order, b.degree with
      | none, _ => .error (.adm .hoaorder [.block c 0])
      | some _, none => .error (.adm .hoadegree [.block c 0])
      | some o, some g =>
        if seen.contains (o, g) then .error (.adm .hoadup [.id .apf p]) else .ok ((o, g) :: seen)

/-- `_validate_hoa_order_degree` -/
def validateHoaOrderDegree (d : Doc) : R Unit :=
  forE (hoaPacks d) (fun p =>
    match foldE (packChannels d p) [] (hoaOrderDegreeStep d p) with
    | .ok _ => .ok ()
    | .error e => .error e)

/-- `utils.get_path_param(path, name, default)` on the list of `getattr(obj, name)` values (`ids` = the `.id` reads of
the objects of `path`, parallel to `vals`); the message reads `path[0].id` and `path[-1].id` (`IndexError` on an empty
path).  The default is applied by `withDefault`. -/
def pathParam (n : PName) (ids : List Acc) (vals : List (Option Nat)) : R (Option Nat) :=
  match vals.filterMap id with
  | [] => .ok none
  | v :: vs =>
    if vs.any (fun w => w != v) then
      match ids.head?, ids.getLast? with
      | some a, some b => .error (.adm (.parampath n) [.pname n, a, b])
      | _, _ => .error (.internal .index)
    else .ok (some v)

/-- the `default` of `get_path_param`: token 0 (`"SN3D"` / `False`) -/
def withDefault (r : R (Option Nat)) : R (Option Nat) :=
  match r with
  | .ok v => .ok (some (v.getD 0))
  | .error e => .error e

/-- `return None if nfcRefDist == 0.0 else nfcRefDist` (token 0 = 0.0) -/
def nfcZero (r : R (Option Nat)) : R (Option Nat) :=
  match r with
  | .ok (some 0) => .ok none
  | .ok v => .ok v
  | .error e => .error e

/-- which HOA parameter a `get_single_param` call extracts -/
inductive HoaParam | rtime | duration | norm | nfc | scr
  deriving DecidableEq, Repr

/-- the `.id` reads of `audioPackFormat_path + [audioChannelFormat.audioBlockFormats[0]]` -/
def packParamIds (path : List Nat) (c : Nat) : List Acc := path.map (Acc.id .apf) ++ [.block c 0]

/-- `hoa.get_rtime/get_duration` (`_get_block_format_attr`: `[block_format] = ...`) and
`hoa.get_normalization/get_nfcRefDist/get_screenRef` (`_get_pack_param`: `audioBlockFormats[0]`, then `get_path_param`
over the pack path plus the block). -/
def hoaGet (d : Doc) (w : HoaParam) (path : List Nat) (c : Nat) : R (Option Nat) :=
  match w with
  | .rtime => match unpack1 (d.chan c).blocks with
    | .ok b => .ok b.rtime
    | .error e => .error e
  | .duration => match unpack1 (d.chan c).blocks with
    | .ok b => .ok b.duration
    | .error e => .error e
  | .norm => match first (d.chan c).blocks with
    | .ok b => withDefault (pathParam .normalization (packParamIds path c) (path.map (fun p => (d.pack p).norm) ++ [b.norm]))
    | .error e => .error e
  | .nfc => match first (d.chan c).blocks with
    | .ok b => nfcZero (pathParam .nfcRefDist (packParamIds path c) (path.map (fun p => (d.pack p).nfc) ++ [b.nfc]))
    | .error e => .error e
  | .scr => match first (d.chan c).blocks with
    | .ok b => withDefault (pathParam .screenRef (packParamIds path c) (path.map (fun p => (d.pack p).scr) ++ [b.scr]))
    | .error e => .error e

/-- the `zip(l[:-1], l[1:])` loop of `utils.get_single_param` (message: `name`, `acf_a.id`, `acf_b.id`) -/
def singleParamPairs (n : PName) (get : List Nat → Nat → R (Option Nat)) : List (List Nat × Nat) → R Unit
  | a :: b :: rest =>
    match get a.1 a.2 with
    | .error e => .error e
    | .ok va => match get b.1 b.2 with
      | .error e => .error e
      | .ok vb =>
        if va != vb then .error (.adm (.paramshare n) [.pname n, .id .acf a.2, .id .acf b.2])
        else singleParamPairs n get (b :: rest)
  | _ => .ok ()

/-- `utils.get_single_param(pack_paths_channels, name, get_param)` -/
def getSingleParam (n : PName) (get : List Nat → Nat → R (Option Nat)) (ppc : List (List Nat × Nat)) : R (Option Nat) :=
  match singleParamPairs n get ppc with
  | .error e => .error e
  | .ok _ => match first ppc with
    | .error e => .error e
    | .ok a => get a.1 a.2

/-- `get_single_param(..., "rtime", get_rtime)` and `(..., "duration", get_duration)` -/
def hoaTimes (d : Doc) (ppc : List (List Nat × Nat)) : R Unit := do
  let _ ← getSingleParam .rtime (hoaGet d .rtime) ppc
  let _ ← getSingleParam .duration (hoaGet d .duration) ppc
  pure ()

/-- `get_single_param` for normalization, nfcRefDist, screenRef (in this order in both callers) -/
def hoaNorms (d : Doc) (ppc : List (List Nat × Nat)) : R Unit := do
  let _ ← getSingleParam .normalization (hoaGet d .norm) ppc
  let _ ← getSingleParam .nfcRefDist (hoaGet d .nfc) ppc
  let _ ← getSingleParam .screenRef (hoaGet d .scr) ppc
  pure ()

/-- the five `get_single_param` calls of `_validate_hoa_parameters_consistent` -/
def hoaParams (d : Doc) (ppc : List (List Nat × Nat)) : R Unit := do
  hoaTimes d ppc
  hoaNorms d ppc

/-- `get_per_channel_param(pack_paths_channels, get_order / get_degree / get_gain / get_importance)`: four times the
same `[block_format] = audioChannelFormat.audioBlockFormats` per channel -/
def hoaPerChannel (d : Doc) (ppc : List (List Nat × Nat)) : R Unit :=
  match mapE ppc (fun x => unpack1 (d.chan x.2).blocks) with
  | .ok _ => .ok ()
  | .error e => .error e

/-- the arguments of `HOATypeMetadata(...)` in `_get_RenderingItems_HOA`, in evaluation order, up to `extra_data` -/
def hoaItemParams (d : Doc) (ppc : List (List Nat × Nat)) : R Unit := do
  hoaTimes d ppc
  hoaPerChannel d ppc
  hoaNorms d ppc

/-- `_validate_hoa_parameters_consistent` (since commit 03146b0 a HOA pack that reaches no channel is an
`AdmError`, raised before the first `get_single_param`) -/
def validateHoaParams (d : Doc) : R Unit :=
  forE (hoaPacks d) (fun p =>
    if (packPathsChannels d p).isEmpty then .error (.adm .hoaempty [])
    else hoaParams d (packPathsChannels d p))

/-- `matrix.Type` -/
inductive MType | direct | encode | decode
  deriving DecidableEq, Repr

/-- `matrix.type_of(apf)`; the final `assert False` when neither reference is present -/
def typeOf (p : Pack) : R MType :=
  match p.input, p.output with
  | some _, some _ => .ok .direct
  | some _, none => .ok .encode
  | none, some _ => .ok .decode
  | none, none => .error (.internal .assert)

/-- `matrix.input_pack_format(apf)`: `[encode_apf] = apf.encodePackFormats` for a decode pack, else
`apf.inputPackFormat` (using `None` as a pack afterwards is an AttributeError) -/
def inputPackOf (p : Pack) : R Nat :=
  match typeOf p with
  | .error e => .error e
  | .ok .decode => unpack1 p.encodePacks
  | .ok _ => match p.input with
    | some i => .ok i
    | none => .error (.internal .attrNone)

/-- `_validate_matrix_channel` for channel `ci` (messages: `acf.id` / `block_format.id`, `name`) -/
def validateMatrixChannel (ci : Nat) (c : Channel) : R Unit :=
  if c.blocks.length != 1 then .error (.adm .mxchblocks [.id .acf ci])
  else match unpack1 c.blocks with
    | .error e => .error e
    | .ok b =>
      if b.rtime.isSome || b.duration.isSome then .error (.adm .mxchtime [.block ci 0])
      else forE b.coeffs (fun co =>
        if co.badVar then .error (.adm .mxchvar [.block ci 0])
        else if co.negDelay then .error (.adm .mxchdelay [.block ci 0])
        else .ok ())

/-- body of the `for apf_encode in apf.encodePackFormats` loop of `_validate_matrix_apf_references` for pack `pi`
(with the guard added in commit 592dfc9 before `matrix.type_of(apf_encode)`) -/
def validateEncodeRef (d : Doc) (pi e : Nat) : R Unit :=
  let q := d.pack e
  if q.type != .matrix then .error (.adm .mxencnonmatrix [.id .apf pi, .id .apf e])
  else if q.input.isNone && q.output.isNone then .error (.adm .mxencnoio [.id .apf e])
  else match typeOf q with
    | .error err => .error err
    | .ok t => if t != .encode then .error (.adm .mxencnonenc [.id .apf pi, .id .apf e]) else .ok ()

/-- `ref is not None and ref.type == TypeDefinition.Matrix` -/
def isMatrixRef (d : Doc) (o : Option Nat) : Bool :=
  match o with
  | some i => (d.pack i).type == TypeDef.matrix
  | none => false

/-- `_validate_matrix_apf_references` for pack `pi` = `p` -/
def validateMatrixApfRefs (d : Doc) (pi : Nat) (p : Pack) : R Unit :=
  if p.input.isNone && p.output.isNone then .error (.adm .mxnoio [.id .apf pi])
  else match typeOf p with
    | .error e => .error e
    | .ok t =>
      if isMatrixRef d p.input then .error (.adm .mxinmatrix [.id .apf pi])
      else if isMatrixRef d p.output then .error (.adm .mxoutmatrix [.id .apf pi])
      else if t != MType.decode && !p.encodePacks.isEmpty then .error (.adm .mxencnotdec [.id .apf pi])
      else if t == MType.decode && p.encodePacks.length != 1 then
        .error (.adm .mxdecone [.id .apf pi, .num p.encodePacks.length])
      else match forE p.encodePacks (validateEncodeRef d pi) with
        | .error e => .error e
        | .ok _ => if !p.packs.isEmpty then .error (.adm .mxsubpack [.id .apf pi]) else .ok ()

/-- the coefficient loop of `_validate_matrix_inputChannelFormat_references` for one matrix channel; the message
reads `matrix_channel.id`, `input_channel.id` (AttributeError when the reference is `None`) and `input_pack.id` -/
def validateInputRefsChannel (d : Doc) (ip : Nat) (inputChannels : List Nat) (mc : Nat) : R Unit :=
  match unpack1 (d.chan mc).blocks with
  | .error e => .error e
  | .ok b => forE b.coeffs (fun co =>
      match co.input with
      | none => .error (.internal .attrNone)          -- `input_channel.id` in the message (None is never in the list)
      | some c =>
        if inputChannels.contains c then .ok ()
        else .error (.adm .mxinputch [.id .acf mc, .id .acf c, .id .apf ip]))

/-- `_validate_matrix_inputChannelFormat_references` -/
def validateMatrixInputRefs (d : Doc) (pi : Nat) : R Unit :=
  match inputPackOf (d.pack pi) with
  | .error e => .error e
  | .ok ip => forE (packChannels d pi) (validateInputRefsChannel d ip (packChannels d ip))

/-- body of the first loop of `_validate_matrix_outputChannelFormat_references`; state = `output_channels` -/
def outputRefsStep (d : Doc) (pi : Nat) (outPackChannels : List Nat) (outs : List Nat) (mc : Nat) : R (List Nat) :=
  match unpack1 (d.chan mc).blocks with
  | .error e => .error e
  | .ok b => match b.outCh with
    | none => .error (.adm .mxoutmissing [.block mc 0])
    | some oc =>
      if outs.contains oc then .error (.adm .mxoutdup [.id .acf oc, .id .apf pi])
      else if !outPackChannels.contains oc then .error (.adm .mxoutnotin [.id .acf mc, .id .acf oc, .id .apf pi])
      else .ok (outs ++ [oc])

/-- `_validate_matrix_outputChannelFormat_references` -/
def validateMatrixOutputRefs (d : Doc) (pi : Nat) : R Unit :=
  match (d.pack pi).output with
  | none => .error (.internal .attrNone)               -- `pack_format_channels(None)`
  | some o =>
    match foldE (packChannels d pi) [] (outputRefsStep d pi (packChannels d o)) with
    | .error e => .error e
    | .ok outs => forE (packChannels d o) (fun c =>
        if outs.contains c then .ok () else .error (.adm .mxoutuncovered [.id .apf pi, .id .acf c]))

/-- `_validate_non_matrix_pack` -/
def validateNonMatrixPack (pi : Nat) (p : Pack) : R Unit :=
  if p.input.isSome then .error (.adm .nmxinput [.id .apf pi])
  else if p.output.isSome then .error (.adm .nmxoutput [.id .apf pi])
  else if !p.encodePacks.isEmpty then .error (.adm .nmxencode [.id .apf pi])
  else .ok ()

/-- body of the pack loop of `_validate_matrix_types` -/
def validateMatrixPack (d : Doc) (pi : Nat) : R Unit :=
  let p := d.pack pi
  if p.type == .matrix then
    match validateMatrixApfRefs d pi p with
    | .error e => .error e
    | .ok _ => match validateMatrixInputRefs d pi with
      | .error e => .error e
      | .ok _ => match typeOf p with
        | .error e => .error e
        | .ok t => if t == .decode || t == .direct then validateMatrixOutputRefs d pi else .ok ()
  else validateNonMatrixPack pi p

/-- `_validate_matrix_types` -/
def validateMatrixTypes (d : Doc) : R Unit :=
  match forEI d.channels 0 (fun ci c => if c.type == .matrix then validateMatrixChannel ci c else .ok ()) with
  | .error e => .error e
  | .ok _ => forE (List.range d.packs.length) (validateMatrixPack d)

/-- `_validate_track_channel_ref_only_in_v2` (constant message) -/
def validateV2Refs (d : Doc) : R Unit :=
  if !d.v2Allowed && d.trackUIDs.any (fun t => t.channel.isSome) then .error (.adm .v2ref []) else .ok ()

/-- `_validate_track_uid_track_or_channel_ref` -/
def validateTrackOrChannel (d : Doc) : R Unit :=
  forEI d.trackUIDs 0 (fun i t =>
    if t.trackFormat.isNone && t.channel.isNone then .error (.adm .tracknone [.id .atu i])
    else if t.trackFormat.isSome && t.channel.isSome then .error (.adm .trackboth [.id .atu i])
    else .ok ())

/-! ### `_validate_avs_references` -/

/-- `_find_object_for_avs(avs, objects)` -/
def findObjectForAvs (d : Doc) (a : Nat) (objs : List Nat) : Option Nat :=
  objs.find? (fun o => (d.obj o).avs.contains a)

/-- `_validate_avs_references_contained` (`who` = `referring_object.id`) -/
def validateAvsContained (d : Doc) (who : Acc) (refs : List Nat) (objs : List Nat) : R Unit :=
  forE refs (fun a =>
    if (findObjectForAvs d a objs).isNone then .error (.adm .avsnotin [who, .avs a]) else .ok ())

/-- `[object_path[-1] for root_object in roots for object_path in object_paths_from(root_object)]` -/
def objsBelow (d : Doc) (roots : List Nat) : List Nat :=
  roots.flatMap (fun r => (objectPaths d r).map (fun path => path.getLastD 0))

/-- `content_objects` -/
def contentObjects (d : Doc) (c : Nat) : List Nat := objsBelow d (d.content c).objects

/-- `programme_objects` -/
def programmeObjects (d : Doc) (P : Programme) : List Nat := P.contents.flatMap (contentObjects d)

/-- the `(referring_object, avs)` pairs `_validate_avs_references_conflict` iterates over, in order; the
referring object is `none` for the programme and `some c` for content `c` -/
def avsPairs (d : Doc) (P : Programme) : List (Option Nat × Nat) :=
  P.avs.map (fun a => (none, a)) ++ P.contents.flatMap (fun c => (d.content c).avs.map (fun a => (some c, a)))

/-- `.id` of a referring object of programme `pi` -/
def whoAcc (pi : Nat) : Option Nat → Acc
  | none => .id .ap pi
  | some c => .id .ac c

/-- loop body of `_validate_avs_references_conflict`; `seen` = `references_by_object_id` as an association list -/
def avsConflictStep (d : Doc) (pi : Nat) (objs : List Nat) (seen : List (Nat × Option Nat × Nat)) (x : Option Nat × Nat) :
    R (List (Nat × Option Nat × Nat)) :=
  match findObjectForAvs d x.2 objs with
  | none => .error (.internal .assert)               -- `assert obj is not None  # already checked`
  | some o => match seen.find? (fun e => e.1 == o) with
    | some e =>
      if e.2.2 == x.2 && e.2.1 == x.1 then .error (.adm .avsdup [.avs x.2, whoAcc pi x.1])
      else if e.2.2 == x.2 then .error (.adm .avsboth [.avs x.2, whoAcc pi e.2.1, whoAcc pi x.1])
      else .error (.adm .avsmulti [.id .ao o, .avs e.2.2, whoAcc pi e.2.1, .avs x.2, whoAcc pi x.1])
    | none => .ok ((o, x.1, x.2) :: seen)

/-- body of the programme loop of `_validate_avs_references` for programme `pi` = `P` -/
def validateAvsProgramme (d : Doc) (pi : Nat) (P : Programme) : R Unit :=
  match validateAvsContained d (.id .ap pi) P.avs (programmeObjects d P) with
  | .error e => .error e
  | .ok _ =>
    match forE P.contents (fun c => validateAvsContained d (.id .ac c) (d.content c).avs (contentObjects d c)) with
    | .error e => .error e
    | .ok _ => match foldE (avsPairs d P) [] (avsConflictStep d pi (programmeObjects d P)) with
      | .error e => .error e
      | .ok _ => .ok ()

/-- `_validate_avs_references` -/
def validateAvsReferences (d : Doc) : R Unit := forEI d.programmes 0 (validateAvsProgramme d)

/-- `validate_structure` -/
def validateStructure (d : Doc) : R Unit := do
  validateElements d
  validateObjectLoops d
  validateObjectParams d
  validatePackChannelTypes d
  validatePackSubpackTypes d
  validateMultitree d
  validateObjectsChannels d
  validateHoaChannels d
  validateHoaOrderDegree d
  validateHoaParams d
  validateMatrixTypes d
  validateV2Refs d
  validateTrackOrChannel d
  validateAvsReferences d

/-! ### selection -/

/-- `validate_selected_audioTrackUID` -/
def validateSelectedTrack (d : Doc) (t : Nat) : R Unit :=
  let u := d.atu t
  if u.trackIndex.isNone then .error (.adm .noindex [.id .atu t])
  else if u.pack.isNone then .error (.adm .nopack [.id .atu t])
  else match u.trackFormat with
    | none => .ok ()
    | some f => match (d.tf f).stream with
      | none => .error (.internal .attrNone)           -- `audioTrackFormat.audioStreamFormat` is None
      | some s => if (d.stream s).channel.isNone then .error (.adm .streamnochannel [.id .asf s]) else .ok ()

/-- `_PackAllocator.channel_format_for_track_uid`; the result may still be `None` (stream without
channel) when called on an unvalidated track -/
def channelForTrack (d : Doc) (t : Nat) : R (Option Nat) :=
  let u := d.atu t
  match u.trackFormat with
  | some f => match (d.tf f).stream with
    | none => .error (.internal .attrNone)
    | some s => .ok (d.stream s).channel
  | none => match u.channel with
    | some c => .ok (some c)
    | none => .error (.internal .assert)

/-- `_PackAllocator.get_track_spec`: `trackIndex - 1` -/
def trackSpec (d : Doc) (t : Nat) : R Nat :=
  match (d.atu t).trackIndex with
  | some i => .ok (i - 1)
  | none => .error (.internal .typeError)

/-- the `any(pack_channel is track_channel for possible_pack in possible_packs for pack_channel in ...)` of
`possible_audioTrackUID_errors` -/
def diagFound (d : Doc) (p : Nat) (tc : Option Nat) : Bool :=
  ([p] ++ (d.pack p).encodePacks ++ (if (d.pack p).input.isSome then [p] else [])).any
    (fun q => (packChannels d q).any (fun c => some c == tc))

/-- `possible_audioTrackUID_errors` (after commit 0d9f6b4: both referencing styles); the one reason formats `apf.id`,
`acf.id` (AttributeError when the track's channel is `None`) and `atu.id` -/
def possibleTrackErrors (d : Doc) (t : Nat) : R Msg :=
  let u := d.atu t
  match u.pack with
  | none => .error (.internal .attrNone)               -- `audioPackFormat.encodePackFormats`
  | some p =>
    let trackChannel : R (Option Nat) :=
      match u.trackFormat with
      | some f => match (d.tf f).stream with
        | none => .error (.internal .attrNone)
        | some s => .ok (d.stream s).channel
      | none => .ok u.channel
    match trackChannel with
    | .error e => .error e
    | .ok tc =>
      if diagFound d p tc then .ok []
      else match tc with
        | none => .error (.internal .attrNone)          -- `acf.id` in the message
        | some c => .ok [.reason .packLacksChannel, .id .apf p, .id .acf c, .id .atu t]

/-- `possible_audioTrackUID_pack_errors`; the reason formats `track.audioPackFormat.id` and `track.id` -/
def possibleTrackPackErrors (d : Doc) (packs : List Nat) (tracks : List Nat) : R Msg :=
  let possible := packs.flatMap (fun p => packPacks d p ++ (d.pack p).encodePacks.flatMap (packPacks d))
  match mapE tracks (fun t =>
      match (d.atu t).pack with
      | none => .error (.internal .attrNone)            -- `apf.id` in the message (None is never in the list)
      | some p => if possible.contains p then .ok [] else .ok [Acc.reason .trackPackNotInObject, .id .apf p, .id .atu t]) with
  | .ok ls => .ok ls.flatten
  | .error e => .error e

/-- `possible_reference_errors` -/
def possibleReferenceErrors (d : Doc) (packs : Option (List Nat)) (tracks : List Nat) (nSilent : Nat) :
    R Msg :=
  let head : R Msg :=
    match packs with
    | none => .ok []
    | some ps =>
      let a := if ps.length > 1 then [Acc.reason .manyPacks] else []
      let hasTracks := !tracks.isEmpty || nSilent != 0
      let b := if hasTracks && ps.isEmpty then [Acc.reason .tracksNoPacks] else []
      let c := if !hasTracks && !ps.isEmpty then [Acc.reason .packsNoTracks] else []
      match possibleTrackPackErrors d ps tracks with
      | .ok l => .ok (a ++ b ++ c ++ l)
      | .error e => .error e
  match head with
  | .error e => .error e
  | .ok h => match mapE tracks (possibleTrackErrors d) with
    | .ok ls => .ok (h ++ ls.flatten)
    | .error e => .error e

/-- `_PackAllocator.raise_error`: the context (`state.audioObject.id` behind its `is not None` test, or "CHNA"), the
diagnostics, then `raise AdmFormatRefError(message, possible_errors)` -/
def raiseError (d : Doc) (ctx : Acc) (packs : Option (List Nat)) (tracks : List Nat) (nSilent : Nat) (k : AdmKind) : R Nat :=
  match possibleReferenceErrors d packs tracks nSilent with
  | .ok reasons => .error (.adm k (ctx :: reasons))
  | .error e => .error e

/-- `_select_complementary_objects`: the loop over `root_objects` producing `not_selected` -/
def compLoop (d : Doc) (allSelected : List Nat) : List Nat → R (List Nat)
  | [] => .ok []
  | r :: rs =>
    let group := r :: (d.obj r).comps
    let selected := group.filter (fun o => allSelected.contains o)
    if selected.isEmpty then .error (.internal .assert)
    else if selected.length > 1 then .error (.adm .compmulti (.id .ao r :: selected.map (Acc.id .ao)))
    else match compLoop d allSelected rs with
      | .ok rest => .ok (group.filter (fun o => !allSelected.contains o) ++ rest)
      | .error e => .error e

/-- `_select_complementary_objects` -/
def selectComplementary (d : Doc) (sel : List Nat) : R (List Nat) :=
  let roots := (List.range d.objects.length).filter (fun r => !(d.obj r).comps.isEmpty)
  let group := fun r => r :: (d.obj r).comps
  let allComp := roots.flatMap group
  match forE sel (fun s => if allComp.contains s then .ok () else .error (.adm .compnotgroup [.id .ao s])) with
  | .error e => .error e
  | .ok _ =>
    let allSelected := sel ++ roots.filter (fun r => !(group r).any (fun o => sel.contains o))
    compLoop d allSelected roots

/-- `_select_programme`; `min(..., key=id)` is the first programme (ids increase with position) -/
def selectProgramme (d : Doc) (prog : Option Nat) : R (Option Nat) :=
  match prog with
  | none => if d.programmes.isEmpty then .ok none else .ok (some 0)
  | some p => if p < d.programmes.length then .ok (some p) else .error (.internal .assert)

/-- `_ItemSelectionState`, the part set by `_select_programme_content_objects` -/
structure State where
  prog : Option Nat
  content : Option Nat
  objects : Option (List Nat)
  deriving Repr

/-- `_root_objects` -/
def rootObjects (d : Doc) : List Nat :=
  let nonRoot := d.objects.flatMap (fun o => o.objects)
  (List.range d.objects.length).filter (fun o => !nonRoot.contains o)

/-- `_select_programme_content_objects` (`_select_content`, `_select_root_objects`, `_select_object_paths`) -/
def selectStates (d : Doc) (prog : Option Nat) : R (List State) :=
  if d.programmes.isEmpty && d.objects.isEmpty then .ok [⟨none, none, none⟩]
  else match selectProgramme d prog with
    | .error e => .error e
    | .ok p =>
      let contents : List (Option Nat) :=
        match p with
        | some p => (d.programme p).contents.map some
        | none => [none]
      .ok (contents.flatMap (fun c =>
        let roots := match c with
          | some c => (d.content c).objects
          | none => rootObjects d
        roots.flatMap (fun r => (objectPaths d r).map (fun path => State.mk p c (some path)))))

/-- `_select_only_selected_complementary` -/
def keepState (ignore : List Nat) (st : State) : Bool :=
  match st.objects with
  | none => true
  | some path => !path.any (fun o => ignore.contains o)

/-- `_PackAllocator.get_selected_packs_tracks_silent` -/
def selectedOf (d : Doc) (st : State) : Option (List Nat) × List Nat × Nat :=
  match st.objects with
  | some path =>
    let o := d.obj (path.getLastD 0)
    let real := o.tracks.filterMap id
    (some o.packs, real, o.tracks.length - real.length)
  | none => (none, List.range d.trackUIDs.length, 0)

/-- the context of `raise_error`: `"audioObject {audioObject.id}"` if `state.audioObject is not None` else `"CHNA"` -/
def ctxOf (st : State) : Acc :=
  match st.objects with
  | some path => .id .ao (path.getLastD 0)
  | none => .chna

/-- `_get_pack_format_path`: `[found_path] = [path for path in pack_format_paths_from(pack) if channel in path[-1].audioChannelFormats]` -/
def packFormatPath (d : Doc) (p : Nat) (c : Nat) : R (List Nat) :=
  unpack1 ((packPaths d p).filter (fun path => (d.pack (path.getLastD p)).channels.contains c))

/-- `_get_pack_format_path` for a channel of the channel allocation, which is `None` when a matrix block has no
`outputChannelFormat` (`None` is in no pack: the unpacking fails) -/
def packFormatPathOpt (d : Doc) (p : Nat) (oc : Option Nat) : R (List Nat × Nat) :=
  match oc with
  | none => .error (.internal .unpack)
  | some c => match packFormatPath d p c with
    | .ok path => .ok (path, c)
    | .error e => .error e

/-- the loop of `_get_alternativeValueSet`: `selected_avs` over the referenced AVSs that belong to the object -/
def avsAssertLoop (oavs : List Nat) : List Nat → Option Nat → R Unit
  | [], _ => .ok ()
  | a :: rest, sel =>
    if oavs.contains a then
      match sel with
      | none => avsAssertLoop oavs rest (some a)
      | some s => if s == a then avsAssertLoop oavs rest (some a)
                  else .error (.internal .assert)       -- "more than one active alternativeValueSet"
    else avsAssertLoop oavs rest sel

/-- `_get_alternativeValueSet(state)` (called from `_get_extra_data` for every rendering item); only whether it
raises matters here -/
def avsSelected (d : Doc) (st : State) : R Unit :=
  match st.objects with
  | none => .ok ()
  | some path =>
    avsAssertLoop (d.obj (path.getLastD 0)).avs
      ((match st.prog with | some p => (d.programme p).avs | none => []) ++
       (match st.content with | some c => (d.content c).avs | none => [])) none

/-- `get_absoluteDistance` of `_get_extra_data`: `get_path_param(audioPackFormat_path, "absoluteDistance")` -/
def absDistGet (d : Doc) (path : List Nat) (_c : Nat) : R (Option Nat) :=
  pathParam .absoluteDistance (path.map (Acc.id .apf)) (path.map (fun p => (d.pack p).absDist))

/-- `_get_extra_data(state, pack_paths_channels)`: `get_single_param(..., "absoluteDistance", ...)`, then
`_get_alternativeValueSet(state)` (= `extra`); everything else in it is attribute copying -/
def extraData (d : Doc) (extra : R Unit) (ppc : List (List Nat × Nat)) : R Unit :=
  match getSingleParam .absoluteDistance (absDistGet d) ppc with
  | .error e => .error e
  | .ok _ => extra

/-- `_get_importance(state)`: `min(...)` over `state.audioObjects` (if not `None`) and over
`state.audioPackFormat_path` (`ValueError` for an empty sequence) -/
def importanceOf (objPath : Option (List Nat)) (packPath : List Nat) : R Unit :=
  match (match objPath with
         | some p => minNonempty p
         | none => .ok ()) with
  | .error e => .error e
  | .ok _ => minNonempty packPath

/-- per-channel step of `_get_RenderingItems_Objects/DirectSpeakers`: `_select_single_channel`
(`_get_pack_format_path`), `_get_extra_data(state)`, `_get_importance(state)` -/
def singleChannel (d : Doc) (extra : R Unit) (op : Option (List Nat)) (o : Nat) (oc : Option Nat) : R (List Nat × Nat) :=
  match packFormatPathOpt d o oc with
  | .error e => .error e
  | .ok x => match extraData d extra [x] with
    | .error e => .error e
    | .ok _ => match importanceOf op x.1 with
      | .error e => .error e
      | .ok _ => .ok x

/-- `_get_rendering_items(state)` for `state.audioPackFormat = o`, the channels of `state.channel_allocation` and
`state.audioObjects = op`: number of rendering items produced; `extra` = `_get_alternativeValueSet(state)` -/
def itemsFor (d : Doc) (extra : R Unit) (op : Option (List Nat)) (o : Nat) (chans : List (Option Nat)) : R Nat :=
  match (d.pack o).type with
  | .objects | .directSpeakers =>
    match mapE chans (singleChannel d extra op o) with
    | .ok _ => .ok chans.length
    | .error e => .error e
  | .hoa =>
    match mapE chans (packFormatPathOpt d o) with
    | .error e => .error e
    | .ok ppc =>
      match hoaItemParams d ppc with
      | .error e => .error e
      | .ok _ => match extraData d extra ppc with
        | .error e => .error e
        | .ok _ => match forE ppc (fun x => importanceOf op x.1) with
          | .error e => .error e
          | .ok _ => .ok 1
  | _ => .error (.adm .unsupportedtype [.tname .apf o])      -- `AdmError` since commit 76cae51 (was NotImplementedError)

/-- one `OutputAllocationPack` of `_PackAllocator.packs`: root pack, Regular or Matrix allocation pack, and the
channel formats of its `AllocationChannel`s -/
structure Pattern where
  root : Nat
  isMatrix : Bool
  channels : List Nat
  pfs : List (List Nat)       -- `pack_formats` of each `AllocationChannel`, parallel to `channels`
  deriving Repr, Inhabited

/-- the `pack_formats` of the channels of `wrap_non_matrix_pack` / the pre-applied matrix pack: the path from the
root pack to the pack that lists the channel -/
def packPathsOf (d : Doc) (p : Nat) : List (List Nat) := (packPathsChannels d p).map (·.1)

/-- `pack_formats=[x]` for every channel -/
def constPfs (chans : List Nat) (x : Nat) : List (List Nat) := chans.map (fun _ => [x])

/-- the `AllocationChannel`s of an allocation pack -/
def Pattern.allocChannels (pat : Pattern) : List PackAlloc.Channel :=
  List.zipWith (fun c p => ⟨c, p⟩) pat.channels pat.pfs

/-- `wrap_matrix_pack`, first `if`: direct/decode use and pre-applied use -/
def wrapFirst (d : Doc) (pi : Nat) (t : MType) : R (List Pattern) :=
  if t == .direct || t == .decode then
    match inputPackOf (d.pack pi) with
    | .error e => .error e
    | .ok ip => .ok [⟨pi, true, packChannels d ip, constPfs (packChannels d ip) pi⟩,
                     ⟨pi, true, packChannels d pi, packPathsOf d pi⟩]
  else .ok []

/-- `wrap_matrix_pack`, second `if`: encode-then-decode use (`[encode_pack] = ...`, `encode_pack.inputPackFormat`) -/
def wrapSecond (d : Doc) (pi : Nat) (t : MType) : R (List Pattern) :=
  if t == .decode then
    match unpack1 (d.pack pi).encodePacks with
    | .error e => .error e
    | .ok e => match (d.pack e).input with
      | none => .error (.internal .attrNone)           -- `pack_format_paths_from(None)`
      | some ii => .ok [⟨pi, true, packChannels d ii, constPfs (packChannels d ii) e⟩]
  else .ok []

/-- `wrap_matrix_pack` -/
def wrapMatrixPack (d : Doc) (pi : Nat) : R (List Pattern) :=
  match typeOf (d.pack pi) with
  | .error e => .error e
  | .ok t => match wrapFirst d pi t with
    | .error e => .error e
    | .ok l1 => match wrapSecond d pi t with
      | .error e => .error e
      | .ok l2 => .ok (l1 ++ l2)

/-- body of the loop of `get_wrapped_packs` (`wrap_non_matrix_pack` / `wrap_matrix_pack`) -/
def patternsOf (d : Doc) (pi : Nat) : R (List Pattern) :=
  if (d.pack pi).type != .matrix then .ok [⟨pi, false, packChannels d pi, packPathsOf d pi⟩] else wrapMatrixPack d pi

/-- `_PackAllocator.__init__`: `self.packs = list(self.get_wrapped_packs(adm))` -/
def patterns (d : Doc) : R (List Pattern) :=
  match mapE (List.range d.packs.length) (patternsOf d) with
  | .ok ls => .ok ls.flatten
  | .error e => .error e

/-- `MatrixAllocationPack.output_channel_allocation.get_track_spec(channel_format)`: found among the allocated
input channels, or `[block_format] = channel_format.audioBlockFormats` and recursion into the coefficients'
`inputChannelFormat`s (fuel: the depth is at most 2 on validated documents) -/
def matrixTrackSpec (d : Doc) (alloc : List Nat) : Nat → Nat → R Unit
  | 0, _ => .ok ()
  | f + 1, c =>
    if alloc.contains c then .ok ()
    else match unpack1 (d.chan c).blocks with
      | .error e => .error e
      | .ok b => forE b.coeffs (fun co =>
          match co.input with
          | none => .error (.internal .attrNone)        -- `None.audioBlockFormats`
          | some c' => matrixTrackSpec d alloc f c')

/-- `MatrixAllocationPack.output_channel_allocation.get_channel_allocation(matrix_channel)` -/
def matrixChannelAllocation (d : Doc) (pat : Pattern) (mc : Nat) : R (Option Nat) :=
  match unpack1 (d.chan mc).blocks with
  | .error e => .error e
  | .ok b => match matrixTrackSpec d pat.channels (d.channels.length + 2) mc with
    | .error e => .error e
    | .ok _ => .ok b.outCh

/-- one allocated pack of the unique solution: `output_pack`, `output_channel_allocation(...)`, then
`_get_rendering_items` -/
def renderingItems (d : Doc) (extra : R Unit) (op : Option (List Nat)) (pat : Pattern) : R Nat :=
  if pat.isMatrix then
    match mapE (d.pack pat.root).channels (matrixChannelAllocation d pat) with
    | .error e => .error e
    | .ok outs => match (d.pack pat.root).output with
      | none => .error (.internal .attrNone)            -- `state.audioPackFormat.type`
      | some o => itemsFor d extra op o outs
  else itemsFor d extra op pat.root (pat.channels.map some)

/-- the `allocate_packs` arguments of `select_pack_mapping`: `self.packs` (identity of an allocation pack = its
position in `self.packs`), one `AllocationTrackUID` per selected track (identity = position; `channel_format` and
`pack_format` are never `None` after `validate_selected_audioTrackUID`, the fallbacks are indices no element has),
the object's pack references (`None` in CHNA-only mode) and the number of silent tracks -/
def allocProblem (d : Doc) (pats : List Pattern) (packs : Option (List Nat)) (tracks : List Nat)
    (cfs : List (Option Nat)) (nSilent : Nat) : PackAlloc.Problem :=
  { packs := pats.zipIdx.map (fun pk => ⟨pk.2, pk.1.root, pk.1.allocChannels⟩)
    tracks := (List.zip tracks cfs).zipIdx.map (fun tk =>
      ⟨tk.2, tk.1.2.getD d.channels.length, ((d.atu tk.1.1).pack).getD d.packs.length⟩)
    packRefs := packs
    numSilent := nSilent }

/-- `_PackAllocator.select_pack_mapping` followed by `_get_rendering_items` for each yielded state -/
def processState (d : Doc) (pats : List Pattern) (st : State) : R Nat :=
  let (packs, tracks, nSilent) := selectedOf d st
  match forE tracks (validateSelectedTrack d) with
  | .error e => .error e
  | .ok _ => match mapE tracks (channelForTrack d) with
    | .error e => .error e
    | .ok cfs => match PackAlloc.selectPackMapping (allocProblem d pats packs tracks cfs nSilent) with
      | .conflicting => raiseError d (ctxOf st) packs tracks nSilent .conflicting
      | .ambiguous => raiseError d (ctxOf st) packs tracks nSilent .ambiguous
      | .accepted sol =>
        match mapE tracks (trackSpec d) with
        | .error e => .error e
        | .ok _ => sumE sol 0 (fun _ a => renderingItems d (avsSelected d st) st.objects (pats.getD a.pack.id default))

/-- `select_rendering_items(adm, audio_programme, selected_complementary_objects)`: number of items -/
def selectItems (d : Doc) (prog : Option Nat) (sel : List Nat) : R Nat :=
  match validateStructure d with
  | .error e => .error e
  | .ok _ => match patterns d with
    | .error e => .error e
    | .ok pats => match selectComplementary d sel with
      | .error e => .error e
      | .ok ignore => match selectStates d prog with
        | .error e => .error e
        | .ok states => sumE (states.filter (keepState ignore)) 0 (fun _ st => processState d pats st)

/-- unique-path property that `_get_pack_format_path` relies on: under every pack each reachable channel
is found on exactly one path -/
def uniquePaths (d : Doc) : Bool :=
  (List.range d.packs.length).all (fun p =>
    (packChannels d p).all (fun c =>
      ((packPaths d p).filter (fun path => (d.pack (path.getLastD p)).channels.contains c)).length == 1))

/-- what the caller of `select_rendering_items` observes: items, an `AdmError` of some kind, or something else -/
inductive Outcome | items (n : Nat) | adm (k : AdmKind) | internal (k : IntKind)
  deriving DecidableEq, Repr

def outcome : R Nat → Outcome
  | .ok n => .items n
  | .error (.adm k _) => .adm k
  | .error (.internal k) => .internal k

end Earverif.Validate
