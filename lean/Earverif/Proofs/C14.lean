/- Helper lemmas for C14: `Except`-loop combinators never produce an internal error if their bodies do not,
   and what a successful validation step establishes. -/
import Earverif.Model.Validate
namespace Earverif.Validate
open Earverif.AdmV

/-- the computation does not end in a non-ADM exception -/
def NoInt {α : Type} (x : R α) : Prop := ∀ k, x ≠ .error (.internal k)

theorem noInt_ok {α : Type} (a : α) : NoInt (.ok a : R α) := by intro k h; cases h
theorem noInt_adm {α : Type} (k : AdmKind) (m : Msg) : NoInt (.error (.adm k m) : R α) := by intro k' h; cases h

theorem noInt_bind {α β : Type} {x : R α} {f : α → R β} (hx : NoInt x) (hf : ∀ a, x = .ok a → NoInt (f a)) :
    NoInt (x >>= f) := by
  cases x with
  | ok a => exact hf a rfl
  | error e => intro k h; exact hx k (by simpa [bind, Except.bind] using h)

theorem forE_noInt {α : Type} {l : List α} {f : α → R Unit} (h : ∀ x ∈ l, NoInt (f x)) : NoInt (forE l f) := by
  induction l with
  | nil => exact noInt_ok ()
  | cons x xs ih =>
    unfold forE
    have hx := h x (by simp)
    cases hfx : f x with
    | ok u => simp only; exact ih (fun y hy => h y (by simp [hy]))
    | error e => intro k hk; simp only at hk; exact hx k (by rw [hfx]; exact hk)

theorem forE_ok {α : Type} {l : List α} {f : α → R Unit} (h : forE l f = .ok ()) : ∀ x ∈ l, f x = .ok () := by
  induction l with
  | nil => intro x hx; cases hx
  | cons y ys ih =>
    unfold forE at h
    cases hfy : f y with
    | ok u =>
      rw [hfy] at h; simp only at h
      intro x hx
      rcases List.mem_cons.mp hx with rfl | hx
      · exact hfy
      · exact ih h x hx
    | error e => rw [hfy] at h; cases h

theorem forEI_noInt {α : Type} {l : List α} {f : Nat → α → R Unit} (h : ∀ i, ∀ x ∈ l, NoInt (f i x)) :
    ∀ i, NoInt (forEI l i f) := by
  induction l with
  | nil => intro i; exact noInt_ok ()
  | cons x xs ih =>
    intro i
    unfold forEI
    have hx := h i x (by simp)
    cases hfx : f i x with
    | ok u => simp only; exact ih (fun j y hy => h j y (by simp [hy])) (i + 1)
    | error e => intro k hk; simp only at hk; exact hx k (by rw [hfx]; exact hk)

theorem forEI_ok {α : Type} {l : List α} {f : Nat → α → R Unit} :
    ∀ i, forEI l i f = .ok () → ∀ x ∈ l, ∃ j, f j x = .ok () := by
  induction l with
  | nil => intro i _ x hx; cases hx
  | cons y ys ih =>
    intro i h
    unfold forEI at h
    cases hfy : f i y with
    | ok u =>
      rw [hfy] at h; simp only at h
      intro x hx
      rcases List.mem_cons.mp hx with rfl | hx
      · exact ⟨i, hfy⟩
      · exact ih (i + 1) h x hx
    | error e => rw [hfy] at h; cases h

/-- positional form: element `j` was checked under index `i + j` -/
theorem forEI_ok_idx {α : Type} {l : List α} {f : Nat → α → R Unit} :
    ∀ i, forEI l i f = .ok () → ∀ j (hj : j < l.length), f (i + j) l[j] = .ok () := by
  induction l with
  | nil => intro i _ j hj; cases hj
  | cons y ys ih =>
    intro i h j hj
    unfold forEI at h
    cases hfy : f i y with
    | ok u =>
      rw [hfy] at h; simp only at h
      cases j with
      | zero => simpa using hfy
      | succ j =>
        have := ih (i + 1) h j (by simpa using hj)
        simpa [Nat.add_assoc, Nat.add_comm 1 j] using this
    | error e => rw [hfy] at h; cases h

theorem mapE_noInt {α β : Type} {l : List α} {f : α → R β} (h : ∀ x ∈ l, NoInt (f x)) : NoInt (mapE l f) := by
  induction l with
  | nil => exact noInt_ok []
  | cons x xs ih =>
    unfold mapE
    have hx := h x (by simp)
    have ih' := ih (fun y hy => h y (by simp [hy]))
    cases hfx : f x with
    | ok y =>
      simp only
      cases hm : mapE xs f with
      | ok ys => simp only; exact noInt_ok _
      | error e => intro k hk; simp only at hk; exact ih' k (by rw [hm]; exact hk)
    | error e => intro k hk; simp only at hk; injection hk with hk; subst hk; exact hx k hfx

theorem mapE_ok_mem {α β : Type} {l : List α} {f : α → R β} {ys : List β} (h : mapE l f = .ok ys) :
    ys.length = l.length ∧ ∀ y ∈ ys, ∃ x ∈ l, f x = .ok y := by
  induction l generalizing ys with
  | nil => unfold mapE at h; cases h; simp
  | cons x xs ih =>
    unfold mapE at h
    cases hfx : f x with
    | ok y =>
      rw [hfx] at h; simp only at h
      cases hm : mapE xs f with
      | ok zs =>
        rw [hm] at h; simp only at h; cases h
        obtain ⟨hl, hmem⟩ := ih hm
        refine ⟨by simp [hl], ?_⟩
        intro y' hy'
        rcases List.mem_cons.mp hy' with rfl | hy'
        · exact ⟨x, by simp, hfx⟩
        · obtain ⟨x', hx', hf'⟩ := hmem y' hy'
          exact ⟨x', by simp [hx'], hf'⟩
      | error e => rw [hm] at h; cases h
    | error e => rw [hfx] at h; cases h

theorem sumE_noInt {α : Type} {l : List α} {f : Nat → α → R Nat} (h : ∀ i, ∀ x ∈ l, NoInt (f i x)) :
    ∀ i, NoInt (sumE l i f) := by
  induction l with
  | nil => intro i; exact noInt_ok 0
  | cons x xs ih =>
    intro i
    unfold sumE
    have hx := h i x (by simp)
    have ih' := ih (fun j y hy => h j y (by simp [hy])) (i + 1)
    cases hfx : f i x with
    | ok n =>
      simp only
      cases hm : sumE xs (i + 1) f with
      | ok m => simp only; exact noInt_ok _
      | error e => intro k hk; simp only at hk; exact ih' k (by rw [hm]; exact hk)
    | error e => intro k hk; simp only at hk; injection hk with hk; subst hk; exact hx k hfx

theorem foldE_noInt {α σ : Type} {l : List α} {f : σ → α → R σ} (h : ∀ s, ∀ x ∈ l, NoInt (f s x)) :
    ∀ s, NoInt (foldE l s f) := by
  induction l with
  | nil => intro s; exact noInt_ok s
  | cons x xs ih =>
    intro s
    unfold foldE
    have hx := h s x (by simp)
    cases hfx : f s x with
    | ok s' => simp only; exact ih (fun t y hy => h t y (by simp [hy])) s'
    | error e => intro k hk; simp only at hk; exact hx k (by rw [hfx]; exact hk)


def TrackRefsOk (d : Doc) (t : Nat) : Prop :=
  match (d.atu t).trackFormat with
  | some f => ((d.tf f).stream).isSome = true
  | none => ((d.atu t).channel).isSome = true

def TrackOk (d : Doc) (t : Nat) : Prop :=
  (d.atu t).trackIndex.isSome = true ∧ (d.atu t).pack.isSome = true ∧
  match (d.atu t).trackFormat with
  | some f => ∃ s, (d.tf f).stream = some s ∧ ((d.stream s).channel).isSome = true
  | none => ((d.atu t).channel).isSome = true

theorem validateSelectedTrack_noInt {d : Doc} {t : Nat} (h : TrackRefsOk d t) :
    NoInt (validateSelectedTrack d t) := by
  intro k hk
  unfold validateSelectedTrack at hk
  dsimp only at hk
  unfold TrackRefsOk at h
  split at hk
  · cases hk
  · split at hk
    · cases hk
    · split at hk
      · cases hk
      · rename_i f hf
        rw [hf] at h
        simp only at h
        split at hk
        · rename_i hs; rw [hs] at h; cases h
        · split at hk <;> cases hk

theorem validateSelectedTrack_ok {d : Doc} {t : Nat} (hv : validateSelectedTrack d t = .ok ())
    (h : TrackRefsOk d t) : TrackOk d t := by
  unfold validateSelectedTrack at hv
  dsimp only at hv
  unfold TrackRefsOk at h
  unfold TrackOk
  split at hv
  · cases hv
  · rename_i h1
    split at hv
    · cases hv
    · rename_i h2
      refine ⟨by simpa [Option.isSome_iff_ne_none] using h1, by simpa [Option.isSome_iff_ne_none] using h2, ?_⟩
      split at hv
      · rename_i hf; rw [hf]; rw [hf] at h; exact h
      · rename_i f hf
        rw [hf]
        split at hv
        · cases hv
        · rename_i s hs
          split at hv
          · cases hv
          · rename_i hc
            exact ⟨s, hs, by simpa [Option.isSome_iff_ne_none] using hc⟩

theorem channelForTrack_noInt {d : Doc} {t : Nat} (h : TrackRefsOk d t) : NoInt (channelForTrack d t) := by
  intro k hk
  unfold channelForTrack at hk
  dsimp only at hk
  unfold TrackRefsOk at h
  split at hk
  · rename_i f hf
    rw [hf] at h; simp only at h
    split at hk
    · rename_i hs; rw [hs] at h; cases h
    · cases hk
  · rename_i hf
    rw [hf] at h; simp only at h
    split at hk
    · cases hk
    · rename_i hc; rw [hc] at h; cases h

theorem trackSpec_noInt {d : Doc} {t : Nat} (h : TrackOk d t) : NoInt (trackSpec d t) := by
  intro k hk
  unfold trackSpec at hk
  split at hk
  · cases hk
  · rename_i hn; have h1 := h.1; rw [hn] at h1; cases h1

theorem possibleTrackErrors_noInt {d : Doc} {t : Nat} (h : TrackOk d t) : NoInt (possibleTrackErrors d t) := by
  intro k hk
  unfold possibleTrackErrors at hk
  dsimp only at hk
  obtain ⟨_, hp, hr⟩ := h
  split at hk
  · rename_i hn; rw [hn] at hp; cases hp
  · rename_i p hpk
    split at hr
    · rename_i f hf
      obtain ⟨s, hs, hc⟩ := hr
      rw [hf] at hk
      simp only [hs] at hk
      cases hch : (d.stream s).channel with
      | none => rw [hch] at hc; cases hc
      | some c =>
        rw [hch] at hk
        simp only at hk
        split at hk <;> cases hk
    · rename_i hf
      rw [hf] at hk
      simp only at hk
      cases hch : (d.atu t).channel with
      | none => rw [hch] at hr; cases hr
      | some c =>
        rw [hch] at hk
        simp only at hk
        split at hk <;> cases hk

theorem possibleTrackPackErrors_noInt {d : Doc} {packs tracks : List Nat} (h : ∀ t ∈ tracks, TrackOk d t) :
    NoInt (possibleTrackPackErrors d packs tracks) := by
  intro k hk
  unfold possibleTrackPackErrors at hk
  dsimp only at hk
  split at hk
  · cases hk
  · rename_i e he
    injection hk with hk
    subst hk
    refine mapE_noInt (l := tracks) ?_ k he
    intro t ht k' hk'
    have hp := (h t ht).2.1
    split at hk'
    · rename_i hn; rw [hn] at hp; cases hp
    · split at hk' <;> cases hk'

/-- `diagnostics_total`: on validated tracks `possible_reference_errors` raises nothing, in either
referencing style (track format → stream → channel, or direct channel reference). -/
theorem possibleReferenceErrors_noInt {d : Doc} {packs : Option (List Nat)} {tracks : List Nat} {n : Nat}
    (h : ∀ t ∈ tracks, TrackOk d t) : NoInt (possibleReferenceErrors d packs tracks n) := by
  intro k hk
  unfold possibleReferenceErrors at hk
  dsimp only at hk
  have hm : NoInt (mapE tracks (possibleTrackErrors d)) :=
    mapE_noInt (fun t ht => possibleTrackErrors_noInt (h t ht))
  have hpk : ∀ ps, NoInt (possibleTrackPackErrors d ps tracks) := fun ps => possibleTrackPackErrors_noInt h
  cases packs with
  | none =>
    simp only at hk
    split at hk
    · cases hk
    · rename_i e he; injection hk with hk; subst hk; exact hm k he
  | some ps =>
    simp only at hk
    cases hq : possibleTrackPackErrors d ps tracks with
    | error e =>
      rw [hq] at hk; simp only at hk
      injection hk with hk; subst hk; exact hpk ps k hq
    | ok l =>
      rw [hq] at hk; simp only at hk
      split at hk
      · cases hk
      · rename_i e he; injection hk with hk; subst hk; exact hm k he

theorem raiseError_noInt {d : Doc} {ctx : Acc} {packs : Option (List Nat)} {tracks : List Nat} {n : Nat} {a : AdmKind}
    (h : ∀ t ∈ tracks, TrackOk d t) : NoInt (raiseError d ctx packs tracks n a) := by
  intro k hk
  unfold raiseError at hk
  split at hk
  · cases hk
  · rename_i e he; injection hk with hk; subst hk; exact possibleReferenceErrors_noInt h k he

/-- `raise_error` never returns: the outcome is an error (an ADM one by `raiseError_noInt`) -/
theorem raiseError_not_ok {d : Doc} {ctx : Acc} {packs : Option (List Nat)} {tracks : List Nat} {n m : Nat} {a : AdmKind} :
    raiseError d ctx packs tracks n a ≠ .ok m := by
  intro hk
  unfold raiseError at hk
  split at hk <;> cases hk

theorem head?_isSome_of_ne {α : Type} {l : List α} (h : l ≠ []) : ∃ a, l.head? = some a := by
  cases l with
  | nil => exact absurd rfl h
  | cons a t => exact ⟨a, rfl⟩

theorem getLast?_isSome_of_ne {α : Type} {l : List α} (h : l ≠ []) : ∃ a, l.getLast? = some a := by
  cases hl : l.getLast? with
  | none => exact absurd (List.getLast?_eq_none_iff.mp hl) h
  | some a => exact ⟨a, rfl⟩

/-- `get_path_param`: the message's `path[0]` / `path[-1]` exist whenever the conflict branch is reached (a value
that is not `None` was found on the path, so the path is not empty) -/
theorem pathParam_noInt (n : PName) {ids : List Acc} {vals : List (Option Nat)} (hl : ids.length = vals.length) :
    NoInt (pathParam n ids vals) := by
  intro k hk
  unfold pathParam at hk
  split at hk
  · cases hk
  · rename_i v vs hf
    have hv : vals ≠ [] := by intro h; rw [h] at hf; simp at hf
    have hi : ids ≠ [] := by
      intro h; rw [h] at hl
      exact hv (List.eq_nil_of_length_eq_zero hl.symm)
    obtain ⟨a, ha⟩ := head?_isSome_of_ne hi
    obtain ⟨b, hb⟩ := getLast?_isSome_of_ne hi
    rw [ha, hb] at hk
    split at hk <;> cases hk

theorem withDefault_noInt {r : R (Option Nat)} (h : NoInt r) : NoInt (withDefault r) := by
  intro k hk
  unfold withDefault at hk
  split at hk
  · cases hk
  · injection hk with hk; subst hk; exact h k rfl

theorem nfcZero_noInt {r : R (Option Nat)} (h : NoInt r) : NoInt (nfcZero r) := by
  intro k hk
  unfold nfcZero at hk
  split at hk
  · cases hk
  · cases hk
  · injection hk with hk; subst hk; exact h k rfl

theorem packParam_len (path : List Nat) (c : Nat) (f : Nat → Option Nat) (x : Option Nat) :
    (packParamIds path c).length = (path.map f ++ [x]).length := by
  simp [packParamIds]

theorem hoaGet_noInt {d : Doc} {w : HoaParam} {path : List Nat} {c : Nat}
    (h : (d.chan c).blocks.length = 1) : NoInt (hoaGet d w path c) := by
  obtain ⟨b, hb⟩ : ∃ b, (d.chan c).blocks = [b] := by
    cases hbl : (d.chan c).blocks with
    | nil => rw [hbl] at h; cases h
    | cons b t => cases t with
      | nil => exact ⟨b, rfl⟩
      | cons _ _ => rw [hbl] at h; simp at h
  intro k hk
  unfold hoaGet at hk
  rw [hb] at hk
  cases w with
  | rtime => simp only [unpack1] at hk; cases hk
  | duration => simp only [unpack1] at hk; cases hk
  | norm => simp only [first] at hk; exact withDefault_noInt (pathParam_noInt _ (packParam_len _ _ _ _)) k hk
  | nfc => simp only [first] at hk; exact nfcZero_noInt (pathParam_noInt _ (packParam_len _ _ _ _)) k hk
  | scr => simp only [first] at hk; exact withDefault_noInt (pathParam_noInt _ (packParam_len _ _ _ _)) k hk

theorem singleParamPairs_noInt {n : PName} {get : List Nat → Nat → R (Option Nat)} :
    ∀ l : List (List Nat × Nat), (∀ x ∈ l, NoInt (get x.1 x.2)) → NoInt (singleParamPairs n get l) := by
  intro l
  induction l with
  | nil => intro _; unfold singleParamPairs; exact noInt_ok ()
  | cons a t ih =>
    intro h
    cases t with
    | nil => unfold singleParamPairs; exact noInt_ok ()
    | cons b rest =>
      have ha := h a (by simp)
      have hb := h b (by simp)
      have ih' := ih (fun x hx => h x (by simp [hx]))
      intro k hk
      unfold singleParamPairs at hk
      cases hga : get a.1 a.2 with
      | error e => rw [hga] at hk; simp only at hk; injection hk with hk; subst hk; exact ha k hga
      | ok va =>
        rw [hga] at hk; simp only at hk
        cases hgb : get b.1 b.2 with
        | error e => rw [hgb] at hk; simp only at hk; injection hk with hk; subst hk; exact hb k hgb
        | ok vb =>
          rw [hgb] at hk; simp only at hk
          split at hk
          · cases hk
          · exact ih' k hk

theorem getSingleParam_noInt {n : PName} {get : List Nat → Nat → R (Option Nat)} {ppc : List (List Nat × Nat)}
    (h : ∀ x ∈ ppc, NoInt (get x.1 x.2)) (hne : ppc ≠ []) : NoInt (getSingleParam n get ppc) := by
  intro k hk
  unfold getSingleParam at hk
  split at hk
  · rename_i e he; injection hk with hk; subst hk; exact singleParamPairs_noInt ppc h k he
  · cases ppc with
    | nil => exact hne rfl
    | cons a t =>
      simp only [first] at hk
      exact h a (by simp) k hk

theorem hoaTimes_noInt {d : Doc} {ppc : List (List Nat × Nat)}
    (h : ∀ x ∈ ppc, (d.chan x.2).blocks.length = 1) (hne : ppc ≠ []) : NoInt (hoaTimes d ppc) := by
  have hg : ∀ n w, NoInt (getSingleParam n (hoaGet d w) ppc) :=
    fun n w => getSingleParam_noInt (fun x hx => hoaGet_noInt (h x hx)) hne
  unfold hoaTimes
  exact noInt_bind (hg _ _) fun _ _ => noInt_bind (hg _ _) fun _ _ => noInt_ok ()

theorem hoaNorms_noInt {d : Doc} {ppc : List (List Nat × Nat)}
    (h : ∀ x ∈ ppc, (d.chan x.2).blocks.length = 1) (hne : ppc ≠ []) : NoInt (hoaNorms d ppc) := by
  have hg : ∀ n w, NoInt (getSingleParam n (hoaGet d w) ppc) :=
    fun n w => getSingleParam_noInt (fun x hx => hoaGet_noInt (h x hx)) hne
  unfold hoaNorms
  exact noInt_bind (hg _ _) fun _ _ => noInt_bind (hg _ _) fun _ _ => noInt_bind (hg _ _) fun _ _ => noInt_ok ()

theorem hoaParams_noInt {d : Doc} {ppc : List (List Nat × Nat)}
    (h : ∀ x ∈ ppc, (d.chan x.2).blocks.length = 1) (hne : ppc ≠ []) : NoInt (hoaParams d ppc) := by
  unfold hoaParams
  exact noInt_bind (hoaTimes_noInt h hne) fun _ _ => hoaNorms_noInt h hne

theorem unpack1_noInt {α : Type} {l : List α} (h : l.length = 1) : NoInt (unpack1 l) := by
  cases l with
  | nil => cases h
  | cons a t => cases t with
    | nil => exact noInt_ok a
    | cons _ _ => simp at h

theorem hoaPerChannel_noInt {d : Doc} {ppc : List (List Nat × Nat)}
    (h : ∀ x ∈ ppc, (d.chan x.2).blocks.length = 1) : NoInt (hoaPerChannel d ppc) := by
  intro k hk
  unfold hoaPerChannel at hk
  split at hk
  · cases hk
  · rename_i e he; injection hk with hk; subst hk
    exact mapE_noInt (fun x hx => unpack1_noInt (h x hx)) k he

theorem hoaItemParams_noInt {d : Doc} {ppc : List (List Nat × Nat)}
    (h : ∀ x ∈ ppc, (d.chan x.2).blocks.length = 1) (hne : ppc ≠ []) : NoInt (hoaItemParams d ppc) := by
  unfold hoaItemParams
  exact noInt_bind (hoaTimes_noInt h hne) fun _ _ => noInt_bind (hoaPerChannel_noInt h) fun _ _ => hoaNorms_noInt h hne

theorem getD_mem_or {α : Type} (l : List α) (i : Nat) (x : α) : l.getD i x ∈ l ∨ l.getD i x = x := by
  induction l generalizing i with
  | nil => right; rfl
  | cons a t ih =>
    cases i with
    | zero => left; simp [List.getD]
    | succ j =>
      rcases ih j with h | h
      · left; simp only [List.getD_cons_succ]; exact List.mem_cons_of_mem _ h
      · right; simp only [List.getD_cons_succ]; exact h

theorem pack_mem_of_hoa {d : Doc} {p : Nat} (h : (d.pack p).type = .hoa) : d.pack p ∈ d.packs := by
  rcases getD_mem_or d.packs p default with hm | hd
  · exact hm
  · have : (d.pack p) = default := hd
    rw [this] at h; cases h

theorem chan_mem_of_hoa {d : Doc} {c : Nat} (h : (d.chan c).type = .hoa) : d.chan c ∈ d.channels := by
  rcases getD_mem_or d.channels c default with hm | hd
  · exact hm
  · have : (d.chan c) = default := hd
    rw [this] at h; cases h

theorem packChannelTypes_ok {d : Doc} (h : validatePackChannelTypes d = .ok ()) :
    ∀ p ∈ d.packs, ∀ c ∈ p.channels, (d.chan c).type = p.type := by
  intro p hp c hc
  obtain ⟨i, hi⟩ := forEI_ok 0 h p hp
  have h1 := forE_ok hi c hc
  split at h1
  · cases h1
  · rename_i hne; simpa using hne

theorem packSubpackTypes_ok {d : Doc} (h : validatePackSubpackTypes d = .ok ()) :
    ∀ p ∈ d.packs, ∀ s ∈ p.packs, (d.pack s).type = p.type := by
  intro p hp c hc
  obtain ⟨i, hi⟩ := forEI_ok 0 h p hp
  have h1 := forE_ok hi c hc
  split at h1
  · cases h1
  · rename_i hne; simpa using hne

theorem hoaChannels_ok {d : Doc} (h : validateHoaChannels d = .ok ()) :
    ∀ c ∈ d.channels, c.type = .hoa → c.blocks.length = 1 := by
  intro c hc ht
  obtain ⟨i, h1⟩ := forEI_ok 0 h c hc
  simp only [ht, beq_self_eq_true, if_true] at h1
  split at h1
  · cases h1
  · rename_i hne; simpa using hne

theorem pathsFrom_ne_nil (children : Nat → List Nat) :
    ∀ f s, ∀ path ∈ pathsFrom children f s, path ≠ [] := by
  intro f
  induction f with
  | zero => intro s path hp; simp [pathsFrom] at hp; subst hp; simp
  | succ f ih =>
    intro s path hp
    simp only [pathsFrom, List.mem_cons, List.mem_flatMap, List.mem_map] at hp
    rcases hp with rfl | ⟨c, _, q, _, rfl⟩ <;> simp

/-- every pack on a path from a HOA pack is a HOA pack (by `_validate_pack_subpack_types`) -/
theorem hoa_paths_last {d : Doc} (hs : validatePackSubpackTypes d = .ok ()) :
    ∀ f p, (d.pack p).type = .hoa →
      ∀ path ∈ pathsFrom (fun i => (d.pack i).packs) f p, (d.pack (path.getLastD p)).type = .hoa := by
  intro f
  induction f with
  | zero => intro p hp path hmem; simp [pathsFrom] at hmem; subst hmem; simpa using hp
  | succ f ih =>
    intro p hp path hmem
    simp only [pathsFrom, List.mem_cons, List.mem_flatMap, List.mem_map] at hmem
    rcases hmem with rfl | ⟨c, hc, q, hq, rfl⟩
    · simpa using hp
    · have hct : (d.pack c).type = .hoa := by
        rw [packSubpackTypes_ok hs (d.pack p) (pack_mem_of_hoa hp) c hc]; exact hp
      have hne := pathsFrom_ne_nil _ f c q hq
      have := ih c hct q hq
      cases q with
      | nil => exact absurd rfl hne
      | cons a t => simpa [List.getLastD] using this

/-- G1: after the type validations and `_validate_hoa_channels`, every channel reachable from a HOA pack has
exactly one block — what makes `[audioBlockFormat] = ...` and `audioBlockFormats[0]` safe. -/
theorem hoa_reachable_one_block {d : Doc}
    (hc : validatePackChannelTypes d = .ok ()) (hs : validatePackSubpackTypes d = .ok ())
    (hh : validateHoaChannels d = .ok ()) {p : Nat} (hp : (d.pack p).type = .hoa) :
    ∀ x ∈ packPathsChannels d p, (d.chan x.2).blocks.length = 1 := by
  intro x hx
  simp only [packPathsChannels, List.mem_flatMap, List.mem_map] at hx
  obtain ⟨path, hpath, c, hcm, rfl⟩ := hx
  have hl := hoa_paths_last hs _ p hp path hpath
  have hct : (d.chan c).type = .hoa := by
    rw [packChannelTypes_ok hc _ (pack_mem_of_hoa hl) c hcm]; exact hl
  exact hoaChannels_ok hh _ (chan_mem_of_hoa hct) hct

theorem bind_ok {α β : Type} {x : R α} {f : α → R β} {b : β} (h : (x >>= f) = .ok b) :
    ∃ a, x = .ok a ∧ f a = .ok b := by
  cases x with
  | ok a => exact ⟨a, rfl, h⟩
  | error e => cases h

/-- close `NoInt` goals whose body only branches between `.ok` and `.error (.adm _)` -/
macro "nis" : tactic =>
  `(tactic| (intro k hk; repeat' (split at hk); all_goals (first | cases hk | skip)))

theorem validateBlock_noInt (b : Block) : NoInt (validateBlock b) := by
  unfold validateBlock
  split
  · exact noInt_adm _ _
  · refine forE_noInt ?_
    intro co _; nis

theorem validateElements_noInt (d : Doc) : NoInt (validateElements d) := by
  unfold validateElements
  refine noInt_bind (forE_noInt ?_) (fun _ _ => noInt_bind (forEI_noInt ?_ 0) (fun _ _ => forEI_noInt ?_ 0))
  · intro c _
    exact forE_noInt (fun b _ => validateBlock_noInt b)
  · intro i s _; nis
  · intro i t _; nis

theorem objLoopDfs_noInt (d : Doc) : ∀ f node path, NoInt (objLoopDfs d f node path) := by
  intro f
  induction f with
  | zero => intro node path; unfold objLoopDfs; exact noInt_ok ()
  | succ f ih =>
    intro node path
    unfold objLoopDfs
    split
    · exact noInt_adm _ _
    · exact forE_noInt (fun c _ => ih c _)

theorem validateObjectLoops_noInt (d : Doc) : NoInt (validateObjectLoops d) :=
  forE_noInt (fun _ _ => objLoopDfs_noInt d _ _ _)

theorem validateObjectParams_noInt (d : Doc) : NoInt (validateObjectParams d) := by
  unfold validateObjectParams
  refine forEI_noInt ?_ 0
  intro i o _; nis

theorem validatePackChannelTypes_noInt (d : Doc) : NoInt (validatePackChannelTypes d) := by
  unfold validatePackChannelTypes
  refine forEI_noInt (fun i p _ => forE_noInt ?_) 0
  intro c _; nis

theorem validatePackSubpackTypes_noInt (d : Doc) : NoInt (validatePackSubpackTypes d) := by
  unfold validatePackSubpackTypes
  refine forEI_noInt (fun i p _ => forE_noInt ?_) 0
  intro c _; nis

/-! #### the diagnostics of `_validate_pack_channel_multitree` never raise anything else -/

theorem raiseMsg_noInt {α : Type} {k : AdmKind} {m : R Msg} (h : NoInt m) : NoInt (raiseMsg k m : R α) := by
  intro k' hk
  unfold raiseMsg at hk
  split at hk
  · cases hk
  · rename_i e; injection hk with hk; subst hk; exact h k' rfl

theorem raiseMsg_ne_ok {α : Type} {k : AdmKind} {m : R Msg} {a : α} : (raiseMsg k m : R α) ≠ .ok a := by
  intro h
  unfold raiseMsg at h
  split at h <;> cases h

theorem lastWith_some_of_mem (p : Node → Bool) : ∀ (l : List Node) (i : Nat), (∃ x ∈ l, p x = true) →
    ∃ r, lastWith p l i = some r := by
  intro l
  induction l with
  | nil => intro i h; obtain ⟨x, hx, _⟩ := h; cases hx
  | cons a t ih =>
    intro i h
    unfold lastWith
    cases ht : lastWith p t (i + 1) with
    | some r => exact ⟨r, rfl⟩
    | none =>
      simp only
      obtain ⟨x, hx, hpx⟩ := h
      rcases List.mem_cons.mp hx with rfl | hx
      · rw [if_pos hpx]; exact ⟨_, rfl⟩
      · obtain ⟨r, hr⟩ := ih (i + 1) ⟨x, hx, hpx⟩
        rw [hr] at ht; cases ht

theorem lastWith_spec (p : Node → Bool) : ∀ (l : List Node) (i : Nat) (r : Nat × Node),
    lastWith p l i = some r → p r.2 = true ∧ r.2 ∈ l := by
  intro l
  induction l with
  | nil => intro i r h; cases h
  | cons a t ih =>
    intro i r h
    unfold lastWith at h
    cases ht : lastWith p t (i + 1) with
    | some r' =>
      rw [ht] at h; simp only at h; injection h with h; subst h
      obtain ⟨h1, h2⟩ := ih (i + 1) r' ht
      exact ⟨h1, List.mem_cons_of_mem _ h2⟩
    | none =>
      rw [ht] at h; simp only at h
      split at h
      · rename_i hp; injection h with h; subst h; exact ⟨hp, by simp⟩
      · cases h

/-- `loop_exception`: `.index(id(node))` finds the node, because the caller tested `in_by_id(node, path[:-1])` -/
theorem loopMsg_noInt {pre : List Node} {node : Node} (h : pre.contains node = true) : NoInt (loopMsg pre node) := by
  intro k hk
  unfold loopMsg at hk
  split at hk
  · rename_i hnone
    have := List.findIdx?_eq_none_iff.mp hnone node (by simpa using h)
    simp at this
  · cases hk

/-- `diamond_exception`: both `max(...)` range over non-empty sequences as soon as the two paths share a node
before their last element -/
theorem diamondMsg_noInt {node : Node} {pa pb : List Node} (h : ∃ x ∈ pa.dropLast, x ∈ pb.dropLast) :
    NoInt (diamondMsg node pa pb) := by
  obtain ⟨x, hxa, hxb⟩ := h
  obtain ⟨⟨ia, cp⟩, h1⟩ := lastWith_some_of_mem (fun n => pb.dropLast.contains n) pa.dropLast 0
    ⟨x, hxa, by simpa using hxb⟩
  obtain ⟨hcp, _⟩ := lastWith_spec _ _ _ _ h1
  obtain ⟨⟨ib, y⟩, h2⟩ := lastWith_some_of_mem (fun n => n == cp) pb.dropLast 0
    ⟨cp, by simpa using hcp, by simp⟩
  intro k hk
  unfold diamondMsg at hk
  rw [h1] at hk
  simp only [h2] at hk
  split at hk <;> cases hk

/-- invariant of the `paths` dict during one top-level `dfs(root, {}, ())`: every stored path starts at the root,
and only the root itself is stored with a one-element path -/
def MtEntry (r : Node) (e : Node × List Node) : Prop := e.2.head? = some r ∧ (e.1 = r ∨ 2 ≤ e.2.length)

theorem mtLookup_some {paths : MtPaths} {n : Node} {pa : List Node} (h : mtLookup paths n = some pa) :
    (n, pa) ∈ paths := by
  unfold mtLookup at h
  cases hf : paths.find? (fun e => e.1 == n) with
  | none => rw [hf] at h; cases h
  | some e =>
    rw [hf] at h
    simp only [Option.map_some, Option.some.injEq] at h
    have hm := List.mem_of_find?_eq_some hf
    have hp := List.find?_some hf
    have : e = (n, pa) := by
      cases e with
      | mk e1 e2 => simp only at h hp; simp [h, beq_iff_eq.mp hp]
    rw [← this]; exact hm

theorem mtLookup_none {paths : MtPaths} {n : Node} (h : mtLookup paths n = none) : n ∉ paths.map (·.1) := by
  unfold mtLookup at h
  cases hf : paths.find? (fun e => e.1 == n) with
  | some e => rw [hf] at h; cases h
  | none =>
    intro hmem
    obtain ⟨e, he, hen⟩ := List.mem_map.mp hmem
    have := List.find?_eq_none.mp hf e he
    simp [hen] at this

theorem foldE_inv {α σ : Type} {I : σ → Prop} {l : List α} {f : σ → α → R σ}
    (h : ∀ s, ∀ x ∈ l, I s → NoInt (f s x) ∧ ∀ s', f s x = .ok s' → I s') :
    ∀ s, I s → NoInt (foldE l s f) ∧ ∀ s', foldE l s f = .ok s' → I s' := by
  induction l with
  | nil =>
    intro s hs
    refine ⟨noInt_ok s, ?_⟩
    intro s' h'; unfold foldE at h'; injection h' with h'; subst h'; exact hs
  | cons x xs ih =>
    intro s hs
    obtain ⟨hx1, hx2⟩ := h s x (by simp) hs
    have ih' := ih (fun t y hy => h t y (by simp [hy]))
    unfold foldE
    cases hfx : f s x with
    | ok s1 => simp only; exact ih' s1 (hx2 s1 hfx)
    | error e =>
      simp only
      refine ⟨?_, ?_⟩
      · intro k hk; injection hk with hk; subst hk; exact hx1 k hfx
      · intro s' h'; cases h'

theorem head?_append_singleton_of_ne {α : Type} {l : List α} (x : α) (h : l ≠ []) : (l ++ [x]).head? = l.head? := by
  cases l with
  | nil => exact absurd rfl h
  | cons a t => rfl

/-- the multitree DFS raises only `AdmError`, its two diagnostics included: `loop_exception`'s `.index(...)` and
`diamond_exception`'s two `max(...)` are total because both paths start at the root of the current top-level DFS -/
theorem mtDfs_inv (d : Doc) (r : Node) : ∀ f node paths path,
    (path ++ [node]).head? = some r → (path = [] → paths = []) → (∀ e ∈ paths, MtEntry r e) →
    NoInt (mtDfs d f node paths path) ∧ ∀ s', mtDfs d f node paths path = .ok s' → ∀ e ∈ s', MtEntry r e := by
  intro f
  induction f with
  | zero =>
    intro node paths path _ _ hI
    unfold mtDfs
    exact ⟨noInt_ok _, fun s' h => by injection h with h; subst h; exact hI⟩
  | succ f ih =>
    intro node paths path hhead hemp hI
    unfold mtDfs
    split
    · rename_i hc
      exact ⟨raiseMsg_noInt (loopMsg_noInt hc), fun s' h => absurd h raiseMsg_ne_ok⟩
    · rename_i hnc
      split
      · rename_i pa hl
        refine ⟨raiseMsg_noInt (diamondMsg_noInt ?_), fun s' h => absurd h raiseMsg_ne_ok⟩
        have hmem := mtLookup_some hl
        have hpne : path ≠ [] := by
          intro hp; rw [hemp hp] at hmem; cases hmem
        have hrp : path.head? = some r := by rw [← head?_append_singleton_of_ne node hpne]; exact hhead
        have hrin : r ∈ path := List.mem_of_mem_head? hrp
        obtain ⟨hh, hor⟩ := hI _ hmem
        simp only at hh hor
        have hlen : 2 ≤ pa.length := by
          rcases hor with heq | hlen
          · subst heq; exact absurd (by simpa using hrin) hnc
          · exact hlen
        refine ⟨r, ?_, ?_⟩
        · match pa, hh, hlen with
          | a :: b :: t, hh, _ =>
            simp only [List.head?_cons, Option.some.injEq] at hh
            subst hh
            simp [List.dropLast]
        · rw [List.dropLast_concat]; exact hrin
      · have hentry : MtEntry r (node, path ++ [node]) := by
          refine ⟨hhead, ?_⟩
          by_cases hp : path = []
          · left
            subst hp
            simpa using hhead
          · right
            cases path with
            | nil => exact absurd rfl hp
            | cons a t => simp
        refine foldE_inv (I := fun s => ∀ e ∈ s, MtEntry r e) ?_ _ ?_
        · intro s c _ hs
          refine ih c s (path ++ [node]) ?_ (fun h => absurd h (by simp)) hs
          rw [head?_append_singleton_of_ne c (by simp)]; exact hhead
        · intro e he
          rcases List.mem_cons.mp he with rfl | he
          · exact hentry
          · exact hI e he

theorem mtDfs_noInt (d : Doc) (p : Nat) : NoInt (mtDfs d (d.packs.length + 2) (.pack p) [] []) :=
  (mtDfs_inv d (.pack p) _ _ [] [] rfl (fun _ => rfl) (fun _ h => by cases h)).1

theorem validateMultitree_noInt (d : Doc) : NoInt (validateMultitree d) := by
  unfold validateMultitree
  refine forE_noInt ?_
  intro p _ k hk
  split at hk
  · cases hk
  · rename_i e he; injection hk with hk; subst hk; exact mtDfs_noInt d p k he

theorem validateObjectsChannels_noInt (d : Doc) : NoInt (validateObjectsChannels d) := by
  unfold validateObjectsChannels
  refine forEI_noInt ?_ 0
  intro ci c _
  split
  · split
    · exact noInt_adm _ _
    · refine forEI_noInt ?_ 0
      intro bi b _; nis
  · exact noInt_ok ()

theorem validateHoaChannels_noInt (d : Doc) : NoInt (validateHoaChannels d) := by
  unfold validateHoaChannels
  refine forEI_noInt ?_ 0
  intro ci c _; nis

theorem mem_hoaPacks {d : Doc} {p : Nat} (h : p ∈ hoaPacks d) : (d.pack p).type = .hoa := by
  unfold hoaPacks at h
  have := (List.mem_filter.mp h).2
  simpa using this

theorem hoaOrderDegreeStep_noInt {d : Doc} {p : Nat} {seen : List (Int × Int)} {c : Nat}
    (h : (d.chan c).blocks.length = 1) : NoInt (hoaOrderDegreeStep d p seen c) := by
  obtain ⟨b, hb⟩ : ∃ b, (d.chan c).blocks = [b] := by
    cases hbl : (d.chan c).blocks with
    | nil => rw [hbl] at h; cases h
    | cons b t => cases t with
      | nil => exact ⟨b, rfl⟩
      | cons _ _ => rw [hbl] at h; simp at h
  unfold hoaOrderDegreeStep
  rw [hb]
  simp only [unpack1]
  nis

theorem validateHoaOrderDegree_noInt {d : Doc}
    (hc : validatePackChannelTypes d = .ok ()) (hs : validatePackSubpackTypes d = .ok ())
    (hh : validateHoaChannels d = .ok ()) : NoInt (validateHoaOrderDegree d) := by
  unfold validateHoaOrderDegree
  refine forE_noInt ?_
  intro p hp k hk
  split at hk
  · cases hk
  · rename_i e he
    injection hk with hk; subst hk
    refine foldE_noInt (l := packChannels d p) ?_ _ k he
    intro s c hcm
    simp only [packChannels, List.mem_map] at hcm
    obtain ⟨x, hx, rfl⟩ := hcm
    exact hoaOrderDegreeStep_noInt (hoa_reachable_one_block hc hs hh (mem_hoaPacks hp) x hx)

theorem validateHoaParams_noInt {d : Doc}
    (hc : validatePackChannelTypes d = .ok ()) (hs : validatePackSubpackTypes d = .ok ())
    (hh : validateHoaChannels d = .ok ()) : NoInt (validateHoaParams d) := by
  unfold validateHoaParams
  refine forE_noInt ?_
  intro p hp
  split
  · exact noInt_adm _ _
  · rename_i hne
    refine hoaParams_noInt (hoa_reachable_one_block hc hs hh (mem_hoaPacks hp)) ?_
    intro hnil
    rw [hnil] at hne
    simp at hne

/-- what `_validate_hoa_parameters_consistent` establishes since commit 03146b0: every HOA pack reaches a channel -/
theorem hoaParams_ok_nonempty {d : Doc} (h : validateHoaParams d = .ok ()) :
    ∀ p ∈ hoaPacks d, packPathsChannels d p ≠ [] := by
  intro p hp hnil
  have := forE_ok h p hp
  rw [hnil] at this
  simp at this

theorem validateV2Refs_noInt (d : Doc) : NoInt (validateV2Refs d) := by
  unfold validateV2Refs; nis

theorem validateTrackOrChannel_noInt (d : Doc) : NoInt (validateTrackOrChannel d) := by
  unfold validateTrackOrChannel
  refine forEI_noInt ?_ 0
  intro i c _; nis

/-- what a successful `validate_structure` establishes (the parts later steps rely on) -/
theorem getD_mem {α : Type} {l : List α} {i : Nat} (x : α) (h : i < l.length) : l.getD i x ∈ l := by
  induction l generalizing i with
  | nil => cases h
  | cons a t ih =>
    cases i with
    | zero => simp [List.getD]
    | succ j =>
      simp only [List.getD_cons_succ]
      exact List.mem_cons_of_mem _ (ih (by simpa using h))

theorem ws_atu {d : Doc} (h : d.wellScoped = true) :
    ∀ u ∈ d.trackUIDs, optLt u.trackFormat d.trackFormats.length = true := by
  intro u hu
  simp only [Doc.wellScoped, Bool.and_eq_true, List.all_eq_true] at h
  exact (h.2 u hu).1.2

theorem ws_obj_tracks {d : Doc} (h : d.wellScoped = true) :
    ∀ o ∈ d.objects, ∀ t ∈ o.tracks, optLt t d.trackUIDs.length = true := by
  intro o ho
  simp only [Doc.wellScoped, Bool.and_eq_true, List.all_eq_true] at h
  exact (h.1.1.1.1.1.2 o ho).1.2

theorem packFormatPath_noInt {d : Doc} (hu : uniquePaths d = true) {p c : Nat} (hp : p < d.packs.length)
    (hc : c ∈ packChannels d p) : NoInt (packFormatPath d p c) := by
  unfold packFormatPath
  refine unpack1_noInt ?_
  simp only [uniquePaths, List.all_eq_true, List.mem_range] at hu
  simpa using hu p hp c hc

theorem compLoop_noInt (d : Doc) (allSelected : List Nat) :
    ∀ rs : List Nat, (∀ r ∈ rs, ((r :: (d.obj r).comps).filter (fun o => allSelected.contains o)) ≠ []) →
      NoInt (compLoop d allSelected rs) := by
  intro rs
  induction rs with
  | nil => intro _; unfold compLoop; exact noInt_ok _
  | cons r rs ih =>
    intro h
    have hr := h r (by simp)
    have ih' := ih (fun x hx => h x (by simp [hx]))
    intro k hk
    unfold compLoop at hk
    dsimp only at hk
    split at hk
    · rename_i hemp
      exact hr (by simpa using hemp)
    · split at hk
      · cases hk
      · split at hk
        · cases hk
        · rename_i e he; injection hk with hk; subst hk; exact ih' k he

/-- `_select_complementary_objects`: the `assert selected` cannot fail (the group root is selected by default) -/
theorem selectComplementary_noInt (d : Doc) (sel : List Nat) : NoInt (selectComplementary d sel) := by
  intro k hk
  unfold selectComplementary at hk
  dsimp only at hk
  split at hk
  · rename_i e he; injection hk with hk; subst hk
    refine forE_noInt (l := sel) ?_ k he
    intro s _; nis
  · refine compLoop_noInt d _ _ ?_ k hk
    intro r hr hnil
    have hall := List.filter_eq_nil_iff.mp hnil
    by_cases hany : ((r :: (d.obj r).comps).any (fun o => sel.contains o)) = true
    · obtain ⟨o, ho, hos⟩ := List.any_eq_true.mp hany
      refine hall o ho ?_
      simp only [List.contains_eq_mem, List.mem_append, decide_eq_true_eq] at hos ⊢
      exact Or.inl hos
    · refine hall r (by simp) ?_
      simp only [List.contains_eq_mem, List.mem_append, decide_eq_true_eq]
      right
      exact List.mem_filter.mpr ⟨hr, by simpa using hany⟩

theorem selectStates_noInt {d : Doc} {prog : Option Nat}
    (hp : ∀ p, prog = some p → p < d.programmes.length) : NoInt (selectStates d prog) := by
  intro k hk
  unfold selectStates at hk
  split at hk
  · cases hk
  · split at hk
    · rename_i e he; injection hk with hk; subst hk
      unfold selectProgramme at he
      split at he
      · split at he <;> cases he
      · rename_i p
        split at he
        · cases he
        · rename_i hlt; exact hlt (hp p rfl)
    · cases hk

/-! ### `_validate_pack_channel_multitree` accepts ⇒ every channel lies on exactly one pack path -/

/-- DFS preorder of the unfolding of the pack/channel graph that `mtDfs` walks (fuel as in `mtDfs`) -/
def visit (d : Doc) : Nat → Node → List Node
  | 0, _ => []
  | f + 1, node => node :: (mtChildren d node).flatMap (visit d f)

/-- keys of the `paths` dict -/
def mtKeys (s : MtPaths) : List Node := s.map (·.1)

theorem mtDfs_fold_ok (d : Doc) (f : Nat) (path : List Node)
    (ih : ∀ node seen s', mtDfs d f node seen path = .ok s' →
      (visit d f node).Nodup ∧ (∀ x ∈ visit d f node, x ∉ mtKeys seen) ∧
      (∀ x, x ∈ mtKeys s' ↔ x ∈ visit d f node ∨ x ∈ mtKeys seen)) :
    ∀ (cs : List Node) (s0 s' : MtPaths),
      foldE cs s0 (fun s c => mtDfs d f c s path) = .ok s' →
      (cs.flatMap (visit d f)).Nodup ∧ (∀ x ∈ cs.flatMap (visit d f), x ∉ mtKeys s0) ∧
      (∀ x, x ∈ mtKeys s' ↔ x ∈ cs.flatMap (visit d f) ∨ x ∈ mtKeys s0) := by
  intro cs
  induction cs with
  | nil =>
    intro s0 s' h
    unfold foldE at h
    injection h with h; subst h
    simp
  | cons c cs ihc =>
    intro s0 s' h
    unfold foldE at h
    dsimp only at h
    cases h1 : mtDfs d f c s0 path with
    | error e => rw [h1] at h; cases h
    | ok s1 =>
      rw [h1] at h; simp only at h
      obtain ⟨n1, d1, m1⟩ := ih c s0 s1 h1
      obtain ⟨n2, d2, m2⟩ := ihc s1 s' h
      refine ⟨?_, ?_, ?_⟩
      · simp only [List.flatMap_cons]
        refine List.nodup_append.mpr ⟨n1, n2, ?_⟩
        intro a ha b hb hab
        subst hab
        exact d2 a hb ((m1 a).mpr (Or.inl ha))
      · intro x hx
        simp only [List.flatMap_cons, List.mem_append] at hx
        rcases hx with hx | hx
        · exact d1 x hx
        · intro hs; exact d2 x hx ((m1 x).mpr (Or.inr hs))
      · intro x
        simp only [List.flatMap_cons, List.mem_append]
        rw [m2 x, m1 x]
        constructor
        · rintro (h | h | h)
          · exact Or.inl (Or.inr h)
          · exact Or.inl (Or.inl h)
          · exact Or.inr h
        · rintro ((h | h) | h)
          · exact Or.inr (Or.inl h)
          · exact Or.inl h
          · exact Or.inr (Or.inr h)

/-- a successful multitree DFS visited pairwise different nodes, none of them seen before -/
theorem mtDfs_ok (d : Doc) : ∀ (f : Nat) (path : List Node) (node : Node) (seen s' : MtPaths),
    mtDfs d f node seen path = .ok s' →
      (visit d f node).Nodup ∧ (∀ x ∈ visit d f node, x ∉ mtKeys seen) ∧
      (∀ x, x ∈ mtKeys s' ↔ x ∈ visit d f node ∨ x ∈ mtKeys seen) := by
  intro f
  induction f with
  | zero =>
    intro path node seen s' h
    unfold mtDfs at h
    injection h with h; subst h
    simp [visit]
  | succ f ih =>
    intro path node seen s' h
    unfold mtDfs at h
    split at h
    · exact absurd h raiseMsg_ne_ok
    · split at h
      · exact absurd h raiseMsg_ne_ok
      · rename_i hseen
        have hns : node ∉ mtKeys seen := mtLookup_none hseen
        obtain ⟨n1, d1, m1⟩ := mtDfs_fold_ok d f (path ++ [node]) (ih (path ++ [node])) _ _ _ h
        have hk : mtKeys ((node, path ++ [node]) :: seen) = node :: mtKeys seen := rfl
        rw [hk] at d1 m1
        refine ⟨?_, ?_, ?_⟩
        · simp only [visit]
          refine List.nodup_cons.mpr ⟨?_, n1⟩
          intro hmem
          exact d1 node hmem (by simp)
        · intro x hx
          simp only [visit, List.mem_cons] at hx
          rcases hx with rfl | hx
          · exact hns
          · intro hs; exact d1 x hx (by simp [hs])
        · intro x
          rw [m1 x]
          simp only [visit, List.mem_cons]
          constructor
          · rintro (h | h | h)
            · exact Or.inl (Or.inr h)
            · exact Or.inl (Or.inl h)
            · exact Or.inr h
          · rintro ((h | h) | h)
            · exact Or.inr (Or.inl h)
            · exact Or.inl h
            · exact Or.inr (Or.inr h)

/-- channels below `p`, path by path (what `pack_format_channels` yields), with explicit fuel -/
def chansFrom (d : Doc) (f : Nat) (p : Nat) : List Nat :=
  (pathsFrom (fun i => (d.pack i).packs) f p).flatMap (fun path => (d.pack (path.getLastD p)).channels)

theorem getLastD_cons_ne_nil {α : Type} (a x y : α) (q : List α) (h : q ≠ []) :
    (a :: q).getLastD x = q.getLastD y := by
  cases q with
  | nil => exact absurd rfl h
  | cons b t => simp [List.getLastD]

theorem flatMap_congr' {α β : Type} {l : List α} {f g : α → List β} (h : ∀ x ∈ l, f x = g x) :
    l.flatMap f = l.flatMap g := by
  induction l with
  | nil => rfl
  | cons a t ih =>
    simp only [List.flatMap_cons]
    rw [h a (by simp), ih (fun x hx => h x (by simp [hx]))]

theorem chansFrom_zero (d : Doc) (p : Nat) : chansFrom d 0 p = (d.pack p).channels := by
  simp [chansFrom, pathsFrom]

theorem chansFrom_succ (d : Doc) (f p : Nat) :
    chansFrom d (f + 1) p = (d.pack p).channels ++ (d.pack p).packs.flatMap (chansFrom d f) := by
  simp only [chansFrom, pathsFrom, List.flatMap_cons, List.getLastD_cons, List.getLastD_nil]
  congr 1
  rw [List.flatMap_assoc]
  refine flatMap_congr' ?_
  intro c _
  rw [List.flatMap_map]
  refine flatMap_congr' ?_
  intro q hq
  have hne := pathsFrom_ne_nil _ f c q hq
  rw [getLastD_cons_ne_nil p p c q hne]

theorem packChannels_eq_chansFrom (d : Doc) (p : Nat) : packChannels d p = chansFrom d d.packs.length p := by
  simp only [packChannels, packPathsChannels, packPaths, chansFrom, List.map_flatMap, List.map_map]
  refine flatMap_congr' ?_
  intro path _
  simp [Function.comp_def]

theorem count_chan_map (c : Nat) (l : List Nat) : List.count (Node.chan c) (l.map Node.chan) = List.count c l := by
  induction l with
  | nil => rfl
  | cons a t ih =>
    simp only [List.map_cons, List.count_cons, ih]
    by_cases h : a = c
    · subst h; simp
    · have : Node.chan a ≠ Node.chan c := fun hh => h (by injection hh)
      simp [h, this]

theorem visit_chan (d : Doc) (f c : Nat) : visit d (f + 1) (.chan c) = [.chan c] := by
  simp [visit, mtChildren]

theorem sum_map_le {α : Type} (l : List α) (g h : α → Nat) (hle : ∀ x ∈ l, g x ≤ h x) :
    (l.map g).sum ≤ (l.map h).sum := by
  induction l with
  | nil => simp
  | cons a t ih =>
    simp only [List.map_cons, List.sum_cons]
    have h1 := hle a (by simp)
    have h2 := ih (fun x hx => hle x (by simp [hx]))
    omega

theorem visit_succ (d : Doc) (f : Nat) (node : Node) :
    visit d (f + 1) node = node :: (mtChildren d node).flatMap (visit d f) := rfl

theorem count_visit_pack (d : Doc) (f p c : Nat) :
    List.count (Node.chan c) (visit d (f + 2) (.pack p)) =
      List.count c (d.pack p).channels +
        ((d.pack p).packs.map (fun q => List.count (Node.chan c) (visit d (f + 1) (.pack q)))).sum := by
  have hne : (Node.pack p == Node.chan c) = false := by simp
  have h1 : (d.pack p).channels.flatMap (fun a => visit d (f + 1) (Node.chan a)) = (d.pack p).channels.map Node.chan := by
    induction (d.pack p).channels with
    | nil => rfl
    | cons a t ih =>
      rw [List.flatMap_cons, ih, visit_chan]; rfl
  rw [visit_succ]
  simp only [mtChildren, List.flatMap_append, List.flatMap_map, List.count_cons, List.count_append, hne]
  rw [h1, count_chan_map, List.count_flatMap]
  simp only [Function.comp_def, Bool.false_eq_true, if_false]
  omega

/-- each channel is visited by the DFS at least as often as `pack_format_channels` yields it -/
theorem count_chansFrom_le (d : Doc) : ∀ f p c,
    List.count c (chansFrom d f p) ≤ List.count (Node.chan c) (visit d (f + 2) (.pack p)) := by
  intro f
  induction f with
  | zero =>
    intro p c
    rw [chansFrom_zero, count_visit_pack]
    omega
  | succ f ih =>
    intro p c
    rw [chansFrom_succ, count_visit_pack, List.count_append, List.count_flatMap]
    have := sum_map_le (d.pack p).packs (List.count c ∘ chansFrom d f)
      (fun q => List.count (Node.chan c) (visit d (f + 1 + 1) (.pack q))) (fun q _ => ih q c)
    omega

theorem filter_length_le_count {α : Type} (l : List α) (g : α → List Nat) (c : Nat) :
    (l.filter (fun a => (g a).contains c)).length ≤ List.count c (l.flatMap g) := by
  induction l with
  | nil => simp
  | cons a t ih =>
    simp only [List.flatMap_cons, List.count_append, List.filter_cons]
    split
    · rename_i hc
      have : 0 < List.count c (g a) := List.count_pos_iff.mpr (by simpa using hc)
      simp only [List.length_cons]
      omega
    · omega

/-- `MultitreeSound`, proved: if `_validate_pack_channel_multitree` accepts the document then under every
pack each reachable channel is found on exactly one pack path (what `_get_pack_format_path` unpacks). -/
theorem multitree_sound (d : Doc) (h : validateMultitree d = .ok ()) : uniquePaths d = true := by
  simp only [uniquePaths, List.all_eq_true, List.mem_range, beq_iff_eq]
  intro p hp c hc
  -- the DFS from p succeeded
  have hdfs := forE_ok h p (List.mem_range.mpr hp)
  cases hm : mtDfs d (d.packs.length + 2) (.pack p) [] [] with
  | error e => rw [hm] at hdfs; cases hdfs
  | ok s' =>
    obtain ⟨hnd, _, _⟩ := mtDfs_ok d _ _ _ _ _ hm
    have hcnt : List.count c (packChannels d p) ≤ 1 := by
      rw [packChannels_eq_chansFrom]
      exact Nat.le_trans (count_chansFrom_le d _ p c) (List.nodup_iff_count.mp hnd _)
    have hle := filter_length_le_count (packPaths d p) (fun path => (d.pack (path.getLastD p)).channels) c
    have hpc : packChannels d p = (packPaths d p).flatMap (fun path => (d.pack (path.getLastD p)).channels) := by
      rw [packChannels_eq_chansFrom]; rfl
    rw [← hpc] at hle
    have hpos : 0 < ((packPaths d p).filter (fun path => (d.pack (path.getLastD p)).channels.contains c)).length := by
      rw [hpc] at hc
      obtain ⟨path, hpath, hcm⟩ := List.mem_flatMap.mp hc
      exact List.length_pos_of_mem (List.mem_filter.mpr ⟨hpath, by simpa using hcm⟩)
    omega

end Earverif.Validate
