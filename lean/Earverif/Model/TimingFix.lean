/-
Model of `ear/fileio/adm/timing_fixes.py` (the audioBlockFormat timing repair) and of the
renderer-side timing checks that decide whether a channel's blocks are renderable
(`ear/core/renderer_common.py: InterpretTimingMetadata.block_start_end`,
`ear/core/objectbased/renderer.py: InterpretObjectMetadata.__call__`,
`ear/core/direct_speakers/renderer.py: InterpretDirectSpeakersMetadata.__call__`).

Core Lean only; times are exact `Rat` (the code uses `fractions.Fraction`).
The model is per audioChannelFormat: the three passes of `check_blockFormat_timings` treat
channels independently (pass 3 visits a channel once per audioObject that references it, in
document order of the audioObjects, which is the `objs` list here).
Everything is a transliteration of the `fix=True` paths; `warnings.warn` becomes an element of a
returned list (kind + index of the block in the channel), `raise ValueError` / `assert False`
become `Except.error`.
-/
namespace Earverif.TimingFix

/-- The timing-relevant part of an `AudioBlockFormat`.
`isObjects` = `isinstance(blockFormat, AudioBlockFormatObjects)`; for other types
`jp`/`il` are ignored by the code (`_has_interpolationLength` is false). -/
structure Block where
  rtime : Option Rat
  duration : Option Rat
  isObjects : Bool
  /-- `jumpPosition.flag` -/
  jp : Bool
  /-- `jumpPosition.interpolationLength` -/
  il : Option Rat
deriving DecidableEq

/-- `audioObject.start`, `audioObject.duration` of an object referencing the channel. -/
structure Obj where
  start : Option Rat
  duration : Option Rat
deriving DecidableEq

/-- The six `warnings.warn` sites of the `fix=True` paths. -/
inductive WKind
  | expanded          -- "expanded duration of block format … to match next rtime"
  | contracted        -- "contracted duration of block format … to match next rtime"
  | ilContracted      -- "contracted interpolationLength of block format … to match duration"
  | ilReducedToObject -- "reduced interpolationLength of … to match duration of …"
  | endAdvanced       -- "advancing end of … by … to match end time of …"
  | endAdvancedIl     -- "while advancing end of … had to reduce the interpolationLength too"
deriving DecidableEq

structure Warn where
  kind : WKind
  /-- index of the block in its channel -/
  block : Nat
deriving DecidableEq

inductive Err
  | valueError  -- `_clamp_blockFormat_end`: the block starts at or after the object's end
  | assertion   -- `_clamp_blockFormat_times`: `assert False, "not validated"` (rtime xor duration)
deriving DecidableEq

/-- `_has_interpolationLength` -/
def hasIL (b : Block) : Bool := b.isObjects && b.jp && b.il.isSome

/-- `check_blockFormat_durations` loop body incl. its `continue` guard, then
`_check_blockFormat_duration(bf_a, bf_b, fix=True)`.  Only `bf_a` is modified. -/
def fixDuration (i : Nat) (a b : Block) : Block × List Warn :=
  match a.rtime, a.duration, b.rtime, b.duration with
  | some ra, some old, some rb, some _ =>
    let new := rb - ra
    if old ≠ new then
      let kind := if new > old then WKind.expanded else WKind.contracted
      -- "if contracting this block makes the interpolation end after the block,
      --  fix it without any more noise"
      let il' := match a.il with
        | some il => if hasIL a && decide (old ≥ il) && decide (new < il) then some new else some il
        | none => none
      ({ a with duration := some new, il := il' }, [⟨kind, i⟩])
    else (a, [])
  | _, _, _, _ => (a, [])

/-- `check_blockFormat_durations(adm, fix=True)` on one channel:
`for bf_a, bf_b in zip(blockFormats[:-1], blockFormats[1:])`.  `bf_b` is read before it is
itself repaired (its rtime never changes and only the None-ness of its duration is read), so
the loop is a right fold over the original list. -/
def checkDurations (i : Nat) : List Block → List Block × List Warn
  | a :: b :: rest =>
    let r := fixDuration i a b
    let rs := checkDurations (i + 1) (b :: rest)
    (r.1 :: rs.1, r.2 ++ rs.2)
  | bs => (bs, [])

/-- loop body of `check_blockFormat_interpolationLengths(adm, fix=True)` -/
def fixIL (i : Nat) (b : Block) : Block × List Warn :=
  match b.rtime, b.duration, b.il with
  | some _, some d, some il =>
    if hasIL b && decide (il > d) then ({ b with il := some d }, [⟨.ilContracted, i⟩]) else (b, [])
  | _, _, _ => (b, [])

/-- `check_blockFormat_interpolationLengths(adm, fix=True)` on one channel -/
def checkILs (i : Nat) : List Block → List Block × List Warn
  | [] => ([], [])
  | b :: rest =>
    let r := fixIL i b
    let rs := checkILs (i + 1) rest
    (r.1 :: rs.1, r.2 ++ rs.2)

/-- `_clamp_blockFormat_interpolationLength(blockFormat, audioObject, fix=True)`;
`D = audioObject.duration` -/
def clampInterpolationLength (i : Nat) (D : Rat) (b : Block) : Block × List Warn :=
  match b.il with
  | some il =>
    if hasIL b && decide (il > D) then ({ b with il := some D }, [⟨.ilReducedToObject, i⟩]) else (b, [])
  | none => (b, [])

/-- `_clamp_blockFormat_end(blockFormat, audioObject, fix=True)` for a block with
`rtime = r`, `duration = d`; note the comparison is against `audioObject.duration`
(block times are relative to the object's start). -/
def clampEnd (i : Nat) (D r d : Rat) (b : Block) : Except Err (Block × List Warn) :=
  let blockEnd := r + d
  if blockEnd > D then
    let shift := blockEnd - D
    if shift ≥ d then .error .valueError
    else
      let d' := d - shift
      match b.il with
      | some il =>
        if hasIL b && decide (il > d') then
          .ok ({ b with duration := some d', il := some d' }, [⟨.endAdvanced, i⟩, ⟨.endAdvancedIl, i⟩])
        else .ok ({ b with duration := some d' }, [⟨.endAdvanced, i⟩])
      | none => .ok ({ b with duration := some d' }, [⟨.endAdvanced, i⟩])
  else .ok (b, [])

/-- `_clamp_blockFormat_times(blockFormat, audioObject, fix=True)` -/
def clampBlockFormatTimes (i : Nat) (D : Rat) (b : Block) : Except Err (Block × List Warn) :=
  match b.rtime, b.duration with
  | none, none => .ok (clampInterpolationLength i D b)
  | some r, some d => clampEnd i D r d b
  | _, _ => .error .assertion

/-- inner loop of `check_blockFormat_times_for_audioObjects`: all blocks of the channel
against one object duration; stops at the first exception. -/
def clampBlocks (i : Nat) (D : Rat) : List Block → Except Err (List Block × List Warn)
  | [] => .ok ([], [])
  | b :: rest =>
    match clampBlockFormatTimes i D b with
    | .error e => .error e
    | .ok r =>
      match clampBlocks (i + 1) D rest with
      | .error e => .error e
      | .ok rs => .ok (r.1 :: rs.1, r.2 ++ rs.2)

/-- `check_blockFormat_times_for_audioObjects(adm, fix=True)` restricted to one channel:
`for audioObject in adm.audioObjects: if audioObject.duration is None: continue; …`.
`audioObject.start` is not read. -/
def checkTimesForObjects : List Obj → List Block → Except Err (List Block × List Warn)
  | [], bs => .ok (bs, [])
  | o :: os, bs =>
    match o.duration with
    | none => checkTimesForObjects os bs
    | some D =>
      match clampBlocks 0 D bs with
      | .error e => .error e
      | .ok r =>
        match checkTimesForObjects os r.1 with
        | .error e => .error e
        | .ok rs => .ok (rs.1, r.2 ++ rs.2)

/-- `fix_blockFormat_timings(adm)` = `check_blockFormat_timings(adm, fix=True)` on one channel:
durations, then interpolationLengths, then clamping to the objects — in this order. -/
def fixTimings (objs : List Obj) (bs : List Block) : Except Err (List Block × List Warn) :=
  let p1 := checkDurations 0 bs
  let p2 := checkILs 0 p1.1
  match checkTimesForObjects objs p2.1 with
  | .error e => .error e
  | .ok r => .ok (r.1, p1.2 ++ p2.2 ++ r.2)

/-- `fix_blockFormat_durations(adm)` (what the deprecated reader option
`fix_block_format_durations=True` runs): the duration pass only. -/
def fixDurationsOnly (bs : List Block) : List Block × List Warn := checkDurations 0 bs

/-! ### Renderer-side acceptance -/

/-- What the metadata interpreters do with a channel's block sequence. -/
inductive Verdict
  | ok
  | endsAfterObject  -- "block … ends after object"
  | mixedTiming      -- "rtime and duration must be used together."
  | overlap          -- "overlapping blocks … detected"
  | interpTooLong    -- "specified interpolation length is longer than block …"
  | assertInf        -- `assert not math.isinf(target_sample)` (AssertionError)
deriving DecidableEq

/-- `block_start_end` up to (not including) the overlap check.  Times are absolute;
the end is `none` for `np.inf`. -/
def blockStartEnd (o : Obj) (b : Block) : Except Verdict (Rat × Option Rat) :=
  let objectStart := o.start.getD 0
  let objectEnd : Option Rat := o.duration.map (objectStart + ·)
  match b.rtime, b.duration with
  | some r, some d =>
    let blockStart := objectStart + r
    let blockEnd := blockStart + d
    match objectEnd with
    | some e => if blockEnd > e then .error .endsAfterObject else .ok (blockStart, some blockEnd)
    | none => .ok (blockStart, some blockEnd)
  | none, none => .ok (objectStart, objectEnd)
  | _, _ => .error .mixedTiming

/-- `self.__last_block_end is not None and block_start < self.__last_block_end`
(outer `none` = no previous block, `some none` = previous block ended at `inf`). -/
def overlaps (last : Option (Option Rat)) (s : Rat) : Bool :=
  match last with
  | none => false
  | some none => true
  | some (some le) => decide (s < le)

/-- The checks `InterpretObjectMetadata.__call__` adds for Objects blocks, given the block's
start `s` and end `e`:  `target_time > end_time` with
`interp_length = interpolationLength or 0 if jumpPosition.flag else end - start`; and the
`assert not math.isinf(target_sample)` that fires when a block without end continues
directly from the previous block and has no jumpPosition. -/
def interpCheck (b : Block) (last : Option (Option Rat)) (s : Rat) (e : Option Rat) : Option Verdict :=
  if b.isObjects then
    match e with
    | some e => if b.jp && decide (s + b.il.getD 0 > e) then some .interpTooLong else none
    | none => if !b.jp && last == some (some s) then some .assertInf else none
  else none

/-- Feed the blocks in sequence to one interpreter instance. -/
def acceptGo (o : Obj) : Option (Option Rat) → List Block → Verdict
  | _, [] => .ok
  | last, b :: rest =>
    match blockStartEnd o b with
    | .error v => v
    | .ok (s, e) =>
      if overlaps last s then .overlap
      else match interpCheck b last s e with
        | some v => v
        | none => acceptGo o (some e) rest

/-- Verdict of the metadata interpreter (Objects or DirectSpeakers, chosen by the blocks'
type) on a channel's blocks rendered for object `o` (`extra_data.object_start`,
`extra_data.object_duration`). -/
def accepted (o : Obj) (bs : List Block) : Verdict := acceptGo o none bs

/-! ### Writing exact times with `k` decimals (the input class of the property; `harness/c15.py: rnd`) -/

/-- Python `round(Fraction)` (`Fraction.__round__` with `ndigits=None`): nearest integer, exact
halves to the even neighbour. -/
def roundHalfEvenInt (y : Rat) : Int :=
  let f := y.floor
  let r := y - (f : Rat)
  if r < 1 / 2 then f else if r > 1 / 2 then f + 1 else if f % 2 = 0 then f else f + 1

/-- write `x` with `k` decimals using the integer rounding `rint` of `x·10^k` -/
def decWith (rint : Rat → Int) (k : Nat) (x : Rat) : Rat :=
  ((rint (x * (10 : Rat) ^ k) : Int) : Rat) * ((10 : Rat) ^ k)⁻¹

def roundHalfEven (k : Nat) : Rat → Rat := decWith roundHalfEvenInt k
def floorDec (k : Nat) : Rat → Rat := decWith Rat.floor k
def ceilDec (k : Nat) : Rat → Rat := decWith Rat.ceil k

end Earverif.TimingFix
