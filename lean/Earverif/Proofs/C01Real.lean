/- The gain-calculator model over ℝ: `Scalar ℝ` instance, bridge lemmas and the list algebra used by
   Props/C01.lean. -/
import Earverif.Model.GainCalc
import Mathlib.Analysis.SpecialFunctions.Trigonometric.Basic
import Mathlib.Analysis.SpecialFunctions.Sqrt
import Mathlib.Analysis.SpecialFunctions.Pow.Real
import Mathlib.Analysis.SpecialFunctions.Complex.Arg
import Mathlib.Algebra.BigOperators.Group.Finset.Basic
import Mathlib.Tactic.Ring
import Mathlib.Tactic.FieldSimp
import Mathlib.Tactic.Linarith
import Mathlib.Tactic.Positivity
import Mathlib.Tactic.NormNum

namespace Earverif.GainCalc

noncomputable instance instScalarReal : Scalar ℝ where
  ofRat q := (q : ℝ)
  sqrt := Real.sqrt
  cos := Real.cos
  sin := Real.sin
  pi := Real.pi
  pow := Real.rpow
  atan2 y x := Complex.arg ⟨x, y⟩
  tan := Real.tan
  nanToNum x := x
  decLt _ _ := Classical.propDecidable _
  decLe _ _ := Classical.propDecidable _

@[simp] theorem sqrt_real (x : ℝ) : Scalar.sqrt x = Real.sqrt x := rfl
@[simp] theorem cos_real (x : ℝ) : Scalar.cos x = Real.cos x := rfl
@[simp] theorem sin_real (x : ℝ) : Scalar.sin x = Real.sin x := rfl
@[simp] theorem pi_real : (Scalar.pi : ℝ) = Real.pi := rfl
@[simp] theorem pow_real (x y : ℝ) : Scalar.pow x y = x ^ y := rfl
@[simp] theorem nanToNum_real (x : ℝ) : Scalar.nanToNum x = x := rfl
@[simp] theorem ofRat_real (q : Rat) : (Scalar.ofRat q : ℝ) = (q : ℝ) := rfl
@[simp] theorem k_real (q : Rat) : (k q : ℝ) = (q : ℝ) := rfl
@[simp] theorem zero_real : (zero : ℝ) = 0 := by simp [zero]
@[simp] theorem one_real : (one : ℝ) = 1 := by simp [one]

theorem eqS_real (x y : ℝ) : eqS x y = true ↔ x = y := by
  simp only [eqS, Bool.and_eq_true, decide_eq_true_eq]
  exact ⟨fun h => le_antisymm h.1 h.2, fun h => ⟨h.le, h.ge⟩⟩

/-- every entry is ≥ 0 -/
def Nonneg (v : List ℝ) : Prop := ∀ x ∈ v, 0 ≤ x

/-! ### sums -/

@[simp] theorem sum_nil : sum ([] : List ℝ) = 0 := by simp [sum]
@[simp] theorem sum_cons (x : ℝ) (xs : List ℝ) : sum (x :: xs) = x + sum xs := rfl
@[simp] theorem sumSq_nil : sumSq ([] : List ℝ) = 0 := by simp [sumSq, sq]
@[simp] theorem sumSq_cons (x : ℝ) (xs : List ℝ) : sumSq (x :: xs) = x * x + sumSq xs := by
  simp [sumSq, sq]

theorem sum_eq_listSum : ∀ v : List ℝ, sum v = v.sum
  | [] => by simp
  | x :: xs => by simp [sum_eq_listSum xs]

theorem sum_nonneg : ∀ {v : List ℝ}, Nonneg v → 0 ≤ sum v
  | [], _ => by simp
  | x :: xs, h => by
    have h1 : 0 ≤ x := h x (by simp)
    have h2 := sum_nonneg (v := xs) (fun y hy => h y (by simp [hy]))
    simp only [sum_cons]; linarith

theorem sumSq_nonneg : ∀ v : List ℝ, 0 ≤ sumSq v
  | [] => by simp
  | x :: xs => by
    have := sumSq_nonneg xs
    simp only [sumSq_cons]; nlinarith [mul_self_nonneg x]

theorem sumSq_eq_sum_sq (v : List ℝ) : sumSq v = sum (sq v) := rfl

theorem sq_nonneg' (v : List ℝ) : Nonneg (sq v) := by
  intro x hx
  simp only [sq, List.mem_map] at hx
  obtain ⟨y, _, rfl⟩ := hx
  exact mul_self_nonneg y

@[simp] theorem length_sq (v : List ℝ) : (sq v).length = v.length := by simp [sq]

@[simp] theorem length_zeros (n : Nat) : (zeros n : List ℝ).length = n := by simp [zeros]

@[simp] theorem sum_zeros : ∀ n : Nat, sum (zeros n : List ℝ) = 0
  | 0 => by simp [zeros]
  | n + 1 => by
    have := sum_zeros n
    simp only [zeros, List.replicate_succ, sum_cons, zero_real] at this ⊢
    linarith

theorem zeros_nonneg (n : Nat) : Nonneg (zeros n : List ℝ) := by
  intro x hx
  simp only [zeros, List.mem_replicate, zero_real] at hx
  exact hx.2.ge

theorem sumSq_zeros (n : Nat) : sumSq (zeros n : List ℝ) = 0 := by
  induction n with
  | zero => simp [zeros]
  | succ n ih =>
    simp only [zeros, List.replicate_succ, sumSq_cons, zero_real] at ih ⊢
    linarith

theorem sum_map_mul (w : ℝ) : ∀ r : List ℝ, sum (r.map fun x => w * x) = w * sum r
  | [] => by simp
  | x :: xs => by simp [sum_map_mul w xs]; ring

theorem sum_vadd : ∀ {a b : List ℝ}, a.length = b.length → sum (vadd a b) = sum a + sum b
  | [], [], _ => by simp [vadd]
  | [], _ :: _, h => by simp at h
  | _ :: _, [], h => by simp at h
  | x :: xs, y :: ys, h => by
    have ih := sum_vadd (a := xs) (b := ys) (by simpa using h)
    simp only [vadd, List.zipWith_cons_cons, sum_cons] at ih ⊢
    linarith

theorem length_vadd (a b : List ℝ) : (vadd a b).length = min a.length b.length := by
  simp [vadd]

theorem vadd_nonneg : ∀ {a b : List ℝ}, Nonneg a → Nonneg b → Nonneg (vadd a b)
  | [], _, _, _ => by intro x hx; simp [vadd] at hx
  | _ :: _, [], _, _ => by intro x hx; simp [vadd] at hx
  | p :: ps, q :: qs, ha, hb => by
    intro x hx
    simp only [vadd, List.zipWith_cons_cons, List.mem_cons] at hx
    rcases hx with rfl | hx
    · have := ha p (by simp); have := hb q (by simp); linarith
    · exact vadd_nonneg (a := ps) (b := qs) (fun z hz => ha z (by simp [hz])) (fun z hz => hb z (by simp [hz])) x hx

/-! ### `np.dot(w, M)` -/

theorem length_vecMat (n : Nat) : ∀ (w : List ℝ) (M : List (List ℝ)), (∀ r ∈ M, r.length = n) →
    (vecMat n w M).length = n
  | [], _, _ => by simp [vecMat]
  | _ :: _, [], _ => by simp [vecMat]
  | w :: ws, r :: rs, h => by
    have ih := length_vecMat n ws rs (fun r' hr => h r' (by simp [hr]))
    have hr := h r (by simp)
    simp [vecMat, length_vadd, ih, hr]

theorem sum_vecMat (n : Nat) : ∀ (w : List ℝ) (M : List (List ℝ)), (∀ r ∈ M, r.length = n) →
    sum (vecMat n w M) = dot w (M.map sum)
  | [], _, _ => by simp [vecMat, dot]
  | _ :: _, [], _ => by simp [vecMat, dot]
  | w :: ws, r :: rs, h => by
    have hr := h r (by simp)
    have hrs : ∀ r' ∈ rs, r'.length = n := fun r' hr' => h r' (by simp [hr'])
    have ih := sum_vecMat n ws rs hrs
    have hl := length_vecMat n ws rs hrs
    simp only [vecMat, List.map_cons, dot]
    rw [sum_vadd (by simp [hl, hr]), sum_map_mul, ih]

theorem vecMat_nonneg (n : Nat) : ∀ (w : List ℝ) (M : List (List ℝ)), Nonneg w → (∀ r ∈ M, Nonneg r) →
    Nonneg (vecMat n w M)
  | [], _, _, _ => by simpa [vecMat] using zeros_nonneg n
  | _ :: _, [], _, _ => by simpa [vecMat] using zeros_nonneg n
  | w :: ws, r :: rs, hw, hM => by
    have ih := vecMat_nonneg n ws rs (fun x hx => hw x (by simp [hx])) (fun r' hr' => hM r' (by simp [hr']))
    simp only [vecMat]
    refine vadd_nonneg ?_ ih
    intro x hx
    simp only [List.mem_map] at hx
    obtain ⟨y, hy, rfl⟩ := hx
    exact mul_nonneg (hw w (by simp)) (hM r (by simp) y hy)

/-- weighted sum of values that all lie in `[lo, hi]`, non-negative weights -/
theorem dot_bounds {lo hi : ℝ} : ∀ {w l : List ℝ}, w.length = l.length → Nonneg w →
    (∀ x ∈ l, lo ≤ x ∧ x ≤ hi) → lo * sum w ≤ dot w l ∧ dot w l ≤ hi * sum w
  | [], [], _, _, _ => by simp [dot]
  | [], _ :: _, h, _, _ => by simp at h
  | _ :: _, [], h, _, _ => by simp at h
  | a :: as, b :: bs, h, hw, hl => by
    have ih := dot_bounds (w := as) (l := bs) (by simpa using h) (fun x hx => hw x (by simp [hx]))
      (fun x hx => hl x (by simp [hx]))
    have ha : 0 ≤ a := hw a (by simp)
    have hb := hl b (by simp)
    simp only [dot, sum_cons]
    constructor
    · nlinarith [mul_le_mul_of_nonneg_left hb.1 ha]
    · nlinarith [mul_le_mul_of_nonneg_left hb.2 ha]

/-! ### elementwise square root, scaling, scatter -/

theorem vsqrt_nonneg (v : List ℝ) : Nonneg (vsqrt v) := by
  intro x hx
  simp only [vsqrt, List.mem_map, sqrt_real] at hx
  obtain ⟨y, _, rfl⟩ := hx
  exact Real.sqrt_nonneg y

@[simp] theorem length_vsqrt (v : List ℝ) : (vsqrt v).length = v.length := by simp [vsqrt]

theorem sumSq_vsqrt : ∀ {v : List ℝ}, Nonneg v → sumSq (vsqrt v) = sum v
  | [], _ => by simp [vsqrt]
  | x :: xs, h => by
    have ih := sumSq_vsqrt (v := xs) (fun y hy => h y (by simp [hy]))
    have hx : 0 ≤ x := h x (by simp)
    simp only [vsqrt, List.map_cons, sumSq_cons, sqrt_real, sum_cons] at ih ⊢
    rw [ih, Real.mul_self_sqrt hx]

theorem sumSq_map_mul (a : ℝ) : ∀ v : List ℝ, sumSq (v.map fun x => x * a) = sumSq v * (a * a)
  | [] => by simp
  | x :: xs => by
    simp only [List.map_cons, sumSq_cons, sumSq_map_mul a xs]; ring

theorem map_mul_nonneg {a : ℝ} (ha : 0 ≤ a) {v : List ℝ} (hv : Nonneg v) : Nonneg (v.map fun x => x * a) := by
  intro x hx
  simp only [List.mem_map] at hx
  obtain ⟨y, hy, rfl⟩ := hx
  exact mul_nonneg (hv y hy) ha

theorem length_scatter : ∀ (m : List Bool) (v : List ℝ), (scatter m v).length = m.length
  | [], _ => by simp [scatter]
  | true :: m, v => by simp [scatter, length_scatter m v]
  | false :: m, x :: v => by simp [scatter, length_scatter m v]
  | false :: m, [] => by simp [scatter, length_scatter m []]

theorem sumSq_scatter : ∀ (m : List Bool) (v : List ℝ), v.length = countFalse m → sumSq (scatter m v) = sumSq v
  | [], [], _ => by simp [scatter]
  | [], _ :: _, h => by simp [countFalse] at h
  | true :: m, v, h => by
    have ih := sumSq_scatter m v (by simpa [countFalse] using h)
    simp [scatter, ih]
  | false :: m, x :: v, h => by
    have ih := sumSq_scatter m v (by simpa [countFalse] using h)
    simp [scatter, ih]
  | false :: m, [], h => by simp [countFalse] at h

theorem scatter_nonneg : ∀ (m : List Bool) {v : List ℝ}, Nonneg v → Nonneg (scatter m v)
  | [], _, _ => by intro x hx; simp [scatter] at hx
  | true :: m, v, h => by
    intro x hx
    simp only [scatter, List.mem_cons, zero_real] at hx
    rcases hx with rfl | hx
    · exact le_rfl
    · exact scatter_nonneg m h x hx
  | false :: m, y :: v, h => by
    intro x hx
    simp only [scatter, List.mem_cons] at hx
    rcases hx with rfl | hx
    · exact h _ (by simp)
    · exact scatter_nonneg m (fun z hz => h z (by simp [hz])) x hx
  | false :: m, [], h => by
    intro x hx
    simp only [scatter, List.mem_cons, zero_real] at hx
    rcases hx with rfl | hx
    · exact le_rfl
    · exact scatter_nonneg m h x hx

end Earverif.GainCalc
