/- Sub-model lemmas for C01 (over ℝ): divergence gains, zone downmix rows, depth RMS, calc_pv_spread skeleton,
   the two normalisations, the allocentric balance pan. -/
import Earverif.Proofs.C01Real

namespace Earverif.GainCalc

/-- H2: non-negative entries, every row sums to one -/
def Stochastic (D : List (List ℝ)) : Prop := ∀ r ∈ D, Nonneg r ∧ sum r = 1

theorem eqS_eq_decide (x y : ℝ) : eqS x y = decide (x = y) := by
  by_cases h : x = y
  · simp [h, (eqS_real y y).mpr rfl]
  · have : eqS x y = false := by
      rw [Bool.eq_false_iff]; intro h'; exact h ((eqS_real x y).mp h')
    simp [h, this]

theorem mapM_some_mem {β γ : Type} (f : β → Option γ) : ∀ (l : List β) (out : List γ), l.mapM f = some out →
    ∀ r ∈ out, ∃ b ∈ l, f b = some r
  | [], out, h, r, hr => by
    simp only [List.mapM_nil, Option.pure_def, Option.some.injEq] at h
    subst h; simp at hr
  | b :: l, out, h, r, hr => by
    rw [List.mapM_cons] at h
    cases hb : f b with
    | none => simp [hb] at h
    | some c =>
      cases hl : l.mapM f with
      | none => simp [hb, hl] at h
      | some cs =>
        simp only [hb, hl, Option.bind_eq_bind, Option.bind_some, Option.pure_def, Option.some.injEq] at h
        subst h
        simp only [List.mem_cons] at hr
        rcases hr with rfl | hr
        · exact ⟨b, by simp, hb⟩
        · obtain ⟨b', hb', hf⟩ := mapM_some_mem f l cs hl r hr
          exact ⟨b', by simp [hb'], hf⟩

/-! ### `diverge` -/

theorem divergeGains_some (v : ℝ) (h : v ≠ 0) :
    divergeGains (some v) = [v / (v + 1), (1 - v) / (v + 1), v / (v + 1)] := by
  simp [divergeGains, eqS_eq_decide, h]

theorem divergeGains_zero : divergeGains (some (0 : ℝ)) = [1] := by
  simp [divergeGains, eqS_eq_decide]

/-- `g_l + g_c + g_r = 1` for every divergence value ≥ 0 (and with no divergence element). -/
theorem diverge_gains_sum_one (v : Option ℝ) (hv : ∀ y, v = some y → 0 ≤ y) : sum (divergeGains v) = 1 := by
  cases v with
  | none => simp [divergeGains]
  | some y =>
    have h0 := hv y rfl
    by_cases hy : y = 0
    · subst hy; simp [divergeGains_zero]
    · rw [divergeGains_some y hy]
      have : y + 1 ≠ 0 := by linarith
      simp only [sum_cons, sum_nil]
      field_simp
      ring

/-- the divergence gains are ≥ 0 for `0 ≤ value ≤ 1` -/
theorem diverge_gains_nonneg (v : Option ℝ) (hv : ∀ y, v = some y → 0 ≤ y ∧ y ≤ 1) : Nonneg (divergeGains v) := by
  cases v with
  | none => intro x hx; simp [divergeGains] at hx; simp [hx]
  | some y =>
    obtain ⟨h0, h1⟩ := hv y rfl
    by_cases hy : y = 0
    · subst hy; intro x hx; simp [divergeGains_zero] at hx; simp [hx]
    · rw [divergeGains_some y hy]
      have hp : 0 < y + 1 := by linarith
      intro x hx
      simp only [List.mem_cons, List.not_mem_nil, or_false] at hx
      rcases hx with rfl | rfl | rfl
      · exact div_nonneg h0 hp.le
      · exact div_nonneg (by linarith) hp.le
      · exact div_nonneg h0 hp.le

/-! ### `downmix_for_excluded` -/

theorem listSum_range_map (f : ℕ → ℝ) : ∀ n : ℕ, ((List.range n).map f).sum = ∑ j ∈ Finset.range n, f j
  | 0 => by simp
  | n + 1 => by
    rw [List.range_succ, List.map_append, List.sum_append, listSum_range_map f n, Finset.sum_range_succ]
    simp

/-- a row holding `c` at the (distinct, in-range) indices `S` and 0 elsewhere sums to `|S| · c` -/
theorem sum_indicator (n : ℕ) (S : List ℕ) (c : ℝ) (hn : S.Nodup) (hb : ∀ j ∈ S, j < n) :
    sum ((List.range n).map fun j => if S.contains j then c else 0) = S.length * c := by
  rw [sum_eq_listSum, listSum_range_map]
  have h1 : ∀ j, (if S.contains j = true then c else 0) = if j ∈ S.toFinset then c else 0 := by
    intro j; simp
  simp only [h1]
  rw [Finset.sum_ite_mem, Finset.sum_const, nsmul_eq_mul]
  have h2 : Finset.range n ∩ S.toFinset = S.toFinset := by
    apply Finset.inter_eq_right.mpr
    intro j hj
    simp only [List.mem_toFinset] at hj
    simpa using hb j hj
  rw [h2, List.toFinset_card_of_nodup hn]

theorem notExcluded_lt (excluded : List Bool) (grp : List ℕ) : ∀ j ∈ notExcluded excluded grp, j < excluded.length := by
  intro j hj
  simp only [notExcluded, List.mem_filter, Bool.not_eq_eq_eq_not, Bool.not_true] at hj
  by_contra hlt
  have : excluded.getD j true = true := by
    simp [List.getD, List.getElem?_eq_none (Nat.le_of_not_lt hlt)]
  rw [this] at hj
  exact Bool.noConfusion hj.2

theorem notExcluded_nodup (excluded : List Bool) {grp : List ℕ} (h : grp.Nodup) : (notExcluded excluded grp).Nodup :=
  List.Nodup.filter _ h

theorem notExcluded_ne_nil (excluded : List Bool) : ∀ (grp : List ℕ), allExcluded excluded grp = some false →
    notExcluded excluded grp ≠ []
  | [], h => by simp [allExcluded] at h
  | j :: js, h => by
    simp only [allExcluded, Option.bind_eq_bind] at h
    cases hj : excluded[j]? with
    | none => simp [hj] at h
    | some e =>
      cases hr : allExcluded excluded js with
      | none => simp [hj, hr] at h
      | some r =>
        simp only [hj, hr, Option.bind_some, Option.pure_def, Option.some.injEq, Bool.and_eq_false_iff] at h
        rcases h with h | h
        · subst h
          simp [notExcluded, List.getD, hj]
        · subst h
          have ih := notExcluded_ne_nil excluded js hr
          intro hnil
          apply ih
          simp only [notExcluded] at hnil ⊢
          rw [List.filter_cons] at hnil
          split at hnil
          · simp at hnil
          · exact hnil

theorem firstUsable_spec (excluded : List Bool) : ∀ (grps : List (List ℕ)) (ne : List ℕ),
    firstUsable excluded grps = some ne → ∃ grp ∈ grps, ne = notExcluded excluded grp ∧ ne ≠ []
  | [], _, h => by simp [firstUsable] at h
  | grp :: rest, ne, h => by
    simp only [firstUsable] at h
    cases ha : allExcluded excluded grp with
    | none => simp [ha] at h
    | some b =>
      cases b with
      | true =>
        simp only [ha] at h
        obtain ⟨g', hg', h'⟩ := firstUsable_spec excluded rest ne h
        exact ⟨g', by simp [hg'], h'⟩
      | false =>
        simp only [ha, Option.some.injEq] at h
        subst h
        exact ⟨grp, by simp, rfl, notExcluded_ne_nil excluded grp ha⟩

theorem downmixRow_nonneg (n : ℕ) (ne : List ℕ) : Nonneg (downmixRow n ne : List ℝ) := by
  intro x hx
  simp only [downmixRow, List.mem_map] at hx
  obtain ⟨j, _, rfl⟩ := hx
  split
  · simp only [one_real, k_real]
    apply div_nonneg zero_le_one
    simp [Rat.mkRat_one]
  · simp

theorem downmixRow_sum (n : ℕ) (ne : List ℕ) (hn : ne.Nodup) (hb : ∀ j ∈ ne, j < n) (h0 : ne ≠ []) :
    sum (downmixRow n ne : List ℝ) = 1 := by
  have hc : (k (mkRat ne.length 1) : ℝ) = ne.length := by simp [Rat.mkRat_one]
  have hl : (ne.length : ℝ) ≠ 0 := by
    have : 0 < ne.length := List.length_pos_of_ne_nil h0
    positivity
  simp only [downmixRow, one_real, zero_real, hc]
  rw [sum_indicator n ne _ hn hb]
  field_simp

theorem eye_row_sum (n i : ℕ) (hi : i < n) :
    sum ((List.range n).map fun j => if (i == j) = true then (one : ℝ) else zero) = 1 := by
  have := sum_indicator n [i] (1 : ℝ) (by simp) (by simpa using hi)
  simp only [List.length_singleton, Nat.cast_one, one_mul] at this
  rw [← this]
  congr 1
  refine List.map_congr_left ?_
  intro j _
  by_cases h : i = j
  · subst h; simp
  · have h' : ¬ j = i := fun e => h e.symm
    simp [h, h']

theorem eye_stochastic (n : ℕ) : Stochastic (eye n : List (List ℝ)) := by
  intro r hr
  simp only [eye, List.mem_map, List.mem_range] at hr
  obtain ⟨i, hi, rfl⟩ := hr
  refine ⟨?_, eye_row_sum n i hi⟩
  intro x hx
  simp only [List.mem_map] at hx
  obtain ⟨j, _, rfl⟩ := hx
  split <;> simp

theorem downmix_stochastic (groups : List (List (List ℕ))) (excluded : List Bool) (D : List (List ℝ))
    (hn : ∀ grps ∈ groups, ∀ grp ∈ grps, grp.Nodup) (h : downmixForExcluded groups excluded = some D) :
    Stochastic D := by
  simp only [downmixForExcluded] at h
  split at h
  · simp at h
  · rename_i hlen
    have hlen' : excluded.length = groups.length := by simpa using hlen
    split at h
    · simp only [Option.some.injEq] at h
      subst h
      exact eye_stochastic _
    · intro r hr
      obtain ⟨grps, hgr, hrow⟩ := mapM_some_mem _ groups D h r hr
      simp only [Option.map_eq_some_iff] at hrow
      obtain ⟨ne, hne, rfl⟩ := hrow
      obtain ⟨grp, hgrp, rfl, hnz⟩ := firstUsable_spec excluded grps ne hne
      refine ⟨downmixRow_nonneg _ _, downmixRow_sum _ _ (notExcluded_nodup excluded (hn grps hgr grp hgrp)) ?_ hnz⟩
      intro j hj
      rw [← hlen']
      exact notExcluded_lt excluded grp j hj

/-- every row of the zone downmix sums to one (the model of `downmix_for_excluded` returned a matrix;
    groups duplicate-free, as `unique_groups` over `enumerate` builds them) -/
theorem downmix_rows_sum_one (groups : List (List (List ℕ))) (excluded : List Bool) (D : List (List ℝ))
    (hn : ∀ grps ∈ groups, ∀ grp ∈ grps, grp.Nodup) (h : downmixForExcluded groups excluded = some D) :
    ∀ r ∈ D, sum r = 1 := fun r hr => (downmix_stochastic groups excluded D hn h r hr).2

/-- the zone downmix is non-negative (no hypothesis on the groups) -/
theorem downmix_nonneg (groups : List (List (List ℕ))) (excluded : List Bool) (D : List (List ℝ))
    (h : downmixForExcluded groups excluded = some D) : ∀ r ∈ D, Nonneg r := by
  simp only [downmixForExcluded] at h
  split at h
  · simp at h
  · split at h
    · simp only [Option.some.injEq] at h
      subst h
      exact fun r hr => (eye_stochastic _ r hr).1
    · intro r hr
      obtain ⟨grps, _, hrow⟩ := mapM_some_mem _ groups D h r hr
      simp only [Option.map_eq_some_iff] at hrow
      obtain ⟨ne, _, rfl⟩ := hrow
      exact downmixRow_nonneg _ _

/-! ### depth RMS -/

theorem depthCombine_nonneg (p1 p2 : List ℝ) : Nonneg (depthCombine p1 p2) := by
  intro x hx
  simp only [depthCombine] at hx
  obtain ⟨i, hi, rfl⟩ := List.getElem_of_mem hx
  simp only [List.getElem_zipWith, sqrt_real]
  exact Real.sqrt_nonneg _

theorem depthCombine_power : ∀ (p1 p2 : List ℝ), p1.length = p2.length →
    sumSq (depthCombine p1 p2) = (sumSq p1 + sumSq p2) / 2
  | [], [], _ => by simp [depthCombine]
  | [], _ :: _, h => by simp at h
  | _ :: _, [], h => by simp at h
  | a :: as, b :: bs, h => by
    have ih := depthCombine_power as bs (by simpa using h)
    simp only [depthCombine, List.zipWith_cons_cons, sumSq_cons, sqrt_real, k_real] at ih ⊢
    rw [ih, Real.mul_self_sqrt (by
      have : (0:ℝ) ≤ a * a + b * b := by nlinarith [mul_self_nonneg a, mul_self_nonneg b]
      push_cast; positivity)]
    push_cast; ring

/-- RMS of two unit-power vectors has unit power -/
theorem depthCombine_unit (p1 p2 : List ℝ) (hl : p1.length = p2.length) (h1 : sumSq p1 = 1) (h2 : sumSq p2 = 1) :
    sumSq (depthCombine p1 p2) = 1 := by
  rw [depthCombine_power p1 p2 hl, h1, h2]; norm_num

/-! ### `calc_pv_spread` skeleton -/

theorem sum_scaled_sq (a : ℝ) : ∀ p : List ℝ, sum (p.map fun x => a * (x * x)) = a * sumSq p
  | [] => by simp
  | x :: xs => by simp [sum_scaled_sq a xs]; ring

theorem scaled_sq_nonneg {a : ℝ} (ha : 0 ≤ a) (p : List ℝ) : Nonneg (p.map fun x => a * (x * x)) := by
  intro y hy
  simp only [List.mem_map] at hy
  obtain ⟨x, _, rfl⟩ := hy
  exact mul_nonneg ha (mul_self_nonneg x)

/-- `calc_pv_spread`: with unit-power `p` and `s` and `0 ≤ ammount_spread ≤ 1` the result is non-negative with
    power in `[1 − 1e-10, 1]` (exactly 1 unless a term at or below the 1e-10 threshold was dropped). -/
theorem pvSpread_power (n : ℕ) (a : ℝ) (p s : List ℝ) (h0 : 0 ≤ a) (h1 : a ≤ 1) (hp : p.length = n) (hs : s.length = n)
    (hpu : sumSq p = 1) (hsu : sumSq s = 1) :
    Nonneg (calcPvSpread n a p s) ∧ 1 - 1 / 10000000000 ≤ sumSq (calcPvSpread n a p s) ∧
    sumSq (calcPvSpread n a p s) ≤ 1 := by
  refine ⟨vsqrt_nonneg _, ?_⟩
  have hap : (0:ℝ) ≤ 1 - a := by linarith
  have hz := zeros_nonneg n
  have hlz : (zeros n : List ℝ).length = n := length_zeros n
  have hthr : ((k (1 / 10000000000) : ℝ)) = 1 / 10000000000 := by simp
  simp only [calcPvSpread, one_real, hthr]
  by_cases c1 : (1 / 10000000000 : ℝ) < 1 - a <;> by_cases c2 : (1 / 10000000000 : ℝ) < a <;>
    simp only [c1, c2, if_true, if_false]
  · have hn1 : Nonneg (vadd (zeros n) (p.map fun x => (1 - a) * (x * x))) := vadd_nonneg hz (scaled_sq_nonneg hap p)
    rw [sumSq_vsqrt (vadd_nonneg hn1 (scaled_sq_nonneg h0 s)),
      sum_vadd (by simp [length_vadd, hlz, hp, hs]), sum_vadd (by simp [hlz, hp]), sum_zeros, sum_scaled_sq,
      sum_scaled_sq, hpu, hsu]
    constructor <;> linarith
  · rw [sumSq_vsqrt (vadd_nonneg hz (scaled_sq_nonneg hap p)), sum_vadd (by simp [hlz, hp]), sum_zeros,
      sum_scaled_sq, hpu]
    constructor <;> linarith
  · rw [sumSq_vsqrt (vadd_nonneg hz (scaled_sq_nonneg h0 s)), sum_vadd (by simp [hlz, hs]), sum_zeros,
      sum_scaled_sq, hsu]
    constructor <;> linarith
  · exfalso
    have : (1:ℝ) ≤ 2 / 10000000000 := by linarith
    norm_num at this

/-! ### normalisations -/

theorem sumSq_map_div (l : ℝ) : ∀ v : List ℝ, sumSq (v.map fun x => x / l) = sumSq v / (l * l)
  | [] => by simp
  | x :: xs => by
    simp only [List.map_cons, sumSq_cons, sumSq_map_div l xs]
    by_cases hl : l = 0
    · subst hl; simp
    · field_simp

/-- `total / ‖total‖` has unit power whenever `total` is not the zero vector -/
theorem normalise_unit (v : List ℝ) (h : sumSq v ≠ 0) : sumSq (normalise v) = 1 := by
  simp only [normalise, norm, sqrt_real]
  rw [sumSq_map_div, Real.mul_self_sqrt (sumSq_nonneg v)]
  exact div_self h

/-- the final `safe_norm` of `allo_extent.get_gains`: unit power for a vector longer than the threshold
    (at or below it the result is the zero vector: a contract violation that is only searched for) -/
theorem safeNorm_unit (v : List ℝ) (h : 1 / 10000000000000000 < norm v) : sumSq (safeNorm v) = 1 := by
  have hthr : ((k (1 / 10000000000000000) : ℝ)) = 1 / 10000000000000000 := by simp
  have hpos : 0 < norm v := lt_trans (by norm_num) h
  have hne : sumSq v ≠ 0 := by
    intro h0
    simp [norm, h0] at hpos
  simp only [safeNorm, hthr, h, if_true]
  exact normalise_unit v hne

theorem safeNorm_short (v : List ℝ) (h : ¬ 1 / 10000000000000000 < norm v) : sumSq (safeNorm v) = 0 := by
  have hthr : ((k (1 / 10000000000000000) : ℝ)) = 1 / 10000000000000000 := by simp
  simp only [safeNorm, hthr, h, if_false]
  exact sumSq_zeros _

/-! ### allocentric balance pan (one axis) -/

/-- `_single_balance_pan`: both gains ≥ 0; cos² + sin² = 1 whenever the two bounds differ; (1, 1) when they
    coincide (then both "sides" are the same plane/row/column and the same value is assigned twice). -/
theorem balancePan_unit (lo hi val : ℝ) :
    let r := singleBalancePan lo hi val
    0 ≤ r.1 ∧ 0 ≤ r.2 ∧ (lo ≠ hi → r.1 ^ 2 + r.2 ^ 2 = 1) ∧ (lo = hi → r = (1, 1)) := by
  simp only [singleBalancePan]
  by_cases he : lo = hi
  · subst he
    simp [eqS_eq_decide]
  · have hne : eqS lo hi = false := by
      rw [Bool.eq_false_iff]; intro h'; exact he ((eqS_real lo hi).mp h')
    simp only [hne, Bool.false_eq_true, if_false]
    by_cases c1 : val ≤ lo
    · simp [c1, he]
    · by_cases c2 : hi ≤ val
      · simp [c1, c2, he]
      · simp only [c1, c2, if_false, cos_real, sin_real, pi_real, k_real]
        have h1 : lo < val := lt_of_not_ge c1
        have h2 : val < hi := lt_of_not_ge c2
        have hd : 0 < hi - lo := by linarith
        have ha0 : 0 ≤ (val - lo) / (hi - lo) := div_nonneg (by linarith) hd.le
        have ha1 : (val - lo) / (hi - lo) ≤ 1 := by rw [div_le_one hd]; linarith
        have hpi := Real.pi_pos
        have hx0 : 0 ≤ (val - lo) / (hi - lo) * Real.pi / ((2 : ℚ) : ℝ) := by push_cast; positivity
        have hx1 : (val - lo) / (hi - lo) * Real.pi / ((2 : ℚ) : ℝ) ≤ Real.pi / 2 := by
          push_cast
          have : (val - lo) / (hi - lo) * Real.pi ≤ 1 * Real.pi := mul_le_mul_of_nonneg_right ha1 hpi.le
          linarith
        refine ⟨Real.cos_nonneg_of_neg_pi_div_two_le_of_le (by linarith) hx1,
          Real.sin_nonneg_of_nonneg_of_le_pi hx0 (by linarith), fun _ => ?_, fun h => absurd h he⟩
        exact Real.cos_sq_add_sin_sq _

end Earverif.GainCalc
