/-
Lemmas for the ID theorems of C08 (core Lean only): `enumerate`, injectivity of the ID
formatters (minimum-width hex fields, `_` separators), syntax of the generated IDs.
-/
import Earverif.Model.GenIds
import Earverif.Proofs.C08Digits

namespace Earverif.GenIds
open Earverif.Digits

/-! ### enumerate -/

theorem mem_enumFrom {α} : ∀ (l : List α) (s : Nat) (p : Nat × α), p ∈ enumFrom s l →
    s ≤ p.1 ∧ p.1 < s + l.length ∧ p.2 ∈ l := by
  intro l
  induction l with
  | nil => intro s p h; cases h
  | cons x xs ih =>
    intro s p h
    simp only [enumFrom, List.mem_cons] at h
    rcases h with rfl | h
    · simp
    · have := ih (s + 1) p h
      simp only [List.length_cons, List.mem_cons]
      exact ⟨by omega, by omega, Or.inr this.2.2⟩

theorem enumFrom_pairwise {α} : ∀ (l : List α) (s : Nat),
    (enumFrom s l).Pairwise (fun a b => a.1 < b.1) := by
  intro l
  induction l with
  | nil => intro s; simp [enumFrom]
  | cons x xs ih =>
    intro s
    simp only [enumFrom, List.pairwise_cons]
    refine ⟨?_, ih (s + 1)⟩
    intro p hp
    have := mem_enumFrom xs (s + 1) p hp
    simp; omega

theorem enumFrom_length {α} : ∀ (l : List α) (s : Nat), (enumFrom s l).length = l.length := by
  intro l; induction l with
  | nil => intro s; rfl
  | cons x xs ih => intro s; simp [enumFrom, ih]

theorem nodup_map_of_pairwise {α β} {l : List α} {f : α → β} {R : α → α → Prop}
    (hp : l.Pairwise R) (hf : ∀ a ∈ l, ∀ b ∈ l, R a b → f a ≠ f b) : (l.map f).Nodup := by
  rw [List.Nodup, List.pairwise_map]
  exact hp.imp_of_mem (fun ha hb r => hf _ ha _ hb r)

theorem mem_range' {s n i : Nat} (h : i ∈ List.range' s n) : s ≤ i ∧ i < s + n := by
  rw [List.mem_range'_1] at h; exact h

/-! ### separators and fields -/

theorem isHex_underscore : isHexUpper '_' = false := by decide

theorem hexPad_no_sep (w n : Nat) : ∀ c ∈ hexPad w n, c ≠ '_' := by
  intro c hc h
  have := hexPad_all_hex w n c hc
  rw [h, isHex_underscore] at this
  cases this

/-- splitting at the first separator is unambiguous -/
theorem split_at_sep {α} (sep : α) : ∀ (xs xs' ys ys' : List α),
    (∀ c ∈ xs, c ≠ sep) → (∀ c ∈ xs', c ≠ sep) →
    xs ++ sep :: ys = xs' ++ sep :: ys' → xs = xs' ∧ ys = ys' := by
  intro xs
  induction xs with
  | nil =>
    intro xs' ys ys' _ h' h
    cases xs' with
    | nil => simp at h; exact ⟨rfl, h⟩
    | cons a as =>
      simp only [List.nil_append, List.cons_append, List.cons.injEq] at h
      exact absurd h.1.symm (h' a (by simp))
  | cons x xs ih =>
    intro xs' ys ys' hx h' h
    cases xs' with
    | nil =>
      simp only [List.nil_append, List.cons_append, List.cons.injEq] at h
      exact absurd h.1 (hx x (by simp))
    | cons a as =>
      simp only [List.cons_append, List.cons.injEq] at h
      obtain ⟨rfl, h⟩ := h
      have := ih as ys ys' (fun c hc => hx c (by simp [hc])) (fun c hc => h' c (by simp [hc])) h
      exact ⟨by rw [this.1], this.2⟩

theorem hexPad4_length (t : Nat) (h : t < 0x10000) : (hexPad 4 t).length = 4 :=
  hexPad_length 4 t (by omega) (by simpa using h)

/-! ### injectivity of the formatters -/

theorem pre_hex_inj (pre : List Char) (w i j : Nat) (h : pre ++ hexPad w i = pre ++ hexPad w j) : i = j :=
  hexPad_injective w i j (List.append_cancel_left h)

theorem aprId_inj {i j : Nat} (h : aprId i = aprId j) : i = j := pre_hex_inj _ 4 i j h
theorem acoId_inj {i j : Nat} (h : acoId i = acoId j) : i = j := pre_hex_inj _ 4 i j h
theorem aoId_inj {i j : Nat} (h : aoId i = aoId j) : i = j := pre_hex_inj _ 4 i j h
theorem atuId_inj {i j : Nat} (h : atuId i = atuId j) : i = j := pre_hex_inj _ 8 i j h

/-- `pre ++ type(4) ++ id`: injective in (type, id) when the type fields have four digits -/
theorem typed_inj (pre : List Char) (t t' : Nat) (ht : t < 0x10000) (ht' : t' < 0x10000)
    (rest rest' : List Char)
    (h : pre ++ hexPad 4 t ++ rest = pre ++ hexPad 4 t' ++ rest') : t = t' ∧ rest = rest' := by
  rw [List.append_assoc, List.append_assoc] at h
  have h := List.append_cancel_left h
  have := List.append_inj h (by rw [hexPad4_length t ht, hexPad4_length t' ht'])
  exact ⟨hexPad_injective 4 t t' this.1, this.2⟩

theorem apId_inj {t t' i i' : Nat} (ht : t < 0x10000) (ht' : t' < 0x10000)
    (h : apId t i = apId t' i') : i = i' :=
  hexPad_injective 4 i i' (typed_inj _ t t' ht ht' _ _ h).2
theorem acId_inj {t t' i i' : Nat} (ht : t < 0x10000) (ht' : t' < 0x10000)
    (h : acId t i = acId t' i') : i = i' :=
  hexPad_injective 4 i i' (typed_inj _ t t' ht ht' _ _ h).2
theorem asId_inj {t t' i i' : Nat} (ht : t < 0x10000) (ht' : t' < 0x10000)
    (h : asId t i = asId t' i') : i = i' :=
  hexPad_injective 4 i i' (typed_inj _ t t' ht ht' _ _ h).2

theorem sep_inj (w w' i i' j j' : Nat)
    (h : hexPad w i ++ '_' :: hexPad w' j = hexPad w i' ++ '_' :: hexPad w' j') : i = i' ∧ j = j' := by
  have := split_at_sep '_' _ _ _ _ (hexPad_no_sep w i) (hexPad_no_sep w i') h
  exact ⟨hexPad_injective w i i' this.1, hexPad_injective w' j j' this.2⟩

theorem avsId_inj {i i' j j' : Nat} (h : avsId i j = avsId i' j') : i = i' ∧ j = j' := by
  unfold avsId at h
  rw [List.append_assoc, List.append_assoc] at h
  exact sep_inj 4 4 i i' j j' (List.append_cancel_left h)

theorem abId_inj {t t' i i' b b' : Nat} (ht : t < 0x10000) (ht' : t' < 0x10000)
    (h : abId t i b = abId t' i' b') : i = i' ∧ b = b' := by
  unfold abId at h
  rw [List.append_assoc _ (hexPad 4 i), List.append_assoc _ (hexPad 4 i')] at h
  exact sep_inj 4 8 i i' b b' (typed_inj _ t t' ht ht' _ _ h).2

theorem atId_inj {t t' i i' b b' : Nat} (ht : t < 0x10000) (ht' : t' < 0x10000)
    (h : atId t i b = atId t' i' b') : i = i' ∧ b = b' := by
  unfold atId at h
  rw [List.append_assoc _ (hexPad 4 i), List.append_assoc _ (hexPad 4 i')] at h
  exact sep_inj 4 2 i i' b b' (typed_inj _ t t' ht ht' _ _ h).2

/-! ### syntax of generated ids -/

theorem hexField_hexPad (w n : Nat) (hw : 1 ≤ w) (h : n < 16 ^ w) : hexField w (hexPad w n) = true := by
  unfold hexField
  rw [hexPad_length w n hw h]
  simp only [beq_self_eq_true, Bool.true_and, List.all_eq_true]
  exact hexPad_all_hex w n

theorem hexField_append (a b : Nat) (xs ys : List Char) (hx : hexField a xs = true) (hy : hexField b ys = true) :
    hexField (a + b) (xs ++ ys) = true := by
  unfold hexField at *
  simp only [Bool.and_eq_true, beq_iff_eq, List.all_eq_true] at *
  refine ⟨by rw [List.length_append, hx.1, hy.1], ?_⟩
  intro c hc
  rw [List.mem_append] at hc
  rcases hc with hc | hc
  · exact hx.2 c hc
  · exact hy.2 c hc

theorem hexField_length {w : Nat} {xs : List Char} (h : hexField w xs = true) : xs.length = w := by
  unfold hexField at h
  simp only [Bool.and_eq_true, beq_iff_eq] at h
  exact h.1

theorem wfId_one (pre : String) (w : Nat) (body : List Char) (h : hexField w body = true) :
    wfId pre [w] (pre.toList ++ body) = true := by
  unfold wfId
  have hp : pre.toList.isPrefixOf (pre.toList ++ body) = true :=
    List.isPrefixOf_iff_prefix.mpr (List.prefix_append _ _)
  rw [hp, List.drop_left]
  simpa [fields] using h

theorem wfId_two (pre : String) (w v : Nat) (a b : List Char) (ha : hexField w a = true)
    (hb : hexField v b = true) :
    wfId pre [w, v] (pre.toList ++ a ++ '_' :: b) = true := by
  unfold wfId
  have hp : pre.toList.isPrefixOf (pre.toList ++ a ++ '_' :: b) = true := by
    rw [List.append_assoc]
    exact List.isPrefixOf_iff_prefix.mpr (List.prefix_append _ _)
  have hl := hexField_length ha
  rw [hp, List.append_assoc, List.drop_left]
  have h1 : (a ++ '_' :: b).take w = a := by rw [← hl]; exact List.take_left
  have h2 : (a ++ '_' :: b).drop w = '_' :: b := by rw [← hl]; exact List.drop_left
  have h3 : (a ++ '_' :: b).drop (w + 1) = b := by
    rw [← List.drop_drop, h2]; rfl
  simp only [fields, h1, h2, h3, ha, hb, List.head?_cons, beq_self_eq_true, Bool.and_self]

theorem hex4 (n : Nat) (h : n ≤ 0xFFFF) : hexField 4 (hexPad 4 n) = true :=
  hexField_hexPad 4 n (by omega) (by omega)
theorem hex8 (n : Nat) (h : n ≤ 0xFFFFFFFF) : hexField 8 (hexPad 8 n) = true :=
  hexField_hexPad 8 n (by omega) (by omega)
theorem hex2 (n : Nat) (h : n ≤ 0xFF) : hexField 2 (hexPad 2 n) = true :=
  hexField_hexPad 2 n (by omega) (by omega)
theorem hex44 (t i : Nat) (ht : t ≤ 0xFFFF) (hi : i ≤ 0xFFFF) :
    hexField 8 (hexPad 4 t ++ hexPad 4 i) = true :=
  hexField_append 4 4 _ _ (hex4 t ht) (hex4 i hi)

theorem wf_aprId (i : Nat) (h : i ≤ 0xFFFF) : wfAPR (aprId i) = true := wfId_one "APR_" 4 _ (hex4 i h)
theorem wf_acoId (i : Nat) (h : i ≤ 0xFFFF) : wfACO (acoId i) = true := wfId_one "ACO_" 4 _ (hex4 i h)
theorem wf_aoId (i : Nat) (h : i ≤ 0xFFFF) : wfAO (aoId i) = true := wfId_one "AO_" 4 _ (hex4 i h)
theorem wf_atuId (i : Nat) (h : i ≤ 0xFFFFFFFF) : wfATU (atuId i) = true := wfId_one "ATU_" 8 _ (hex8 i h)
theorem wf_avsId (i j : Nat) (hi : i ≤ 0xFFFF) (hj : j ≤ 0xFFFF) : wfAVS (avsId i j) = true :=
  wfId_two "AVS_" 4 4 _ _ (hex4 i hi) (hex4 j hj)
theorem wf_apId (t i : Nat) (ht : t ≤ 0xFFFF) (hi : i ≤ 0xFFFF) : wfAP (apId t i) = true := by
  unfold apId wfAP; rw [List.append_assoc]; exact wfId_one "AP_" 8 _ (hex44 t i ht hi)
theorem wf_acId (t i : Nat) (ht : t ≤ 0xFFFF) (hi : i ≤ 0xFFFF) : wfAC (acId t i) = true := by
  unfold acId wfAC; rw [List.append_assoc]; exact wfId_one "AC_" 8 _ (hex44 t i ht hi)
theorem wf_asId (t i : Nat) (ht : t ≤ 0xFFFF) (hi : i ≤ 0xFFFF) : wfAS (asId t i) = true := by
  unfold asId wfAS; rw [List.append_assoc]; exact wfId_one "AS_" 8 _ (hex44 t i ht hi)
theorem wf_abId (t i b : Nat) (ht : t ≤ 0xFFFF) (hi : i ≤ 0xFFFF) (hb : b ≤ 0xFFFFFFFF) :
    wfAB (abId t i b) = true := by
  unfold abId wfAB
  rw [List.append_assoc _ (hexPad 4 t)]
  exact wfId_two "AB_" 8 8 _ _ (hex44 t i ht hi) (hex8 b hb)
theorem wf_atId (t i b : Nat) (ht : t ≤ 0xFFFF) (hi : i ≤ 0xFFFF) (hb : b ≤ 0xFF) :
    wfAT (atId t i b) = true := by
  unfold atId wfAT
  rw [List.append_assoc _ (hexPad 4 t)]
  exact wfId_two "AT_" 8 2 _ _ (hex44 t i ht hi) (hex2 b hb)

end Earverif.GenIds
