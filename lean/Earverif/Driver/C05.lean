/- Line protocol for the point-source panner model (serves C05 and C12).
   Floats travel exactly: input token `m:e` = m·2^e (binary64), `N` = None; output = decimal IEEE bit patterns.
   in : tri   <P: 9 floats, rows = speakers> <p: 3 floats>
        ngon  <n> <order: n ints> <positions: 3n floats> <centre: 3> <centre_downmix: n> <p: 3>
        quad  <order: 4 ints> <positions: 12 floats> <x|N> <y|N> <p: 3>
        qpoly <order: 4 ints> <positions: 12 floats> <p: 3>          -> the 6 coefficients of pan_x / pan_y
        dmix  <rows> <cols> <D: rows*cols floats> <v: cols floats | N>
        stereo <5 floats | N>
        extra <lb> <ub> <n> <az el>*n                                   -> channel indices
        layout <name> <p: 3> <k> (<region index> <x|N> <y|N>)*k          -> whole panner via Gen/C05_Tables
   out: `none` | `some <bits>*` | `idx <nat>*` | `bad-op` -/
import Earverif.Model.PointSource
import Earverif.Gen.C05_Tables
import Earverif.Driver.Util
open Earverif.PointSource Earverif.Driver

abbrev PM := StateT (List String) Option

def tok : PM String := do
  match (← get) with
  | [] => failure
  | t :: ts => set ts; pure t

def pNat : PM Nat := do
  let t ← tok
  match t.toNat? with
  | some n => pure n
  | none => failure

def parseF (t : String) : Option Float :=
  match t.splitOn ":" with
  | [m, e] => do some (f2Float ((← m.toInt?), (← e.toInt?)))
  | _ => none

def pF : PM Float := do
  match parseF (← tok) with
  | some x => pure x
  | none => failure

def pOptF : PM (Option Float) := do
  let t ← tok
  if t == "N" then pure none else
  match parseF t with
  | some x => pure (some x)
  | none => failure

def rep {β : Type} (n : Nat) (p : PM β) : PM (List β) :=
  match n with
  | 0 => pure []
  | k + 1 => do let x ← p; let xs ← rep k p; pure (x :: xs)

def pV3 : PM (Vec3 Float) := do
  let x ← pF; let y ← pF; let z ← pF; pure (x, y, z)

def pEnd : PM Unit := do
  match (← get) with
  | [] => pure ()
  | _ => failure

def bits (xs : List Float) : String :=
  "some" ++ String.join (xs.map fun x => " " ++ toString x.toBits.toNat)

def showRes : Option (List Float) → String
  | none => "none"
  | some xs => bits xs

def pQuad : PM (QuadRegion Float) := do
  let order ← rep 4 pNat
  let pos ← rep 4 pV3
  pure ⟨pos, order⟩

def cmd : PM String := do
  let op ← tok
  match op with
  | "tri" =>
    let a ← pV3; let b ← pV3; let c ← pV3; let p ← pV3; pEnd
    pure (showRes ((Triplet.handle (a, b, c) p).map vecList))
  | "ngon" =>
    let n ← pNat
    let order ← rep n pNat
    let pos ← rep n pV3
    let centre ← pV3
    let cdm ← rep n pF
    let p ← pV3; pEnd
    pure (showRes (VirtualNgon.handle ⟨pos, centre, cdm, order⟩ p))
  | "quad" =>
    let q ← pQuad
    let x ← pOptF; let y ← pOptF
    let p ← pV3; pEnd
    pure (showRes (q.handle x y p))
  | "qpoly" =>
    let q ← pQuad
    let p ← pV3; pEnd
    let ((a, b, c), (d, e, f)) := q.polys p
    pure (bits [a, b, c, d, e, f])
  | "dmix" =>
    let r ← pNat; let c ← pNat
    let D ← rep r (rep c pF)
    let t ← tok
    if t == "N" then pEnd; pure (showRes (PointSourcePannerDownmix.handle D none)) else
    match parseF t with
    | none => failure
    | some v0 =>
      let vs ← rep (c - 1) pF; pEnd
      if c == 0 then failure else
      pure (showRes (PointSourcePannerDownmix.handle D (some (v0 :: vs))))
  | "stereo" =>
    let t ← tok
    if t == "N" then pEnd; pure (showRes (StereoPanDownmix.handle (α := Float) none)) else
    match parseF t with
    | none => failure
    | some v0 =>
      let vs ← rep 4 pF; pEnd
      pure (showRes (StereoPanDownmix.handle (some (v0 :: vs))))
  | "extra" =>
    let lb ← pF; let ub ← pF
    let n ← pNat
    let nom ← rep n (do let az ← pF; let el ← pF; pure (az, el)); pEnd
    pure ("idx" ++ String.join ((extraChannels nom lb ub).map fun k => " " ++ toString k))
  | "layout" =>
    let name ← tok
    let p ← pV3
    let k ← pNat
    let rs ← rep k (do let i ← pNat; let x ← pOptF; let y ← pOptF; pure (i, x, y)); pEnd
    match Earverif.Gen.C05.layouts.find? (fun l => l.name == name) with
    | none => failure
    | some l =>
      let roots : Nat → Option Float × Option Float := fun i =>
        match rs.find? (fun r => r.1 == i) with
        | some r => r.2
        | none => (none, none)
      pure (showRes (l.handle roots p))
  | _ => failure

def answer (line : String) : String :=
  match cmd.run (words line) with
  | some (s, _) => s
  | none => "bad-op"

def main : IO Unit := lineLoop answer
