/- C19: real-number instance of the conversion model's scalar class and the analytic lemmas
   (azimuth and elevation warps are mutually inverse).  Used by Props/C19.lean. -/
import Earverif.Model.Conversion
import Mathlib.Analysis.SpecialFunctions.Trigonometric.Arctan
import Mathlib.Analysis.SpecialFunctions.Complex.Arg
import Mathlib.Analysis.SpecialFunctions.Trigonometric.Inverse

namespace Earverif.Conv
open Real

noncomputable instance instScalarReal : Scalar ℝ where
  ofRat q := (q : ℝ)
  pi := Real.pi
  sqrt := Real.sqrt
  tan := Real.tan
  atan := Real.arctan
  atan2 y x := Complex.arg ⟨x, y⟩
  sin := Real.sin
  cos := Real.cos
  asin := Real.arcsin
  acos := Real.arccos
  decLt := fun a b => Real.decidableLT a b
  decLe := fun a b => Real.decidableLE a b

/-- `atan2 y x` over the reals: the argument of `x + y i`. -/
noncomputable def at2 (y x : ℝ) : ℝ := Complex.arg ⟨x, y⟩

theorem abs_real (x : ℝ) : Conv.abs x = |x| := by
  simp only [Conv.abs, k, Scalar.ofRat, Rat.cast_zero]
  split_ifs with h
  · exact (abs_of_neg h).symm
  · exact (abs_of_nonneg (not_lt.mp h)).symm

theorem sign_real (x : ℝ) : Conv.sign x = if x < 0 then -1 else if 0 < x then 1 else 0 := by
  simp [Conv.sign, k, Scalar.ofRat]

theorem radians_real (x : ℝ) : radians x = x * (π / 180) := by
  simp [radians, k, Scalar.ofRat, Scalar.pi]

theorem degrees_real (x : ℝ) : degrees x = x * (180 / π) := by
  simp [degrees, k, Scalar.ofRat, Scalar.pi]

theorem mapAzToLinear_real (l r a : ℝ) :
    mapAzToLinear l r a =
      at2 (1/2 + 1/2 * tan ((a - (l + r) / 2) * (π / 180)) / tan ((r - (l + r) / 2) * (π / 180)))
        (1 - (1/2 + 1/2 * tan ((a - (l + r) / 2) * (π / 180)) / tan ((r - (l + r) / 2) * (π / 180))))
        * (2 / π) := by
  simp [mapAzToLinear, radians, k, Scalar.ofRat, Scalar.tan, Scalar.atan2, Scalar.pi, at2]

theorem mapLinearToAz_real (l r x : ℝ) :
    mapLinearToAz l r x =
      (l + r) / 2 + arctan (2 * (sin (x * (π / 2)) / (cos (x * (π / 2)) + sin (x * (π / 2))) - 1/2)
        * tan ((r - (l + r) / 2) * (π / 180))) * (180 / π) := by
  simp [mapLinearToAz, radians, degrees, k, Scalar.ofRat, Scalar.tan, Scalar.atan, Scalar.sin, Scalar.cos, Scalar.pi]

/-- For a point on the line `re + im = 1` the gain recovered from the angle is the imaginary part. -/
theorem gain_of_at2 (g : ℝ) :
    sin (at2 g (1 - g)) / (cos (at2 g (1 - g)) + sin (at2 g (1 - g))) = g := by
  unfold at2
  set z : ℂ := ⟨1 - g, g⟩ with hz
  have hz0 : z ≠ 0 := by
    intro h
    have h1 := congrArg Complex.re h
    have h2 := congrArg Complex.im h
    simp [hz] at h1 h2
    linarith
  have hn : ‖z‖ ≠ 0 := norm_ne_zero_iff.mpr hz0
  rw [Complex.sin_arg, Complex.cos_arg hz0]
  have : z.re = 1 - g := rfl
  have : z.im = g := rfl
  field_simp
  simp [hz]

/-- `atan2 (sin θ / s) (cos θ / s) = θ` for `s > 0`, `θ ∈ (-π, π]`. -/
theorem at2_sin_cos {s θ : ℝ} (hs : 0 < s) (h1 : -π < θ) (h2 : θ ≤ π) :
    at2 (sin θ / s) (cos θ / s) = θ := by
  unfold at2
  have : (⟨cos θ / s, sin θ / s⟩ : ℂ) = ((1 / s : ℝ) : ℂ) * (Complex.cos θ + Complex.sin θ * Complex.I) := by
    apply Complex.ext
    · simp [← Complex.ofReal_cos, ← Complex.ofReal_sin]; ring
    · simp [← Complex.ofReal_cos, ← Complex.ofReal_sin]; ring
  rw [this]
  exact Complex.arg_mul_cos_add_sin_mul_I (by positivity) ⟨h1, h2⟩

theorem tan_ne_zero_of {β : ℝ} (h0 : β ≠ 0) (h : |β| < π / 2) : tan β ≠ 0 := by
  rcases lt_or_gt_of_ne h0 with hneg | hpos
  · have := tan_neg_of_neg_of_pi_div_two_lt hneg (by linarith [(abs_lt.mp h).1])
    exact ne_of_lt this
  · have := tan_pos_of_pos_of_lt_pi_div_two hpos (abs_lt.mp h).2
    exact ne_of_gt this

theorem rad_lt {x : ℝ} (h : |x| < 90) : |x * (π / 180)| < π / 2 := by
  rw [abs_mul, abs_of_pos (by positivity : (0:ℝ) < π / 180)]
  have : |x| * (π / 180) < 90 * (π / 180) := by
    apply mul_lt_mul_of_pos_right h (by positivity)
  linarith

/-- **az_warp_left_inv** -/
theorem az_warp_left_inv (l r a : ℝ) (hr0 : r - (l + r) / 2 ≠ 0) (hr : |r - (l + r) / 2| < 90)
    (ha : |a - (l + r) / 2| < 90) :
    mapLinearToAz l r (mapAzToLinear l r a) = a := by
  rw [mapLinearToAz_real, mapAzToLinear_real]
  set β := (r - (l + r) / 2) * (π / 180) with hβ
  set ρ := (a - (l + r) / 2) * (π / 180) with hρ
  have hT : tan β ≠ 0 := tan_ne_zero_of (by rw [hβ]; positivity) (rad_lt hr)
  have hρ' := rad_lt ha
  set g := 1 / 2 + 1 / 2 * tan ρ / tan β with hg
  have hx : at2 g (1 - g) * (2 / π) * (π / 2) = at2 g (1 - g) := by field_simp
  rw [hx, gain_of_at2]
  have : 2 * (g - 1 / 2) * tan β = tan ρ := by rw [hg]; field_simp; ring
  rw [this, arctan_tan (by linarith [(abs_lt.mp hρ').1]) (abs_lt.mp hρ').2]
  field_simp
  ring


theorem cos_add_sin_pos {θ : ℝ} (h0 : 0 ≤ θ) (h1 : θ ≤ π / 2) : 0 < cos θ + sin θ := by
  have hc : 0 ≤ cos θ := cos_nonneg_of_neg_pi_div_two_le_of_le (by linarith [pi_pos]) h1
  have hs : 0 ≤ sin θ := sin_nonneg_of_nonneg_of_le_pi h0 (by linarith [pi_pos])
  nlinarith [sin_sq_add_cos_sq θ]

/-- **az_warp_right_inv** -/
theorem az_warp_right_inv (l r p : ℝ) (hr0 : r - (l + r) / 2 ≠ 0) (hr : |r - (l + r) / 2| < 90)
    (hp0 : 0 ≤ p) (hp1 : p ≤ 1) :
    mapAzToLinear l r (mapLinearToAz l r p) = p := by
  rw [mapAzToLinear_real, mapLinearToAz_real]
  set β := (r - (l + r) / 2) * (π / 180) with hβ
  have hT : tan β ≠ 0 := tan_ne_zero_of (by rw [hβ]; positivity) (rad_lt hr)
  set θ := p * (π / 2) with hθ
  have hθ0 : 0 ≤ θ := by rw [hθ]; positivity
  have hθ1 : θ ≤ π / 2 := by rw [hθ]; nlinarith [pi_pos]
  have hs : 0 < cos θ + sin θ := cos_add_sin_pos hθ0 hθ1
  set t := 2 * (sin θ / (cos θ + sin θ) - 1 / 2) * tan β with ht
  have h1 : ((l + r) / 2 + arctan t * (180 / π) - (l + r) / 2) * (π / 180) = arctan t := by
    field_simp; ring
  rw [h1, tan_arctan]
  have hg : 1 / 2 + 1 / 2 * t / tan β = sin θ / (cos θ + sin θ) := by rw [ht]; field_simp; ring
  rw [hg]
  have hg' : 1 - sin θ / (cos θ + sin θ) = cos θ / (cos θ + sin θ) := by field_simp; ring
  rw [hg', at2_sin_cos hs (by linarith [pi_pos]) (by linarith [pi_pos]), hθ]
  field_simp


theorem elToCart_real (P : Params ℝ) (el d : ℝ) :
    elToCart P el d =
      if P.elTop < |el| then
        (d * Conv.sign el, d * tan ((90 - (P.elTopTilde + (90 - P.elTopTilde) * (|el| - P.elTop) / (90 - P.elTop))) * (π / 180)))
      else (tan (P.elTopTilde * el / P.elTop * (π / 180)) * d, d) := by
  simp [elToCart, radians_real, abs_real, k, Scalar.ofRat, Scalar.tan]

theorem elToPolar_real (P : Params ℝ) (z rxy : ℝ) :
    elToPolar P z rxy =
      if P.elTopTilde < |arctan (z / rxy) * (180 / π)| then
        (Conv.sign (arctan (z / rxy) * (180 / π)) *
          (P.elTop + (90 - P.elTop) * (|arctan (z / rxy) * (180 / π)| - P.elTopTilde) / (90 - P.elTopTilde)), |z|)
      else (P.elTop * (arctan (z / rxy) * (180 / π)) / P.elTopTilde, rxy) := by
  simp [elToPolar, degrees_real, abs_real, k, Scalar.ofRat, Scalar.atan]

/-- **el_warp_inv_low** -/
theorem el_warp_inv_low (P : Params ℝ) (hT : 0 < P.elTop) (hTt : 0 < P.elTopTilde)
    (hTt90 : P.elTopTilde < 90) (el d : ℝ) (hd : 0 < d) (hel : |el| ≤ P.elTop) :
    elToPolar P (elToCart P el d).1 (elToCart P el d).2 = (el, d) := by
  rw [elToCart_real, if_neg (not_lt.mpr hel)]
  simp only
  rw [elToPolar_real]
  set E := P.elTopTilde * el / P.elTop with hE
  have hEabs : |E| ≤ P.elTopTilde := by
    rw [hE, abs_div, abs_mul, abs_of_pos hT, abs_of_pos hTt, div_le_iff₀ hT]
    nlinarith
  have hrad := rad_lt (lt_of_le_of_lt hEabs hTt90)
  have h1 : tan (E * (π / 180)) * d / d = tan (E * (π / 180)) := by field_simp
  rw [h1, arctan_tan (by linarith [(abs_lt.mp hrad).1]) (abs_lt.mp hrad).2]
  have h2 : E * (π / 180) * (180 / π) = E := by field_simp
  rw [h2, if_neg (not_lt.mpr hEabs), hE]
  congr 1
  field_simp


theorem sign_pos {x : ℝ} (h : 0 < x) : Conv.sign x = 1 := by
  rw [sign_real, if_neg (not_lt.mpr h.le), if_pos h]

theorem sign_neg {x : ℝ} (h : x < 0) : Conv.sign x = -1 := by
  rw [sign_real, if_pos h]

/-- **el_warp_inv_high** -/
theorem el_warp_inv_high (P : Params ℝ) (hT : 0 < P.elTop) (hT90 : P.elTop < 90) (hTt : 0 < P.elTopTilde)
    (hTt90 : P.elTopTilde < 90) (el d : ℝ) (hd : 0 < d) (hel : P.elTop < |el|) (hel90 : |el| < 90) :
    elToPolar P (elToCart P el d).1 (elToCart P el d).2 = (el, d) := by
  rw [elToCart_real, if_pos hel]
  simp only
  rw [elToPolar_real]
  set E := P.elTopTilde + (90 - P.elTopTilde) * (|el| - P.elTop) / (90 - P.elTop) with hE
  have h90T : 0 < 90 - P.elTop := by linarith
  have h90Tt : 0 < 90 - P.elTopTilde := by linarith
  have hfrac0 : 0 < (90 - P.elTopTilde) * (|el| - P.elTop) / (90 - P.elTop) := by
    apply div_pos (mul_pos h90Tt (by linarith)) h90T
  have hfrac1 : (90 - P.elTopTilde) * (|el| - P.elTop) / (90 - P.elTop) < 90 - P.elTopTilde := by
    rw [div_lt_iff₀ h90T]; nlinarith
  have hE0 : P.elTopTilde < E := by rw [hE]; linarith
  have hE90 : E < 90 := by rw [hE]; linarith
  have hEpos : 0 < E := by linarith
  have hrad := rad_lt (show |E| < 90 by rw [abs_of_pos hEpos]; exact hE90)
  have hradpos : 0 < E * (π / 180) := by positivity
  have htanpos : 0 < tan (E * (π / 180)) := tan_pos_of_pos_of_lt_pi_div_two hradpos (abs_lt.mp hrad).2
  have hsub : (90 - E) * (π / 180) = π / 2 - E * (π / 180) := by ring
  rw [hsub, tan_pi_div_two_sub]
  have hback : P.elTop + (90 - P.elTop) * (E - P.elTopTilde) / (90 - P.elTopTilde) = |el| := by
    rw [hE]; field_simp; ring
  have hdeg : E * (π / 180) * (180 / π) = E := by field_simp
  rcases lt_or_gt_of_ne (show el ≠ 0 by intro h; rw [h, abs_zero] at hel; linarith) with hneg | hpos
  · rw [sign_neg hneg]
    have hq : d * -1 / (d * (tan (E * (π / 180)))⁻¹) = -tan (E * (π / 180)) := by field_simp
    rw [hq, arctan_neg, arctan_tan (by linarith [(abs_lt.mp hrad).1]) (abs_lt.mp hrad).2]
    have : -(E * (π / 180)) * (180 / π) = -E := by rw [neg_mul, hdeg]
    rw [this, abs_neg, abs_of_pos hEpos, if_pos hE0, sign_neg (by linarith), hback, abs_of_neg hneg]
    simp [abs_of_pos hd]
  · rw [sign_pos hpos]
    have hq : d * 1 / (d * (tan (E * (π / 180)))⁻¹) = tan (E * (π / 180)) := by field_simp
    rw [hq, arctan_tan (by linarith [(abs_lt.mp hrad).1]) (abs_lt.mp hrad).2, hdeg,
      abs_of_pos hEpos, if_pos hE0, sign_pos hEpos, hback, abs_of_pos hpos]
    simp [abs_of_pos hd]


/-! ### warp ends -/

theorem at2_zero_one : at2 0 1 = 0 := by
  unfold at2
  have : (⟨1, 0⟩ : ℂ) = 1 := by apply Complex.ext <;> simp
  rw [this, Complex.arg_one]

theorem at2_one_zero : at2 1 0 = π / 2 := by
  unfold at2
  have : (⟨0, 1⟩ : ℂ) = Complex.I := by apply Complex.ext <;> simp
  rw [this, Complex.arg_I]

theorem mapAzToLinear_left (l r : ℝ) (hr0 : r - (l + r) / 2 ≠ 0) (hr : |r - (l + r) / 2| < 90) :
    mapAzToLinear l r l = 0 := by
  rw [mapAzToLinear_real]
  have hT : tan ((r - (l + r) / 2) * (π / 180)) ≠ 0 := tan_ne_zero_of (by positivity) (rad_lt hr)
  have h1 : (l - (l + r) / 2) * (π / 180) = -((r - (l + r) / 2) * (π / 180)) := by ring
  rw [h1, tan_neg]
  generalize tan ((r - (l + r) / 2) * (π / 180)) = T at hT
  have hg : 1 / 2 + 1 / 2 * -T / T = 0 := by
    field_simp; ring
  rw [hg]; simp [at2_zero_one]

theorem mapAzToLinear_right (l r : ℝ) (hr0 : r - (l + r) / 2 ≠ 0) (hr : |r - (l + r) / 2| < 90) :
    mapAzToLinear l r r = 1 := by
  rw [mapAzToLinear_real]
  have hT : tan ((r - (l + r) / 2) * (π / 180)) ≠ 0 := tan_ne_zero_of (by positivity) (rad_lt hr)
  generalize tan ((r - (l + r) / 2) * (π / 180)) = T at hT
  have hg : 1 / 2 + 1 / 2 * T / T = 1 := by
    field_simp; ring
  rw [hg]; simp [at2_one_zero]

theorem mapLinearToAz_zero (l r : ℝ) (hr : |r - (l + r) / 2| < 90) : mapLinearToAz l r 0 = l := by
  rw [mapLinearToAz_real]
  have hrad := rad_lt hr
  simp only [zero_mul, sin_zero, cos_zero, add_zero, zero_div, zero_sub]
  have : 2 * -(1 / 2) * tan ((r - (l + r) / 2) * (π / 180)) = tan (-((r - (l + r) / 2) * (π / 180))) := by
    rw [tan_neg]; ring
  rw [this, arctan_tan (by linarith [(abs_lt.mp hrad).2]) (by linarith [(abs_lt.mp hrad).1])]
  field_simp; ring

theorem mapLinearToAz_one (l r : ℝ) (hr : |r - (l + r) / 2| < 90) : mapLinearToAz l r 1 = r := by
  rw [mapLinearToAz_real]
  have hrad := rad_lt hr
  simp only [one_mul, sin_pi_div_two, cos_pi_div_two, zero_add, div_one]
  have : 2 * (1 - 1 / 2) * tan ((r - (l + r) / 2) * (π / 180)) = tan ((r - (l + r) / 2) * (π / 180)) := by ring
  rw [this, arctan_tan (by linarith [(abs_lt.mp hrad).1]) (abs_lt.mp hrad).2]
  field_simp; ring

/-! ### azimuths of the eight square points -/

theorem cartAz_real (x y : ℝ) : cartAz x y = -(at2 x y * (180 / π)) := by
  simp [cartAz, degrees_real, Scalar.atan2, at2]

theorem at2_of_polar {r θ x y : ℝ} (hr : 0 < r) (h1 : -π < θ) (h2 : θ ≤ π) (hx : x = r * cos θ)
    (hy : y = r * sin θ) : at2 y x = θ := by
  have := at2_sin_cos (s := 1 / r) (θ := θ) (by positivity) h1 h2
  rw [← this, hx, hy]; congr 1 <;> field_simp

theorem sqrt2_mul : √2 * (√2 / 2) = 1 := by
  have := Real.mul_self_sqrt (show (0:ℝ) ≤ 2 by norm_num)
  linarith

theorem at2_one_one : at2 1 1 = π / 4 :=
  at2_of_polar (r := √2) (by positivity) (by linarith [pi_pos]) (by linarith [pi_pos])
    (by rw [cos_pi_div_four, sqrt2_mul]) (by rw [sin_pi_div_four, sqrt2_mul])

theorem at2_one_neg_one : at2 1 (-1) = 3 * π / 4 :=
  at2_of_polar (r := √2) (by positivity) (by linarith [pi_pos]) (by linarith [pi_pos])
    (by rw [show 3 * π / 4 = π - π / 4 by ring, cos_pi_sub, cos_pi_div_four]; linarith [sqrt2_mul])
    (by rw [show 3 * π / 4 = π - π / 4 by ring, sin_pi_sub, sin_pi_div_four, sqrt2_mul])

theorem at2_neg_one_neg_one : at2 (-1) (-1) = -(3 * π / 4) :=
  at2_of_polar (r := √2) (by positivity) (by linarith [pi_pos]) (by linarith [pi_pos])
    (by rw [cos_neg, show 3 * π / 4 = π - π / 4 by ring, cos_pi_sub, cos_pi_div_four]; linarith [sqrt2_mul])
    (by rw [sin_neg, show 3 * π / 4 = π - π / 4 by ring, sin_pi_sub, sin_pi_div_four]; linarith [sqrt2_mul])

theorem at2_neg_one_one : at2 (-1) 1 = -(π / 4) :=
  at2_of_polar (r := √2) (by positivity) (by linarith [pi_pos]) (by linarith [pi_pos])
    (by rw [cos_neg, cos_pi_div_four, sqrt2_mul])
    (by rw [sin_neg, sin_pi_div_four]; linarith [sqrt2_mul])

theorem at2_zero_neg_one : at2 0 (-1) = π := by
  unfold at2
  have : (⟨-1, 0⟩ : ℂ) = -1 := by apply Complex.ext <;> simp
  rw [this, Complex.arg_neg_one]

theorem at2_neg_one_zero : at2 (-1) 0 = -(π / 2) := by
  unfold at2
  have : (⟨0, -1⟩ : ℂ) = -Complex.I := by apply Complex.ext <;> simp
  rw [this, Complex.arg_neg_I]



/-! ### the `while` loops of `relative_angle` over ℝ -/

theorem upLt_succ (x y : ℝ) (n : Nat) :
    upLt x (n + 1) y = if y < x then upLt x n (y + 360) else y := by
  simp [upLt, k, Scalar.ofRat]

theorem downGe_succ (x y : ℝ) (n : Nat) :
    downGe x (n + 1) y = if x ≤ y - 360 then downGe x n (y - 360) else y := by
  simp [downGe, k, Scalar.ofRat]

theorem downGe_lt (x : ℝ) (n : Nat) : ∀ y : ℝ, y < x + 360 * (n + 1) → downGe x n y < x + 360 := by
  induction n with
  | zero => intro y h; simpa [downGe] using h
  | succ n ih =>
    intro y h
    rw [downGe_succ]
    split_ifs with hc
    · apply ih; push_cast at h; linarith
    · linarith

theorem downGe_ge (x : ℝ) (n : Nat) : ∀ y : ℝ, min x y ≤ downGe x n y := by
  induction n with
  | zero => intro y; simp [downGe]
  | succ n ih =>
    intro y
    rw [downGe_succ]
    split_ifs with hc
    · have := ih (y - 360)
      have h1 : min x (y - 360) = x := min_eq_left hc
      have h2 : min x y = x := min_eq_left (by linarith)
      rw [h2]; rw [h1] at this; exact this
    · exact min_le_right _ _

theorem upLt_ge (x : ℝ) (n : Nat) : ∀ y : ℝ, x - 360 * n ≤ y → x ≤ upLt x n y := by
  induction n with
  | zero => intro y h; simpa [upLt] using h
  | succ n ih =>
    intro y h
    rw [upLt_succ]
    split_ifs with hc
    · apply ih; push_cast at h; linarith
    · linarith

theorem upLt_lt (x : ℝ) (n : Nat) : ∀ y : ℝ, y < x + 360 → upLt x n y < x + 360 := by
  induction n with
  | zero => intro y h; simpa [upLt] using h
  | succ n ih =>
    intro y h
    rw [upLt_succ]
    split_ifs with hc
    · apply ih; linarith
    · exact h

/-- With enough fuel `relative_angle(x, y)` lies in `[x, x + 360)`. -/
theorem relativeAngle_mem (n : Nat) (x y : ℝ) (h1 : x - 360 * n ≤ y) (h2 : y < x + 360 * (n + 1)) :
    x ≤ relativeAngle n x y ∧ relativeAngle n x y < x + 360 := by
  unfold relativeAngle
  have hlt := downGe_lt x n y h2
  have hge := downGe_ge x n y
  have hmin : x - 360 * n ≤ min x y := le_min (by nlinarith [Nat.cast_nonneg (α := ℝ) n]) h1
  exact ⟨upLt_ge x n _ (le_trans hmin hge), upLt_lt x n _ hlt⟩

theorem mapLinearToAz_mem (l r p : ℝ) :
    (l + r) / 2 - 90 < mapLinearToAz l r p ∧ mapLinearToAz l r p < (l + r) / 2 + 90 := by
  rw [mapLinearToAz_real]
  set t := 2 * (sin (p * (π / 2)) / (cos (p * (π / 2)) + sin (p * (π / 2))) - 1 / 2) * tan ((r - (l + r) / 2) * (π / 180))
  have h1 := neg_pi_div_two_lt_arctan t
  have h2 := arctan_lt_pi_div_two t
  have hp : 0 < 180 / π := by positivity
  have e : π / 2 * (180 / π) = 90 := by field_simp; ring
  constructor
  · have := mul_lt_mul_of_pos_right h1 hp
    rw [neg_mul, e] at this; linarith
  · have := mul_lt_mul_of_pos_right h2 hp
    rw [e] at this; linarith

/-- Azimuth produced inside any sector whose row azimuths lie in `[-180, 180]`. -/
theorem pToAz_mem (P : Params ℝ) (hf : 1 ≤ P.fuel) (s : Sector ℝ)
    (hl : -180 ≤ s.left.az ∧ s.left.az ≤ 180) (hr : -180 ≤ s.right.az ∧ s.right.az ≤ 180) (p : ℝ) :
    -180 ≤ pToAz P s p ∧ pToAz P s p < 180 := by
  unfold pToAz
  simp only [k, Scalar.ofRat]
  have e : ((-180 : ℚ) : ℝ) = -180 := by norm_num
  rw [e]
  have hn : (1 : ℝ) ≤ P.fuel := by exact_mod_cast hf
  have hrel := relativeAngle_mem P.fuel s.right.az s.left.az (by nlinarith [hl.1, hr.2]) (by nlinarith [hl.2, hr.1])
  have hm := mapLinearToAz_mem (relativeAngle P.fuel s.right.az s.left.az) s.right.az p
  have := relativeAngle_mem P.fuel (-180)
    (mapLinearToAz (relativeAngle P.fuel s.right.az s.left.az) s.right.az p)
    (by nlinarith [hm.1, hrel.1, hr.1]) (by nlinarith [hm.2, hrel.2, hr.2])
  constructor
  · exact this.1
  · linarith [this.2]


theorem sign_abs_le (x : ℝ) : |Conv.sign x| ≤ 1 := by
  rw [sign_real]; split_ifs <;> simp

theorem elToPolar_el_range (P : Params ℝ) (hT : 0 < P.elTop) (hT90 : P.elTop < 90) (hTt : 0 < P.elTopTilde)
    (hTt90 : P.elTopTilde < 90) (z rxy : ℝ) : |(elToPolar P z rxy).1| ≤ 90 := by
  rw [elToPolar_real]
  set E := arctan (z / rxy) * (180 / π) with hE
  have hE90 : |E| < 90 := by
    have h1 := neg_pi_div_two_lt_arctan (z / rxy)
    have h2 := arctan_lt_pi_div_two (z / rxy)
    have hp : 0 < 180 / π := by positivity
    have e : π / 2 * (180 / π) = 90 := by field_simp; ring
    rw [abs_lt, hE]
    constructor
    · have := mul_lt_mul_of_pos_right h1 hp
      rw [neg_mul, e] at this; exact this
    · have := mul_lt_mul_of_pos_right h2 hp
      rw [e] at this; exact this
  split_ifs with hc
  · simp only
    have h90Tt : 0 < 90 - P.elTopTilde := by linarith
    have hfrac0 : 0 ≤ (90 - P.elTop) * (|E| - P.elTopTilde) / (90 - P.elTopTilde) :=
      div_nonneg (mul_nonneg (by linarith) (by linarith)) h90Tt.le
    have hfrac1 : (90 - P.elTop) * (|E| - P.elTopTilde) / (90 - P.elTopTilde) ≤ 90 - P.elTop := by
      rw [div_le_iff₀ h90Tt]; nlinarith
    rw [abs_mul]
    have hA : |P.elTop + (90 - P.elTop) * (|E| - P.elTopTilde) / (90 - P.elTopTilde)| ≤ 90 := by
      rw [abs_of_nonneg (by linarith)]; linarith
    calc |Conv.sign E| * _ ≤ 1 * 90 := mul_le_mul (sign_abs_le E) hA (abs_nonneg _) (by norm_num)
      _ = 90 := by ring
  · simp only
    have hc' : |E| ≤ P.elTopTilde := not_lt.mp hc
    rw [abs_div, abs_mul, abs_of_pos hT, abs_of_pos hTt, div_le_iff₀ hTt]
    nlinarith [abs_nonneg E]

theorem elToPolar_d_nonneg (P : Params ℝ) (z rxy : ℝ) (h : 0 ≤ rxy) : 0 ≤ (elToPolar P z rxy).2 := by
  rw [elToPolar_real]; split_ifs <;> simp [h]

theorem sectors_mem (P : Params ℝ) (s : Sector ℝ) (h : s ∈ sectors P) :
    s.left ∈ P.rows ∧ s.right ∈ P.rows := by
  unfold sectors at h
  rw [List.mem_filterMap] at h
  obtain ⟨i, _, hi⟩ := h
  split at hi
  · rename_i l r hl hr
    simp at hi; subst hi
    exact ⟨List.mem_of_getElem? hl, List.mem_of_getElem? hr⟩
  · simp at hi

theorem pointCartToPolar_eq (P : Params ℝ) (x y z : ℝ) :
    pointCartToPolar P x y z =
      if abs x < k (1 / 10000000000) ∧ abs y < k (1 / 10000000000) then
        if abs z < k (1 / 10000000000) then some ((k 0, k 0, k 0), none)
        else some ((k 0, sign z * k 90, abs z), none)
      else
        match findCartSector P (cartAz x y) with
        | none => none
        | some s =>
          some ((pToAz P s ((gains s x y).2 / ((gains s x y).1 + (gains s x y).2)),
                 elToPolar P z ((gains s x y).1 + (gains s x y).2)), some s.idx) := by
  unfold pointCartToPolar
  dsimp only
  split_ifs
  · rfl
  · rfl
  · cases findCartSector P (cartAz x y) <;> rfl

/-- **polar_range_partial** — output of `point_cart_to_polar` -/
theorem polar_range_partial (P : Params ℝ) (hf : 1 ≤ P.fuel)
    (hrows : ∀ r ∈ P.rows, -180 ≤ r.az ∧ r.az ≤ 180)
    (hT : 0 < P.elTop) (hT90 : P.elTop < 90) (hTt : 0 < P.elTopTilde) (hTt90 : P.elTopTilde < 90)
    (x y z az el d : ℝ) (i : Option Nat)
    (h : pointCartToPolar P x y z = some ((az, el, d), i)) :
    (-180 ≤ az ∧ az < 180) ∧ |el| ≤ 90 ∧
    ((∀ s, findCartSector P (cartAz x y) = some s → 0 ≤ (gains s x y).1 + (gains s x y).2) → 0 ≤ d) := by
  rw [pointCartToPolar_eq] at h
  by_cases hc : abs x < k (1 / 10000000000) ∧ abs y < k (1 / 10000000000)
  · rw [if_pos hc] at h
    by_cases hz : abs z < k (1 / 10000000000)
    · rw [if_pos hz] at h
      simp only [Option.some.injEq, Prod.mk.injEq] at h
      obtain ⟨⟨rfl, rfl, rfl⟩, -⟩ := h
      simp [k, Scalar.ofRat]
    · rw [if_neg hz] at h
      simp only [Option.some.injEq, Prod.mk.injEq] at h
      obtain ⟨⟨rfl, rfl, rfl⟩, -⟩ := h
      refine ⟨by simp [k, Scalar.ofRat], ?_, fun _ => ?_⟩
      · rw [abs_mul]
        have : |(k 90 : ℝ)| = 90 := by simp [k, Scalar.ofRat]
        rw [this]
        calc |Conv.sign z| * 90 ≤ 1 * 90 := by
              apply mul_le_mul (sign_abs_le z) le_rfl (by norm_num) (by norm_num)
          _ = 90 := by ring
      · rw [abs_real]; exact abs_nonneg z
  · rw [if_neg hc] at h
    cases hs : findCartSector P (cartAz x y) with
    | none => rw [hs] at h; simp at h
    | some s =>
      rw [hs] at h
      simp only [Option.some.injEq, Prod.mk.injEq] at h
      obtain ⟨⟨rfl, hel⟩, -⟩ := h
      have hmem := sectors_mem P s (List.mem_of_find?_eq_some hs)
      have hel1 : el = (elToPolar P z ((gains s x y).1 + (gains s x y).2)).1 := by rw [hel]
      have hel2 : d = (elToPolar P z ((gains s x y).1 + (gains s x y).2)).2 := by rw [hel]
      refine ⟨pToAz_mem P hf s (hrows _ hmem.1) (hrows _ hmem.2) _, ?_, fun hg => ?_⟩
      · rw [hel1]; exact elToPolar_el_range P hT hT90 hTt hTt90 _ _
      · rw [hel2]; exact elToPolar_d_nonneg P _ _ (hg s rfl)


theorem deg_rad (x : ℝ) : x * (180 / π) * (π / 180) = x := by field_simp
theorem rad_deg (x : ℝ) : x * (π / 180) * (180 / π) = x := by field_simp

/-- Elevation: Cartesian -> polar -> Cartesian (`r_xy > 0`). -/
theorem el_warp_inv_cart (P : Params ℝ) (hT : 0 < P.elTop) (hT90 : P.elTop < 90) (hTt : 0 < P.elTopTilde)
    (hTt90 : P.elTopTilde < 90) (z rxy : ℝ) (hr : 0 < rxy) :
    elToCart P (elToPolar P z rxy).1 (elToPolar P z rxy).2 = (z, rxy) := by
  rw [elToPolar_real]
  set q := z / rxy with hq
  set E := arctan q * (180 / π) with hE
  have hp : 0 < 180 / π := by positivity
  have htanE : tan (E * (π / 180)) = q := by rw [hE, deg_rad, tan_arctan]
  have hE90 : |E| < 90 := by
    have h1 := neg_pi_div_two_lt_arctan q
    have h2 := arctan_lt_pi_div_two q
    have e : π / 2 * (180 / π) = 90 := by field_simp; ring
    rw [abs_lt, hE]
    constructor
    · have := mul_lt_mul_of_pos_right h1 hp
      rw [neg_mul, e] at this; exact this
    · have := mul_lt_mul_of_pos_right h2 hp
      rw [e] at this; exact this
  have hz : z = q * rxy := by rw [hq]; field_simp
  split_ifs with hc
  · -- high branch
    simp only
    have h90T : 0 < 90 - P.elTop := by linarith
    have h90Tt : 0 < 90 - P.elTopTilde := by linarith
    set A := P.elTop + (90 - P.elTop) * (|E| - P.elTopTilde) / (90 - P.elTopTilde) with hA
    have hfrac0 : 0 < (90 - P.elTop) * (|E| - P.elTopTilde) / (90 - P.elTopTilde) :=
      div_pos (mul_pos h90T (by linarith)) h90Tt
    have hfrac1 : (90 - P.elTop) * (|E| - P.elTopTilde) / (90 - P.elTopTilde) < 90 - P.elTop := by
      rw [div_lt_iff₀ h90Tt]; nlinarith
    have hA0 : P.elTop < A := by rw [hA]; linarith
    have hApos : 0 < A := by linarith
    have hback : P.elTopTilde + (90 - P.elTopTilde) * (A - P.elTop) / (90 - P.elTop) = |E| := by
      rw [hA]; field_simp; ring
    have hEne : E ≠ 0 := by intro h; rw [h, abs_zero] at hc; linarith
    have hsub : (90 - |E|) * (π / 180) = π / 2 - |E| * (π / 180) := by ring
    rcases lt_or_gt_of_ne hEne with hneg | hpos
    · -- E < 0, so q < 0 and z < 0
      have hqneg : q < 0 := by
        have : arctan q < 0 := by
          by_contra h
          have : 0 ≤ arctan q * (180 / π) := mul_nonneg (not_lt.mp h) hp.le
          linarith
        rwa [arctan_lt_zero] at this
      have hzneg : z < 0 := by rw [hz]; exact mul_neg_of_neg_of_pos hqneg hr
      rw [sign_neg hneg, elToCart_real]
      have habs : |(-1 : ℝ) * A| = A := by rw [neg_one_mul, abs_neg, abs_of_pos hApos]
      rw [habs, if_pos hA0, hback, hsub, tan_pi_div_two_sub, sign_neg (by linarith)]
      rw [abs_of_neg hneg, neg_mul, tan_neg, htanE, abs_of_neg hzneg]
      congr 1
      · ring
      · rw [hz]; have := hqneg.ne; have := hr.ne'; field_simp
    · have hqpos : 0 < q := by
        have : 0 < arctan q := by
          by_contra h
          have : arctan q * (180 / π) ≤ 0 := mul_nonpos_of_nonpos_of_nonneg (not_lt.mp h) hp.le
          linarith
        rwa [arctan_pos] at this
      have hzpos : 0 < z := by rw [hz]; exact mul_pos hqpos hr
      rw [sign_pos hpos, elToCart_real]
      have habs : |(1 : ℝ) * A| = A := by rw [one_mul, abs_of_pos hApos]
      rw [habs, if_pos hA0, hback, hsub, tan_pi_div_two_sub, sign_pos (by linarith)]
      rw [abs_of_pos hpos, htanE, abs_of_pos hzpos]
      congr 1
      · ring
      · rw [hz]; have := hqpos.ne'; have := hr.ne'; field_simp
  · -- low branch
    simp only
    have hc' : |E| ≤ P.elTopTilde := not_lt.mp hc
    rw [elToCart_real]
    have hle : |P.elTop * E / P.elTopTilde| ≤ P.elTop := by
      rw [abs_div, abs_mul, abs_of_pos hT, abs_of_pos hTt, div_le_iff₀ hTt]
      nlinarith [abs_nonneg E]
    rw [if_neg (not_lt.mpr hle)]
    have : P.elTopTilde * (P.elTop * E / P.elTopTilde) / P.elTop = E := by field_simp
    rw [this, htanE, hz]


/-! ### inside one sector -/

/-- Determinant of the matrix `[left_pos[[0,1]], right_pos[[0,1]]]`. -/
def Sector.det (s : Sector ℝ) : ℝ := s.left.x * s.right.y - s.left.y * s.right.x

theorem gains_real (s : Sector ℝ) (x y : ℝ) :
    gains s x y = (x * (s.right.y / s.det) + y * (-s.right.x / s.det),
                   x * (-s.left.y / s.det) + y * (s.left.x / s.det)) := rfl

theorem gains_combination (s : Sector ℝ) (hdet : s.det ≠ 0) (a b : ℝ) :
    gains s (a * s.left.x + b * s.right.x) (a * s.left.y + b * s.right.y) = (a, b) := by
  rw [gains_real]
  have hd : s.left.x * s.right.y - s.left.y * s.right.x ≠ 0 := hdet
  unfold Sector.det
  set D := s.left.x * s.right.y - s.left.y * s.right.x with hD
  have h1 : (a * s.left.x + b * s.right.x) * (s.right.y / D) + (a * s.left.y + b * s.right.y) * (-s.right.x / D)
      = a * (D / D) := by rw [hD]; ring
  have h2 : (a * s.left.x + b * s.right.x) * (-s.left.y / D) + (a * s.left.y + b * s.right.y) * (s.left.x / D)
      = b * (D / D) := by rw [hD]; ring
  rw [h1, h2, div_self hd, mul_one, mul_one]

theorem combination_gains (s : Sector ℝ) (hdet : s.det ≠ 0) (x y : ℝ) :
    (gains s x y).1 * s.left.x + (gains s x y).2 * s.right.x = x ∧
    (gains s x y).1 * s.left.y + (gains s x y).2 * s.right.y = y := by
  rw [gains_real]
  have hd : s.left.x * s.right.y - s.left.y * s.right.x ≠ 0 := hdet
  unfold Sector.det
  set D := s.left.x * s.right.y - s.left.y * s.right.x with hD
  constructor
  · have h1 : (x * (s.right.y / D) + y * (-s.right.x / D)) * s.left.x +
        (x * (-s.left.y / D) + y * (s.left.x / D)) * s.right.x = x * (D / D) := by rw [hD]; ring
    simp only; rw [h1, div_self hd, mul_one]
  · have h2 : (x * (s.right.y / D) + y * (-s.right.x / D)) * s.left.y +
        (x * (-s.left.y / D) + y * (s.left.x / D)) * s.right.y = y * (D / D) := by rw [hD]; ring
    simp only; rw [h2, div_self hd, mul_one]

/-- What `point_polar_to_cart` computes once the sector is chosen. -/
noncomputable def polarToCartIn (P : Params ℝ) (s : Sector ℝ) (az el d : ℝ) : ℝ × ℝ × ℝ :=
  ((elToCart P el d).2 * (s.left.x + (s.right.x - s.left.x) * azToP P s az),
   (elToCart P el d).2 * (s.left.y + (s.right.y - s.left.y) * azToP P s az),
   (elToCart P el d).1)

/-- What `point_cart_to_polar` computes once the sector is chosen. -/
noncomputable def cartToPolarIn (P : Params ℝ) (s : Sector ℝ) (x y z : ℝ) : ℝ × ℝ × ℝ :=
  (pToAz P s ((gains s x y).2 / ((gains s x y).1 + (gains s x y).2)),
   elToPolar P z ((gains s x y).1 + (gains s x y).2))

theorem pointPolarToCart_eq (P : Params ℝ) (az el d : ℝ) :
    pointPolarToCart P az el d =
      (findSector P az).map fun s => (polarToCartIn P s az el d, s.idx) := by
  unfold pointPolarToCart polarToCartIn
  cases findSector P az <;> rfl

theorem pointCartToPolar_eq' (P : Params ℝ) (x y z : ℝ)
    (h : ¬ (abs x < k (1 / 10000000000) ∧ abs y < k (1 / 10000000000))) :
    pointCartToPolar P x y z =
      (findCartSector P (cartAz x y)).map fun s => (cartToPolarIn P s x y z, some s.idx) := by
  rw [pointCartToPolar_eq, if_neg h]
  unfold cartToPolarIn
  cases findCartSector P (cartAz x y) <;> rfl

theorem elToCart_rxy_pos (P : Params ℝ) (_hT : 0 < P.elTop) (hT90 : P.elTop < 90) (hTt : 0 < P.elTopTilde)
    (hTt90 : P.elTopTilde < 90) (el d : ℝ) (hd : 0 < d) (hel90 : |el| < 90) :
    0 < (elToCart P el d).2 := by
  rw [elToCart_real]
  split_ifs with hel
  · simp only
    set E := P.elTopTilde + (90 - P.elTopTilde) * (|el| - P.elTop) / (90 - P.elTop) with hE
    have h90T : 0 < 90 - P.elTop := by linarith
    have h90Tt : 0 < 90 - P.elTopTilde := by linarith
    have hfrac0 : 0 < (90 - P.elTopTilde) * (|el| - P.elTop) / (90 - P.elTop) :=
      div_pos (mul_pos h90Tt (by linarith)) h90T
    have hfrac1 : (90 - P.elTopTilde) * (|el| - P.elTop) / (90 - P.elTop) < 90 - P.elTopTilde := by
      rw [div_lt_iff₀ h90T]; nlinarith
    have h1 : 0 < (90 - E) * (π / 180) := mul_pos (by rw [hE]; linarith) (by positivity)
    have h2 : (90 - E) * (π / 180) < π / 2 := by
      have : (90 - E) * (π / 180) < 90 * (π / 180) :=
        mul_lt_mul_of_pos_right (by rw [hE]; linarith) (by positivity)
      linarith
    exact mul_pos hd (tan_pos_of_pos_of_lt_pi_div_two h1 h2)
  · exact hd

/-- Both elevation regimes at once. -/
theorem el_warp_inv (P : Params ℝ) (hT : 0 < P.elTop) (hT90 : P.elTop < 90) (hTt : 0 < P.elTopTilde)
    (hTt90 : P.elTopTilde < 90) (el d : ℝ) (hd : 0 < d) (hel90 : |el| < 90) :
    elToPolar P (elToCart P el d).1 (elToCart P el d).2 = (el, d) := by
  rcases le_or_gt |el| P.elTop with h | h
  · exact el_warp_inv_low P hT hTt hTt90 el d hd h
  · exact el_warp_inv_high P hT hT90 hTt hTt90 el d hd h hel90

/-- **polar_cart_polar_in_sector_partial** -/
theorem polar_cart_polar_in_sector_partial (P : Params ℝ) (hT : 0 < P.elTop) (hT90 : P.elTop < 90)
    (hTt : 0 < P.elTopTilde) (hTt90 : P.elTopTilde < 90) (s : Sector ℝ) (hdet : s.det ≠ 0)
    (az el d : ℝ) (hd : 0 < d) (hel90 : |el| < 90)
    (hw0 : s.right.az - (relativeAngle P.fuel s.right.az s.left.az + s.right.az) / 2 ≠ 0)
    (hw : |s.right.az - (relativeAngle P.fuel s.right.az s.left.az + s.right.az) / 2| < 90)
    (ha : |relativeAngle P.fuel s.right.az az
            - (relativeAngle P.fuel s.right.az s.left.az + s.right.az) / 2| < 90) :
    cartToPolarIn P s (polarToCartIn P s az el d).1 (polarToCartIn P s az el d).2.1
        (polarToCartIn P s az el d).2.2 =
      (relativeAngle P.fuel (k (-180)) (relativeAngle P.fuel s.right.az az), el, d) := by
  unfold polarToCartIn cartToPolarIn
  simp only
  set rxy := (elToCart P el d).2 with hrxy
  set p := azToP P s az with hp
  have hrpos : 0 < rxy := elToCart_rxy_pos P hT hT90 hTt hTt90 el d hd hel90
  have hx : rxy * (s.left.x + (s.right.x - s.left.x) * p) = rxy * (1 - p) * s.left.x + rxy * p * s.right.x := by ring
  have hy : rxy * (s.left.y + (s.right.y - s.left.y) * p) = rxy * (1 - p) * s.left.y + rxy * p * s.right.y := by ring
  rw [hx, hy, gains_combination s hdet]
  simp only
  have hsum : rxy * (1 - p) + rxy * p = rxy := by ring
  have hq : rxy * p / rxy = p := by field_simp
  rw [hsum, hq, el_warp_inv P hT hT90 hTt hTt90 el d hd hel90]
  congr 1
  rw [hp]
  dsimp only [pToAz, azToP]
  rw [az_warp_left_inv _ _ _ hw0 hw ha]

/-- **cart_polar_cart_in_sector_partial** -/
theorem cart_polar_cart_in_sector_partial (P : Params ℝ) (hT : 0 < P.elTop) (hT90 : P.elTop < 90)
    (hTt : 0 < P.elTopTilde) (hTt90 : P.elTopTilde < 90) (s : Sector ℝ) (hdet : s.det ≠ 0)
    (x y z : ℝ) (hg1 : 0 ≤ (gains s x y).1) (hg2 : 0 ≤ (gains s x y).2)
    (hpos : 0 < (gains s x y).1 + (gains s x y).2)
    (hw0 : s.right.az - (relativeAngle P.fuel s.right.az s.left.az + s.right.az) / 2 ≠ 0)
    (hw : |s.right.az - (relativeAngle P.fuel s.right.az s.left.az + s.right.az) / 2| < 90)
    (hrel : relativeAngle P.fuel s.right.az (cartToPolarIn P s x y z).1 =
        mapLinearToAz (relativeAngle P.fuel s.right.az s.left.az) s.right.az
          ((gains s x y).2 / ((gains s x y).1 + (gains s x y).2))) :
    polarToCartIn P s (cartToPolarIn P s x y z).1 (cartToPolarIn P s x y z).2.1
        (cartToPolarIn P s x y z).2.2 = (x, y, z) := by
  set gL := (gains s x y).1 with hgL
  set gR := (gains s x y).2 with hgR
  have hp0 : 0 ≤ gR / (gL + gR) := div_nonneg hg2 hpos.le
  have hp1 : gR / (gL + gR) ≤ 1 := by rw [div_le_one hpos]; linarith
  have hazp : azToP P s (cartToPolarIn P s x y z).1 = gR / (gL + gR) := by
    dsimp only [azToP]
    rw [hrel, az_warp_right_inv _ _ _ hw0 hw hp0 hp1]
  have hel : elToCart P (cartToPolarIn P s x y z).2.1 (cartToPolarIn P s x y z).2.2 = (z, gL + gR) := by
    unfold cartToPolarIn
    exact el_warp_inv_cart P hT hT90 hTt hTt90 z (gL + gR) hpos
  unfold polarToCartIn
  rw [hazp, hel]
  simp only
  have hc := combination_gains s hdet x y
  rw [← hgL, ← hgR] at hc
  have hne : gL + gR ≠ 0 := hpos.ne'
  congr 1
  · rw [← hc.1]; field_simp; ring
  · congr 1
    rw [← hc.2]; field_simp; ring

end Earverif.Conv
