/-
C13 — the allocentric point-source panner (`Earverif.GainCalc.alloHandle`, the C01 model of
`AllocentricPanner.handle`) is exact at every loudspeaker of a sorted grid (over ℝ).
-/
import Earverif.Proofs.C13Tree

namespace Earverif.C13
open Earverif.Zone Earverif.CartLock
open Earverif.GainCalc (Leaf alloHandle alloWrites planeWrites rowWrites findPair findLoop
  singleBalancePan planeZ rowY applyWrites eqS eqS_real)

/-- the search loop on strictly ascending keys finds an exact key at its index -/
theorem findLoop_at (len : Nat) (v : ℝ) : ∀ (cs : List ℝ) (j i : Nat), (cs.Pairwise (· < ·)) → cs[i]? = some v →
    findLoop len v j cs = (j + i, j + i) := by
  intro cs
  induction cs with
  | nil => intro j i _ h; simp at h
  | cons c cs ih =>
    intro j i hs h
    rw [List.pairwise_cons] at hs
    cases i with
    | zero =>
      simp only [List.getElem?_cons_zero, Option.some.injEq] at h
      subst h
      simp [findLoop, (eqS_real c c).mpr rfl]
    | succ i =>
      simp only [List.getElem?_cons_succ] at h
      have hlt : c < v := hs.1 v (List.mem_of_getElem? h)
      have he : eqS c v = false := by
        rw [Bool.eq_false_iff]; intro h'; have := (eqS_real c v).mp h'; linarith
      have hnl : ¬ v < c := not_lt.mpr hlt.le
      simp only [findLoop, he, Bool.false_eq_true, ↓reduceIte, hnl]
      rw [ih (j + 1) i hs.2 h]
      simp [Nat.add_assoc, Nat.add_comm 1 i]

theorem findPair_at (cs : List ℝ) (v : ℝ) (i : Nat) (hs : cs.Pairwise (· < ·)) (h : cs[i]? = some v) :
    findPair cs v = (i, i) := by
  cases cs with
  | nil => simp at h
  | cons c0 rest =>
    simp only [findPair]
    by_cases hle : v ≤ c0
    · simp only [hle, ↓reduceIte]
      cases i with
      | zero => rfl
      | succ i =>
        exfalso
        rw [List.pairwise_cons] at hs
        simp only [List.getElem?_cons_succ] at h
        have := hs.1 v (List.mem_of_getElem? h)
        linarith
    · simp only [hle, ↓reduceIte]
      have := findLoop_at (c0 :: rest).length v (c0 :: rest) 0 i hs h
      simpa using this

theorem singleBalancePan_eq (a v : ℝ) : singleBalancePan a a v = ((1 : ℝ), (1 : ℝ)) := by
  simp [singleBalancePan, (eqS_real a a).mpr rfl]

theorem mapM_option_map {β γ : Type} (f : β → Option γ) (g : β → γ) :
    ∀ (l : List β), (∀ b ∈ l, f b = some (g b)) → l.mapM f = some (l.map g) := by
  intro l
  induction l with
  | nil => intro _; rfl
  | cons b bs ih =>
    intro h
    rw [List.mapM_cons, h b (by simp), ih (fun b' hb' => h b' (by simp [hb']))]
    rfl

theorem pairwise_map_lt {β : Type} (key : β → ℝ) (l : List β) (h : l.Pairwise fun a b => key a < key b) :
    (l.map key).Pairwise (· < ·) := by
  rw [List.pairwise_map]; exact h

/-- one row: both assignments go to the loudspeaker itself -/
theorem rowWrites_at (y z : ℝ) (row : List (Leaf ℝ)) (hr : RowS y z row) (l : Leaf ℝ) (hl : l ∈ row) (c : ℝ) :
    rowWrites row l.x c = some [(l.idx, c * 1), (l.idx, c * 1)] := by
  obtain ⟨i, hi⟩ := List.getElem?_of_mem hl
  have hxi : (row.map (·.x))[i]? = some l.x := by simp [hi]
  have hfp := findPair_at (row.map (·.x)) l.x i (pairwise_map_lt (·.x) row hr.sorted) hxi
  unfold rowWrites
  simp only [hfp, hxi, hi, singleBalancePan_eq]

theorem rowY_of_RowS {y z : ℝ} {row : List (Leaf ℝ)} (hr : RowS y z row) : rowY row = some (rowKey row) := by
  cases row with
  | nil => exact absurd rfl hr.ne
  | cons a as => simp [rowY, rowKey]

/-- one plane -/
theorem planeWrites_at (z : ℝ) (pl : List (List (Leaf ℝ))) (hp : PlaneS z pl) (row : List (Leaf ℝ)) (hrow : row ∈ pl)
    (l : Leaf ℝ) (hl : l ∈ row) (gz : ℝ) :
    planeWrites pl l.x l.y gz =
      some [(l.idx, gz * 1 * 1), (l.idx, gz * 1 * 1), (l.idx, gz * 1 * 1), (l.idx, gz * 1 * 1)] := by
  obtain ⟨i, hi⟩ := List.getElem?_of_mem hrow
  have hr := hp.rows row hrow
  have hy : rowKey row = l.y := ((hr.yz l hl).1).symm ▸ rfl
  have hmap : pl.mapM rowY = some (pl.map rowKey) :=
    mapM_option_map rowY rowKey pl (fun r hr' => rowY_of_RowS (hp.rows r hr'))
  have hyi : (pl.map rowKey)[i]? = some l.y := by simp [hi, hy]
  have hfp := findPair_at (pl.map rowKey) l.y i (pairwise_map_lt rowKey pl hp.sorted) hyi
  unfold planeWrites
  simp only [hmap, hfp, hyi, hi, singleBalancePan_eq, rowWrites_at (rowKey row) z row hr l hl]
  rfl

theorem planeZ_of_PlaneS {pl : List (List (Leaf ℝ))} (hne : pl ≠ []) (hp : PlaneS (planeKey pl) pl) :
    planeZ pl = some (planeKey pl) := by
  cases pl with
  | nil => exact absurd rfl hne
  | cons r rs =>
    have hr := hp.rows r (by simp)
    cases r with
    | nil => exact absurd rfl hr.ne
    | cons a as => simp [planeZ, planeKey]

/-- the eight assignments of `AllocentricPanner.handle` at a loudspeaker of the grid -/
theorem alloWrites_at (st : GainCalc.Tree ℝ) (ht : TreeS st) (l : Leaf ℝ) (hl : l ∈ leaves st) :
    ∃ ws, alloWrites st l.x l.y l.z = some ws ∧ ws ≠ [] ∧ ∀ w ∈ ws, w = (l.idx, (1 : ℝ)) := by
  unfold leaves at hl
  rw [List.mem_flatten] at hl
  obtain ⟨row, hrow, hlr⟩ := hl
  rw [List.mem_flatten] at hrow
  obtain ⟨pl, hpl, hrp⟩ := hrow
  obtain ⟨i, hi⟩ := List.getElem?_of_mem hpl
  have hp := ht.planes pl hpl
  have hz : planeKey pl = l.z := (((hp.2.rows row hrp).yz l hlr).2).symm ▸ rfl
  have hmap : st.mapM planeZ = some (st.map planeKey) :=
    mapM_option_map planeZ planeKey st (fun p hp' => planeZ_of_PlaneS (ht.planes p hp').1 (ht.planes p hp').2)
  have hzi : (st.map planeKey)[i]? = some l.z := by simp [hi, hz]
  have hfp := findPair_at (st.map planeKey) l.z i (pairwise_map_lt planeKey st ht.sorted) hzi
  unfold alloWrites
  simp only [hmap, hfp, hzi, hi, singleBalancePan_eq, planeWrites_at (planeKey pl) pl hp.2 row hrp l hlr]
  refine ⟨_, rfl, by simp, ?_⟩
  intro w hw
  simp only [List.mem_append, List.mem_cons, List.not_mem_nil, or_false] at hw
  rcases hw with (h | h | h | h) | (h | h | h | h) <;> simp [h]

theorem foldl_set_same (i : Nat) (x : ℝ) : ∀ (ws : List (Nat × ℝ)) (v : List ℝ), (∀ w ∈ ws, w = (i, x)) → ws ≠ [] →
    ws.foldl (fun ret (w : Nat × ℝ) => ret.set w.1 w.2) v = v.set i x := by
  intro ws
  induction ws with
  | nil => intro v _ h; exact absurd rfl h
  | cons w ws ih =>
    intro v h _
    have hw : w = (i, x) := h w (by simp)
    subst hw
    simp only [List.foldl_cons]
    by_cases hne : ws = []
    · subst hne; rfl
    · rw [ih (v.set i x) (fun w' hw' => h w' (by simp [hw'])) hne]
      simp

/-- **The allocentric panner is exact at every loudspeaker of a sorted grid**: the answer is the
zero vector with a one at that loudspeaker's index. -/
theorem alloHandle_at (n : Nat) (st : GainCalc.Tree ℝ) (ht : TreeS st) (l : Leaf ℝ) (hl : l ∈ leaves st) :
    alloHandle n st l.x l.y l.z = some ((List.replicate n (0 : ℝ)).set l.idx 1) := by
  obtain ⟨ws, hws, hne, hall⟩ := alloWrites_at st ht l hl
  unfold alloHandle
  rw [hws]
  simp only [Option.map_some, Option.some.injEq]
  unfold applyWrites
  rw [foldl_set_same l.idx 1 ws _ hall hne]
  simp [GainCalc.zeros]

end Earverif.C13
