/-
Module laws for the frame type of the C02/C03 models, and the instances the driver/theorems use.
`LawfulRMod V` is what "row of a numpy float array, computed exactly" satisfies.
-/
import Earverif.Model.Stream
import Mathlib.Tactic.Ring
namespace Earverif.Stream

class LawfulRMod (V : Type) [RMod V] : Prop where
  add_assoc : ∀ a b c : V, a + b + c = a + (b + c)
  add_comm : ∀ a b : V, a + b = b + a
  zero_add : ∀ a : V, 0 + a = a
  smul_add : ∀ (c : Rat) (a b : V), RMod.smul c (a + b) = RMod.smul c a + RMod.smul c b
  add_smul : ∀ (c d : Rat) (a : V), RMod.smul (c + d) a = RMod.smul c a + RMod.smul d a
  mul_smul : ∀ (c d : Rat) (a : V), RMod.smul (c * d) a = RMod.smul c (RMod.smul d a)
  one_smul : ∀ a : V, RMod.smul 1 a = a
  zero_smul : ∀ a : V, RMod.smul 0 a = 0
  smul_zero : ∀ c : Rat, RMod.smul c (0 : V) = 0
  pmul_add : ∀ a b c : V, RMod.pmul a (b + c) = RMod.pmul a b + RMod.pmul a c
  pmul_zero : ∀ a : V, RMod.pmul a 0 = 0
  pmul_smul : ∀ (c : Rat) (a b : V), RMod.pmul a (RMod.smul c b) = RMod.smul c (RMod.pmul a b)

theorem LawfulRMod.add_zero {V : Type} [RMod V] [LawfulRMod V] (a : V) : a + 0 = a := by
  rw [LawfulRMod.add_comm, LawfulRMod.zero_add]

instance : LawfulRMod Rat where
  add_assoc a b c := by ring
  add_comm a b := by ring
  zero_add a := by ring
  smul_add c a b := by show c * (a + b) = c * a + c * b; ring
  add_smul c d a := by show (c + d) * a = c * a + d * a; ring
  mul_smul c d a := by show (c * d) * a = c * (d * a); ring
  one_smul a := by show 1 * a = a; ring
  zero_smul a := by show 0 * a = 0; ring
  smul_zero c := by show c * 0 = 0; ring
  pmul_add a b c := by show a * (b + c) = a * b + a * c; ring
  pmul_zero a := by show a * 0 = 0; ring
  pmul_smul c a b := by show a * (c * b) = c * (a * b); ring

section Vec
variable {n : Nat}

theorem Frame.ext' {a b : Frame n} (h : ∀ (i : Nat) (hi : i < n), a.v[i] = b.v[i]) : a = b := by
  cases a; cases b; congr; exact Vector.ext h

@[simp] theorem Frame.add_get (a b : Frame n) (i : Nat) (h : i < n) : (a + b).v[i] = a.v[i] + b.v[i] := by
  show (Vector.zipWith (· + ·) a.v b.v)[i] = _; simp
@[simp] theorem Frame.zero_get (i : Nat) (h : i < n) : (0 : Frame n).v[i] = 0 := by
  show (Vector.replicate n (0 : Rat))[i] = 0; simp
@[simp] theorem Frame.smul_get (c : Rat) (a : Frame n) (i : Nat) (h : i < n) :
    (RMod.smul c a).v[i] = c * a.v[i] := by
  show (a.v.map (c * ·))[i] = _; simp
@[simp] theorem Frame.pmul_get (a b : Frame n) (i : Nat) (h : i < n) :
    (RMod.pmul a b).v[i] = a.v[i] * b.v[i] := by
  show (Vector.zipWith (· * ·) a.v b.v)[i] = _; simp

instance : LawfulRMod (Frame n) where
  add_assoc a b c := by apply Frame.ext'; intro i h; simp only [Frame.add_get]; ring
  add_comm a b := by apply Frame.ext'; intro i h; simp only [Frame.add_get]; ring
  zero_add a := by apply Frame.ext'; intro i h; simp only [Frame.add_get, Frame.zero_get]; ring
  smul_add c a b := by apply Frame.ext'; intro i h; simp only [Frame.add_get, Frame.smul_get]; ring
  add_smul c d a := by apply Frame.ext'; intro i h; simp only [Frame.add_get, Frame.smul_get]; ring
  mul_smul c d a := by apply Frame.ext'; intro i h; simp only [Frame.smul_get]; ring
  one_smul a := by apply Frame.ext'; intro i h; simp only [Frame.smul_get]; ring
  zero_smul a := by apply Frame.ext'; intro i h; simp only [Frame.smul_get, Frame.zero_get]; ring
  smul_zero c := by apply Frame.ext'; intro i h; simp only [Frame.smul_get, Frame.zero_get]; ring
  pmul_add a b c := by apply Frame.ext'; intro i h; simp only [Frame.add_get, Frame.pmul_get]; ring
  pmul_zero a := by apply Frame.ext'; intro i h; simp only [Frame.pmul_get, Frame.zero_get]; ring
  pmul_smul c a b := by apply Frame.ext'; intro i h; simp only [Frame.smul_get, Frame.pmul_get]; ring
end Vec

instance {V W : Type} [RMod V] [RMod W] [LawfulRMod V] [LawfulRMod W] : LawfulRMod (V × W) where
  add_assoc a b c := by
    show ((a.1 + b.1) + c.1, (a.2 + b.2) + c.2) = (a.1 + (b.1 + c.1), a.2 + (b.2 + c.2))
    rw [LawfulRMod.add_assoc, LawfulRMod.add_assoc]
  add_comm a b := by
    show (a.1 + b.1, a.2 + b.2) = (b.1 + a.1, b.2 + a.2)
    rw [LawfulRMod.add_comm a.1, LawfulRMod.add_comm a.2]
  zero_add a := by
    show ((0 : V) + a.1, (0 : W) + a.2) = a
    rw [LawfulRMod.zero_add, LawfulRMod.zero_add]
  smul_add c a b := by
    show (RMod.smul c (a.1 + b.1), RMod.smul c (a.2 + b.2)) = (RMod.smul c a.1 + RMod.smul c b.1, RMod.smul c a.2 + RMod.smul c b.2)
    rw [LawfulRMod.smul_add, LawfulRMod.smul_add]
  add_smul c d a := by
    show (RMod.smul (c + d) a.1, RMod.smul (c + d) a.2) = (RMod.smul c a.1 + RMod.smul d a.1, RMod.smul c a.2 + RMod.smul d a.2)
    rw [LawfulRMod.add_smul, LawfulRMod.add_smul]
  mul_smul c d a := by
    show (RMod.smul (c * d) a.1, RMod.smul (c * d) a.2) = (RMod.smul c (RMod.smul d a.1), RMod.smul c (RMod.smul d a.2))
    rw [LawfulRMod.mul_smul, LawfulRMod.mul_smul]
  one_smul a := by
    show (RMod.smul 1 a.1, RMod.smul 1 a.2) = a
    rw [LawfulRMod.one_smul, LawfulRMod.one_smul]
  zero_smul a := by
    show (RMod.smul 0 a.1, RMod.smul 0 a.2) = ((0 : V), (0 : W))
    rw [LawfulRMod.zero_smul, LawfulRMod.zero_smul]
  smul_zero c := by
    show (RMod.smul c (0 : V), RMod.smul c (0 : W)) = ((0 : V), (0 : W))
    rw [LawfulRMod.smul_zero, LawfulRMod.smul_zero]
  pmul_add a b c := by
    show (RMod.pmul a.1 (b.1 + c.1), RMod.pmul a.2 (b.2 + c.2)) = (RMod.pmul a.1 b.1 + RMod.pmul a.1 c.1, RMod.pmul a.2 b.2 + RMod.pmul a.2 c.2)
    rw [LawfulRMod.pmul_add, LawfulRMod.pmul_add]
  pmul_zero a := by
    show (RMod.pmul a.1 (0 : V), RMod.pmul a.2 (0 : W)) = ((0 : V), (0 : W))
    rw [LawfulRMod.pmul_zero, LawfulRMod.pmul_zero]
  pmul_smul c a b := by
    show (RMod.pmul a.1 (RMod.smul c b.1), RMod.pmul a.2 (RMod.smul c b.2)) = (RMod.smul c (RMod.pmul a.1 b.1), RMod.smul c (RMod.pmul a.2 b.2))
    rw [LawfulRMod.pmul_smul, LawfulRMod.pmul_smul]

end Earverif.Stream
