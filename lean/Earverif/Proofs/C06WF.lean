/-
C06 / C07 / C14 link: well-formedness of the allocation problems that item selection hands to
`allocate_packs`, derived from what `validate_structure` establishes about the document.

`multitreeOK f` (Model/SelectItems.lean) is the success condition of
`validate._validate_pack_channel_multitree`: the list of nodes its dfs visits from any audioPackFormat has
no duplicates.  From it: the channel formats of every `AllocationPack` that `get_wrapped_packs` builds are
pairwise distinct (C07 `WF.cf_nodup`).  The identities of the `AllocationPack` objects (`3 * root +
variant`) are distinct by construction (C07 `WF.packs_nodup`).  Core Lean only.
-/
import Earverif.Proofs.C06

namespace Earverif.Adm

/-! ### channels reachable from a pack -/

/-- the channel formats of all `(pack_formats, channel_format)` slots below `p`, search depth `k`. -/
def chansFrom (f : Formats) (k p : Nat) : List Nat :=
  (pathsFrom f.packSubs k p).flatMap fun path => (f.pack (path.getLastD 0)).channels

theorem slots_map_snd (f : Formats) (p : Nat) : (slots f p).map (·.2) = chansFrom f f.packs.length p := by
  simp only [slots, chansFrom, packPathsFrom, List.map_flatMap, List.map_map]
  refine flatMap_congr' fun path _ => ?_
  simp [Function.comp_def]

theorem getLastD_cons_of_ne_nil {α : Type} (x d : α) : ∀ {q : List α}, q ≠ [] → (x :: q).getLastD d = q.getLastD d
  | [], h => absurd rfl h
  | _ :: _, _ => by simp [List.getLastD]

theorem chansFrom_zero (f : Formats) (p : Nat) : chansFrom f 0 p = [] := by simp [chansFrom, pathsFrom]

theorem chansFrom_succ (f : Formats) (k p : Nat) :
    chansFrom f (k + 1) p = (f.pack p).channels ++ (f.pack p).subPacks.flatMap (chansFrom f k) := by
  simp only [chansFrom, pathsFrom, List.flatMap_cons, List.flatMap_assoc, Formats.packSubs]
  refine congrArg (_ ++ ·) ?_
  refine flatMap_congr' fun s _ => ?_
  rw [List.flatMap_map]
  refine flatMap_congr' fun q hq => ?_
  rw [getLastD_cons_of_ne_nil p 0 (chain_of_mem_pathsFrom _ _ _ hq).ne_nil]

theorem sum_map_le {α : Type} (l : List α) (g h : α → Nat) (hle : ∀ x ∈ l, g x ≤ h x) :
    (l.map g).sum ≤ (l.map h).sum := by
  induction l with
  | nil => simp
  | cons a t ih =>
    simp only [List.map_cons, List.sum_cons]
    have := hle a (List.mem_cons_self ..)
    have := ih fun x hx => hle x (List.mem_cons_of_mem _ hx)
    omega

theorem count_chan_map (c : Nat) (l : List Nat) : List.count (PNode.chan c) (l.map PNode.chan) = List.count c l := by
  induction l with
  | nil => rfl
  | cons a t ih =>
    simp only [List.map_cons, List.count_cons, ih]
    by_cases h : a = c
    · subst h; simp
    · have : (PNode.chan a == PNode.chan c) = false := by simp [h]
      simp [h, this]

theorem count_mtVisit_succ (f : Formats) (k p c : Nat) :
    List.count (PNode.chan c) (mtVisit f (k + 1) p) =
      (((f.pack p).subPacks.map fun s => List.count (PNode.chan c) (mtVisit f k s))).sum +
        List.count c (f.pack p).channels := by
  have hne : (PNode.pack p == PNode.chan c) = false := by simp
  simp only [mtVisit, List.count_cons, hne, List.count_append, List.count_flatMap, count_chan_map]
  simp [Function.comp_def]

/-- every channel below `p` (with multiplicity) is visited by the multitree dfs from `p`. -/
theorem count_chansFrom_le (f : Formats) : ∀ k p c,
    List.count c (chansFrom f k p) ≤ List.count (PNode.chan c) (mtVisit f (k + 1) p)
  | 0, p, c => by simp [chansFrom_zero]
  | k + 1, p, c => by
    rw [chansFrom_succ, count_mtVisit_succ, List.count_append, List.count_flatMap]
    have := sum_map_le (f.pack p).subPacks (List.count c ∘ chansFrom f k)
      (fun s => List.count (PNode.chan c) (mtVisit f (k + 1) s)) (fun s _ => count_chansFrom_le f k s c)
    omega

theorem getD_default_of_le {α : Type} (l : List α) (d : α) {i : Nat} (h : l.length ≤ i) : l.getD i d = d := by
  simp [List.getD_eq_getElem?_getD, List.getElem?_eq_none h]

/-- what the multitree check establishes, for every index (an index that is not a pack has no children). -/
theorem mtVisit_nodup_of_ok {f : Formats} (h : multitreeOK f = true) (p : Nat) :
    (mtVisit f (f.packs.length + 1) p).Nodup := by
  by_cases hp : p < f.packs.length
  · unfold multitreeOK at h
    simp only [List.all_eq_true, List.mem_range, decide_eq_true_eq] at h
    exact h p hp
  · have hd : f.pack p = default := getD_default_of_le _ _ (Nat.le_of_not_lt hp)
    have h1 : (f.pack p).subPacks = [] := by rw [hd]; rfl
    have h2 : (f.pack p).channels = [] := by rw [hd]; rfl
    simp [mtVisit, h1, h2]

/-- **slots_cf_nodup**: in a document that passes `_validate_pack_channel_multitree`, no channel format
occurs in two `(pack_formats, channel_format)` slots below the same pack. -/
theorem slots_cf_nodup {f : Formats} (h : multitreeOK f = true) (p : Nat) : ((slots f p).map (·.2)).Nodup := by
  rw [slots_map_snd, List.nodup_iff_count]
  intro c
  exact Nat.le_trans (count_chansFrom_le f _ p c) (List.nodup_iff_count.1 (mtVisit_nodup_of_ok h p) _)

/-! ### the `AllocationPack`s of `get_wrapped_packs` -/

theorem wrapRegular_cf (f : Formats) (p : Nat) : (wrapRegular f p).channels.map (·.cf) = (slots f p).map (·.2) := by
  simp [wrapRegular, List.map_map, Function.comp_def]

/-- every `AllocationPack` built for pack `p` lists the channel formats of the slots below some pack, has
`root_pack = p` and an identity in `{3p, 3p+1, 3p+2}`; the identities of the packs built for `p` are
`3p, 3p+1, …` in order. -/
theorem wrapOne_shape {f : Formats} {p : Nat} {ws : List WPack} (h : wrapOne f p = .ok ws) :
    (∀ w ∈ ws, w.root = p ∧ w.id / 3 = p ∧ ∃ q, w.channels.map (·.cf) = (slots f q).map (·.2)) ∧
    ws.map (·.id) = (List.range ws.length).map (3 * p + ·) := by
  unfold wrapOne at h
  have hflat : ∀ q fixed, ((slots f q).map fun s => (⟨s.2, [fixed]⟩ : PackAlloc.Channel)).map (·.cf) =
      (slots f q).map (·.2) := by
    intro q fixed; simp [List.map_map, Function.comp_def]
  have hpre : ((slots f p).map fun s => (⟨s.2, s.1⟩ : PackAlloc.Channel)).map (·.cf) = (slots f p).map (·.2) := by
    simp [List.map_map, Function.comp_def]
  split at h
  · cases h
    refine ⟨?_, by simp [wrapRegular]⟩
    intro w hw
    simp only [List.mem_singleton] at hw
    subst hw
    exact ⟨rfl, by simp [wrapRegular], p, wrapRegular_cf f p⟩
  · unfold wrapMatrix at h
    dsimp only at h
    split at h
    · cases h
      refine ⟨?_, by simp [List.range_succ]⟩
      intro w hw
      simp only [List.mem_cons, List.not_mem_nil, or_false] at hw
      rcases hw with rfl | rfl
      · exact ⟨rfl, by simp, _, hflat _ _⟩
      · exact ⟨rfl, by simp only; omega, p, hpre⟩
    · cases h
      exact ⟨fun w hw => (by cases hw), rfl⟩
    · split at h
      · split at h
        · cases h
          refine ⟨?_, by simp [List.range_succ]⟩
          intro w hw
          simp only [List.mem_cons, List.not_mem_nil, or_false] at hw
          rcases hw with rfl | rfl | rfl
          · exact ⟨rfl, by simp, _, hflat _ _⟩
          · exact ⟨rfl, by simp only; omega, p, hpre⟩
          · exact ⟨rfl, by simp only; omega, _, hflat _ _⟩
        · cases h
      · cases h
    · cases h

theorem wrappedPacks_eq_flatMap {f : Formats} {wps : List WPack} (h : wrappedPacks f = .ok wps) :
    (∀ p ∈ List.range f.packs.length, ∃ ws, wrapOne f p = .ok ws) ∧
    wps = (List.range f.packs.length).flatMap (okVal (wrapOne f)) := by
  rw [wrappedPacks_eq] at h
  exact (flatMapE_ok_iff _ _ _).1 h

theorem wrappedPacks_mem {f : Formats} {wps : List WPack} (h : wrappedPacks f = .ok wps) {w : WPack} (hw : w ∈ wps) :
    ∃ p ws, wrapOne f p = .ok ws ∧ w ∈ ws := by
  rw [wrappedPacks_eq] at h
  obtain ⟨p, _, ws, hws, hmem⟩ := flatMapE_mem h hw
  exact ⟨p, ws, hws, hmem⟩

/-- distinct `AllocationPack` objects: the identities `3 * root + variant` are pairwise distinct. -/
theorem wrappedPacks_ids_nodup {f : Formats} {wps : List WPack} (h : wrappedPacks f = .ok wps) :
    (wps.map (·.id)).Nodup := by
  obtain ⟨hall, rfl⟩ := wrappedPacks_eq_flatMap h
  rw [List.map_flatMap]
  refine nodup_flatMap_of List.nodup_range (fun p hp => ?_) ?_
  · obtain ⟨ws, hws⟩ := hall p hp
    have : okVal (wrapOne f) p = ws := by simp [okVal, hws]
    rw [this, (wrapOne_shape hws).2]
    exact nodup_map_of_inj List.nodup_range (fun x y hxy => by omega)
  · intro p hp q hq hne b hb hb'
    obtain ⟨ws, hws⟩ := hall p hp
    obtain ⟨ws', hws'⟩ := hall q hq
    have e1 : okVal (wrapOne f) p = ws := by simp [okVal, hws]
    have e2 : okVal (wrapOne f) q = ws' := by simp [okVal, hws']
    rw [e1] at hb
    rw [e2] at hb'
    obtain ⟨w, hw, rfl⟩ := List.mem_map.1 hb
    obtain ⟨w', hw', he⟩ := List.mem_map.1 hb'
    have h1 := ((wrapOne_shape hws).1 w hw).2.1
    have h2 := ((wrapOne_shape hws').1 w' hw').2.1
    rw [he] at h2
    exact hne (h1.symm.trans h2)

/-- pairwise distinct channel formats inside every `AllocationPack`, from the multitree check. -/
theorem wrappedPacks_cf_nodup {f : Formats} (hmt : multitreeOK f = true) {wps : List WPack}
    (h : wrappedPacks f = .ok wps) : ∀ w ∈ wps, (w.channels.map (·.cf)).Nodup := by
  intro w hw
  obtain ⟨p, ws, hws, hmem⟩ := wrappedPacks_mem h hw
  obtain ⟨q, hq⟩ := ((wrapOne_shape hws).1 w hmem).2.2
  rw [hq]
  exact slots_cf_nodup hmt q

theorem wrappedNonempty_iff {f : Formats} {wps : List WPack} (h : wrappedPacks f = .ok wps) :
    wrappedNonempty f = true ↔ ∀ w ∈ wps, w.channels ≠ [] := by
  unfold wrappedNonempty
  rw [h]
  simp [List.all_eq_true]

end Earverif.Adm
