/- C01: the C05 point-source panner, walked over its regenerated table (`pspHandle`), returns — whenever it returns a
   result that is not the zero vector — a non-negative vector of length `nReal` with unit power.  Composition of C05's
   `panner_inherits`, the per-region theorems and `downmix_nonneg_unit`; adapters between the C05 and C01 vector
   vocabularies. -/
import Earverif.Model.GainCalcConcrete
import Earverif.Proofs.C01Sub
import Earverif.Proofs.C01Pipe
import Earverif.Props.C05

namespace Earverif.GainCalc
open Earverif.PointSource (RawLayout RawRegion Region)

/-- binary64 table literals `m · 2^e` as reals -/
noncomputable instance instOfF2Real : PointSource.OfF2 ℝ := ⟨fun x => ((PointSource.f2Rat x : ℚ) : ℝ)⟩

theorem f2Rat_pos (x : PointSource.F2) (h : x.1 > 0) : 0 < PointSource.f2Rat x := by
  unfold PointSource.f2Rat
  split
  · have : (0 : Int) < x.1 * 2 ^ x.2.toNat := Int.mul_pos h (by positivity)
    exact_mod_cast this
  · rw [Rat.mkRat_eq_div]
    apply div_pos
    · exact_mod_cast h
    · positivity

theorem ofF2_pos (x : PointSource.F2) (h : x.1 > 0) : (0 : ℝ) < PointSource.OfF2.ofF2 x := by
  show (0 : ℝ) < ((PointSource.f2Rat x : ℚ) : ℝ)
  exact_mod_cast f2Rat_pos x h

/-! ### the two vocabularies agree over ℝ -/

theorem sumsq_eq_sumSq : ∀ v : List ℝ, PointSource.sumsq v = sumSq v
  | [] => by simp [PointSource.sumsq]
  | x :: xs => by simp [PointSource.sumsq, sumsq_eq_sumSq xs]

/-! ### `quadRoot` returns pan values in [0, 1] -/

theorem clip01_range (r : ℝ) : 0 ≤ clip r zero one ∧ clip r zero one ≤ 1 := by
  simp only [clip, zero_real, one_real]
  split
  · norm_num
  · rename_i h1
    split
    · norm_num
    · rename_i h2
      exact ⟨le_of_not_gt h1, le_of_not_gt h2⟩

theorem acceptRoot_range (r y : ℝ) (h : acceptRoot r = some y) : 0 ≤ y ∧ y ≤ 1 := by
  simp only [acceptRoot] at h
  split at h
  · cases h; exact clip01_range r
  · exact absurd h (by simp)

theorem quadRoot_range (c : ℝ × ℝ × ℝ) (x : ℝ) (h : quadRoot c = some x) : 0 ≤ x ∧ x ≤ 1 := by
  simp only [quadRoot] at h
  split at h
  · split at h
    · exact absurd h (by simp)
    · exact acceptRoot_range _ _ h
  · split at h
    · split at h
      · exact acceptRoot_range _ _ h
      · exact absurd h (by simp)
    · generalize hq : (if c.2.1 < zero then _ else _ : ℝ) = q at h
      cases h1 : acceptRoot (q / c.1) with
      | some r =>
        simp only [h1, firstSome, Option.some.injEq] at h
        subst h
        exact acceptRoot_range _ _ h1
      | none =>
        simp only [h1, firstSome] at h
        split at h
        · exact absurd h (by simp)
        · exact acceptRoot_range _ _ h

/-! ### regions of a well-formed table -/

theorem region_nonneg (n : Nat) (raw : RawRegion) (hw : raw.wellFormed n = true) (reg : Region ℝ)
    (hreg : raw.toRegion = some reg) (x y : Option ℝ) (hx : ∀ v, x = some v → 0 ≤ v ∧ v ≤ 1)
    (hy : ∀ v, y = some v → 0 ≤ v ∧ v ≤ 1) (p : PointSource.Vec3 ℝ) (g : List ℝ)
    (h : PointSource.remap reg.channels n (reg.handle (x, y) p) = some g) : ∀ v ∈ g, 0 ≤ v := by
  simp only [PointSource.remap, Option.map_eq_some_iff] at h
  obtain ⟨vals, hvals, rfl⟩ := h
  refine PointSource.scatter_nonneg _ _ _ (PointSource.zeros_nonneg n) ?_
  obtain ⟨kind, ch, posl, centre, cdm, order⟩ := raw
  simp only [RawRegion.wellFormed, Bool.and_eq_true] at hw
  obtain ⟨_, hk⟩ := hw
  rcases kind with _ | _ | _ | kind
  · -- triplet
    rcases posl with _ | ⟨a, _ | ⟨b, _ | ⟨c, _ | ⟨d, rest⟩⟩⟩⟩ <;> simp only [RawRegion.toRegion] at hreg <;>
      first
      | (simp only [Option.some.injEq] at hreg
         subst hreg
         simp only [Region.handle, Option.map_eq_some_iff] at hvals
         obtain ⟨gv, hgv, rfl⟩ := hvals
         exact PointSource.vecList_nonneg (PointSource.triplet_nonneg _ _ _ hgv))
      | exact absurd hreg (by simp)
  · -- ngon
    simp only [RawRegion.toRegion, Option.some.injEq] at hreg
    subst hreg
    simp only [Region.handle] at hvals
    refine (PointSource.ngon_nonneg_unit _ p vals ?_ hvals).1
    intro d hd
    simp only [List.mem_map] at hd
    obtain ⟨f, hf, rfl⟩ := hd
    simp only [Bool.and_eq_true, List.all_eq_true, decide_eq_true_eq] at hk
    exact (ofF2_pos f (hk.2 f hf)).le
  · -- quad
    simp only [RawRegion.toRegion, Option.some.injEq] at hreg
    subst hreg
    simp only [Region.handle] at hvals
    simp only [Bool.and_eq_true] at hk
    cases x with
    | none => simp [PointSource.QuadRegion.handle] at hvals
    | some xv =>
      cases y with
      | none => simp [PointSource.QuadRegion.handle] at hvals
      | some yv =>
        exact (PointSource.quad_nonneg_unit _ p xv yv vals hk.2 (hx xv rfl).1 (hx xv rfl).2 (hy yv rfl).1 (hy yv rfl).2
          hvals).1
  · simp [RawRegion.toRegion] at hreg

theorem downmixRows_nonneg (L : RawLayout) (hd : L.downmixOk = true) :
    ∀ row ∈ (L.downmixRows : List (List ℝ)), ∀ x ∈ row, 0 ≤ x := by
  intro row hrow x hx
  simp only [RawLayout.downmixRows, List.mem_map] at hrow
  obtain ⟨i, _, rfl⟩ := hrow
  simp only [List.mem_map] at hx
  obtain ⟨j, _, rfl⟩ := hx
  split
  · rename_i e he
    have hmem := List.mem_of_find?_eq_some he
    simp only [RawLayout.downmixOk, Bool.and_eq_true, List.all_eq_true, decide_eq_true_eq] at hd
    exact (ofF2_pos e.2.2 (hd.1.1.2 e hmem).2).le
  · simp

/-- **The C05 panner over its table, for layouts without the stereo wrapper**: a result that is not the zero vector is
    non-negative, has length `nReal` and unit power. -/
theorem pspHandle_contract (L : RawLayout) (hwf : L.wellFormed = true) (hst : L.stereo = none) (pos : V3 ℝ) (p : List ℝ)
    (h : pspHandle L pos = some p) (hnz : ∃ x ∈ p, x ≠ 0) : p.length = L.nReal ∧ Nonneg p ∧ sumSq p = 1 := by
  simp only [RawLayout.wellFormed, Bool.and_eq_true] at hwf
  obtain ⟨⟨⟨hregs, _⟩, hdm⟩, _⟩ := hwf
  simp only [pspHandle] at h
  split at h
  · exact absurd h (by simp)
  · rename_i regions hmap
    simp only [RawLayout.handle, hmap, hst] at h
    simp only [PointSource.PointSourcePannerDownmix.handle, Option.map_eq_some_iff] at h
    obtain ⟨v, hv, rfl⟩ := h
    -- the inner answer is non-negative: every accepting region's answer is
    have hvn : ∀ x ∈ v, 0 ≤ x := by
      refine PointSource.panner_inherits regions L.nInner _ pos (fun g => ∀ x ∈ g, 0 ≤ x) ?_ v hv
      intro kk hk g hg
      obtain ⟨raw, hraw, hreg⟩ := mapM_some_mem _ L.regions regions hmap regions[kk] (List.getElem_mem hk)
      simp only [List.all_eq_true] at hregs
      have hgk : regions[kk]? = some regions[kk] := List.getElem?_eq_getElem hk
      refine region_nonneg L.nInner raw (hregs raw hraw) regions[kk] hreg _ _ ?_ ?_ pos g hg
      · intro xv hxv
        rw [hgk] at hxv
        split at hxv
        · exact quadRoot_range _ xv (by simpa using hxv)
        · simp at hxv
      · intro yv hyv
        rw [hgk] at hyv
        split at hyv
        · exact quadRoot_range _ yv (by simpa using hyv)
        · simp at hyv
    have hD := downmixRows_nonneg L hdm
    have hmv := PointSource.matVec_nonneg hD hvn
    have hne : PointSource.sumsq (PointSource.matVec (L.downmixRows : List (List ℝ)) v) ≠ 0 := by
      intro h0
      obtain ⟨x, hx, hx0⟩ := hnz
      have hz := PointSource.sumsq_eq_zero h0
      simp only [PointSource.normalise, List.mem_map] at hx
      obtain ⟨y, hy, rfl⟩ := hx
      rw [hz y hy] at hx0
      simp at hx0
    refine ⟨by simp [PointSource.normalise, PointSource.matVec, RawLayout.downmixRows], ?_, ?_⟩
    · exact fun x hx => PointSource.normalise_nonneg hmv x hx
    · rw [← sumsq_eq_sumSq]
      exact PointSource.sumsq_normalise hne

/-! ### `calc_pv_spread` when only the point branch runs -/

theorem calcPvSpread_point_only (n : Nat) (a : ℝ) (p s s' : List ℝ) (ha : ¬ (k (1 / 10000000000) : ℝ) < a) :
    calcPvSpread n a p s = calcPvSpread n a p s' := by
  simp only [calcPvSpread, ha, if_false]

end Earverif.GainCalc
