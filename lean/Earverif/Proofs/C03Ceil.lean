/- `renderer_common.ceil` (trunc + correction) is the exact ceiling. -/
import Earverif.Model.RenderSpec
import Mathlib.Tactic.Linarith
import Mathlib.Tactic.Ring
import Mathlib.Data.Rat.Floor
namespace Earverif.Timeline
open Earverif.RenderSpec

theorem ceilQ_le_iff (x : Rat) (n : Int) : ceilQ x ≤ n ↔ x ≤ (n : Rat) := by
  unfold ceilQ
  constructor
  · intro h
    have h1 : -n ≤ (-x).floor := by omega
    have h2 := Rat.le_floor_iff.mp h1
    push_cast at h2; linarith
  · intro h
    have h2 : ((-n : Int) : Rat) ≤ -x := by push_cast; linarith
    have := Rat.le_floor_iff.mpr h2
    omega

theorem le_ceilQ (x : Rat) : x ≤ (ceilQ x : Rat) := (ceilQ_le_iff x _).mp (Int.le_refl _)

theorem ceil_le_iff (x : Rat) (n : Int) : ceil x ≤ n ↔ x ≤ (n : Rat) := by
  unfold ceil trunc
  by_cases hx : 0 ≤ x
  · simp only [hx, if_true]
    have hfl := Rat.floor_le x
    by_cases hy : ((x.floor : Int) : Rat) < x
    · simp only [hy, if_true]
      constructor
      · intro h
        have : x.floor < n := by omega
        exact le_of_lt (Rat.floor_lt_iff.mp this)
      · intro h
        have : ((x.floor : Int) : Rat) < n := lt_of_lt_of_le hy h
        have : x.floor < n := by exact_mod_cast this
        omega
    · simp only [hy, if_false]
      have hxe : x = x.floor := le_antisymm (not_lt.mp hy) hfl
      constructor
      · intro h
        have : ((x.floor : Int) : Rat) ≤ n := by exact_mod_cast h
        linarith
      · intro h
        have : ((x.floor : Int) : Rat) ≤ n := by linarith
        exact_mod_cast this
  · simp only [hx, if_false]
    have hc := le_ceilQ x
    unfold ceilQ at hc
    have hy : ¬ (((-(-x).floor : Int)) : Rat) < x := not_lt.mpr hc
    simp only [hy, if_false]
    exact ceilQ_le_iff x n

/-- The implementation's `ceil` is the mathematical ceiling. -/
theorem ceil_eq_ceilQ (x : Rat) : ceil x = ceilQ x := by
  apply Int.le_antisymm
  · exact (ceil_le_iff x _).mpr (le_ceilQ x)
  · exact (ceilQ_le_iff x _).mpr ((ceil_le_iff x _).mp (Int.le_refl _))

theorem le_ceil (x : Rat) : x ≤ (ceil x : Rat) := (ceil_le_iff x _).mp (Int.le_refl _)

theorem lt_ceil_iff (x : Rat) (n : Int) : n < ceil x ↔ (n : Rat) < x := by
  have := ceil_le_iff x n
  constructor
  · intro h; by_contra hc; exact absurd (this.mpr (not_lt.mp hc)) (by omega)
  · intro h; by_contra hc; exact absurd (this.mp (by omega)) (not_le.mpr h)

theorem ceil_mono {a b : Rat} (h : a ≤ b) : ceil a ≤ ceil b :=
  (ceil_le_iff a _).mpr (le_trans h (le_ceil b))

end Earverif.Timeline
