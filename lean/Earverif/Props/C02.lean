/-
C02 — rendered output is independent of how the input is split into blocks; concatenated output +
tail has exactly the input length, starting at time zero.

Component theorems (each for ALL partitions of the stream, by induction) about the literal state
machines of `Model/Stream.lean`; helper lemmas are in `Proofs/C02{Delay,Vbs}.lean`.
The `BlockProcessingChannel` component is `Earverif.Timeline.bpc_eq_gainAt` in `Props/C03.lean`.
-/
import Earverif.Proofs.C02Vbs
import Earverif.Proofs.C02Laws
import Earverif.Proofs.C02Compose
namespace Earverif.Stream

/-- **`delay_eq`** — `Delay(delay = d)` fed ANY partition `parts` of a stream `x = parts.flatten`
(empty and single-sample blocks included): the concatenated outputs are the first `len(x)` samples of
`zeros(d) ++ x` (i.e. `x` shifted by `d`), the memory afterwards holds the remaining `d` samples, and every
call returns exactly as many samples as it was given. -/
theorem delay_eq {α : Type} (z : α) (d : Nat) (parts : List (List α)) :
    (Delay.run z (Delay.init z d) parts).1.flatten =
        (List.replicate d z ++ parts.flatten).take parts.flatten.length ∧
      (Delay.run z (Delay.init z d) parts).2 =
        (List.replicate d z ++ parts.flatten).drop parts.flatten.length ∧
      (Delay.run z (Delay.init z d) parts).1.map List.length = parts.map List.length :=
  delay_run_eq z parts (List.replicate d z)

/-- C02 for the delay line: two partitions of the same stream give the same concatenated output. -/
theorem delay_block_independent {α : Type} (z : α) (d : Nat) (p q : List (List α)) (h : p.flatten = q.flatten) :
    (Delay.run z (Delay.init z d) p).1.flatten = (Delay.run z (Delay.init z d) q).1.flatten := by
  rw [(delay_eq z d p).1, (delay_eq z d q).1, h]

/-- C02 for the block-size adapter (`vbs_eq` is in `Proofs/C02Vbs.lean`): two partitions of the same
stream give the same concatenated output, whatever the wrapped block function is. -/
theorem vbs_block_independent {σ α : Type} (f : σ → List α → σ × List α) (B : Nat) (z : α) (s0 : σ) (hB : 1 ≤ B)
    (hf : ∀ s blk, blk.length = B → (f s blk).2.length = B) (p q : List (List α)) (h : p.flatten = q.flatten) :
    (Vbs.run f B z (Vbs.init f B z s0) p).1.flatten = (Vbs.run f B z (Vbs.init f B z s0) q).1.flatten := by
  rw [(vbs_eq f B z s0 hB hf p).1, (vbs_eq f B z s0 hB hf q).1, h]

/-- Non-vacuity: a delay of 2 fed `[1,2,3] [] [4]`. -/
example : (Delay.run (0 : Int) (Delay.init 0 2) [[1, 2, 3], [], [4]]).1 = [[0, 0, 1], [], [2]] := by decide

/-- Non-vacuity: the adapter with `block_size = 2` around "negate the block" fed `[1] [2,3,4] [] [5]`. -/
example : (Vbs.run (fun (s : Unit) (b : List Int) => (s, b.map (- ·))) 2 0
    (Vbs.init (fun (s : Unit) (b : List Int) => (s, b.map (- ·))) 2 0 ()) [[1], [2, 3, 4], [], [5]]).1 =
    [[0], [0, -1, -2], [], [-3]] := by decide

end Earverif.Stream

/-! ### Composition (`Renderer.render` / `get_tail`) — partial -/
namespace Earverif.Renderer
open Earverif.Stream Earverif.Timeline

section
variable {V : Type} [RMod V]

/-- The shifted sum `A[s+D] + B[s] + C[s]` of the three streams the aligner receives. -/
def alignedSum (D : Nat) (rs : List (Nat × List V × List V × List V)) : List V :=
  List.zipWith (· + ·)
    (List.zipWith (· + ·) ((rs.map (·.2.1)).flatten.drop D) (rs.map (·.2.2.1)).flatten)
    (rs.map (·.2.2.2)).flatten

/-- Component fact (4) `aligner_eq`, NOT proved in this tree (stated here as a named hypothesis): for rounds with
three equally long blocks at offsets (−D, 0, 0) no assertion of `BlockAligner` fails and the concatenated `get`s are
the shifted sum. -/
def AlignerFact (D : Nat) (rs : List (Nat × List V × List V × List V)) : Prop :=
  ∃ outs al, alignRun D (Aligner.init : Aligner V) 0 rs = .ok (outs, al) ∧ outs.flatten = alignedSum D rs

/-- **`render_refines_spec_partial`** — what is proved of the composition: IF the three type renderers, each run on
its own over the blocks followed by the tail block, succeed with per-call outputs `o1s/o2s/o3s`, and IF the aligner
fact holds for these rounds, THEN the whole session (`render` on every block, then `get_tail`) succeeds and its
concatenated output is the aligned sum `obj[s + overall_delay] + ds[s] + hoa[s]`.
Missing for the full `render_refines_spec` (= `RenderSpec.out`): `aligner_eq` itself; `fir_blockwise_eq` (FIR with
history = whole-stream FIR) to turn `vbs_eq` into the group-delay statement; the fold of `bpc_eq_gainAt` over the
items of one renderer (`procChans`) and its DirectSpeakers/HOA analogue for `interpFixed`; the final index algebra. -/
theorem render_refines_spec_partial (c : Cfg V) (objs : List (ObjItem V)) (dss : List (DsItem V))
    (hoas : List (HoaItem V)) (parts : List (List (List Rat)))
    (obj' : ObjState V) (ds' : List (Nat × DsBpc V)) (hoa' : List (List Nat × HoaBpc V)) (o1s o2s o3s : List (List V))
    (hobj : subRun (fun s S0 b => ObjState.render c s S0 b) (ObjState.init c objs) 0 (parts ++ [tailBlock c]) =
      .ok (obj', o1s))
    (hds : subRun (dsRender c) (dss.map fun it => (it.track, ⟨it.blocks, {}, []⟩)) 0 (parts ++ [tailBlock c]) =
      .ok (ds', o2s))
    (hhoa : subRun (hoaRender c) (hoas.map fun it => (it.tracks, ⟨it.blocks, {}, []⟩)) 0 (parts ++ [tailBlock c]) =
      .ok (hoa', o3s))
    (haligner : AlignerFact c.overall_delay (rounds (parts ++ [tailBlock c]) o1s o2s o3s)) :
    renderAll c objs dss hoas parts =
      .ok (alignedSum c.overall_delay (rounds (parts ++ [tailBlock c]) o1s o2s o3s)) := by
  obtain ⟨outs, al, hrun, hflat⟩ := haligner
  rw [renderAll_eq_run]
  have := run_factor c (parts ++ [tailBlock c]) (RState.init c objs dss hoas) obj' ds' hoa' o1s o2s o3s outs al
    hobj hds hhoa hrun
  rw [this]
  simp only [hflat]

/-- **`C02_block_independent_partial`** — two blockings `p`, `q` of the same input: if (component facts) each type
renderer's concatenated output stream is the same for both blockings and the aligner fact holds for both, the
sessions return the same audio. -/
theorem C02_block_independent_partial (c : Cfg V) (objs : List (ObjItem V)) (dss : List (DsItem V))
    (hoas : List (HoaItem V)) (p q : List (List (List Rat)))
    (objp objq : ObjState V) (dsp dsq : List (Nat × DsBpc V)) (hoap hoaq : List (List Nat × HoaBpc V))
    (a1 a2 a3 b1 b2 b3 : List (List V))
    (hp1 : subRun (fun s S0 b => ObjState.render c s S0 b) (ObjState.init c objs) 0 (p ++ [tailBlock c]) = .ok (objp, a1))
    (hp2 : subRun (dsRender c) (dss.map fun it => (it.track, ⟨it.blocks, {}, []⟩)) 0 (p ++ [tailBlock c]) = .ok (dsp, a2))
    (hp3 : subRun (hoaRender c) (hoas.map fun it => (it.tracks, ⟨it.blocks, {}, []⟩)) 0 (p ++ [tailBlock c]) = .ok (hoap, a3))
    (hq1 : subRun (fun s S0 b => ObjState.render c s S0 b) (ObjState.init c objs) 0 (q ++ [tailBlock c]) = .ok (objq, b1))
    (hq2 : subRun (dsRender c) (dss.map fun it => (it.track, ⟨it.blocks, {}, []⟩)) 0 (q ++ [tailBlock c]) = .ok (dsq, b2))
    (hq3 : subRun (hoaRender c) (hoas.map fun it => (it.tracks, ⟨it.blocks, {}, []⟩)) 0 (q ++ [tailBlock c]) = .ok (hoaq, b3))
    (hap : AlignerFact c.overall_delay (rounds (p ++ [tailBlock c]) a1 a2 a3))
    (haq : AlignerFact c.overall_delay (rounds (q ++ [tailBlock c]) b1 b2 b3))
    (hsame : alignedSum c.overall_delay (rounds (p ++ [tailBlock c]) a1 a2 a3) =
      alignedSum c.overall_delay (rounds (q ++ [tailBlock c]) b1 b2 b3)) :
    renderAll c objs dss hoas p = renderAll c objs dss hoas q := by
  rw [render_refines_spec_partial c objs dss hoas p objp dsp hoap a1 a2 a3 hp1 hp2 hp3 hap,
    render_refines_spec_partial c objs dss hoas q objq dsq hoaq b1 b2 b3 hq1 hq2 hq3 haq, hsame]

end

/-- Non-vacuity of `AlignerFact`: two rounds (lengths 2 and 3), delay 1, integer "frames". -/
example : AlignerFact (V := Rat) 1 [(2, [1, 2], [10, 20], [100, 200]), (3, [3, 4, 5], [30, 40, 50], [300, 400, 500])] :=
  ⟨_, _, rfl, by decide +kernel⟩

end Earverif.Renderer
