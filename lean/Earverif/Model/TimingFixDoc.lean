/-
C15 — document-level model of `ear/fileio/adm/timing_fixes.py`: the three passes of
`check_blockFormat_timings(adm, fix=True)` over *all* audioChannelFormats of a document, and the
traversal of `check_blockFormat_times_for_audioObjects`:

    matcher = ObjectChannelMatcher(adm)
    for audioObject in adm.audioObjects:
        if audioObject.duration is None: continue
        for channelFormat in matcher.get_channel_formats_for_object(audioObject):
            for blockFormat in channelFormat.audioBlockFormats:
                _clamp_blockFormat_times(blockFormat, audioObject, fix=fix)

`ObjectChannelMatcher.get_channel_formats_for_object(o)` runs the pack allocator
(`_PackAllocator.select_pack_mapping`) on a state whose only audioObject is `o`: the channels are
those of the unique allocation of `o`'s **own** audioPackFormats / audioTrackUIDs (all channels of
the pack trees it references, silent tracks included); nested audioObjects are not followed (every
audioObject of the document is visited by the outer loop itself); if the references are
conflicting or ambiguous, `AdmFormatRefError` escapes from the repair.  The allocator is the C06/C07
model (`Model/SelectItems.lean: selectPackMapping`, imported, not copied).

The per-channel model (`Model/TimingFix.lean`) is what the C15 theorems are about;
`Proofs/C15Doc.lean` proves that this document-level function acts on every channel as the
per-channel `fixTimings` with `objs` = the audioObjects whose allocation contains the channel
(`objsFor`), in document order, so the `objs` pairing is no longer a trusted input.

Core Lean only.
-/
import Earverif.Model.TimingFix
import Earverif.Model.SelectItems
namespace Earverif.TimingFix

/-- the audioBlockFormats of all audioChannelFormats, by channel index -/
abbrev Table := List (List Block)

/-- `channelFormat.audioBlockFormats` (no blocks for an index outside the document) -/
def Table.get (t : Table) (c : Nat) : List Block := t.getD c []

/-- a warning with the index of the audioChannelFormat it is about -/
structure DWarn where
  chan : Nat
  warn : Warn
deriving DecidableEq

/-- exceptions escaping the document-level repair -/
inductive DocErr
  | block (e : Err)   -- `ValueError` / `AssertionError` from `_clamp_blockFormat_*`
  | formatRef         -- `AdmFormatRefError` from the pack allocator (conflicting / ambiguous references)
deriving DecidableEq

/-- `for channelFormat in adm.audioChannelFormats: <pass on channelFormat.audioBlockFormats>`
(passes 1 and 2: every channel on its own, in document order) -/
def docPass (f : List Block → List Block × List Warn) (c : Nat) : Table → Table × List DWarn
  | [] => ([], [])
  | bs :: rest =>
    let r := f bs
    let rs := docPass f (c + 1) rest
    (r.1 :: rs.1, r.2.map (⟨c, ·⟩) ++ rs.2)

/-- `for channelFormat in <channels of one audioObject>: for blockFormat in ...: _clamp_blockFormat_times`
with `D = audioObject.duration`; stops at the first exception -/
def clampChannels (D : Rat) : List Nat → Table → Except Err (Table × List DWarn)
  | [], t => .ok (t, [])
  | c :: cs, t =>
    match clampBlocks 0 D (t.get c) with
    | .error e => .error e
    | .ok r =>
      match clampChannels D cs (t.set c r.1) with
      | .error e => .error e
      | .ok rs => .ok (rs.1, r.2.map (⟨c, ·⟩) ++ rs.2)

/-- `check_blockFormat_times_for_audioObjects(adm, fix=True)`.  `pairs` lists, per audioObject in
document order, its timing and what `get_channel_formats_for_object` yields for it
(`none`: the allocator raises `AdmFormatRefError`); the matcher is only consulted for audioObjects
that have a duration. -/
def docCheckTimes : List (Obj × Option (List Nat)) → Table → Except DocErr (Table × List DWarn)
  | [], t => .ok (t, [])
  | (o, chs) :: rest, t =>
    match o.duration with
    | none => docCheckTimes rest t
    | some D =>
      match chs with
      | none => .error .formatRef
      | some cs =>
        match clampChannels D cs t with
        | .error e => .error (.block e)
        | .ok r =>
          match docCheckTimes rest r.1 with
          | .error e => .error e
          | .ok rs => .ok (rs.1, r.2 ++ rs.2)

/-- `fix_blockFormat_timings(adm)` on the whole document -/
def docFix (pairs : List (Obj × Option (List Nat))) (t : Table) : Except DocErr (Table × List DWarn) :=
  let p1 := docPass (checkDurations 0) 0 t
  let p2 := docPass (checkILs 0) 0 p1.1
  match docCheckTimes pairs p2.1 with
  | .error e => .error e
  | .ok r => .ok (r.1, p1.2 ++ p2.2 ++ r.2)

/-- The audioObjects (with multiplicity, in document order) whose channel list contains channel
`c`: the `objs` argument of the per-channel model. -/
def objsFor : List (Obj × Option (List Nat)) → Nat → List Obj
  | [], _ => []
  | (o, chs) :: rest, c =>
    (match chs with
     | some cs => (cs.filter (· == c)).map (fun _ => o)
     | none => []) ++ objsFor rest c

/-! ### the traversal on a small document type -/

/-- an audioObject: timing, `audioPackFormats`, `audioTrackUIDs` (`none` = silent track `ATU_00000000`).
Nested audioObjects (`audioObjects` references) are deliberately absent: the repair never reads them
(the harness builds real documents *with* nested audioObjects and compares). -/
structure DObj where
  start : Option Rat
  duration : Option Rat
  packs : List Nat
  tracks : List (Option Nat)
deriving DecidableEq

/-- a non-Matrix audioPackFormat: type (1 DirectSpeakers, 3 Objects), own audioChannelFormats, nested
audioPackFormats -/
structure DPack where
  type : Nat
  channels : List Nat
  subPacks : List Nat
deriving DecidableEq

/-- an audioTrackUID: the audioChannelFormat it reaches (through audioTrackFormat/audioStreamFormat
or directly) and its audioPackFormat -/
structure DUid where
  channel : Nat
  pack : Nat
deriving DecidableEq

structure Doc where
  objects : List DObj
  packs : List DPack
  uids : List DUid
  channels : Table
deriving DecidableEq

/-- the document as the item-selection model sees it (`Model/Adm.lean`); everything the pack
allocator does not read is left at its default -/
def Doc.toAdm (d : Doc) : Adm.Adm :=
  { programmes := [], contents := [],
    objects := d.objects.map fun o =>
      { (default : Adm.Obj) with packs := o.packs, tracks := o.tracks,
                                 start := o.start, duration := o.duration },
    fmt :=
      { packs := d.packs.map fun p =>
          { (default : Adm.Pack) with type := p.type, channels := p.channels, subPacks := p.subPacks },
        channels := d.channels.map fun _ => (default : Adm.Channel),
        streamFormats := [], trackFormats := [],
        trackUIDs := d.uids.zipIdx.map fun ui => ⟨ui.2 + 1, .channel ui.1.channel, ui.1.pack⟩ } }

/-- `list(ObjectChannelMatcher(adm).get_channel_formats_for_object(adm.audioObjects[o]))`:
`_ItemSelectionState(adm, audioObjects=[audioObject])`, then every `channelFormat` of every
`state.channel_allocation` yielded by `select_pack_mapping`. -/
def Doc.channelsFor (d : Doc) (o : Nat) : Option (List Nat) :=
  match Adm.selectPackMapping d.toAdm { programme := none, content := none, objPath := some [o] } with
  | .ok packs => some (packs.flatMap fun ap => ap.alloc.map (·.1))
  | .error _ => none

/-- per audioObject in document order: its timing and its channels -/
def Doc.pairs (d : Doc) : List (Obj × Option (List Nat)) :=
  d.objects.zipIdx.map fun oi => (⟨oi.1.start, oi.1.duration⟩, d.channelsFor oi.2)

/-- `fix_blockFormat_timings(adm)` on a small document -/
def Doc.fix (d : Doc) : Except DocErr (Table × List DWarn) := docFix d.pairs d.channels

end Earverif.TimingFix
