"""C14 — item selection fails only with ADM errors, and rejects what it cannot resolve.

Fault injector over valid generated documents (harness/c14_docs.py) -> real `select_rendering_items` vs the
Lean model (Earverif.Validate.selectItems through c14driver) + direct predicates on the real code alone."""
import itertools

from .common import Spec, Driver
from . import c14_docs as D

TYPE_CODE = {"DirectSpeakers": 1, "Matrix": 2, "Objects": 3, "HOA": 4, "Binaural": 5}
NORM = {"SN3D": 0, "N3D": 1, "FuMa": 2}


# --------------------------------------------------------------------------------------
# document -> driver line


class Outside(Exception):
    """document uses something the Lean model does not cover"""


def _lst(xs):
    return ",".join(str(x) for x in xs) if xs else "-"


def _opt(x):
    return "-" if x is None else str(x)


def encode(doc):
    adm = doc.adm
    idx = {k: {id(e): i for i, e in enumerate(getattr(adm, D.LISTS[k]))} for k in D.KINDS}

    def ref(kind, obj):
        if obj is None:
            return None
        try:
            return idx[kind][id(obj)]
        except KeyError:
            raise Outside("reference to an element that is not in the document")

    def refs(kind, objs):
        return [ref(kind, o) for o in objs]

    # alternativeValueSet elements -> tokens (identity); an AVS must be the child of at most one audioObject
    tok, owner = {}, {}

    def avs_tokens(lst):
        return [tok.setdefault(id(a), len(tok)) for a in lst]

    for oi, o in enumerate(adm.audioObjects):
        for a in o.alternativeValueSets:
            if owner.setdefault(id(a), oi) != oi:
                raise Outside("avs-shared-between-objects")
    head = "%d %s %s" % (1 if (adm.version is None or D._imports()[0].version.version_at_least(adm.version, 2)) else 0,
                         _opt(doc.prog), _lst(doc.sel))
    ps = ["%s %s" % (_lst(refs("ac", p.audioContents)), _lst(avs_tokens(p.alternativeValueSets)))
          for p in adm.audioProgrammes]
    cs = ["%s %s" % (_lst(refs("ao", c.audioObjects)), _lst(avs_tokens(c.alternativeValueSets)))
          for c in adm.audioContents]
    os_ = []
    for o in adm.audioObjects:
        params = (o.start is not None or o.duration is not None or o.gain != 1.0 or o.mute
                  or o.positionOffset is not None or bool(o.alternativeValueSets))
        tracks = ",".join("s" if t is None else str(ref("atu", t)) for t in o.audioTrackUIDs) or "-"
        os_.append("%s %s %s %s %d %s" % (_lst(refs("ao", o.audioObjects)), _lst(refs("apf", o.audioPackFormats)), tracks,
                                          _lst(refs("ao", o.audioComplementaryObjects)), 1 if params else 0,
                                          _lst(avs_tokens(o.alternativeValueSets))))
    pks = []
    for p in adm.audioPackFormats:
        if p.absoluteDistance is not None or p.nfcRefDist is not None:
            raise Outside("pack-parameter")
        norm = None if p.normalization is None else NORM[p.normalization]
        scr = None if p.screenRef is None else int(p.screenRef)
        pks.append("%d %s %s %s %s %s %s %s" % (
            TYPE_CODE[p.type.name], _lst(refs("acf", p.audioChannelFormats)), _lst(refs("apf", p.audioPackFormats)),
            _lst(refs("apf", p.encodePackFormats)), _opt(ref("apf", p.inputPackFormat)),
            _opt(ref("apf", p.outputPackFormat)), _opt(norm), _opt(scr)))
    chs = []
    E = D._imports()[0]
    for c in adm.audioChannelFormats:
        bl = []
        for b in c.audioBlockFormats:
            cart = eq = 0
            order = degree = norm = scr = out = None
            coeffs = "-"
            if c.type.name == "Objects":
                cart = int(bool(b.cartesian) != isinstance(b.position, E.ObjectCartesianPosition))
            elif c.type.name == "HOA":
                if b.rtime is not None or b.duration is not None or b.nfcRefDist is not None:
                    raise Outside("hoa-block-parameter")
                eq = int(b.equation is not None)
                order, degree = b.order, b.degree
                norm = None if b.normalization is None else NORM[b.normalization]
                scr = None if b.screenRef is None else int(b.screenRef)
            elif c.type.name == "Matrix":
                if b.rtime is not None or b.duration is not None:
                    raise Outside("matrix-block-time")
                out = ref("acf", b.outputChannelFormat)
                cos = []
                for co in b.matrix:
                    bad = (co.gainVar is not None or co.delayVar is not None or co.phaseVar is not None
                           or co.phase is not None or (co.delay is not None and co.delay < 0))
                    cos.append("%s.%d" % (_opt(ref("acf", co.inputChannelFormat)), int(bad)))
                coeffs = ",".join(cos) or "-"
            bl.append("%d:%d:%s:%s:%s:%s:%s:%s" % (cart, eq, _opt(order), _opt(degree), _opt(norm), _opt(scr),
                                                   _opt(out), coeffs))
        freq = int(c.frequency.lowPass is not None or c.frequency.highPass is not None)
        chs.append("%d %d %s" % (TYPE_CODE[c.type.name], freq, "/".join(bl) or "-"))
    ss = ["%s %s" % (_opt(ref("acf", s.audioChannelFormat)), _opt(ref("apf", s.audioPackFormat)))
          for s in adm.audioStreamFormats]
    tfs = [_opt(ref("asf", t.audioStreamFormat)) for t in adm.audioTrackFormats]
    atus = ["%s %s %s %s" % (_opt(t.trackIndex), _opt(ref("apf", t.audioPackFormat)),
                             _opt(ref("atf", t.audioTrackFormat)), _opt(ref("acf", t.audioChannelFormat)))
            for t in adm.audioTrackUIDs]
    return " | ".join([head] + [" ; ".join(x) for x in (ps, cs, os_, pks, chs, ss, tfs, atus)])


# --------------------------------------------------------------------------------------


def real_class(r):
    if r["cls"] == "items":
        return "items:%d" % r["n"]
    if r["cls"] == "adm":
        return "adm:" + r["kind"]
    return "internal:%s:%s" % (r["exc"], r["fn"])


# --------------------------------------------------------------------------------------
# independent reference count (search predicate "inconsistent / ambiguous references are rejected")


def brute_force_counts(doc):
    """For a document without Matrix packs: for every allocation problem item selection has to solve (one per
    audioObject with tracks/packs reachable or not, or the CHNA-only problem), the number of distinct allocations
    meeting the requirements listed in the `allocate_packs` docstring, capped at 2.  Written from that
    specification, independent of pack_allocation.py and of _PackAllocator."""
    adm = doc.adm
    if any(p.type.name == "Matrix" for p in adm.audioPackFormats):
        return None

    def paths(p, seen=()):
        if any(p is q for q in seen):
            raise Outside("loop")
        yield (p,)
        for s in p.audioPackFormats:
            for rest in paths(s, seen + (p,)):
                yield (p,) + rest

    patterns = []
    for p in adm.audioPackFormats:
        chans = [(c, path) for path in paths(p) for c in path[-1].audioChannelFormats]
        patterns.append((p, chans))

    def track_channel(t):
        if t.audioTrackFormat is not None:
            return t.audioTrackFormat.audioStreamFormat.audioChannelFormat
        return t.audioChannelFormat

    def count(pack_refs, tracks, n_silent):
        total = len(tracks) + n_silent
        usable = [i for i, (p, ch) in enumerate(patterns) if ch]
        sols = set()

        def compatible(t, slot):
            c, path = slot
            return track_channel(t) is c and any(t.audioPackFormat is q for q in path)

        def assign(chosen):
            slots = [(pi, k) for n, pi in enumerate(chosen) for k in range(len(patterns[pi][1]))]
            slot_owner = [n for n, pi in enumerate(chosen) for k in range(len(patterns[pi][1]))]

            def rec(ti, used):
                if len(sols) >= 2:
                    return
                if ti == len(tracks):
                    packs = [[] for _ in chosen]
                    for si, (pi, k) in enumerate(slots):
                        packs[slot_owner[si]].append(used.get(si, "S"))
                    sols.add(tuple(sorted((chosen[n], tuple(a)) for n, a in enumerate(packs))))
                    return
                for si, (pi, k) in enumerate(slots):
                    if si not in used and compatible(tracks[ti], patterns[pi][1][k]):
                        used[si] = ti
                        rec(ti + 1, used)
                        del used[si]

            rec(0, {})

        def choose(start, chosen, nch):
            if len(sols) >= 2:
                return
            if nch == total:
                if pack_refs is not None:
                    a = sorted(id(patterns[i][0]) for i in chosen)
                    if a != sorted(id(p) for p in pack_refs):
                        return
                assign(chosen)
                return
            for i in usable:
                if i >= start and nch + len(patterns[i][1]) <= total:
                    choose(i, chosen + [i], nch + len(patterns[i][1]))

        if pack_refs is not None:
            for p in pack_refs:
                if not any(p is q and ch for q, ch in patterns):
                    return 0  # a referenced pack without channels can never be allocated
        choose(0, [], 0)
        return len(sols)

    out = []
    if adm.audioProgrammes or adm.audioObjects:
        for o in adm.audioObjects:
            real = [t for t in o.audioTrackUIDs if t is not None]
            out.append(("object", o.id, count(o.audioPackFormats, real, len(o.audioTrackUIDs) - len(real))))
    else:
        out.append(("chna", None, count(None, list(adm.audioTrackUIDs), 0)))
    return out


# --------------------------------------------------------------------------------------


class C14(Spec):
    pid = "C14"
    lean_targets = ("Earverif.Props.C14", "c14driver")
    props_module = "Earverif.Props.C14"
    theorems = tuple("Earverif.Validate." + t for t in (
        "select_no_internal_partial", "validate_no_internal_partial", "allocator_init_no_internal",
        "resolved_iff_unique_valid_partial", "conflicting_is_error", "ambiguous_is_error", "allocProblem_wf",
        "processState_decided", "processState_noInt", "packChannels_nodup",
        "diagnostics_total", "raiseError_adm", "empty_pack_rejected_though_spec_valid",
        "multitree_sound", "multitreeSound_holds", "mtDfs_ok",
        "validateMatrixTypes_noInt", "validateEncodeRef_noInt", "validateMatrixPack_ok", "patterns_noInt", "patterns_ok",
        "matrixTrackSpec_noInt", "renderingItems_noInt",
        "validateAvsReferences_noInt", "avs_refs_unique", "avsSelected_noInt", "avs_assert_total",
        "hoa_reachable_one_block", "hoaParams_ok_nonempty", "selectComplementary_noInt",
        "hoa_empty_pack_is_adm", "unsupported_type_is_adm", "coefficient_without_input_is_adm",
        "encode_without_refs_is_adm", "shared_avs_defeats_validation"))
    trusted_base = (
        "model Earverif/Model/AdmV.lean + Validate.lean: hand transliteration of ADM.validate (MatrixCoefficient, "
        "stream and trackFormat element validators), validate.validate_structure (every _validate_* function incl. the "
        "Matrix branch of _validate_matrix_types and _validate_avs_references), matrix.type_of / input_pack_format, "
        "validate_selected_audioTrackUID, possible_reference_errors and helpers, and of select_items "
        "(_PackAllocator.get_wrapped_packs / wrap_matrix_pack, _select_complementary_objects, "
        "_select_programme_content_objects, select_pack_mapping, raise_error, Regular/MatrixAllocationPack "
        "output_pack / output_channel_allocation, _get_rendering_items incl. _get_pack_format_path, the HOA "
        "get_single_param calls and _get_alternativeValueSet); references are list indices, identity comparison is "
        "index (token) equality",
        "the pack allocator inside the model is C07's Lean model Earverif.PackAlloc (allocate_packs and the decision "
        "of select_pack_mapping; its own correspondence and theorems alloc_sound / alloc_complete / alloc_nodup / "
        "accept_iff_unique are property C07); this model builds the allocation problem from the document "
        "(allocProblem: one AllocationPack per entry of _PackAllocator.packs with identity = position, "
        "AllocationChannel pack_formats = pack path / [matrix pack] / [encode pack], one AllocationTrackUID per "
        "selected track, the object's pack references or None for CHNA-only, the number of silent tracks); the "
        "outcome comparison with the real code no longer replays the real allocator's solutions",
        "graph walks in the model use fuel = number of elements (+1/+2); equality with Python's unbounded recursion "
        "on documents that passed the loop validations is not proved (checked by the correspondence)",
        "audioProgramme ids increase with list position (generate_ids), so min(key=id) is the first programme",
    )
    assumptions = (
        "documents are closed object graphs: every referenced element is registered in the ADM (wellScoped) and an "
        "alternativeValueSet element is the child of one audioObject (avsOwned; sharing one AlternativeValueSet "
        "instance between two audioObjects is only possible through the Python API and does defeat the validation: "
        "theorem shared_avs_defeats_validation); references point at elements of the right class and attribute "
        "values have the types the attrs validators demand (cross-class references making attrs raise TypeError and "
        "wrong Python types are outside the quantifier)",
        "modelled parameter values: block rtime/duration, HOA nfcRefDist and pack absoluteDistance unset (never set "
        "by the generators; a document using them is search-only)",
        "audio_programme argument is None or a programme of the document; selected_complementary_objects are "
        "objects of the document",
    )
    rule = (
        "case = (generated valid document recipe, fault list, call arguments); recipes: 19 document kinds x "
        "{BS.2076-1 trackFormat refs (version None / 1), BS.2076-2 channelFormat refs} x variants; no fault, every "
        "single structural fault at every site (retarget to every other element of the kind / remove / add / "
        "duplicate / drop / insert (loops) / silence a reference, typeDefinition change, track index missing or "
        "duplicated, object parameters, channel content, HOA parameters, call arguments), then seeded random double "
        "faults (second fault drawn from the sites of the once-faulted document); non-trivial = at least one fault; "
        "distinct by (recipe, faults); compared: items:<count> / adm:<message family> / exception type"
    )

    ORDER_SENSITIVE = ("nestedpack", "chna_nested", "matrix_direct", "matrix_decode", "matrix_encdec", "matrix_pre",
                       "nested", "comp")

    # ---- case stream ----

    def recipes(self, ctx):
        nvar = {"objects": 4, "comp": 3, "twoprog": 3, "chna": 6, "avs": 4, "mixed": 4 if ctx.quick else 12}
        out = []
        for kind in D.DOC_KINDS:
            for style in (1, 2):
                for var in range(nvar.get(kind, 2)):
                    out.append((kind, style, var))
        return out

    def stream(self, ctx):
        """yield (recipe, faults) : no fault, every single fault at every site, sampled double faults"""
        recs = self.recipes(ctx)
        for rec in recs:
            yield rec, []
            base = D.build(rec)
            for f in D.fault_sites(base):
                yield rec, [f]
            # declaration order is not significant in ADM but is what order-dependent validation bugs hinge on:
            # documents with nested / matrix packs also run with the pack list reversed (sub-pack before parent,
            # encode pack after decode pack, ...), again with every single fault at every site
            if rec[0] in self.ORDER_SENSITIVE and (not ctx.quick or rec[2] == 0):
                o = ("order", "apf", -1)
                yield rec, [o]
                for f in D.fault_sites(D.build_faulty(rec, [o])):
                    yield rec, [o, f]
        ndouble = 5000 if ctx.quick else 60000
        n = 0
        while n < ndouble:
            rec = ctx.rng.choice(recs)
            pre = []
            doc = D.build(rec)
            if ctx.rng.random() < 0.3:  # a random declaration-order variant first
                kind = ctx.rng.choice(D.ORDER_KINDS)
                if len(getattr(doc.adm, D.LISTS[kind])) > 1:
                    pre = [("order", kind, ctx.rng.choice([-1, ctx.rng.randrange(1000)]))]
                    D.apply_fault(doc, pre[0])
            f1 = ctx.rng.choice(D.fault_sites(doc))
            if not D.apply_fault(doc, f1):
                continue
            f2 = ctx.rng.choice(D.fault_sites(doc))
            n += 1
            yield rec, pre + [f1, f2]

    # ---- direct predicates on the real code ----

    def _shrink(self, rec, faults, tag):
        """remove faults one at a time while the same failure (exception type + function) is still produced"""
        faults = list(faults)
        changed = True
        while changed and len(faults) > 1:
            changed = False
            for i in range(len(faults)):
                sub = faults[:i] + faults[i + 1:]
                d = D.build_faulty(rec, sub)
                if d is not None:
                    r = D.run_real(d)
                    if r["cls"] == "internal" and "internal:%s:%s" % (r["exc"], r["fn"]) == tag:
                        faults, changed = sub, True
                        break
        return faults

    def _predicate(self, ctx, rec, faults, doc, r):
        """(1) nothing but AdmError escapes; (2) items are only returned when the references resolve uniquely."""
        if r["cls"] == "internal":
            tag = "internal:%s:%s" % (r["exc"], r["fn"])
            ctx.count("hit:" + tag)
            self._nhits[tag] = self._nhits.get(tag, 0) + 1
            if self._nhits[tag] <= 3:
                small = self._shrink(rec, faults, tag)
                ctx.hit("exception other than AdmError escapes select_rendering_items",
                        {"doc": list(rec), "faults": small},
                        {"exception": r["exc"], "message": r["msg"], "frames": r["frames"],
                         "fault": [D.fault_kind(f) + "@" + D.site_kind(f) for f in small]},
                        [tag])
            return
        if r["cls"] == "items":
            try:
                counts = brute_force_counts(doc)
            except Exception:  # the reference count only understands structurally valid documents
                counts = None
                ctx.count("refcount:not-applicable")
            if counts is not None:
                ctx.count("refcount:checked")
                bad = [c for c in counts if c[2] != 1 and self._selected(doc, c)]
                if bad:
                    tag = "resolved:%s" % ("ambiguous" if bad[0][2] >= 2 else "conflicting")
                    ctx.count("hit:" + tag)
                    self._nhits[tag] = self._nhits.get(tag, 0) + 1
                    if self._nhits[tag] <= 3:
                        ctx.hit("rendering items returned although the format references do not resolve uniquely",
                                {"doc": list(rec), "faults": faults},
                                {"problem": [(c[0], c[1], c[2]) for c in bad], "items": r["n"]}, [tag])

    def _selected(self, doc, c):
        """is the allocation problem `c` one that item selection actually had to solve for this call?"""
        if c[0] == "chna":
            return True
        return c[1] in self._selected_ids(doc)

    def _selected_ids(self, doc):
        """ids of the audioObjects reached from the selected programme (or the roots), minus ignored
        complementary objects: recomputed here from the document, independent of the code under test"""
        adm = doc.adm
        prog, sel = doc.call_args()
        if adm.audioProgrammes:
            p = prog if prog is not None else min(adm.audioProgrammes, key=lambda x: x.id)
            roots = [o for c in p.audioContents for o in c.audioObjects]
        else:
            sub = {id(s) for o in adm.audioObjects for s in o.audioObjects}
            roots = [o for o in adm.audioObjects if id(o) not in sub]
        ignored = set()
        for root in adm.audioObjects:
            if root.audioComplementaryObjects:
                group = [root] + list(root.audioComplementaryObjects)
                chosen = [o for o in group if any(o is s for s in sel)] or [root]
                ignored |= {id(o) for o in group if not any(o is s for s in chosen)}
        out = set()

        def walk(o, path):
            path = path + [o]
            if not any(id(q) in ignored for q in path):
                out.add(o.id)
            for s in o.audioObjects:
                walk(s, path)

        for r_ in roots:
            walk(r_, [])
        return out

    # ---- correspondence ----

    def correspond(self, ctx):
        self._nhits = {}
        self._seeds = []  # (recipe, faults) on which model and code disagree: seeds of the guided search
        driver = Driver("c14driver", "Earverif.Driver.C14")
        lines, metas = [], []
        for rec, faults in self.stream(ctx):
            doc = D.build_faulty(rec, faults)
            if doc is None:
                ctx.count("fault-not-applicable")
                continue
            r = D.run_real(doc)
            cls = real_class(r)
            nf = sum(1 for f in faults if f[0] != "order")
            ctx.count("faults:%d" % nf)
            if len(faults) != nf:
                ctx.count("declaration-order-variant")
            ctx.count("style:v%d" % rec[1])
            ctx.count("doc:" + rec[0])
            for f in faults:
                ctx.count("fault:" + D.fault_kind(f))
                ctx.count("site:" + D.site_kind(f))
            ctx.count("outcome:" + (cls if r["cls"] != "items" else "items"))
            if r["cls"] == "adm":
                ctx.count("exception:" + r["exc"])
            self._predicate(ctx, rec, faults, doc, r)
            try:
                line = encode(doc)
            except Outside as e:
                ctx.count("outside-model:" + str(e))
                ctx.case((rec, faults, "search-only"), nf > 0)
                continue
            lines.append(line)
            metas.append((rec, faults, cls, r))
        outs = driver.run(lines)
        for (rec, faults, cls, r), line, out in zip(metas, lines, outs):
            res, _, mt = out.partition(" mt=")
            sample = None
            if faults and r["cls"] != "items":
                sample = {"doc": rec, "faults": faults, "real": cls, "model": res}
            ctx.case((rec, faults), bool(faults), sample=sample)
            if out == "bad-op":
                ctx.disagree("driver rejected the document line", {"doc": rec, "faults": faults, "line": line}, out, cls)
                continue
            if mt != "1":
                ctx.disagree("multitree validation accepted a document without the unique-path property "
                             "(assumption MultitreeSound of select_no_internal_partial)",
                             {"doc": rec, "faults": faults}, out, cls)
                continue
            model = res
            if model.startswith("internal:"):
                # the model names the Python operation, the real run names exception type and function
                kind = model.split(":")[1]
                exp = {"index": "IndexError", "unpack": "ValueError", "attrNone": "AttributeError",
                       "assert": "AssertionError", "typeError": "TypeError",
                       "notImplemented": "NotImplementedError"}[kind]
                ok = r["cls"] == "internal" and r["exc"] == exp
            else:
                ok = model == cls
            if ok:
                ctx.validated()
            else:
                self._seeds.append((rec, list(faults), model, cls))
                ctx.disagree("select_rendering_items vs Earverif.Validate.selectItems",
                             {"doc": rec, "faults": faults}, model, cls)

    def _guided(self, ctx):
        """Disagreement-guided failing-input search (DESIGN 1.3): documents on which the model and the code
        disagree are where the code departs from what was proved; take them -- and their declaration-order
        variants -- as seeds and inject every single additional fault at every site on top, evaluating the direct
        predicates on the real code."""
        seeds, seen = [], set()
        # fewest faults first, then one seed per (document kind, fault kinds, model outcome, real outcome)
        for rec, faults, model, cls in sorted(self._seeds, key=lambda s: (len(s[1]), s[0])):
            key = (rec[0], tuple(D.fault_kind(f) + "@" + D.site_kind(f) for f in faults), model, cls)
            if key in seen:
                continue
            seen.add(key)
            seeds.append((rec, faults))
        budget = 15000 if ctx.quick else 120000
        per_seed = max(1, budget // max(1, min(len(seeds), 40)))
        n = 0
        for rec, faults in seeds[:40 if ctx.quick else 400]:
            base = D.build_faulty(rec, faults)
            if base is None:
                continue
            variants = [[]] + [[o] for o in D.order_variants(base, ctx.rng)]
            m = 0
            for var in variants:
                doc = D.build_faulty(rec, faults + var)
                if doc is None:
                    continue
                for f in D.fault_sites(doc):
                    fs = faults + var + [f]
                    d2 = D.build_faulty(rec, fs)
                    if d2 is None:
                        continue
                    r = D.run_real(d2)
                    n += 1
                    m += 1
                    ctx.case(("guided", rec, fs), True)
                    ctx.count("search:guided")
                    self._predicate(ctx, rec, fs, d2, r)
                    if m >= per_seed:
                        break
                if m >= per_seed:
                    break
            if n >= budget:
                break
        ctx.count("search:guided-seeds", min(len(seeds), 40 if ctx.quick else 400))

    def search(self, ctx, deep):
        # the predicates already ran on every correspondence case (they do not need the driver); when the
        # correspondence could not run (driver broken) or something else broke, run them on the stream alone
        if getattr(self, "_nhits", None) is None:
            self._nhits = {}
            for rec, faults in self.stream(ctx):
                doc = D.build_faulty(rec, faults)
                if doc is None:
                    continue
                r = D.run_real(doc)
                ctx.case(("search", rec, faults), bool(faults))
                self._predicate(ctx, rec, faults, doc, r)
        if getattr(self, "_seeds", None):
            self._guided(ctx)
        if not deep:
            return
        # triple faults (beyond the property's quantifier for the model, still inside "any document")
        n = 0
        recs = self.recipes(ctx)
        budget = 4000 if ctx.quick else 30000
        while n < budget:
            rec = ctx.rng.choice(recs)
            fs, doc = [], D.build(rec)
            for _ in range(3):
                sites = D.fault_sites(doc)
                f = ctx.rng.choice(sites)
                if not D.apply_fault(doc, f):
                    break
                fs.append(f)
            n += 1
            doc = D.build_faulty(rec, fs)
            if doc is None:
                continue
            r = D.run_real(doc)
            ctx.case(("triple", rec, fs), True)
            ctx.count("search:triple")
            self._predicate(ctx, rec, fs, doc, r)


SPEC = C14()

# Families of escaping non-ADM exceptions that existed on earlier trees (all recorded as `fixed` in
# known_findings.json: 0d9f6b4, 03146b0, 592dfc9, 76cae51).  The predicate tags every escape as
# internal:<exception>:<function>, so each of these is reported again as an ordinary VIOLATION if it returns.
FORMER_FAMILIES = (
    "internal:AttributeError:possible_audioTrackUID_errors",
    "internal:IndexError:get_single_param",
    "internal:AssertionError:type_of",
    "internal:ValueError:validate",
    "internal:NotImplementedError:_get_rendering_items",
)

REGISTRY = dict(
    text="PARTIAL: Lean theorem Earverif.Validate.select_no_internal_partial proves, for every well-scoped document "
    "graph (Matrix packs and alternativeValueSets included) and every programme/complementary selection, that the "
    "model of select_rendering_items never ends in a non-ADM exception, by a chain of 'after _validate_X succeeded, "
    "step Y is total' lemmas: validate_structure with all thirteen _validate_* functions "
    "(validate_no_internal_partial: no hypothesis; every matrix.type_of, [encode_apf] = ..., [block_format] = ... and "
    "'assert obj is not None' is preceded by its guard in any declaration order), the allocator's packs "
    "(allocator_init_no_internal: wrap_matrix_pack), complementary objects, programme/content/object traversal, "
    "track validation, select_pack_mapping with the pack allocator itself (C07's Lean model of allocate_packs called "
    "on the problem built from the document: no oracle, no hypothesis on the allocator), raise_error diagnostics, "
    "Regular/Matrix output_channel_allocation (matrixTrackSpec_noInt) and rendering-item construction incl. "
    "_get_pack_format_path (multitree_sound, proved) and _get_alternativeValueSet (avs_assert_total). "
    "resolved_iff_unique_valid_partial states the property's second sentence about the document via C07's "
    "accept_iff_unique: for a state whose tracks passed validation, no valid assignment => the Conflicting ADM error, "
    "two inequivalent ones => the Ambiguous ADM error, exactly one <=> the allocator accepts it and the outcome is its "
    "rendering, items returned => exactly one valid assignment; C07's WF of the built problem is derived from the "
    "validation model (allocProblem_wf: distinct pack/track objects by construction, distinct channels per "
    "allocation pack from the multitree check) except 'no allocation pack without channels', which stays a "
    "hypothesis (empty_pack_rejected_though_spec_valid shows why). diagnostics_total / raiseError_adm: "
    "possible_reference_errors is total for both referencing styles and raise_error raises exactly the error asked "
    "for. _partial only because message formatting, attrs validators (cross-class references), recursion depth and "
    "a few parameter values the generators leave unset (rtime/duration, nfcRefDist, absoluteDistance) are outside "
    "the model. The model is tied to the code on every run by a fault injector (every single fault at every site, "
    "declaration-order variants, sampled double faults on 19 kinds of generated documents in both referencing "
    "styles, all inside the model) comparing items count / AdmError message family / exception type directly (the "
    "real allocator's solutions are no longer replayed); the direct predicates (only AdmError escapes; items only "
    "when an independent brute-force count of the allocations is exactly 1) run on the same stream, on a "
    "disagreement-guided stream when the correspondence breaks, and in the thorough tier on triple faults.",
    note="Five families of escaping non-ADM exceptions found by this check were repaired in /repo (0d9f6b4, 03146b0, "
    "592dfc9, 76cae51); each is reported again under its tag internal:<exception>:<function> if it returns. "
    "Outside the quantifier: cross-class references (attrs TypeError) and an AlternativeValueSet instance shared by "
    "two audioObjects (AssertionError in _get_alternativeValueSet; not producible from XML). Trusted: Lean kernel, "
    "the hand transliteration + correspondence (incl. C07's allocator model, imported).",
    technique="Lean 4 proof (validation-order lemma chain over an Except-valued transliteration, C07's allocator "
    "theorems for the uniqueness statement) + fault-injection differential correspondence + direct predicate search "
    "on the real code",
    design_ref="DESIGN.md section 4, C14",
)
