/-
The partitioned overlap-save convolver (`Model/OverlapSave.lean`, transliteration of
`OverlapSaveConvolver.__init__/filter_block`) equals the direct-form FIR of `Model/Stream.lean`.

Route: an explicit state invariant `OSInv f B X s` ("`s` is the state after the stream prefix `X`"): the first
half of `input_block` holds the last `B` samples of `X` (zeros before the start), and slot `i` of the queue holds,
in its first `B` rows, the contributions of the filter taps `q ≥ (i+1)·B` to the output rows that are due `i` blocks
from now.  One `filter_block` call preserves it and returns the FIR rows (`os_step_spec`); everything else is
induction over the block list.

Second half: the renderer models with that convolver AND the numpy exceptions (`renderAllOS`, `renderAllTSOS`) against the
totalised FIR models (`renderAll`, `renderAllTS`), call by call, through the relation `ChkRel` of `Proofs/C02Checked.lean`
(`renderAllOS_rel`, `render_refines_spec_os`, `renderAllOS_ok_tracks`, `renderAllOS_ok_first_matrix`, …).
-/
import Earverif.Model.OverlapSave
import Earverif.Proofs.C02Fir
import Earverif.Proofs.C02Render
import Earverif.Proofs.C02RenderTS
import Earverif.Proofs.C02Checked
namespace Earverif.Stream
set_option linter.unusedSectionVars false
set_option linter.unusedSimpArgs false

variable {V : Type} [RMod V] [LawfulRMod V]

/-! ### finite sums `Σ_{i<n} g i` in the order `foldl` adds them -/

def S (n : Nat) (g : Nat → V) : V := ((List.range n).map g).foldl (· + ·) 0

theorem S_zero (g : Nat → V) : S 0 g = 0 := rfl

theorem S_succ (n : Nat) (g : Nat → V) : S (n + 1) g = S n g + g n := by
  simp only [S, List.range_succ, List.map_append, List.foldl_append, List.map_cons, List.map_nil, List.foldl_cons,
    List.foldl_nil]

theorem S_congr (n : Nat) (g g' : Nat → V) (h : ∀ i, i < n → g i = g' i) : S n g = S n g' := by
  unfold S
  congr 1
  apply List.map_congr_left
  intro i hi
  exact h i (List.mem_range.mp hi)

theorem S_zeros (n : Nat) (g : Nat → V) (h : ∀ i, i < n → g i = 0) : S n g = 0 := by
  induction n with
  | zero => rfl
  | succ n ih =>
    rw [S_succ, ih (fun i hi => h i (by omega)), h n (by omega), LawfulRMod.zero_add]

theorem S_split (a b : Nat) (g : Nat → V) : S (a + b) g = S a g + S b (fun r => g (a + r)) := by
  induction b with
  | zero => rw [Nat.add_zero, S_zero, LawfulRMod.add_zero]
  | succ b ih => rw [← Nat.add_assoc, S_succ, ih, S_succ, LawfulRMod.add_assoc]

/-- One term of the convolution sum: tap `q` times the stream sample `p − q` (zero before the start). -/
def tap (f X : List V) (p q : Nat) : V := RMod.pmul (f.getD q 0) (if q ≤ p then X.getD (p - q) 0 else 0)

theorem fir_at_eq_S (f X : List V) (p : Nat) : Fir.at f X p = S f.length (tap f X p) := by
  unfold Fir.at S
  congr 1
  apply List.map_congr_left
  intro k _
  unfold tap
  split
  · rfl
  · rw [LawfulRMod.pmul_zero]

/-- A term does not change when the stream is extended, as long as it reads the old part (or nothing). -/
theorem tap_append (f X Y : List V) (p q : Nat) (h : p < X.length + q) : tap f (X ++ Y) p q = tap f X p q := by
  unfold tap
  split
  · rw [getD_append_lt _ _ _ (by omega)]
  · rfl

/-! ### pointwise access to the lists the model builds -/

theorem getD_zipWith_add (a b : List V) (h : a.length = b.length) (n : Nat) :
    (List.zipWith (· + ·) a b).getD n 0 = a.getD n 0 + b.getD n 0 := by
  simp only [List.getD_eq_getElem?_getD, List.getElem?_zipWith]
  by_cases hn : n < a.length
  · have h1 : a[n]? = some a[n] := List.getElem?_eq_getElem hn
    have h2 : b[n]? = some b[n] := List.getElem?_eq_getElem (by omega)
    simp only [h1, h2, Option.getD_some]
  · have h1 : a[n]? = none := List.getElem?_eq_none (by omega)
    have h2 : b[n]? = none := List.getElem?_eq_none (by omega)
    simp only [h1, h2, Option.getD_none, LawfulRMod.zero_add]

theorem length_circConv (N : Nat) (a b : List V) : (circConv N a b).length = N := by
  simp [circConv]

theorem getD_circConv (N : Nat) (a b : List V) (n : Nat) (h : n < N) :
    (circConv N a b).getD n 0 =
      S (min a.length N) (fun m => RMod.pmul (a.getD m 0) (b.getD ((n + N - m) % N) 0)) := by
  simp only [circConv, List.getD_eq_getElem?_getD, List.getElem?_map, List.getElem?_range h, Option.map_some,
    Option.getD_some, S]

theorem getD_slice (l : List V) (a b i : Nat) (h : a + i < b) : (slice l a b).getD i 0 = l.getD (a + i) 0 := by
  simp only [List.getD_eq_getElem?_getD, getElem?_slice, if_pos h]

/-- The `input_block` after the two slice assignments of `filter_block`: new block in the first half, the old
first half in the second half. -/
theorem getD_input_block (ib blk : List V) (B : Nat) (hib : ib.length = 2 * B) (hblk : blk.length = B) (i : Nat) :
    (setSlice (setSlice ib B (ib.take B)) 0 blk).getD i 0 =
      if i < B then blk.getD i 0 else if i < 2 * B then ib.getD (i - B) 0 else 0 := by
  have ht : (ib.take B).length = B := by simp; omega
  have h1 : (setSlice ib B (ib.take B)).length = 2 * B := by
    rw [setSlice_length _ _ _ (by omega)]; exact hib
  simp only [List.getD_eq_getElem?_getD]
  rw [getElem?_setSlice _ _ _ (by omega), getElem?_setSlice _ _ _ (by omega)]
  simp only [hblk, ht, Nat.zero_add, Nat.not_lt_zero, if_false, Nat.sub_zero]
  by_cases h1 : i < B
  · simp only [h1, if_true]
  · simp only [h1, if_false]
    by_cases h2 : i < 2 * B
    · have : i < B + B := by omega
      simp only [h2, this, if_true, List.getElem?_take]
      rw [if_pos (by omega)]
    · have : ¬ i < B + B := by omega
      simp only [h2, this, if_false]
      rw [List.getElem?_eq_none (by omega)]; rfl

/-! ### the state invariant -/

/-- `s` is the state of the convolver for filter `f` and block size `B` after the stream prefix `X`:
* the first half of `input_block` holds the last `B` samples of `X` (zeros before the start);
* slot `i` of the queue is due `i` blocks from now: row `n < B` of it will be output row `len(X) + i·B + n`, and holds
  the terms of that row's convolution sum for the taps `q ≥ (i+1)·B` (those read samples of `X` only).
Rows `B..2B−1` of the slots (the wrapped-around part of the circular convolutions) are never returned and are left
unconstrained. -/
structure OSInv (f : List V) (B : Nat) (X : List V) (s : OS V) : Prop where
  bs : s.block_size = B
  fb : s.filter_blocks = (OS.init B f).filter_blocks
  iblen : s.input_block.length = 2 * B
  ib : ∀ n, n < B → s.input_block.getD n 0 = if B - n ≤ X.length then X.getD (X.length - (B - n)) 0 else 0
  blen : s.blocks.length = (f.length + B - 1) / B
  slot : ∀ i b, s.blocks[i]? = some b → b.length = 2 * B ∧
    ∀ n, n < B → b.getD n 0 =
      S (f.length - (i + 1) * B) (fun r => tap f X (X.length + i * B + n) ((i + 1) * B + r))

/-- number of partitions: `k < ceil(L/B) ↔ k·B < L` -/
theorem lt_nparts (L B k : Nat) (hB : 1 ≤ B) : k < (L + B - 1) / B ↔ k * B < L := by
  rw [Nat.lt_iff_add_one_le, Nat.le_div_iff_mul_le (by omega), Nat.succ_mul]
  omega

theorem osInv_init (f : List V) (B : Nat) : OSInv f B [] (OS.init B f) where
  bs := rfl
  fb := rfl
  iblen := by simp [OS.init]
  ib := by
    intro n hn
    simp only [OS.init, List.length_nil, List.getD_eq_getElem?_getD, List.getElem?_replicate]
    rw [if_pos (by omega), if_neg (by omega)]; rfl
  blen := by simp [OS.init, OS.starts]
  slot := by
    intro i b hb
    simp only [OS.init, List.getElem?_map] at hb
    cases hs : (OS.starts B f.length)[i]? with
    | none => rw [hs] at hb; simp at hb
    | some st =>
      rw [hs] at hb
      simp only [Option.map_some, Option.some.injEq] at hb
      subst hb
      refine ⟨by simp, ?_⟩
      intro n hn
      simp only [List.getD_eq_getElem?_getD, List.getElem?_replicate]
      rw [if_pos (by omega)]
      symm
      apply S_zeros
      intro r _
      unfold tap
      simp only [List.length_nil, List.getD_eq_getElem?_getD, List.getElem?_nil, Option.getD_none]
      split <;> exact LawfulRMod.pmul_zero _

/-! ### one `filter_block` call -/

/-- What the circular convolution reads: with the current block in the FIRST half of `input_block` and the previous
one in the SECOND half, entry `(n − m) mod 2B` (`n, m < B`) is the stream sample `len(X) + n − m` (zero before the
start) — the wrap-around for `m > n` lands in the previous block. -/
theorem win_row (X blk ib : List V) (B n m : Nat) (hib : ib.length = 2 * B) (hblk : blk.length = B)
    (hX : ∀ n, n < B → ib.getD n 0 = if B - n ≤ X.length then X.getD (X.length - (B - n)) 0 else 0)
    (hn : n < B) (hm : m < B) :
    (setSlice (setSlice ib B (ib.take B)) 0 blk).getD ((n + 2 * B - m) % (2 * B)) 0 =
      if m ≤ X.length + n then (X ++ blk).getD (X.length + n - m) 0 else 0 := by
  rw [getD_input_block ib blk B hib hblk]
  by_cases hmn : m ≤ n
  · have e : n + 2 * B - m = (n - m) + 2 * B := by omega
    rw [e, Nat.add_mod_right, Nat.mod_eq_of_lt (by omega), if_pos (by omega), if_pos (by omega), getD_append_len,
      if_neg (by omega)]
    congr 1; omega
  · rw [Nat.mod_eq_of_lt (by omega), if_neg (by omega), if_pos (by omega), hX _ (by omega)]
    have e : B - (n + 2 * B - m - B) = m - n := by omega
    rw [e]
    by_cases hc : m ≤ X.length + n
    · rw [if_pos (by omega), if_pos hc, getD_append_lt _ _ _ (by omega)]
      congr 1; omega
    · rw [if_neg (by omega), if_neg hc]

/-- Row `n < B` of `irfft(filter_blocks_fd[k] * rfft(input_block))`: the terms of output row `len(X) + k·B + n` for
the taps of partition `k`. -/
theorem circ_row (f X blk ib : List V) (B k n : Nat) (hib : ib.length = 2 * B) (hblk : blk.length = B)
    (hX : ∀ n, n < B → ib.getD n 0 = if B - n ≤ X.length then X.getD (X.length - (B - n)) 0 else 0)
    (hn : n < B) :
    (circConv (2 * B) (slice f (k * B) (min f.length (k * B + B)))
        (setSlice (setSlice ib B (ib.take B)) 0 blk)).getD n 0 =
      S (min B (f.length - k * B)) (fun m => tap f (X ++ blk) (X.length + k * B + n) (k * B + m)) := by
  rw [getD_circConv _ _ _ _ (by omega), slice_length _ _ _ (by omega)]
  generalize k * B = a
  have e : min (min f.length (a + B) - a) (2 * B) = min B (f.length - a) := by omega
  rw [e]
  apply S_congr
  intro m hm
  rw [getD_slice _ _ _ _ (by omega), win_row X blk ib B n m hib hblk hX hn (by omega)]
  unfold tap
  congr 1
  by_cases hc : m ≤ X.length + n
  · rw [if_pos hc, if_pos (by omega)]
    congr 1; omega
  · rw [if_neg hc, if_neg (by omega)]

/-- **`os_step_spec`** — one `filter_block` call from the state after the stream prefix `X`, on a block of `B` rows,
for a non-empty filter: no exception; the returned rows are the FIR rows `len(X) .. len(X)+B−1` of the stream
`X ++ blk`; the new state is the state after `X ++ blk`. -/
theorem os_step_spec (f : List V) (B : Nat) (hB : 1 ≤ B) (hf : f ≠ []) (X : List V) (s : OS V) (h : OSInv f B X s)
    (blk : List V) (hblk : blk.length = B) :
    ∃ s', s.filterBlock blk = .ok (s', (List.range B).map fun n => Fir.at f (X ++ blk) (X.length + n)) ∧
      OSInv f B (X ++ blk) s' := by
  obtain ⟨hbs, hfb, hiblen, hib, hblen, hslot⟩ := h
  have hL : 0 < f.length := List.length_pos_iff.mpr hf
  -- the queue after the accumulation loop
  have hA : ∀ k a, (List.zipWith (fun fb b => List.zipWith (· + ·) b
        (circConv (2 * B) fb (setSlice (setSlice s.input_block B (s.input_block.take B)) 0 blk)))
        s.filter_blocks s.blocks)[k]? = some a → a.length = 2 * B ∧ ∀ n, n < B → a.getD n 0 =
          S (f.length - k * B) (fun r => tap f (X ++ blk) (X.length + k * B + n) (k * B + r)) := by
    intro k a hka
    rw [List.getElem?_zipWith, hfb] at hka
    simp only [OS.init, OS.starts, List.getElem?_map, List.map_map] at hka
    cases hb : s.blocks[k]? with
    | none => rw [hb] at hka; cases (List.range ((f.length + B - 1) / B))[k]? <;> simp at hka
    | some b =>
      have hk : k < (f.length + B - 1) / B := by
        rw [← hblen]; exact (List.getElem?_eq_some_iff.mp hb).1
      rw [hb, List.getElem?_range hk] at hka
      simp only [Option.map_some, Function.comp, Option.some.injEq] at hka
      subst hka
      obtain ⟨hbl, hbn⟩ := hslot k b hb
      have hkL : k * B < f.length := (lt_nparts _ _ _ hB).mp hk
      refine ⟨by simp [hbl, length_circConv], ?_⟩
      intro n hn
      rw [getD_zipWith_add _ _ (by rw [hbl, length_circConv]), hbn n hn,
        circ_row f X blk s.input_block B k n hiblen hblk hib hn, LawfulRMod.add_comm]
      have hsplit : f.length - k * B = min B (f.length - k * B) + (f.length - (k + 1) * B) := by
        rw [Nat.succ_mul]; omega
      have hs := S_split (min B (f.length - k * B)) (f.length - (k + 1) * B)
        (fun r => tap f (X ++ blk) (X.length + k * B + n) (k * B + r))
      rw [← hsplit] at hs
      rw [hs]
      congr 1
      by_cases hlast : f.length - (k + 1) * B = 0
      · rw [hlast, S_zero, S_zero]
      · apply S_congr
        intro r _
        have hmin : min B (f.length - k * B) = B := by rw [Nat.succ_mul] at hlast; omega
        rw [hmin, tap_append _ _ _ _ _ (by omega)]
        congr 1
        rw [Nat.succ_mul]; omega
  have hAlen : (List.zipWith (fun fb b => List.zipWith (· + ·) b
        (circConv (2 * B) fb (setSlice (setSlice s.input_block B (s.input_block.take B)) 0 blk)))
        s.filter_blocks s.blocks).length = (f.length + B - 1) / B := by
    rw [List.length_zipWith, hfb, hblen]
    simp [OS.init, OS.starts]
  have hK : 0 < (f.length + B - 1) / B := (lt_nparts _ _ _ hB).mpr (by omega)
  unfold OS.filterBlock
  simp only [hbs]
  rw [if_neg (by omega), if_pos hblk]
  generalize List.zipWith (fun fb b => List.zipWith (· + ·) b
        (circConv (2 * B) fb (setSlice (setSlice s.input_block B (s.input_block.take B)) 0 blk)))
        s.filter_blocks s.blocks = A at hA hAlen
  cases A with
  | nil => simp at hAlen; omega
  | cons b0 rest =>
    simp only [List.length_cons] at hAlen
    obtain ⟨hb0l, hb0⟩ := hA 0 b0 rfl
    refine ⟨⟨B, setSlice (setSlice s.input_block B (s.input_block.take B)) 0 blk, s.filter_blocks,
      rest ++ [List.replicate (2 * B) 0]⟩, ?_, ⟨rfl, hfb, ?_, ?_, ?_, ?_⟩⟩
    · -- the returned rows
      simp only
      congr 2
      apply List.ext_getElem?
      intro n
      by_cases hn : n < B
      · have := hb0 n hn
        simp only [Nat.zero_mul, Nat.add_zero, Nat.sub_zero, Nat.zero_add] at this
        rw [List.getElem?_take, if_pos hn, List.getElem?_map, List.getElem?_range hn, Option.map_some,
          fir_at_eq_S, ← this, List.getD_eq_getElem?_getD, List.getElem?_eq_getElem (by omega)]
        rfl
      · rw [List.getElem?_eq_none (by simp; omega), List.getElem?_eq_none (by simp; omega)]
    · -- input_block keeps its length
      simp only
      have ht : (s.input_block.take B).length = B := by simp; omega
      rw [setSlice_length _ _ _ (by rw [setSlice_length _ _ _ (by omega)]; omega), setSlice_length _ _ _ (by omega)]
      exact hiblen
    · -- its first half is the block just processed
      intro n hn
      simp only
      rw [getD_input_block _ _ _ hiblen hblk, if_pos hn, List.length_append, if_pos (by omega), getD_append_len,
        if_neg (by omega)]
      congr 1; omega
    · simp only [List.length_append, List.length_cons, List.length_nil]; omega
    · -- the rotated queue
      intro i b hib'
      simp only [List.getElem?_append] at hib'
      by_cases hi : i < rest.length
      · rw [if_pos hi] at hib'
        obtain ⟨hl, hrow⟩ := hA (i + 1) b (by simpa using hib')
        refine ⟨hl, ?_⟩
        intro n hn
        rw [hrow n hn, List.length_append, hblk]
        apply S_congr
        intro r _
        congr 1
        rw [Nat.succ_mul]; omega
      · rw [if_neg hi] at hib'
        have hi' : i = rest.length := by
          by_cases hlt : i - rest.length < 1
          · omega
          · rw [List.getElem?_eq_none (by simp; omega)] at hib'; cases hib'
        subst hi'
        simp only [Nat.sub_self, List.getElem?_cons_zero, Option.some.injEq] at hib'
        subst hib'
        refine ⟨by simp, ?_⟩
        intro n hn
        simp only [List.getD_eq_getElem?_getD, List.getElem?_replicate]
        rw [if_pos (by omega)]
        have hz : f.length - (rest.length + 1) * B = 0 := by
          have : ¬ (rest.length + 1) * B < f.length := by
            rw [← lt_nparts _ _ _ hB]; omega
          omega
        rw [hz, S_zero]; rfl

/-- The total block function (`OS.step`, what the adapter wraps) from a state satisfying the invariant. -/
theorem os_step_eq (f : List V) (B : Nat) (hB : 1 ≤ B) (hf : f ≠ []) (X : List V) (s : OS V) (h : OSInv f B X s)
    (blk : List V) (hblk : blk.length = B) :
    (OS.step s blk).2 = (List.range B).map (fun n => Fir.at f (X ++ blk) (X.length + n)) ∧
      OSInv f B (X ++ blk) (OS.step s blk).1 := by
  obtain ⟨s', h1, h2⟩ := os_step_spec f B hB hf X s h blk hblk
  simp only [OS.step, h1]
  exact ⟨trivial, h2⟩

/-! ### a sequence of `filter_block` calls = the FIR of the concatenated input -/

theorem os_run_from (f : List V) (B : Nat) (hB : 1 ≤ B) (hf : f ≠ []) : ∀ (blocks : List (List V)) (X : List V)
    (s : OS V), OSInv f B X s → (∀ b ∈ blocks, b.length = B) →
    ∃ s' outs, OS.run s blocks = .ok (s', outs) ∧ OSInv f B (X ++ blocks.flatten) s' ∧
      outs.map List.length = blocks.map List.length ∧
      outs.flatten = (List.range blocks.flatten.length).map
        (fun i => Fir.at f (X ++ blocks.flatten) (X.length + i)) := by
  intro blocks
  induction blocks with
  | nil => intro X s h _; exact ⟨s, [], rfl, by simpa using h, rfl, by simp⟩
  | cons b bs ih =>
    intro X s h hlen
    have hb : b.length = B := hlen b List.mem_cons_self
    obtain ⟨s1, h1, hinv1⟩ := os_step_spec f B hB hf X s h b hb
    obtain ⟨s2, os, h2, hinv2, hl2, hfl2⟩ := ih (X ++ b) s1 hinv1 (fun c hc => hlen c (List.mem_cons_of_mem _ hc))
    refine ⟨s2, ((List.range B).map fun n => Fir.at f (X ++ b) (X.length + n)) :: os, by simp only [OS.run, h1, h2], by simpa [List.append_assoc] using hinv2, ?_, ?_⟩
    · simp [hl2, hb]
    · simp only [List.flatten_cons, hfl2, List.length_append, hb, List.range_add, List.map_append, List.map_map,
        List.append_assoc]
      congr 1
      · apply List.map_congr_left
        intro n hn
        have hn' : n < B := List.mem_range.mp hn
        rw [← List.append_assoc]
        exact (fir_at_prefix f (X ++ b) bs.flatten (X.length + n) (by simp only [List.length_append, hb]; omega)).symm
      · apply List.map_congr_left
        intro i _
        simp only [Function.comp, Nat.add_assoc]

/-- **`overlapSave_eq_fir`** — for every block size `B ≥ 1`, every non-empty filter `f` (any length: shorter than `B`,
not a multiple of `B`, many partitions) and every sequence of input blocks of `B` rows: no `filter_block` call raises,
every call returns `B` rows, and the concatenated outputs are the first `#blocks·B` samples of the linear convolution
of the concatenated input with `f` (`firAll f x`, row `t` = `Σ_k f[k]·x[t−k]`). -/
theorem overlapSave_eq_fir (f : List V) (B : Nat) (hB : 1 ≤ B) (hf : f ≠ []) (blocks : List (List V))
    (hlen : ∀ b ∈ blocks, b.length = B) :
    ∃ s' outs, OS.run (OS.init B f) blocks = .ok (s', outs) ∧
      outs.map List.length = blocks.map List.length ∧ outs.flatten = firAll f blocks.flatten := by
  obtain ⟨s', outs, h1, _, h3, h4⟩ := os_run_from f B hB hf blocks [] _ (osInv_init f B) hlen
  refine ⟨s', outs, h1, h3, ?_⟩
  rw [h4]
  simp [firAll]

/-- What the real code does outside these hypotheses: `block_size = 0` and the empty filter raise. -/
theorem os_new_zero (f : List V) : OS.new 0 f = .error .blockSizeZero := rfl

theorem os_empty_filter (B : Nat) (blk : List V) (h : blk.length = B) :
    (OS.init B ([] : List V)).filterBlock blk = .error .emptyFilter := by
  have h0 : (B - 1) / B = 0 := by
    rcases B with _ | B
    · rfl
    · exact Nat.div_eq_of_lt (by omega)
  simp [OS.filterBlock, OS.init, OS.starts, h, h0]

/-! ### simulation: the overlap-save convolver and the FIR with history, state by state -/

/-- `s` (overlap-save state) and `hist` (the last `len(f)−1` input rows) are the states after the same stream. -/
def OSFirRel (f : List V) (B : Nat) (s : OS V) (hist : List V) : Prop :=
  ∃ X, OSInv f B X s ∧ hist = (List.replicate (f.length - 1) 0 ++ X).drop X.length

theorem osFirRel_init (f : List V) (B : Nat) : OSFirRel f B (OS.init B f) (Fir.init f) :=
  ⟨[], osInv_init f B, by simp [Fir.init]⟩

/-- **`os_fir_sim`** — from related states, `filter_block` of the overlap-save convolver and of the FIR return the
same `B` rows and reach related states. -/
theorem os_fir_sim (f : List V) (B : Nat) (hB : 1 ≤ B) (hf : f ≠ []) (s : OS V) (hist blk : List V)
    (h : OSFirRel f B s hist) (hblk : blk.length = B) :
    OSFirRel f B (OS.step s blk).1 (Fir.step f hist blk).1 ∧ (OS.step s blk).2 = (Fir.step f hist blk).2 := by
  obtain ⟨X, hinv, rfl⟩ := h
  obtain ⟨h1, h2⟩ := os_step_eq f B hB hf X s hinv blk hblk
  rw [fir_step_spec]
  exact ⟨⟨X ++ blk, h2, rfl⟩, by rw [h1, hblk]⟩

/-! ### the `VariableBlockSizeAdapter` around two block functions that simulate each other -/

section Sim
variable {σ τ α : Type}

/-- `f` and `g` started in `R`-related states return the same rows on blocks of `B` rows and stay related. -/
def StepSim (f : σ → List α → σ × List α) (g : τ → List α → τ × List α) (R : σ → τ → Prop) (B : Nat) : Prop :=
  ∀ s t blk, R s t → blk.length = B → R (f s blk).1 (g t blk).1 ∧ (f s blk).2 = (g t blk).2

/-- Two adapters in the same position (same buffer, same fill level) around related wrapped states. -/
structure VbsRel (R : σ → τ → Prop) (B : Nat) (a : Vbs σ α) (b : Vbs τ α) : Prop where
  buf : a.buffer = b.buffer
  bi : a.buffer_input = b.buffer_input
  st : R a.fstate b.fstate
  len : b.buffer.length = B
  lt : b.buffer_input < B

theorem vbs_loop_sim (f : σ → List α → σ × List α) (g : τ → List α → τ × List α) (R : σ → τ → Prop) (B : Nat)
    (hsim : StepSim f g R B) (hg : ∀ t blk, blk.length = B → (g t blk).2.length = B) (inp : List α) :
    ∀ (fuel : Nat) (a : Vbs σ α) (b : Vbs τ α) (nd : Nat) (out : List α), VbsRel R B a b →
      VbsRel R B (Vbs.loop f B inp fuel a nd out).1 (Vbs.loop g B inp fuel b nd out).1 ∧
        (Vbs.loop f B inp fuel a nd out).2 = (Vbs.loop g B inp fuel b nd out).2 := by
  intro fuel
  induction fuel with
  | zero => intro a b nd out h; exact ⟨h, rfl⟩
  | succ fuel ih =>
    intro a b nd out h
    obtain ⟨hbuf, hbi, hst, hlen, hlt⟩ := h
    unfold Vbs.loop
    by_cases hnd : nd < inp.length
    · simp only [hnd, if_true, hbuf, hbi]
      generalize hk : min (inp.length - nd) (B - b.buffer_input) = k
      have hbl : (setSlice b.buffer b.buffer_input (slice inp nd (nd + k))).length = B := by
        rw [setSlice_length _ _ _ (by rw [slice_length _ _ _ (by omega)]; omega)]; exact hlen
      by_cases hfull : b.buffer_input + k = B
      · simp only [hfull, if_true]
        obtain ⟨h1, h2⟩ := hsim a.fstate b.fstate _ hst hbl
        exact ih _ _ _ _ ⟨h2, rfl, h1, hg _ _ hbl, by simp only; omega⟩
      · simp only [hfull, if_false]
        exact ih _ _ _ _ ⟨rfl, rfl, hst, hbl, by simp only; omega⟩
    · simp only [hnd, if_false]
      exact ⟨⟨hbuf, hbi, hst, hlen, hlt⟩, trivial⟩

/-- One `process` call of the two adapters: same rows out, related afterwards. -/
theorem vbs_process_sim (f : σ → List α → σ × List α) (g : τ → List α → τ × List α) (R : σ → τ → Prop) (B : Nat)
    (hsim : StepSim f g R B) (hg : ∀ t blk, blk.length = B → (g t blk).2.length = B) (z : α)
    (a : Vbs σ α) (b : Vbs τ α) (h : VbsRel R B a b) (inp : List α) :
    VbsRel R B (Vbs.process f B z a inp).1 (Vbs.process g B z b inp).1 ∧
      (Vbs.process f B z a inp).2 = (Vbs.process g B z b inp).2 :=
  vbs_loop_sim f g R B hsim hg inp _ a b 0 _ h

/-- The constructors (each calls its block function once on a zero block). -/
theorem vbs_init_sim (f : σ → List α → σ × List α) (g : τ → List α → τ × List α) (R : σ → τ → Prop) (B : Nat)
    (hB : 1 ≤ B) (hsim : StepSim f g R B) (hg : ∀ t blk, blk.length = B → (g t blk).2.length = B) (z : α)
    (s0 : σ) (t0 : τ) (h0 : R s0 t0) : VbsRel R B (Vbs.init f B z s0) (Vbs.init g B z t0) := by
  obtain ⟨h1, h2⟩ := hsim s0 t0 (List.replicate B z) h0 (by simp)
  exact ⟨h2, rfl, h1, hg _ _ (by simp), by simp only [Vbs.init]; omega⟩

/-- Any sequence of `process` calls: the two adapters return the same rows call by call. -/
theorem vbs_run_sim (f : σ → List α → σ × List α) (g : τ → List α → τ × List α) (R : σ → τ → Prop) (B : Nat)
    (hsim : StepSim f g R B) (hg : ∀ t blk, blk.length = B → (g t blk).2.length = B) (z : α) :
    ∀ (parts : List (List α)) (a : Vbs σ α) (b : Vbs τ α), VbsRel R B a b →
      (Vbs.run f B z a parts).1 = (Vbs.run g B z b parts).1 ∧
        VbsRel R B (Vbs.run f B z a parts).2 (Vbs.run g B z b parts).2 := by
  intro parts
  induction parts with
  | nil => intro a b h; exact ⟨rfl, h⟩
  | cons p ps ih =>
    intro a b h
    obtain ⟨h1, h2⟩ := vbs_process_sim f g R B hsim hg z a b h p
    obtain ⟨h3, h4⟩ := ih _ _ h1
    simp only [Vbs.run, h2, h3]
    exact ⟨trivial, h4⟩

end Sim

theorem fir_step_length (f : List V) (t blk : List V) (B : Nat) (h : blk.length = B) :
    (Fir.step f t blk).2.length = B := by
  simp [Fir.step, h]

theorem os_fir_stepSim (f : List V) (B : Nat) (hB : 1 ≤ B) (hf : f ≠ []) :
    StepSim OS.step (Fir.step f) (OSFirRel f B) B :=
  fun s t blk h hblk => os_fir_sim f B hB hf s t blk h hblk

/-- **`vbs_overlapSave_run_eq`** — what `ObjectRenderer` builds, `VariableBlockSizeAdapter(block_size, n,
OverlapSaveConvolver(block_size, n, f).filter_block)`, fed ANY sequence of blocks (any lengths, empty ones included),
returns call by call exactly the rows the same adapter around the direct-form FIR returns. -/
theorem vbs_overlapSave_run_eq (f : List V) (B : Nat) (hB : 1 ≤ B) (hf : f ≠ []) (parts : List (List V)) :
    (Vbs.run OS.step B 0 (Vbs.init OS.step B 0 (OS.init B f)) parts).1 =
      (Vbs.run (Fir.step f) B 0 (Vbs.init (Fir.step f) B 0 (Fir.init f)) parts).1 :=
  (vbs_run_sim OS.step (Fir.step f) (OSFirRel f B) B (os_fir_stepSim f B hB hf) (fun t blk => fir_step_length f t blk B)
    0 parts _ _ (vbs_init_sim OS.step (Fir.step f) (OSFirRel f B) B hB (os_fir_stepSim f B hB hf)
      (fun t blk => fir_step_length f t blk B) 0 _ _ (osFirRel_init f B))).1

/-- **`vbs_overlapSave_eq`** — the decorrelation path as the real `ObjectRenderer` builds it (the adapter around the
partitioned overlap-save convolver), over ANY partition of the input: the linear FIR convolution of the concatenated
stream with `f`, delayed by `block_size`; every call returns as many rows as it was given. -/
theorem vbs_overlapSave_eq (f : List V) (B : Nat) (hB : 1 ≤ B) (hf : f ≠ []) (parts : List (List V)) :
    (Vbs.run OS.step B 0 (Vbs.init OS.step B 0 (OS.init B f)) parts).1.flatten =
      (List.replicate B 0 ++ firAll f parts.flatten).take parts.flatten.length ∧
    (Vbs.run OS.step B 0 (Vbs.init OS.step B 0 (OS.init B f)) parts).1.map List.length =
      parts.map List.length := by
  rw [vbs_overlapSave_run_eq f B hB hf parts]
  exact vbs_fir_eq f B hB parts

end Earverif.Stream

/-! ### the renderer with the overlap-save convolver = the renderer with the FIR (call by call) -/

namespace Earverif.Stream

/-- Two computations raise the same exception, or both succeed with `P`-related results. -/
def ExRel {ε α β : Type} (P : α → β → Prop) : Except ε α → Except ε β → Prop
  | .ok a, .ok b => P a b
  | .error e, .error e' => e = e'
  | _, _ => False

@[simp] theorem exRel_ok {ε α β : Type} (P : α → β → Prop) (a : α) (b : β) :
    ExRel (ε := ε) P (.ok a) (.ok b) ↔ P a b := Iff.rfl
@[simp] theorem exRel_error {ε α β : Type} (P : α → β → Prop) (e e' : ε) :
    ExRel P (.error e : Except ε α) (.error e' : Except ε β) ↔ e = e' := Iff.rfl
@[simp] theorem exRel_ok_error {ε α β : Type} (P : α → β → Prop) (a : α) (e : ε) :
    ExRel P (.ok a) (.error e : Except ε β) ↔ False := Iff.rfl
@[simp] theorem exRel_error_ok {ε α β : Type} (P : α → β → Prop) (b : β) (e : ε) :
    ExRel P (.error e : Except ε α) (.ok b) ↔ False := Iff.rfl

end Earverif.Stream

namespace Earverif.Renderer
open Earverif.Stream Earverif.Timeline
set_option linter.unusedSectionVars false

variable {V : Type} [RMod V] [LawfulRMod V]

/-- The two `ObjectRenderer` states agree on everything but the convolver, whose two states are related. -/
structure ObjRel (c : Cfg V) (a : ObjStateOS V) (b : ObjState V) : Prop where
  chans : a.chans = b.chans
  mem : a.delaymem = b.delaymem
  vbs : VbsRel (OSFirRel c.taps c.block_size) c.block_size a.vbs b.vbs

theorem obj_init_rel (c : Cfg V) (hB : 1 ≤ c.block_size) (hf : c.taps ≠ []) (items : List (ObjItem V)) :
    ObjRel c (ObjStateOS.init c items) (ObjState.init c items) :=
  ⟨rfl, rfl, vbs_init_sim OS.step (Fir.step c.taps) _ c.block_size hB (os_fir_stepSim c.taps c.block_size hB hf)
    (fun t blk => fir_step_length c.taps t blk c.block_size) 0 _ _ (osFirRel_init c.taps c.block_size)⟩

omit [LawfulRMod V] in
theorem chkTrack_ne_base (n : Nat) (t : Nat) (e : Err) : chkTrack n t ≠ some (ChkErr.base e) := by
  unfold chkTrack; split <;> simp

omit [LawfulRMod V] in
theorem chkTracks_ne_base (n : Nat) (ts : List Nat) (e : Err) : chkTracks n ts ≠ some (ChkErr.base e) := by
  unfold chkTracks; split
  · split <;> simp
  · simp

/-- The tracks of the Objects / DirectSpeakers channels are columns of the input. -/
def TrackChansOK {B : Type} (n_in : Nat) (chans : List (Nat × B)) : Prop :=
  ∀ p ∈ chans, chkTrack (ε := Err) n_in p.1 = none

/-- The tracks of the HOA channels are columns of the input, every item has one, and every decode matrix still to be
applied has one column per track. -/
def HoaChansOK (n_in : Nat) (chans : List (List Nat × HoaBpc V)) : Prop :=
  ∀ p ∈ chans, chkTracks (ε := Err) n_in p.1 = none ∧
    QOK (fun m : MetaBlock (List V) => okDot p.1.length m.gains) (okDot p.1.length) p.2

omit [LawfulRMod V] in
/-- A channel loop of single-track channels (Objects, DirectSpeakers). -/
theorem trackChans_rel {M S K W : Type} (strict : Prop) (n_in : Nat)
    (interp : S → M → Except Err (S × List (PBlock K))) (upd : K → Nat → Rat → W → W) (ss : Int)
    (inp : List (List Rat)) (chans : List (Nat × Bpc M S K)) (out : List W)
    (h : strict → TrackChansOK n_in chans) :
    ChkRel strict (fun r r' => r = r' ∧ (strict → TrackChansOK n_in r.1))
      (procChansC (chkTrack n_in) (fun t b out => liftC (b.process interp upd ss (track inp t) out)) chans out)
      (procChans interp upd ss (track inp) chans out) := by
  have := procChansC_rel strict (chkTrack n_in) (fun t b out => liftC (b.process interp upd ss (track inp t) out))
    interp upd ss (track inp) (fun _ _ => True) (chkTrack_ne_base n_in)
    (fun t b out _ => (chkRel_liftC strict _).mono strict _ (fun a b hab => ⟨hab, fun _ => trivial⟩))
    chans out (fun hs p hp => ⟨h hs p hp, trivial⟩)
  exact this.mono strict _ (fun a b hab => ⟨hab.1, fun hs p hp => (hab.2 hs p hp).1⟩)

omit [LawfulRMod V] in
/-- `HOARenderer.render`. -/
theorem hoaRenderC_rel (strict : Prop) (c : Cfg V) (chans : List (List Nat × HoaBpc V)) (ss : Int)
    (inp : List (List Rat)) (h : strict → HoaChansOK c.n_in chans) :
    ChkRel strict (fun r r' => r = r' ∧ (strict → HoaChansOK c.n_in r.1))
      (hoaRenderC c chans ss inp) (hoaRender c chans ss inp) :=
  procChansC_rel strict (chkTracks c.n_in)
    (fun ts b out => bpcProcessC (okDot ts.length) (interpFixed c.sr) matUpd ss (tracks inp ts) out b)
    (interpFixed c.sr) matUpd ss (tracks inp)
    (fun ts b => QOK (fun m : MetaBlock (List V) => okDot ts.length m.gains) (okDot ts.length) b)
    (chkTracks_ne_base c.n_in)
    (fun ts b out hb => bpcProcessC_rel strict _ _ (interpFixed c.sr) (interpFixed_ok c.sr _) matUpd ss
      (tracks inp ts) out b hb)
    chans _ h

/-- One `ObjectRenderer.render` call. -/
theorem obj_render_sim (strict : Prop) (c : Cfg V) (hB : 1 ≤ c.block_size) (hf : c.taps ≠ []) (a : ObjStateOS V)
    (b : ObjState V) (h : ObjRel c a b) (hs : strict → TrackChansOK c.n_in a.chans) (S0 : Int)
    (inp : List (List Rat)) :
    ChkRel strict (fun r r' => ObjRel c r.1 r'.1 ∧ r.2 = r'.2 ∧ (strict → TrackChansOK c.n_in r.1.chans))
      (a.render c S0 inp) (b.render c S0 inp) := by
  obtain ⟨hch, hmem, hvbs⟩ := h
  have h1 := trackChans_rel strict c.n_in (interpObject c.sr) GainKern.upd S0 inp a.chans
    (List.replicate inp.length (0 : V × V)) hs
  simp only [ObjStateOS.render, ObjState.render, objChansC, bind, Except.bind, ← hch, hmem]
  generalize procChansC (chkTrack c.n_in) _ a.chans _ = ra at h1 ⊢
  generalize procChans (interpObject c.sr) GainKern.upd S0 (track inp) a.chans _ = rb at h1 ⊢
  rcases ra with e | r <;> rcases rb with e' | r'
  · cases e <;> chk_close h1
  · cases e <;> chk_close h1
  · chk_close h1
  · obtain ⟨chans, interpolated⟩ := r
    simp only [chkRel_ok_ok] at h1
    obtain ⟨rfl, hinv⟩ := h1
    obtain ⟨h2, h3⟩ := vbs_process_sim OS.step (Fir.step c.taps) _ c.block_size
      (os_fir_stepSim c.taps c.block_size hB hf) (fun t blk => fir_step_length c.taps t blk c.block_size) 0
      a.vbs b.vbs hvbs (interpolated.map Prod.snd)
    simp only [pure, Except.pure, chkRel_ok_ok, h3]
    exact ⟨⟨rfl, rfl, h2⟩, trivial, hinv⟩

/-- What `strict` (the static index conditions of the session) guarantees about a `Renderer` state. -/
structure SInv (c : Cfg V) (a : RStateOS V) : Prop where
  obj : TrackChansOK c.n_in a.obj.chans
  ds : TrackChansOK c.n_in a.ds
  hoa : HoaChansOK c.n_in a.hoa

/-- The two `Renderer` states agree on everything but the convolver inside the object renderer. -/
structure RRel (strict : Prop) (c : Cfg V) (a : RStateOS V) (b : RState V) : Prop where
  al : a.aligner = b.aligner
  obj : ObjRel c a.obj b.obj
  ds : a.ds = b.ds
  hoa : a.hoa = b.hoa
  ss : a.start_sample = b.start_sample
  inv : strict → SInv c a

/-- One `Renderer.render` call. -/
theorem r_render_sim (strict : Prop) (c : Cfg V) (hB : 1 ≤ c.block_size) (hf : c.taps ≠ []) (a : RStateOS V)
    (b : RState V) (h : RRel strict c a b) (samples : List (List Rat)) :
    ChkRel strict (fun r r' => RRel strict c r.1 r'.1 ∧ r.2 = r'.2) (a.render c samples) (b.render c samples) := by
  obtain ⟨hal, hobj, hds, hhoa, hss, hinv⟩ := h
  have ho := obj_render_sim strict c hB hf a.obj b.obj hobj (fun hs => (hinv hs).obj) b.start_sample samples
  have hd := trackChans_rel strict c.n_in (interpFixed c.sr) (fun (g : V) _ x o => o + RMod.smul x g) b.start_sample
    samples a.ds (List.replicate samples.length 0) (fun hs => (hinv hs).ds)
  have hh := hoaRenderC_rel strict c a.hoa b.start_sample samples (fun hs => (hinv hs).hoa)
  simp only [RStateOS.render, RState.render, dsRenderC, dsRender, bind, Except.bind, hal, ← hds, ← hhoa, hss] at hd hh ⊢
  generalize a.obj.render c b.start_sample samples = ra at ho ⊢
  generalize b.obj.render c b.start_sample samples = rb at ho ⊢
  rcases ra with e | r <;> rcases rb with e' | r'
  · cases e <;> chk_close ho
  · cases e <;> chk_close ho
  · chk_close ho
  · obtain ⟨obj, o1⟩ := r
    obtain ⟨obj', o1'⟩ := r'
    simp only [chkRel_ok_ok] at ho
    obtain ⟨ho1, ho2, ho3⟩ := ho
    subst ho2
    simp only
    cases liftA (b.aligner.add (b.start_sample - c.overall_delay) o1) with
    | error e => simp
    | ok al1 =>
      simp only [liftC_ok]
      generalize procChansC (chkTrack c.n_in) _ a.ds _ = ra at hd ⊢
      generalize procChans (interpFixed c.sr) _ b.start_sample (track samples) a.ds _ = rb at hd ⊢
      rcases ra with e | r <;> rcases rb with e' | r'
      · cases e <;> chk_close hd
      · cases e <;> chk_close hd
      · chk_close hd
      · obtain ⟨ds, o2⟩ := r
        simp only [chkRel_ok_ok] at hd
        obtain ⟨rfl, hd2⟩ := hd
        simp only
        cases liftA (al1.add b.start_sample o2) with
        | error e => simp
        | ok al2 =>
          simp only [liftC_ok]
          generalize hoaRenderC c a.hoa b.start_sample samples = ra at hh ⊢
          generalize hoaRender c a.hoa b.start_sample samples = rb at hh ⊢
          rcases ra with e | r <;> rcases rb with e' | r'
          · cases e <;> chk_close hh
          · cases e <;> chk_close hh
          · chk_close hh
          · obtain ⟨hoa, o3⟩ := r
            simp only [chkRel_ok_ok] at hh
            obtain ⟨rfl, hh2⟩ := hh
            simp only
            cases liftA (al2.add b.start_sample o3) with
            | error e => simp
            | ok al3 =>
              simp only [liftC_ok]
              cases liftA al3.get with
              | error e => simp
              | ok r4 =>
                obtain ⟨ret, al4⟩ := r4
                simp only [pure, Except.pure, chkRel_ok_ok, liftC_ok]
                exact ⟨⟨rfl, ho1, rfl, rfl, rfl, fun hs => ⟨ho3 hs, hd2 hs, hh2 hs⟩⟩, trivial⟩

/-- Any sequence of `render` calls. -/
theorem r_run_sim (strict : Prop) (c : Cfg V) (hB : 1 ≤ c.block_size) (hf : c.taps ≠ []) :
    ∀ (parts : List (List (List Rat))) (a : RStateOS V) (b : RState V), RRel strict c a b →
    ChkRel strict (fun r r' => RRel strict c r.1 r'.1 ∧ r.2 = r'.2) (RStateOS.run c a parts) (RState.run c b parts) := by
  intro parts
  induction parts with
  | nil => intro a b h; simpa [RStateOS.run, RState.run, pure, Except.pure] using h
  | cons p ps ih =>
    intro a b h
    have h1 := r_render_sim strict c hB hf a b h p
    simp only [RStateOS.run, RState.run, bind, Except.bind]
    generalize a.render c p = ra at h1 ⊢
    generalize b.render c p = rb at h1 ⊢
    rcases ra with e | r <;> rcases rb with e' | r'
    · cases e <;> chk_close h1
    · cases e <;> chk_close h1
    · chk_close h1
    · obtain ⟨a1, o⟩ := r
      obtain ⟨b1, o'⟩ := r'
      simp only [chkRel_ok_ok] at h1
      obtain ⟨h2, h3⟩ := h1
      subst h3
      have h4 := ih a1 b1 h2
      simp only
      generalize RStateOS.run c a1 ps = ra at h4 ⊢
      generalize RState.run c b1 ps = rb at h4 ⊢
      rcases ra with e | r <;> rcases rb with e' | r'
      · cases e <;> chk_close h4
      · cases e <;> chk_close h4
      · chk_close h4
      · obtain ⟨a2, os⟩ := r
        obtain ⟨b2, os'⟩ := r'
        simp only [chkRel_ok_ok] at h4
        obtain ⟨h5, h6⟩ := h4
        subst h6
        simp only [pure, Except.pure, chkRel_ok_ok]
        exact ⟨h5, trivial⟩

/-! ### the quantifier of the property theorems

`renderAllOS` returns the numpy exceptions where the real code raises them (`ChkErr`: a track outside the input, an HOA
item without tracks, a decode matrix whose width is not the number of tracks), so the `…_os` theorems need no hypothesis
"to stay inside the code": with accepted timelines (`SessionOK`) and a decorrelation filter with at least one tap (an empty
filter array makes `ObjectRenderer.__init__` raise: `VariableBlockSizeAdapter.__init__` calls `filter_block`,
`IndexError`; `Cfg.decorrelator_delay` is then never used — its `Nat` value `(0 − 1)/2 = 0` differs from Python's
`(0 − 1)//2 = −1` only in that unreachable case) a session either returns the specified audio or raises one of those three
exceptions, and under the static conditions `IndexOK` it returns the audio.  The width of the input is `c.n_in` (as in the
C20 model an empty block still has a width): a block of the model stands for a numpy array of shape `(n, n_in)` when its
frames have `n_in` samples (`InputOK`); the theorems do not need that as a hypothesis.  The older FIR-model theorems
(`render_refines_spec`, `C02_block_independent`, …) are statements about the totalised model. -/

/-- Track indices inside the input, at least one track per HOA item, decode matrices as wide as the item has tracks. -/
structure IndexOK (c : Cfg V) (objs : List (ObjItem V)) (dss : List (DsItem V)) (hoas : List (HoaItem V)) : Prop where
  obj_tracks : ∀ it ∈ objs, it.track < c.n_in
  ds_tracks : ∀ it ∈ dss, it.track < c.n_in
  hoa_tracks : ∀ it ∈ hoas, ∀ t ∈ it.tracks, t < c.n_in
  hoa_nonempty : ∀ it ∈ hoas, it.tracks ≠ []
  hoa_gains : ∀ it ∈ hoas, ∀ b ∈ it.blocks, b.gains.length = it.tracks.length

/-- Every input frame has `n_in` samples (`input_samples` of shape `(n, n_in)`; `get_tail` is called with
`n_channels = n_in`). -/
def InputOK (c : Cfg V) (x : List (List Rat)) : Prop := ∀ fr ∈ x, fr.length = c.n_in

omit [LawfulRMod V] in
theorem sinv_init (c : Cfg V) (objs : List (ObjItem V)) (dss : List (DsItem V)) (hoas : List (HoaItem V))
    (h : IndexOK c objs dss hoas) : SInv c (RStateOS.init c objs dss hoas) where
  obj := by
    intro p hp
    simp only [RStateOS.init, ObjStateOS.init, List.mem_map] at hp
    obtain ⟨it, hit, rfl⟩ := hp
    simp [chkTrack, h.obj_tracks it hit]
  ds := by
    intro p hp
    simp only [RStateOS.init, List.mem_map] at hp
    obtain ⟨it, hit, rfl⟩ := hp
    simp [chkTrack, h.ds_tracks it hit]
  hoa := by
    intro p hp
    simp only [RStateOS.init, List.mem_map] at hp
    obtain ⟨it, hit, rfl⟩ := hp
    refine ⟨?_, ?_, ?_⟩
    · have h1 : it.tracks.all (· < c.n_in) = true := by
        rw [List.all_eq_true]; intro t ht; simpa using h.hoa_tracks it hit t ht
      have h2 : it.tracks.isEmpty = false := by
        cases hts : it.tracks with
        | nil => exact absurd hts (h.hoa_nonempty it hit)
        | cons _ _ => rfl
      simp [chkTracks, h1, h2]
    · intro m hm
      simpa [okDot] using h.hoa_gains it hit m hm
    · intro pb hpb
      cases hpb

theorem r_init_rel (strict : Prop) (c : Cfg V) (hB : 1 ≤ c.block_size) (hf : c.taps ≠ []) (objs : List (ObjItem V))
    (dss : List (DsItem V)) (hoas : List (HoaItem V)) (hs : strict → IndexOK c objs dss hoas) :
    RRel strict c (RStateOS.init c objs dss hoas) (RState.init c objs dss hoas) :=
  ⟨rfl, obj_init_rel c hB hf objs, rfl, rfl, rfl, fun h => sinv_init c objs dss hoas (hs h)⟩

/-- `renderAllOS_rel` for any `strict` that implies the static index conditions. -/
theorem renderAllOS_rel' (strict : Prop) (c : Cfg V) (hB : 1 ≤ c.block_size) (hf : c.taps ≠ [])
    (objs : List (ObjItem V)) (dss : List (DsItem V)) (hoas : List (HoaItem V))
    (hs : strict → IndexOK c objs dss hoas) (parts : List (List (List Rat))) :
    ChkRel strict (fun r r' => r = r') (renderAllOS c objs dss hoas parts) (renderAll c objs dss hoas parts) := by
  have h1 := r_run_sim strict c hB hf parts _ _ (r_init_rel strict c hB hf objs dss hoas hs)
  simp only [renderAllOS, renderAll, bind, Except.bind]
  generalize RStateOS.run c (RStateOS.init c objs dss hoas) parts = ra at h1 ⊢
  generalize RState.run c (RState.init c objs dss hoas) parts = rb at h1 ⊢
  rcases ra with e | r <;> rcases rb with e' | r'
  · cases e <;> chk_close h1
  · cases e <;> chk_close h1
  · chk_close h1
  · obtain ⟨a1, os⟩ := r
    obtain ⟨b1, os'⟩ := r'
    simp only [chkRel_ok_ok] at h1
    obtain ⟨h2, h3⟩ := h1
    subst h3
    have h4 := r_render_sim strict c hB hf a1 b1 h2 (List.replicate c.overall_delay (List.replicate c.n_in 0))
    simp only [RStateOS.get_tail, RState.get_tail]
    generalize a1.render c _ = ra at h4 ⊢
    generalize b1.render c _ = rb at h4 ⊢
    rcases ra with e | r <;> rcases rb with e' | r'
    · cases e <;> chk_close h4
    · cases e <;> chk_close h4
    · chk_close h4
    · simp only [chkRel_ok_ok] at h4
      simp [pure, Except.pure, h4.2]

/-- **`renderAllOS_rel`** — a whole session (`render` on every block of ANY partition, then `get_tail`) of the renderer
with the partitioned overlap-save convolver inside `ObjectRenderer` and the numpy exceptions, against the renderer with
the direct-form FIR and totalised indexing — no hypothesis on the items or the timelines: same audio, or the same
exception, or one of the three numpy exceptions, and the latter only when the static index conditions fail. -/
theorem renderAllOS_rel (c : Cfg V) (hB : 1 ≤ c.block_size) (hf : c.taps ≠ []) (objs : List (ObjItem V))
    (dss : List (DsItem V)) (hoas : List (HoaItem V)) (parts : List (List (List Rat))) :
    ChkRel (IndexOK c objs dss hoas) (fun r r' => r = r') (renderAllOS c objs dss hoas parts)
      (renderAll c objs dss hoas parts) :=
  renderAllOS_rel' _ c hB hf objs dss hoas id parts

/-- **`renderAllOS_eq`** — under the static index conditions a whole session of the renderer with the overlap-save
convolver returns exactly what the renderer with the direct-form FIR returns (same exception or same audio). -/
theorem renderAllOS_eq (c : Cfg V) (hB : 1 ≤ c.block_size) (hf : c.taps ≠ []) (objs : List (ObjItem V))
    (dss : List (DsItem V)) (hoas : List (HoaItem V)) (hidx : IndexOK c objs dss hoas)
    (parts : List (List (List Rat))) :
    renderAllOS c objs dss hoas parts = liftC (renderAll c objs dss hoas parts) := by
  have h := renderAllOS_rel c hB hf objs dss hoas parts
  generalize renderAllOS c objs dss hoas parts = ra at h ⊢
  generalize renderAll c objs dss hoas parts = rb at h ⊢
  rcases ra with e | r <;> rcases rb with e' | r'
  · cases e with
    | base e0 => simp only [chkRel_base_error] at h; subst h; rfl
    | trackIndex => exact absurd hidx h
    | emptyStack => exact absurd hidx h
    | dotShape => exact absurd hidx h
  · cases e with
    | base e0 => exact h.elim
    | trackIndex => exact absurd hidx h
    | emptyStack => exact absurd hidx h
    | dotShape => exact absurd hidx h
  · exact h.elim
  · simp only [chkRel_ok_ok] at h; subst h; rfl

/-- A session raised one of the numpy exceptions of the model. -/
def RaisesNumpy {ε α : Type} (x : Except (ChkErr ε) α) : Prop :=
  x = .error .trackIndex ∨ x = .error .emptyStack ∨ x = .error .dotShape

/-- **`render_refines_spec_os`** — `render_refines_spec` with the partitioned overlap-save convolver in place of the FIR
stand-in and with the numpy exceptions in the model instead of index hypotheses: for every configuration with
`block_size ≥ 1` and a non-empty decorrelation filter, every mix of items with accepted timelines (`SessionOK`), every
input and EVERY partition of it into `render` calls, the session EITHER returns all blocks followed by the tail
concatenating to the sample-by-sample specification `RenderSpec.out` of the concatenated input, OR raises `IndexError`
(a track outside the input) / `ValueError` (`np.stack` of no tracks, `np.dot` with a decode matrix of the wrong width) —
and the latter only if the static index conditions `IndexOK` fail. -/
theorem render_refines_spec_os (c : Cfg V) (objs : List (ObjItem V)) (dss : List (DsItem V)) (hoas : List (HoaItem V))
    (hok : SessionOK c objs dss hoas) (hf : c.taps ≠ []) (parts : List (List (List Rat))) :
    renderAllOS c objs dss hoas parts = .ok (RenderSpec.out c objs dss hoas parts.flatten) ∨
      (¬ IndexOK c objs dss hoas ∧ RaisesNumpy (renderAllOS c objs dss hoas parts)) := by
  have h := renderAllOS_rel c hok.block_size_pos hf objs dss hoas parts
  rw [render_refines_spec c objs dss hoas hok parts] at h
  rcases h.of_ok with ⟨a, h1, rfl⟩ | ⟨h1, h2⟩
  · exact .inl h1
  · exact .inr ⟨h1, h2⟩

/-- **`render_refines_spec_os_ok`** — inside the static index conditions no call raises and the output is the
specification. -/
theorem render_refines_spec_os_ok (c : Cfg V) (objs : List (ObjItem V)) (dss : List (DsItem V)) (hoas : List (HoaItem V))
    (hok : SessionOK c objs dss hoas) (hf : c.taps ≠ []) (hidx : IndexOK c objs dss hoas)
    (parts : List (List (List Rat))) :
    renderAllOS c objs dss hoas parts = .ok (RenderSpec.out c objs dss hoas parts.flatten) := by
  rcases render_refines_spec_os c objs dss hoas hok hf parts with h | ⟨h, -⟩
  · exact h
  · exact absurd hidx h

/-! #### a track outside the input always raises -/

/-- Every track of every item is a column of the input and every HOA item has at least one track. -/
structure TracksOK (c : Cfg V) (objs : List (ObjItem V)) (dss : List (DsItem V)) (hoas : List (HoaItem V)) : Prop where
  obj_tracks : ∀ it ∈ objs, it.track < c.n_in
  ds_tracks : ∀ it ∈ dss, it.track < c.n_in
  hoa_tracks : ∀ it ∈ hoas, ∀ t ∈ it.tracks, t < c.n_in
  hoa_nonempty : ∀ it ∈ hoas, it.tracks ≠ []

omit [RMod V] [LawfulRMod V] in
theorem procChansC_ok_chk {α B ε W : Type} (chkT : α → Option (ChkErr ε))
    (proc : α → B → List W → Except (ChkErr ε) (B × List W)) :
    ∀ (chans : List (α × B)) (out : List W) r, procChansC chkT proc chans out = .ok r →
      ∀ p ∈ chans, chkT p.1 = none := by
  intro chans
  induction chans with
  | nil => intro out r _ p hp; cases hp
  | cons q rest ih =>
    intro out r h p hp
    obtain ⟨t, b⟩ := q
    simp only [procChansC] at h
    cases hc : chkT t with
    | some e => rw [hc] at h; cases h
    | none =>
      rw [hc] at h
      simp only at h
      cases h1 : proc t b out with
      | error e => rw [h1] at h; cases h
      | ok r1 =>
        obtain ⟨b1, out1⟩ := r1
        rw [h1] at h
        simp only at h
        cases h2 : procChansC chkT proc rest out1 with
        | error e => rw [h2] at h; cases h
        | ok r2 =>
          rcases List.mem_cons.mp hp with rfl | hp
          · exact hc
          · exact ih out1 r2 h2 p hp

omit [LawfulRMod V] in
/-- A successful `render` call has checked every channel's tracks. -/
theorem render_ok_tracks (c : Cfg V) (st : RStateOS V) (blk : List (List Rat)) (r : RStateOS V × List V)
    (h : st.render c blk = .ok r) :
    TrackChansOK c.n_in st.obj.chans ∧ TrackChansOK c.n_in st.ds ∧
      ∀ p ∈ st.hoa, chkTracks (ε := Err) c.n_in p.1 = none := by
  simp only [RStateOS.render] at h
  cases h1 : st.obj.render c st.start_sample blk with
  | error e => rw [h1] at h; cases h
  | ok r1 =>
    obtain ⟨obj, o1⟩ := r1
    rw [h1] at h
    simp only at h
    cases h2 : liftC (liftA (st.aligner.add (st.start_sample - c.overall_delay) o1)) with
    | error e => rw [h2] at h; cases h
    | ok al1 =>
      rw [h2] at h
      simp only at h
      cases h3 : dsRenderC c st.ds st.start_sample blk with
      | error e => rw [h3] at h; cases h
      | ok r3 =>
        obtain ⟨ds, o2⟩ := r3
        rw [h3] at h
        simp only at h
        cases h4 : liftC (liftA (al1.add st.start_sample o2)) with
        | error e => rw [h4] at h; cases h
        | ok al2 =>
          rw [h4] at h
          simp only at h
          cases h5 : hoaRenderC c st.hoa st.start_sample blk with
          | error e => rw [h5] at h; cases h
          | ok r5 =>
            refine ⟨?_, procChansC_ok_chk _ _ _ _ _ h3, procChansC_ok_chk _ _ _ _ _ h5⟩
            simp only [ObjStateOS.render, objChansC] at h1
            cases h6 : procChansC (chkTrack (ε := Err) c.n_in)
                (fun t b out => liftC (b.process (interpObject c.sr) GainKern.upd st.start_sample (track blk t) out))
                st.obj.chans (List.replicate blk.length (0 : V × V)) with
            | error e => rw [h6] at h1; cases h1
            | ok r6 => exact procChansC_ok_chk _ _ _ _ _ h6

omit [LawfulRMod V] in
/-- A session that returns audio made a successful first call (the first `render`, or `get_tail`) on the initial state. -/
theorem renderAllOS_ok_first_call (c : Cfg V) (objs : List (ObjItem V)) (dss : List (DsItem V)) (hoas : List (HoaItem V))
    (parts : List (List (List Rat))) (out : List V) (h : renderAllOS c objs dss hoas parts = .ok out) :
    ∃ blk r, (RStateOS.init c objs dss hoas).render c blk = .ok r := by
  simp only [renderAllOS] at h
  cases parts with
  | nil =>
    simp only [RStateOS.run, RStateOS.get_tail] at h
    cases h1 : (RStateOS.init c objs dss hoas).render c (List.replicate c.overall_delay (List.replicate c.n_in 0)) with
    | error e => rw [h1] at h; cases h
    | ok r => exact ⟨_, r, h1⟩
  | cons p ps =>
    simp only [RStateOS.run] at h
    cases h1 : (RStateOS.init c objs dss hoas).render c p with
    | error e => rw [h1] at h; cases h
    | ok r => exact ⟨_, r, h1⟩

omit [LawfulRMod V] in
/-- **`renderAllOS_ok_tracks`** — if a session returns audio (whatever the timelines), every track of every item is a
column of the input and every HOA item has a track: `input_samples[:, track_index]` / `np.stack` are evaluated for every
channel on the very first call (the first `render`, or `get_tail` when there is none).  Contrapositive: a track outside
the input, or an HOA item without tracks, makes EVERY session raise, for every blocking. -/
theorem renderAllOS_ok_tracks (c : Cfg V) (objs : List (ObjItem V)) (dss : List (DsItem V)) (hoas : List (HoaItem V))
    (parts : List (List (List Rat))) (out : List V) (h : renderAllOS c objs dss hoas parts = .ok out) :
    TracksOK c objs dss hoas := by
  have hfirst := renderAllOS_ok_first_call c objs dss hoas parts out h
  obtain ⟨blk, r, hr⟩ := hfirst
  obtain ⟨h1, h2, h3⟩ := render_ok_tracks c _ blk r hr
  have key : ∀ t : Nat, chkTrack (ε := Err) c.n_in t = none → t < c.n_in := by
    intro t ht
    unfold chkTrack at ht
    split at ht
    · assumption
    · cases ht
  refine ⟨?_, ?_, ?_, ?_⟩
  · intro it hit
    exact key _ (h1 (it.track, ⟨it.blocks, {}, []⟩) (by
      simp only [RStateOS.init, ObjStateOS.init, List.mem_map]; exact ⟨it, hit, rfl⟩))
  · intro it hit
    exact key _ (h2 (it.track, ⟨it.blocks, {}, []⟩) (by
      simp only [RStateOS.init, List.mem_map]; exact ⟨it, hit, rfl⟩))
  · intro it hit t ht
    have := h3 (it.tracks, ⟨it.blocks, {}, []⟩) (by
      simp only [RStateOS.init, List.mem_map]; exact ⟨it, hit, rfl⟩)
    simp only [chkTracks] at this
    split at this
    · rename_i hall
      rw [List.all_eq_true] at hall
      simpa using hall t ht
    · cases this
  · intro it hit hnil
    have := h3 (it.tracks, ⟨it.blocks, {}, []⟩) (by
      simp only [RStateOS.init, List.mem_map]; exact ⟨it, hit, rfl⟩)
    simp only [chkTracks, hnil, List.all_nil, List.isEmpty_nil, if_true] at this
    cases this

/-! #### a mis-shaped first decode matrix always raises -/

omit [RMod V] [LawfulRMod V] in
theorem procChansC_ok_proc {α B ε W : Type} (chkT : α → Option (ChkErr ε))
    (proc : α → B → List W → Except (ChkErr ε) (B × List W)) :
    ∀ (chans : List (α × B)) (out : List W) r, procChansC chkT proc chans out = .ok r →
      ∀ p ∈ chans, ∃ out' r', proc p.1 p.2 out' = .ok r' := by
  intro chans
  induction chans with
  | nil => intro out r _ p hp; cases hp
  | cons q rest ih =>
    intro out r h p hp
    obtain ⟨t, b⟩ := q
    simp only [procChansC] at h
    cases hc : chkT t with
    | some e => rw [hc] at h; cases h
    | none =>
      rw [hc] at h
      simp only at h
      cases h1 : proc t b out with
      | error e => rw [h1] at h; cases h
      | ok r1 =>
        obtain ⟨b1, out1⟩ := r1
        rw [h1] at h
        simp only at h
        cases h2 : procChansC chkT proc rest out1 with
        | error e => rw [h2] at h; cases h
        | ok r2 =>
          rcases List.mem_cons.mp hp with rfl | hp
          · exact ⟨out, _, h1⟩
          · exact ih out1 r2 h2 p hp

omit [RMod V] [LawfulRMod V] in
theorem refill_nonempty {M S K : Type} (interp : S → M → Except Err (S × List (PBlock K))) (check : Option Int)
    (src : List M) (st : S) (pb : PBlock K) (q : List (PBlock K)) :
    refill interp check src st (pb :: q) = .ok ⟨src, st, pb :: q⟩ := by
  cases src with
  | nil => rfl
  | cons m ms => simp [refill, pure, Except.pure]

omit [RMod V] [LawfulRMod V] in
/-- A fresh HOA channel: the first decode matrix is checked on the first call. -/
theorem bpcProcessC_first {G ι W : Type} (okK : G → Bool) (sr : Nat) (upd : G → Nat → ι → W → W) (ss : Int)
    (inp : List ι) (out : List W) (m : MetaBlock G) (rest : List (MetaBlock G)) (st : IState G) r
    (h : bpcProcessC okK (interpFixed sr) upd ss inp out ⟨m :: rest, st, []⟩ = .ok r) : okK m.gains = true := by
  simp only [bpcProcessC, refill, ne_eq, not_true_eq_false, if_false, bind, Except.bind, List.nil_append,
    interpFixed] at h
  cases hb : blockStartEnd st.tlast m with
  | error e => rw [hb] at h; cases h
  | ok se =>
    obtain ⟨s, e⟩ := se
    rw [hb] at h
    simp only [refill_nonempty] at h
    split at h
    · cases h
    · rename_i b hb2
      split at hb2
      · simp only [throw, throwThe, MonadExceptOf.throw] at hb2
        cases hb2
      · cases hb2
        simp only [Bpc.fuel, List.length_cons, List.length_nil, bpcLoopC] at h
        by_contra hk
        simp only [Bool.not_eq_true] at hk
        simp only [PBlock.new, hk, if_true] at h
        cases h

omit [LawfulRMod V] in
theorem render_ok_hoa (c : Cfg V) (st : RStateOS V) (blk : List (List Rat)) (r : RStateOS V × List V)
    (h : st.render c blk = .ok r) : ∃ r5, hoaRenderC c st.hoa st.start_sample blk = .ok r5 := by
  simp only [RStateOS.render] at h
  cases h1 : st.obj.render c st.start_sample blk with
  | error e => rw [h1] at h; cases h
  | ok r1 =>
    obtain ⟨obj, o1⟩ := r1
    rw [h1] at h
    simp only at h
    cases h2 : liftC (liftA (st.aligner.add (st.start_sample - c.overall_delay) o1)) with
    | error e => rw [h2] at h; cases h
    | ok al1 =>
      rw [h2] at h
      simp only at h
      cases h3 : dsRenderC c st.ds st.start_sample blk with
      | error e => rw [h3] at h; cases h
      | ok r3 =>
        obtain ⟨ds, o2⟩ := r3
        rw [h3] at h
        simp only at h
        cases h4 : liftC (liftA (al1.add st.start_sample o2)) with
        | error e => rw [h4] at h; cases h
        | ok al2 =>
          rw [h4] at h
          simp only at h
          cases h5 : hoaRenderC c st.hoa st.start_sample blk with
          | error e => rw [h5] at h; cases h
          | ok r5 => exact ⟨r5, rfl⟩

omit [LawfulRMod V] in
/-- **`renderAllOS_ok_first_matrix`** — if a session returns audio, the FIRST decode matrix of every HOA item has one
column per track: the first processing block of a channel is at the head of its queue on the very first call, and
`np.dot` is evaluated on it whether or not any sample overlaps.  Contrapositive: a mis-shaped first matrix makes every
session raise, for every input and blocking.  (A mis-shaped LATER matrix raises exactly when it is reached; that dynamic
condition is not characterised here — tied by correspondence.) -/
theorem renderAllOS_ok_first_matrix (c : Cfg V) (objs : List (ObjItem V)) (dss : List (DsItem V))
    (hoas : List (HoaItem V)) (parts : List (List (List Rat))) (out : List V)
    (h : renderAllOS c objs dss hoas parts = .ok out) :
    ∀ it ∈ hoas, ∀ m rest, it.blocks = m :: rest → m.gains.length = it.tracks.length := by
  intro it hit m rest hm
  obtain ⟨blk, r, hr⟩ := renderAllOS_ok_first_call c objs dss hoas parts out h
  obtain ⟨r5, h5⟩ := render_ok_hoa c _ blk r hr
  obtain ⟨out', r', hp⟩ := procChansC_ok_proc _ _ _ _ _ h5 (it.tracks, ⟨it.blocks, {}, []⟩) (by
    simp only [RStateOS.init, List.mem_map]; exact ⟨it, hit, rfl⟩)
  simp only [hm] at hp
  have := bpcProcessC_first _ _ _ _ _ _ _ _ _ _ hp
  simpa [okDot] using this

/-- **`renderAllOS_raises_of_bad_track`** — with accepted timelines, a track outside the input (or an HOA item without
tracks) makes the session raise one of the numpy exceptions, for every input and every blocking. -/
theorem renderAllOS_raises_of_bad_track (c : Cfg V) (objs : List (ObjItem V)) (dss : List (DsItem V))
    (hoas : List (HoaItem V)) (hok : SessionOK c objs dss hoas) (hf : c.taps ≠ []) (parts : List (List (List Rat)))
    (hbad : ¬ TracksOK c objs dss hoas) : RaisesNumpy (renderAllOS c objs dss hoas parts) := by
  rcases render_refines_spec_os c objs dss hoas hok hf parts with h | ⟨-, h⟩
  · exact absurd (renderAllOS_ok_tracks c objs dss hoas parts _ h) hbad
  · exact h

/-- A session inside the static conditions: accepted timelines and `block_size ≥ 1` (`SessionOK`), indices and matrix
shapes that numpy accepts (`IndexOK`), a decorrelation filter with at least one tap. -/
structure SessionWF (c : Cfg V) (objs : List (ObjItem V)) (dss : List (DsItem V)) (hoas : List (HoaItem V)) : Prop where
  ok : SessionOK c objs dss hoas
  index : IndexOK c objs dss hoas
  taps_ne : c.taps ≠ []

end Earverif.Renderer

/-! ### the same for the renderer with track processors -/
namespace Earverif.RendererTS
open Earverif.Stream Earverif.Timeline Earverif.Renderer
set_option linter.unusedSectionVars false

variable {V : Type} [RMod V] [LawfulRMod V]

structure ObjRelTS (c : Cfg V) (a : ObjStateTSOS V) (b : ObjStateTS V) : Prop where
  chans : a.chans = b.chans
  mem : a.delaymem = b.delaymem
  vbs : VbsRel (OSFirRel c.taps c.block_size) c.block_size a.vbs b.vbs

theorem obj_init_rel_ts (c : Cfg V) (hB : 1 ≤ c.block_size) (hf : c.taps ≠ []) (items : List (ObjItemTS V)) :
    ExRel (ObjRelTS c) (ObjStateTSOS.init c items) (ObjStateTS.init c items) := by
  simp only [ObjStateTSOS.init, ObjStateTS.init]
  cases mkChans (fun it : ObjItemTS V => TrackSpec.trackProcessor it.spec) (·.blocks) ({} : IState (V × V)) items with
  | error e => simp
  | ok chans =>
    simp only [exRel_ok]
    exact ⟨rfl, rfl, vbs_init_sim OS.step (Fir.step c.taps) _ c.block_size hB
      (os_fir_stepSim c.taps c.block_size hB hf) (fun t blk => fir_step_length c.taps t blk c.block_size) 0 _ _
      (osFirRel_init c.taps c.block_size)⟩

theorem obj_render_sim_ts (strict : Prop) (c : Cfg V) (hB : 1 ≤ c.block_size) (hf : c.taps ≠ []) (a : ObjStateTSOS V)
    (b : ObjStateTS V) (h : ObjRelTS c a b) (S0 : Int) (inp : List (List Rat)) :
    ChkRel strict (fun r r' => ObjRelTS c r.1 r'.1 ∧ r.2 = r'.2) (a.render c S0 inp) (b.render c S0 inp) := by
  obtain ⟨hch, hmem, hvbs⟩ := h
  simp only [ObjStateTSOS.render, ObjStateTS.render, hch, hmem]
  cases procChansTS (interpObject c.sr) GainKern.upd S0 (fun p => TrackSpec.step c.sr c.n_in p inp) b.chans
      (List.replicate inp.length (0 : V × V)) with
  | error e => simp
  | ok r =>
    obtain ⟨chans, interpolated⟩ := r
    obtain ⟨h1, h2⟩ := vbs_process_sim OS.step (Fir.step c.taps) _ c.block_size
      (os_fir_stepSim c.taps c.block_size hB hf) (fun t blk => fir_step_length c.taps t blk c.block_size) 0
      a.vbs b.vbs hvbs (interpolated.map Prod.snd)
    simp only [liftC_ok, chkRel_ok_ok, h2]
    exact ⟨⟨rfl, rfl, h1⟩, trivial⟩

structure RRelTS (strict : Prop) (c : Cfg V) (a : RStateTSOS V) (b : RStateTS V) : Prop where
  al : a.aligner = b.aligner
  obj : ObjRelTS c a.obj b.obj
  ds : a.ds = b.ds
  hoa : a.hoa = b.hoa
  ss : a.start_sample = b.start_sample
  inv : strict → ∀ p ∈ a.hoa, HoaChanOK p

/-- Every decode matrix of every HOA item has one column per track spec of the item (`np.dot` raises otherwise). -/
def HoaGainsOK (hoas : List (HoaItemTS V)) : Prop := ∀ it ∈ hoas, ∀ b ∈ it.blocks, b.gains.length = it.specs.length

omit [RMod V] [LawfulRMod V] in
theorem buildMulti_length : ∀ (ss : List (TrackSpec.Spec Rat)) (ps : List (TrackSpec.Proc Rat)),
    TrackSpec.buildMulti ss = .ok ps → ps.length = ss.length := by
  intro ss
  induction ss with
  | nil => intro ps h; simp only [TrackSpec.buildMulti, Except.ok.injEq] at h; subst h; rfl
  | cons t ts ih =>
    intro ps h
    simp only [TrackSpec.buildMulti] at h
    cases h1 : TrackSpec.trackProcessor t with
    | error e => rw [h1] at h; cases h
    | ok p =>
      rw [h1] at h
      simp only at h
      cases h2 : TrackSpec.buildMulti ts with
      | error e => rw [h2] at h; cases h
      | ok ps1 =>
        rw [h2] at h
        simp only [Except.ok.injEq] at h
        rw [← h, List.length_cons, List.length_cons, ih ps1 h2]

omit [RMod V] [LawfulRMod V] in
theorem mem_mkChans {I P M S K : Type} (mk : I → Except TrackSpec.Err P) (blocksOf : I → List M) (st0 : S) :
    ∀ (items : List I) (chans : List (P × Bpc M S K)), mkChans mk blocksOf st0 items = .ok chans →
      ∀ p ∈ chans, ∃ it ∈ items, mk it = .ok p.1 ∧ p.2 = ⟨blocksOf it, st0, []⟩ := by
  intro items
  induction items with
  | nil => intro chans h p hp; simp only [mkChans, Except.ok.injEq] at h; subst h; cases hp
  | cons it rest ih =>
    intro chans h p hp
    simp only [mkChans] at h
    cases h1 : mk it with
    | error e => rw [h1] at h; cases h
    | ok q =>
      rw [h1] at h
      simp only at h
      cases h2 : mkChans mk blocksOf st0 rest with
      | error e => rw [h2] at h; cases h
      | ok cs =>
        rw [h2] at h
        simp only [Except.ok.injEq] at h
        subst h
        rcases List.mem_cons.mp hp with rfl | hp
        · exact ⟨it, List.mem_cons_self, h1, rfl⟩
        · obtain ⟨it', hm, e1, e2⟩ := ih cs h2 p hp
          exact ⟨it', List.mem_cons_of_mem _ hm, e1, e2⟩

theorem r_init_rel_ts (strict : Prop) (c : Cfg V) (hB : 1 ≤ c.block_size) (hf : c.taps ≠ [])
    (objs : List (ObjItemTS V)) (dss : List (DsItemTS V)) (hoas : List (HoaItemTS V))
    (hs : strict → HoaGainsOK hoas) :
    ExRel (RRelTS strict c) (RStateTSOS.init c objs dss hoas) (RStateTS.init c objs dss hoas) := by
  have h := obj_init_rel_ts c hB hf objs
  simp only [RStateTSOS.init, RStateTS.init]
  generalize ObjStateTSOS.init c objs = ra at h ⊢
  generalize ObjStateTS.init c objs = rb at h ⊢
  cases ra with
  | error e =>
    cases rb with
    | error e' => simpa using h
    | ok r' => simp at h
  | ok r =>
    cases rb with
    | error e' => simp at h
    | ok r' =>
      simp only [exRel_ok] at h
      simp only
      cases mkChans (fun it : DsItemTS V => TrackSpec.trackProcessor it.spec) (·.blocks) ({} : IState V) dss with
      | error e => simp
      | ok ds =>
        simp only
        cases hm : mkChans (fun it : HoaItemTS V => TrackSpec.buildMulti it.specs) (·.blocks) ({} : IState (List V))
            hoas with
        | error e => simp
        | ok hoa =>
          simp only [exRel_ok]
          refine ⟨rfl, h, rfl, rfl, rfl, ?_⟩
          intro hst p hp
          obtain ⟨it, hit, e1, e2⟩ := mem_mkChans _ _ _ hoas hoa hm p hp
          have hl := buildMulti_length it.specs p.1 e1
          refine ⟨?_, ?_⟩
          · intro m hm'
            rw [e2] at hm'
            simpa [okDot, hl] using hs hst it hit m hm'
          · intro pb hpb
            rw [e2] at hpb
            cases hpb

theorem r_render_sim_ts (strict : Prop) (c : Cfg V) (hB : 1 ≤ c.block_size) (hf : c.taps ≠ []) (a : RStateTSOS V)
    (b : RStateTS V) (h : RRelTS strict c a b) (samples : List (List Rat)) :
    ChkRel strict (fun r r' => RRelTS strict c r.1 r'.1 ∧ r.2 = r'.2) (a.render c samples) (b.render c samples) := by
  obtain ⟨hal, hobj, hds, hhoa, hss, hinv⟩ := h
  have ho := obj_render_sim_ts strict c hB hf a.obj b.obj hobj b.start_sample samples
  have hh := hoaChansTSC_rel strict c b.start_sample samples a.hoa (List.replicate samples.length 0) hinv
  simp only [RStateTSOS.render, RStateTS.render, hoaRenderTSC, hoaRenderTS, hal, hds, ← hhoa, hss] at hh ⊢
  generalize a.obj.render c b.start_sample samples = ra at ho ⊢
  generalize b.obj.render c b.start_sample samples = rb at ho ⊢
  rcases ra with e | r <;> rcases rb with e' | r'
  · cases e <;> chk_close ho
  · cases e <;> chk_close ho
  · chk_close ho
  · obtain ⟨obj, o1⟩ := r
    obtain ⟨obj', o1'⟩ := r'
    simp only [chkRel_ok_ok] at ho
    obtain ⟨ho1, ho2⟩ := ho
    subst ho2
    simp only
    cases liftR (liftA (b.aligner.add (b.start_sample - c.overall_delay) o1)) with
    | error e => simp
    | ok al1 =>
      simp only [liftC_ok]
      cases dsRenderTS c b.ds b.start_sample samples with
      | error e => simp
      | ok r2 =>
        obtain ⟨ds, o2⟩ := r2
        simp only [liftC_ok]
        cases liftR (liftA (al1.add b.start_sample o2)) with
        | error e => simp
        | ok al2 =>
          simp only [liftC_ok]
          generalize hoaChansTSC c b.start_sample samples a.hoa _ = ra at hh ⊢
          generalize procChansTS (interpFixed c.sr) matUpd b.start_sample _ a.hoa _ = rb at hh ⊢
          rcases ra with e | r <;> rcases rb with e' | r'
          · cases e <;> chk_close hh
          · cases e <;> chk_close hh
          · chk_close hh
          · obtain ⟨hoa, o3⟩ := r
            simp only [chkRel_ok_ok] at hh
            obtain ⟨rfl, hh2⟩ := hh
            simp only
            cases liftR (liftA (al2.add b.start_sample o3)) with
            | error e => simp
            | ok al3 =>
              simp only [liftC_ok]
              cases liftR (liftA al3.get) with
              | error e => simp
              | ok r4 =>
                obtain ⟨ret, al4⟩ := r4
                simp only [chkRel_ok_ok, liftC_ok]
                exact ⟨⟨rfl, ho1, rfl, rfl, rfl, hh2⟩, trivial⟩

theorem r_run_sim_ts (strict : Prop) (c : Cfg V) (hB : 1 ≤ c.block_size) (hf : c.taps ≠ []) :
    ∀ (parts : List (List (List Rat))) (a : RStateTSOS V) (b : RStateTS V), RRelTS strict c a b →
    ChkRel strict (fun r r' => RRelTS strict c r.1 r'.1 ∧ r.2 = r'.2) (RStateTSOS.run c a parts)
      (RStateTS.run c b parts) := by
  intro parts
  induction parts with
  | nil => intro a b h; simpa [RStateTSOS.run, RStateTS.run] using h
  | cons p ps ih =>
    intro a b h
    have h1 := r_render_sim_ts strict c hB hf a b h p
    simp only [RStateTSOS.run, RStateTS.run]
    generalize a.render c p = ra at h1 ⊢
    generalize b.render c p = rb at h1 ⊢
    rcases ra with e | r <;> rcases rb with e' | r'
    · cases e <;> chk_close h1
    · cases e <;> chk_close h1
    · chk_close h1
    · obtain ⟨a1, o⟩ := r
      obtain ⟨b1, o'⟩ := r'
      simp only [chkRel_ok_ok] at h1
      obtain ⟨h2, h3⟩ := h1
      subst h3
      have h4 := ih a1 b1 h2
      simp only
      generalize RStateTSOS.run c a1 ps = ra at h4 ⊢
      generalize RStateTS.run c b1 ps = rb at h4 ⊢
      rcases ra with e | r <;> rcases rb with e' | r'
      · cases e <;> chk_close h4
      · cases e <;> chk_close h4
      · chk_close h4
      · obtain ⟨a2, os⟩ := r
        obtain ⟨b2, os'⟩ := r'
        simp only [chkRel_ok_ok] at h4
        obtain ⟨h5, h6⟩ := h4
        subst h6
        simp only [chkRel_ok_ok]
        exact ⟨h5, trivial⟩

/-- **`renderAllTSOS_rel`** — the same for the renderer with track processors: a whole session with the overlap-save
convolver and the `np.dot` exception against the session with the direct-form FIR and the totalised decode-matrix
product: same audio, or the same exception, or a numpy exception — the latter only when some decode matrix does not
have one column per track spec of its item. -/
theorem renderAllTSOS_rel (c : Cfg V) (hB : 1 ≤ c.block_size) (hf : c.taps ≠ []) (objs : List (ObjItemTS V))
    (dss : List (DsItemTS V)) (hoas : List (HoaItemTS V)) (parts : List (List (List Rat))) :
    ChkRel (HoaGainsOK hoas) (fun r r' => r = r') (renderAllTSOS c objs dss hoas parts)
      (renderAllTS c objs dss hoas parts) := by
  have h0 := r_init_rel_ts (HoaGainsOK hoas) c hB hf objs dss hoas id
  simp only [renderAllTSOS, renderAllTS]
  generalize RStateTSOS.init c objs dss hoas = ia at h0 ⊢
  generalize RStateTS.init c objs dss hoas = ib at h0 ⊢
  cases ia with
  | error e =>
    cases ib with
    | error e' => simp at h0; simp [h0]
    | ok r' => simp at h0
  | ok a0 =>
    cases ib with
    | error e' => simp at h0
    | ok b0 =>
      simp only [exRel_ok] at h0
      have h1 := r_run_sim_ts _ c hB hf parts a0 b0 h0
      simp only
      generalize RStateTSOS.run c a0 parts = ra at h1 ⊢
      generalize RStateTS.run c b0 parts = rb at h1 ⊢
      rcases ra with e | r <;> rcases rb with e' | r'
      · cases e <;> chk_close h1
      · cases e <;> chk_close h1
      · chk_close h1
      · obtain ⟨a1, os⟩ := r
        obtain ⟨b1, os'⟩ := r'
        simp only [chkRel_ok_ok] at h1
        obtain ⟨h2, h3⟩ := h1
        subst h3
        have h4 := r_render_sim_ts _ c hB hf a1 b1 h2 (tailFrames c)
        simp only [RStateTSOS.get_tail, RStateTS.get_tail]
        generalize a1.render c _ = ra at h4 ⊢
        generalize b1.render c _ = rb at h4 ⊢
        rcases ra with e | r <;> rcases rb with e' | r'
        · cases e <;> chk_close h4
        · cases e <;> chk_close h4
        · chk_close h4
        · simp only [chkRel_ok_ok] at h4
          simp [h4.2]

/-- **`renderAllTSOS_eq`** — when every decode matrix has one column per track spec, a whole session with the
overlap-save convolver returns exactly what the session with the direct-form FIR returns (same exception or audio). -/
theorem renderAllTSOS_eq (c : Cfg V) (hB : 1 ≤ c.block_size) (hf : c.taps ≠ []) (objs : List (ObjItemTS V))
    (dss : List (DsItemTS V)) (hoas : List (HoaItemTS V)) (hg : HoaGainsOK hoas) (parts : List (List (List Rat))) :
    renderAllTSOS c objs dss hoas parts = liftC (renderAllTS c objs dss hoas parts) := by
  have h := renderAllTSOS_rel c hB hf objs dss hoas parts
  generalize renderAllTSOS c objs dss hoas parts = ra at h ⊢
  generalize renderAllTS c objs dss hoas parts = rb at h ⊢
  rcases ra with e | r <;> rcases rb with e' | r'
  · cases e with
    | base e0 => simp only [chkRel_base_error] at h; subst h; rfl
    | trackIndex => exact absurd hg h
    | emptyStack => exact absurd hg h
    | dotShape => exact absurd hg h
  · cases e with
    | base e0 => exact h.elim
    | trackIndex => exact absurd hg h
    | emptyStack => exact absurd hg h
    | dotShape => exact absurd hg h
  · exact h.elim
  · simp only [chkRel_ok_ok] at h; subst h; rfl

/-- **`render_eq_outTS_os`** — `render_eq_outTS` (= `render_refines_spec_ts` written out) with the overlap-save
convolver in place of the FIR stand-in and the `np.dot` exception in the model: for every `SessionOKTS` session
(accepted timelines, `block_size ≥ 1`, C20's `Spec.wf`: direct indices inside the input, delays ≥ 0, every HOA item has
a spec), a non-empty decorrelation filter and EVERY partition, the session EITHER returns the specification `outTS` OR
raises a numpy exception — and the latter only if some decode matrix does not have one column per track spec. -/
theorem render_eq_outTS_os (c : Cfg V) (objs : List (ObjItemTS V)) (dss : List (DsItemTS V))
    (hoas : List (HoaItemTS V)) (hok : SessionOKTS c objs dss hoas) (hf : c.taps ≠ [])
    (parts : List (List (List Rat))) :
    renderAllTSOS c objs dss hoas parts = .ok (outTS c objs dss hoas parts.flatten) ∨
      (¬ HoaGainsOK hoas ∧ RaisesNumpy (renderAllTSOS c objs dss hoas parts)) := by
  have h := renderAllTSOS_rel c hok.block_size_pos hf objs dss hoas parts
  rw [render_eq_outTS c objs dss hoas hok parts] at h
  rcases h.of_ok with ⟨a, h1, rfl⟩ | ⟨h1, h2⟩
  · exact .inl h1
  · exact .inr ⟨h1, h2⟩

theorem render_eq_outTS_os_ok (c : Cfg V) (objs : List (ObjItemTS V)) (dss : List (DsItemTS V))
    (hoas : List (HoaItemTS V)) (hok : SessionOKTS c objs dss hoas) (hf : c.taps ≠ []) (hg : HoaGainsOK hoas)
    (parts : List (List (List Rat))) :
    renderAllTSOS c objs dss hoas parts = .ok (outTS c objs dss hoas parts.flatten) := by
  rcases render_eq_outTS_os c objs dss hoas hok hf parts with h | ⟨h, -⟩
  · exact h
  · exact absurd hg h

/-- A session with track processors inside the static conditions: `SessionOKTS`, decode matrices as wide as the item has
track specs, a decorrelation filter with at least one tap. -/
structure SessionWFTS (c : Cfg V) (objs : List (ObjItemTS V)) (dss : List (DsItemTS V)) (hoas : List (HoaItemTS V)) :
    Prop where
  ok : SessionOKTS c objs dss hoas
  hoa_gains : HoaGainsOK hoas
  taps_ne : c.taps ≠ []

end Earverif.RendererTS
