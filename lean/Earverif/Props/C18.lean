/-
C18 — BW64 reader seek/read/tell behave as a cursor over the frames.

Property theorems only (plus the small lemmas they need, which are about the
same model and kept here because this property needs no shared lemma file).
-/
import Earverif.Model.Bw64Cursor

namespace Earverif.Cursor

/-- Well-formed file constants: positive block alignment, the data chunk holds
exactly `N` whole frames and lies inside the file. Every file produced by the
writer satisfies this (C09). -/
structure WF (k : Cfg) (N : Int) : Prop where
  hA : 0 < k.A
  hN : 0 ≤ N
  hsize : k.size = k.A * N
  hfile : k.data + k.size ≤ k.fileLen

/-- Operations in the property's quantifier: frame counts to read are `≥ 0`
and iteration block sizes are `≥ 1` (`iter_sample_blocks(0)` does not
terminate in the real code; negative counts read to the end of the *file*). -/
def OpOK : Op → Prop
  | .read n => 0 ≤ n
  | .iter bs => 1 ≤ bs
  | _ => True

/-- A list of byte ranges represents a list of frame ranges. -/
def RRanges (k : Cfg) : List (Int × Int) → List (Int × Int) → Prop
  | [], [] => True
  | r :: rs, f :: fs => (r.1 = k.data + k.A * f.1 ∧ r.2 = k.A * f.2) ∧ RRanges k rs fs
  | _, _ => False

/-- Concrete output `o` (byte ranges) represents spec output `s` (frame ranges). -/
def ROut (k : Cfg) : Out → Out → Prop
  | .unit, .unit => True
  | .valueError, .valueError => True
  | .pos a, .pos b => a = b
  | .bytes (s, g), .bytes (f, n) => s = k.data + k.A * f ∧ g = k.A * n
  | .blocks rs, .blocks fs =>
      RRanges k rs fs
  | _, _ => False

/-- Pointwise `ROut` on output sequences (equal length). -/
def ROuts (k : Cfg) : List Out → List Out → Prop
  | [], [] => True
  | o :: os, s :: ss => ROut k o s ∧ ROuts k os ss
  | _, _ => False

theorem len_eq {k : Cfg} {N : Int} (h : WF k N) : len k = N := by
  unfold len; rw [h.hsize]; exact Int.mul_ediv_cancel_left _ (Int.ne_of_gt h.hA)

theorem tell_eq {k : Cfg} (hA : 0 < k.A) (c : Int) : tell k (k.data + k.A * c) = c := by
  unfold tell
  have : k.data + k.A * c - k.data = k.A * c := by omega
  rw [this]; exact Int.mul_ediv_cancel_left _ (Int.ne_of_gt hA)

/-- `tell` reports the cursor. -/
theorem tell_spec {k : Cfg} {N : Int} (h : WF k N) (c : Int) :
    tell k (k.data + k.A * c) = c := tell_eq h.hA c

/-- `seek` clamps `base + offset` to `[0, N]`, for each of the three bases. -/
theorem seek_spec {k : Cfg} {N : Int} (h : WF k N) (c off w : Int)
    (hc0 : 0 ≤ c) (hcN : c ≤ N) :
    seek k (k.data + k.A * c) off w =
      (specSeek N c off w).map (fun c' => k.data + k.A * c') ∧
    ∀ c', specSeek N c off w = some c' → 0 ≤ c' ∧ c' ≤ N := by
  have hA := h.hA
  have hsz := h.hsize
  have hN := h.hN
  unfold seek specSeek Cfg.dend clamp
  have key : ∀ x y : Int, (k.A * x < k.A * y ↔ x < y) := fun x y =>
    ⟨fun hh => Int.lt_of_mul_lt_mul_left hh (Int.le_of_lt hA),
     fun hh => Int.mul_lt_mul_of_pos_left hh hA⟩
  constructor
  · by_cases h0 : w = 0
    · subst h0
      simp only [↓reduceIte, Option.map]
      have e : k.data + off * k.A = k.data + k.A * off := by rw [Int.mul_comm]
      rw [e, hsz]
      have k1 := key off 0
      have k2 := key N off
      by_cases a : off < 0 <;> by_cases b : off > N <;> simp [a, b] <;> first | omega | grind
    · by_cases h1 : w = 1
      · subst h1
        simp only [h0, ↓reduceIte, Option.map]
        have e : k.data + k.A * c + off * k.A = k.data + k.A * (c + off) := by
          rw [Int.mul_add, Int.mul_comm off]; omega
        rw [e, hsz]
        have k1 := key (c + off) 0
        have k2 := key N (c + off)
        by_cases a : c + off < 0 <;> by_cases b : c + off > N <;> simp [a, b] <;> first | omega | grind
      · by_cases h2 : w = 2
        · subst h2
          simp only [h0, h1, ↓reduceIte, Option.map]
          have e : k.data + k.size + off * k.A = k.data + k.A * (N + off) := by
            rw [hsz, Int.mul_add, Int.mul_comm off]; omega
          rw [e, hsz]
          have k1 := key (N + off) 0
          have k2 := key N (N + off)
          by_cases a : N + off < 0 <;> by_cases b : N + off > N <;> simp [a, b] <;> first | omega | grind
        · simp [h0, h1, h2]
  · intro c' hc'
    by_cases h0 : w = 0
    · subst h0; simp at hc'; grind
    · by_cases h1 : w = 1
      · subst h1; simp at hc'; grind
      · by_cases h2 : w = 2
        · subst h2; simp at hc'; grind
        · simp [h0, h1, h2] at hc'

/-- `read n` (n ≥ 0) hands exactly the bytes of frames `[c, min (c+n) N)` to the
decoder and advances the cursor to `min (c+n) N`. -/
theorem read_spec {k : Cfg} {N : Int} (h : WF k N) (c n : Int)
    (hc0 : 0 ≤ c) (hcN : c ≤ N) (hn : 0 ≤ n) :
    let r := read k (k.data + k.A * c) n
    let s := specRead N c n
    r.1 = k.data + k.A * s.1 ∧ r.2.1 = k.data + k.A * s.2.1 ∧ r.2.2 = k.A * s.2.2 ∧
    0 ≤ s.1 ∧ s.1 ≤ N ∧ s.2.1 = c ∧ s.2.2 = (if c + n < N then n else N - c) := by
  have hA := h.hA
  have hsz := h.hsize
  have hf := h.hfile
  simp only [read, specRead, tell_eq hA, len_eq h, bufRead]
  have hmono : ∀ x y : Int, x ≤ y → k.A * x ≤ k.A * y := fun x y hh =>
    Int.mul_le_mul_of_nonneg_left hh (Int.le_of_lt hA)
  have hAN : k.A * c ≤ k.A * N := hmono _ _ hcN
  have hAn : k.A * 0 ≤ k.A * n := hmono _ _ hn
  have hAcn : c + n ≤ N → k.A * (c + n) ≤ k.A * N := hmono _ _
  have hAcn' : N ≤ c + n → k.A * N ≤ k.A * (c + n) := hmono _ _
  simp only [Int.mul_add, Int.mul_zero] at hAn hAcn hAcn'
  by_cases hlt : c + n < N <;> by_cases hgt : c + n > N <;>
    simp only [hlt, hgt, ↓reduceIte, Int.mul_sub, Int.mul_add, Int.sub_mul, Int.mul_comm n k.A,
      Int.mul_comm N k.A, Int.mul_comm c k.A] <;>
    (rw [hsz] at hf
     generalize k.A * c = x at *
     generalize k.A * n = y at *
     generalize k.A * N = z at *
     grind)

/-- Block iteration refines the spec iteration, for any fuel. -/
theorem iter_refines {k : Cfg} {N : Int} (h : WF k N) (bs : Int) (hbs : 1 ≤ bs) :
    ∀ (fuel : Nat) (c : Int), 0 ≤ c → c ≤ N →
      let r := iter k bs fuel (k.data + k.A * c)
      let s := specIter N bs fuel c
      r.1 = k.data + k.A * s.1 ∧ 0 ≤ s.1 ∧ s.1 ≤ N ∧ RRanges k r.2 s.2 := by
  intro fuel
  induction fuel with
  | zero => intro c hc0 hcN; simp [iter, specIter, RRanges, hc0, hcN]
  | succ fuel ih =>
    intro c hc0 hcN
    simp only [iter, specIter, tell_eq h.hA, len_eq h]
    by_cases hcN' : c = N
    · simp [hcN', RRanges, h.hN]
    · simp only [hcN', ↓reduceIte]
      have hr := read_spec h c bs hc0 hcN (by omega)
      simp only at hr
      obtain ⟨h1, h2, h3, h4, h5, -, -⟩ := hr
      have ih' := ih (specRead N c bs).1 h4 h5
      simp only at ih'
      rw [h1]
      obtain ⟨i1, i2, i3, i4⟩ := ih'
      exact ⟨i1, i2, i3, ⟨h2, h3⟩, i4⟩

/-- Frame ranges that start at `c`, are non-empty, follow one another without
gap or overlap, and end at `e`. -/
def Chain : Int → List (Int × Int) → Int → Prop
  | c, [], e => c = e
  | c, r :: rs, e => r.1 = c ∧ 0 < r.2 ∧ Chain (c + r.2) rs e

/-- Spec-level meaning of block iteration: with block size `≥ 1` and enough
fuel the yielded ranges tile `[c, N)` exactly once and the cursor ends at `N`. -/
theorem specIter_tiles (N bs : Int) (hbs : 1 ≤ bs) :
    ∀ (fuel : Nat) (c : Int), 0 ≤ c → c ≤ N → N - c < fuel →
      (specIter N bs fuel c).1 = N ∧ Chain c (specIter N bs fuel c).2 N ∧
      ∀ r ∈ (specIter N bs fuel c).2, r.2 ≤ bs := by
  intro fuel
  induction fuel with
  | zero => intro c _ _ hf; omega
  | succ fuel ih =>
    intro c hc0 hcN hf
    simp only [specIter]
    by_cases hcN' : c = N
    · simp [hcN', Chain]
    · simp only [hcN', ↓reduceIte, specRead]
      by_cases hlt : c + bs < N
      · simp only [hlt, ↓reduceIte]
        have := ih (c + bs) (by omega) (by omega) (by omega)
        obtain ⟨a, b, d⟩ := this
        refine ⟨a, ⟨rfl, by omega, ?_⟩, ?_⟩
        · have e : c + (c + bs - c) = c + bs := by omega
          simp only [e]; exact b
        · intro r hr
          simp only [List.mem_cons] at hr
          rcases hr with rfl | hr
          · simp only; omega
          · exact d r hr
      · simp only [hlt, ↓reduceIte]
        have := ih N (by omega) (by omega) (by omega)
        obtain ⟨a, b, d⟩ := this
        refine ⟨a, ⟨rfl, by omega, ?_⟩, ?_⟩
        · have e : c + (N - c) = N := by omega
          simp only [e]; exact b
        · intro r hr
          simp only [List.mem_cons] at hr
          rcases hr with rfl | hr
          · simp; omega
          · exact d r hr

/-- **C18 (refinement).** For every operation sequence within the property's
quantifier, starting from any cursor, the byte-level reader and the
list-plus-cursor specification stay related: same `tell` values, the bytes read
are exactly those of the frames the spec returns, `ValueError` exactly for an
unsupported `whence`, and the cursor stays in `[0, N]`. -/
theorem ops_refine {k : Cfg} {N : Int} (h : WF k N) :
    ∀ (ops : List Op) (c : Int), 0 ≤ c → c ≤ N → (∀ op ∈ ops, OpOK op) →
      let r := run k (k.data + k.A * c) ops
      let s := specRun N c ops
      r.1 = k.data + k.A * s.1 ∧ 0 ≤ s.1 ∧ s.1 ≤ N ∧ ROuts k r.2 s.2 := by
  intro ops
  induction ops with
  | nil => intro c hc0 hcN _; simp [run, specRun, hc0, hcN, ROuts]
  | cons op ops ih =>
    intro c hc0 hcN hok
    have hop : OpOK op := hok op (by simp)
    have hops : ∀ o ∈ ops, OpOK o := fun o ho => hok o (by simp [ho])
    -- one step
    have hstep : (step k (k.data + k.A * c) op).1 = k.data + k.A * (specStep N c op).1 ∧
        0 ≤ (specStep N c op).1 ∧ (specStep N c op).1 ≤ N ∧
        ROut k (step k (k.data + k.A * c) op).2 (specStep N c op).2 := by
      cases op with
      | seek off w =>
        have hs := seek_spec h c off w hc0 hcN
        simp only [step, specStep]
        rw [hs.1]
        cases hsp : specSeek N c off w with
        | none => simp [ROut, hc0, hcN]
        | some c' =>
          have := hs.2 c' hsp
          simp [ROut, this.1, this.2]
      | tell => simp [step, specStep, ROut, tell_eq h.hA, hc0, hcN]
      | read n =>
        have hr := read_spec h c n hc0 hcN hop
        simp only at hr
        obtain ⟨h1, h2, h3, h4, h5, -, -⟩ := hr
        simp only [step, specStep]
        exact ⟨h1, h4, h5, h2, h3⟩
      | iter bs =>
        have hi := iter_refines h bs hop ((len k).toNat + 1) c hc0 hcN
        simp only at hi
        simp only [step, specStep, ROut]
        rw [len_eq h] at hi ⊢
        exact hi
    obtain ⟨s1, s2, s3, s4⟩ := hstep
    have ih' := ih (specStep N c op).1 s2 s3 hops
    simp only at ih'
    obtain ⟨i1, i2, i3, i4⟩ := ih'
    simp only [run, specRun, ROuts]
    rw [s1]
    exact ⟨i1, i2, i3, s4, i4⟩

/-- The reader leaves its cursor at frame 0 after opening (`self.seek(0)` at the
end of `__init__`), so `ops_refine` applies from `c = 0`. -/
theorem open_at_zero {k : Cfg} {N : Int} (h : WF k N) (pos : Int)
    (_hpos : k.data ≤ pos) (_hpos' : pos ≤ k.dend) :
    seek k pos 0 0 = some (k.data + k.A * 0) := by
  have := h.hsize; have := h.hA; have hN := h.hN
  have : 0 ≤ k.A * N := Int.mul_nonneg (Int.le_of_lt h.hA) hN
  simp only [seek, Cfg.dend, ↓reduceIte, Int.zero_mul, Int.add_zero, Int.mul_zero]
  split
  · rfl
  · split
    · omega
    · rfl

/-! ### block iteration, composed: a statement about the MODEL run -/

/-- **Block iteration yields the remaining frames exactly once (model run).**  On a well-formed file, with block
size `≥ 1`, `list(iter_sample_blocks(bs))` started with the cursor at frame `c` leaves the buffer at the end of the
data (`data + A·N`) and returns byte ranges that are the frame ranges `fs` of a chain `c → N` without gap or overlap,
each non-empty and at most `bs` frames long (`ops_refine`/`iter_refines` composed with `specIter_tiles`). -/
theorem iter_model_tiles {k : Cfg} {N : Int} (h : WF k N) (bs : Int) (hbs : 1 ≤ bs) (c : Int) (hc0 : 0 ≤ c)
    (hcN : c ≤ N) :
    (iter k bs ((len k).toNat + 1) (k.data + k.A * c)).1 = k.data + k.A * N ∧
    ∃ fs, RRanges k (iter k bs ((len k).toNat + 1) (k.data + k.A * c)).2 fs ∧ Chain c fs N ∧ ∀ f ∈ fs, f.2 ≤ bs := by
  have hi := iter_refines h bs hbs ((len k).toNat + 1) c hc0 hcN
  simp only at hi
  rw [len_eq h] at hi ⊢
  obtain ⟨i1, -, -, i4⟩ := hi
  have hN := h.hN
  obtain ⟨t1, t2, t3⟩ := specIter_tiles N bs hbs (N.toNat + 1) c hc0 hcN (by omega)
  rw [t1] at i1
  exact ⟨i1, _, i4, t2, t3⟩

/-- the same for the operation `iter bs` inside a run -/
theorem step_iter_tiles {k : Cfg} {N : Int} (h : WF k N) (bs : Int) (hbs : 1 ≤ bs) (c : Int) (hc0 : 0 ≤ c)
    (hcN : c ≤ N) :
    ∃ rs fs, step k (k.data + k.A * c) (.iter bs) = (k.data + k.A * N, .blocks rs) ∧
      RRanges k rs fs ∧ Chain c fs N ∧ ∀ f ∈ fs, f.2 ≤ bs := by
  obtain ⟨a, fs, b1, b2, b3⟩ := iter_model_tiles h bs hbs c hc0 hcN
  refine ⟨_, fs, ?_, b1, b2, b3⟩
  simp only [step]
  rw [← a]

/-! ### the lazy generator -/

/-- generator operations within the quantifier: a generator's block size is `≥ 0` (`next` on a generator with
block size 0 yields empty blocks; only *exhausting* such a generator hangs, which is `OpOK (.iter bs)`'s `1 ≤ bs`) -/
def GOpOK : GOp → Prop
  | .op o => OpOK o
  | .mk bs => 0 ≤ bs
  | .next _ => True

def RBlock (k : Cfg) : Option (Int × Int) → Option (Int × Int) → Prop
  | some r, some f => r.1 = k.data + k.A * f.1 ∧ r.2 = k.A * f.2
  | none, none => True
  | _, _ => False

def RGOut (k : Cfg) : GOut → GOut → Prop
  | .out a, .out b => ROut k a b
  | .made i, .made j => i = j
  | .block r, .block f => r.1 = k.data + k.A * f.1 ∧ r.2 = k.A * f.2
  | .stop, .stop => True
  | .noGen, .noGen => True
  | _, _ => False

def RGOuts (k : Cfg) : List GOut → List GOut → Prop
  | [], [] => True
  | o :: os, s :: ss => RGOut k o s ∧ RGOuts k os ss
  | _, _ => False

/-- `next(g)` yields frames `[c, min (c + bs) N)` of the cursor at the time of the call, or stops (for good) when
the cursor is at `N`; the generator states of model and specification stay equal. -/
theorem gnext_refines {k : Cfg} {N : Int} (h : WF k N) (g : Gen) (hg : 0 ≤ g.bs) (c : Int) (hc0 : 0 ≤ c)
    (hcN : c ≤ N) :
    (gnext k (k.data + k.A * c) g).1 = k.data + k.A * (specGnext N c g).1 ∧
    0 ≤ (specGnext N c g).1 ∧ (specGnext N c g).1 ≤ N ∧
    (gnext k (k.data + k.A * c) g).2.1 = (specGnext N c g).2.1 ∧ (specGnext N c g).2.1.bs = g.bs ∧
    RBlock k (gnext k (k.data + k.A * c) g).2.2 (specGnext N c g).2.2 := by
  unfold gnext specGnext
  rw [tell_eq h.hA, len_eq h]
  by_cases hd : g.done = true
  · simp [hd, hc0, hcN, RBlock]
  · simp only [hd, Bool.false_eq_true, ↓reduceIte]
    by_cases hcN' : c = N
    · simp [hcN', h.hN, RBlock]
    · simp only [hcN', ↓reduceIte]
      have hr := read_spec h c g.bs hc0 hcN hg
      simp only at hr
      obtain ⟨h1, h2, h3, h4, h5, -, -⟩ := hr
      exact ⟨h1, h4, h5, by first | rfl | trivial, by first | rfl | trivial, h2, h3⟩

/-- **C18 (refinement, with lazily consumed generators).**  Operation sequences may create any number of
generators and interleave `next` on any of them with seek/read/tell/full iteration: the byte-level reader and the
list-plus-cursor specification stay related, and their generator tables stay equal. -/
theorem gops_refine {k : Cfg} {N : Int} (h : WF k N) :
    ∀ (ops : List GOp) (c : Int) (gens : List Gen), 0 ≤ c → c ≤ N → (∀ g ∈ gens, 0 ≤ g.bs) →
      (∀ op ∈ ops, GOpOK op) →
      (grun k (k.data + k.A * c, gens) ops).1.1 = k.data + k.A * (specGrun N (c, gens) ops).1.1 ∧
      0 ≤ (specGrun N (c, gens) ops).1.1 ∧ (specGrun N (c, gens) ops).1.1 ≤ N ∧
      (grun k (k.data + k.A * c, gens) ops).1.2 = (specGrun N (c, gens) ops).1.2 ∧
      RGOuts k (grun k (k.data + k.A * c, gens) ops).2 (specGrun N (c, gens) ops).2 := by
  intro ops
  induction ops with
  | nil => intro c gens hc0 hcN _ _; simp [grun, specGrun, hc0, hcN, RGOuts]
  | cons op ops ih =>
    intro c gens hc0 hcN hgens hok
    have hop : GOpOK op := hok op (by simp)
    have hops : ∀ o ∈ ops, GOpOK o := fun o ho => hok o (by simp [ho])
    have hstep : (gstep k (k.data + k.A * c, gens) op).1.1 = k.data + k.A * (specGstep N (c, gens) op).1.1 ∧
        0 ≤ (specGstep N (c, gens) op).1.1 ∧ (specGstep N (c, gens) op).1.1 ≤ N ∧
        (gstep k (k.data + k.A * c, gens) op).1.2 = (specGstep N (c, gens) op).1.2 ∧
        (∀ g ∈ (specGstep N (c, gens) op).1.2, 0 ≤ g.bs) ∧
        RGOut k (gstep k (k.data + k.A * c, gens) op).2 (specGstep N (c, gens) op).2 := by
      cases op with
      | op o =>
        have := ops_refine h [o] c hc0 hcN (by intro x hx; rw [List.mem_singleton.1 hx]; exact hop)
        simp only [run, specRun, ROuts, and_true] at this
        obtain ⟨a1, a2, a3, a4⟩ := this
        simp only [gstep, specGstep]
        exact ⟨a1, a2, a3, by first | rfl | trivial, hgens, a4⟩
      | mk bs =>
        simp only [gstep, specGstep, RGOut]
        refine ⟨by first | rfl | trivial, hc0, hcN, by first | rfl | trivial, ?_, by first | rfl | trivial⟩
        intro g hg
        rcases List.mem_append.1 hg with hg | hg
        · exact hgens g hg
        · rw [List.mem_singleton.1 hg]; exact hop
      | next i =>
        simp only [gstep, specGstep]
        cases hgi : gens[i]? with
        | none => simp [hc0, hcN, RGOut]; exact hgens
        | some g =>
          have hgm : g ∈ gens := List.mem_of_getElem? hgi
          obtain ⟨b1, b2, b3, b4, b5, b6⟩ := gnext_refines h g (hgens g hgm) c hc0 hcN
          simp only
          refine ⟨b1, b2, b3, by rw [b4], ?_, ?_⟩
          · intro g' hg'
            rcases List.mem_or_eq_of_mem_set hg' with hg' | hg'
            · exact hgens g' hg'
            · rw [hg', b5]; exact hgens g hgm
          · revert b6
            cases (gnext k (k.data + k.A * c) g).2.2 <;> cases (specGnext N c g).2.2 <;> simp [RBlock, RGOut]
    obtain ⟨s1, s2, s3, s4, s5, s6⟩ := hstep
    have ih' := ih (specGstep N (c, gens) op).1.1 (specGstep N (c, gens) op).1.2 s2 s3 s5 hops
    obtain ⟨i1, i2, i3, i4, i5⟩ := ih'
    simp only [grun, specGrun, RGOuts]
    have e : (gstep k (k.data + k.A * c, gens) op).1 =
        (k.data + k.A * (specGstep N (c, gens) op).1.1, (specGstep N (c, gens) op).1.2) := by
      rw [← s1, ← s4]
    rw [e]
    exact ⟨i1, i2, i3, i4, s6, i5⟩

/-- A `for` loop over a fresh generator (`next` until `StopIteration`, nothing in between) is the eager `iter`. -/
theorem drain_eq_iter (k : Cfg) (bs : Int) : ∀ (fuel : Nat) (pos : Int),
    (drain k fuel pos ⟨bs, false⟩).1 = (iter k bs fuel pos).1 ∧
    (drain k fuel pos ⟨bs, false⟩).2.2 = (iter k bs fuel pos).2 := by
  intro fuel
  induction fuel with
  | zero => intro pos; simp [drain, iter]
  | succ fuel ih =>
    intro pos
    simp only [drain, iter, gnext, Bool.false_eq_true, ↓reduceIte]
    by_cases ht : tell k pos = len k
    · simp [ht]
    · simp only [ht, ↓reduceIte]
      obtain ⟨a, b⟩ := ih (read k pos bs).1
      simp [a, b]

/-! ### the excluded point `WF.hsize`: a data chunk that does not hold whole frames

A file whose data chunk size is `A·N + r` with `0 < r < A` (never produced by the writer, but accepted by the
reader) has `len = N` (floor), and `position.end = data + A·N + r` is not a frame boundary: a seek relative to the
end — or any seek clamped to the end — puts the buffer *between* frames, `tell` floors it, and a following `read`
returns `A` bytes that straddle two frames.  So the cursor abstraction fails there; `ops_refine` assumes
`k.size = k.A * N` for this reason. -/

theorem ragged_len {k : Cfg} {N r : Int} (hA : 0 < k.A) (hr0 : 0 ≤ r) (hr : r < k.A) (hs : k.size = k.A * N + r) :
    len k = N := by
  unfold len
  rw [hs, Int.add_comm, Int.add_mul_ediv_left _ _ (Int.ne_of_gt hA), Int.ediv_eq_zero_of_lt hr0 hr, Int.zero_add]

/-- **Excluded point.**  In a ragged file, after `seek(0, 2); seek(-1, 1)` the reader says `tell() = N - 1` and
`read(1)` returns the `A` bytes starting `r` bytes *into* frame `N - 1` — not a frame of the file. -/
theorem ragged_not_cursor {k : Cfg} {N r : Int} (hA : 0 < k.A) (hN : 1 ≤ N) (hr0 : 0 < r) (hr : r < k.A)
    (hs : k.size = k.A * N + r) (hfile : k.data + k.size ≤ k.fileLen) (pos0 : Int) :
    (run k pos0 [.seek 0 2, .seek (-1) 1, .tell, .read 1]).2 =
      [.unit, .unit, .pos (N - 1), .bytes (k.data + k.A * (N - 1) + r, k.A)] := by
  have hlen := ragged_len hA (Int.le_of_lt hr0) hr hs
  have hAN : k.A * 1 ≤ k.A * N := Int.mul_le_mul_of_nonneg_left hN (Int.le_of_lt hA)
  have hpos1 : seek k pos0 0 2 = some (k.data + k.A * N + r) := by
    simp only [seek, Cfg.dend, hs]
    have : (2 : Int) ≠ 0 := by decide
    have : (2 : Int) ≠ 1 := by decide
    simp only [*, ↓reduceIte, Int.zero_mul, Int.add_zero]
    split
    · omega
    · split
      · omega
      · congr 1; omega
  have hpos2 : seek k (k.data + k.A * N + r) (-1) 1 = some (k.data + k.A * (N - 1) + r) := by
    simp only [seek, Cfg.dend, hs]
    have : (1 : Int) ≠ 0 := by decide
    simp only [*, ↓reduceIte]
    have e : k.A * (N - 1) = k.A * N - k.A := by rw [Int.mul_sub, Int.mul_one]
    rw [e]
    generalize k.A * N = x at *
    split
    · omega
    · split
      · omega
      · congr 1; omega
  have htell : tell k (k.data + k.A * (N - 1) + r) = N - 1 := by
    unfold tell
    have : k.data + k.A * (N - 1) + r - k.data = r + k.A * (N - 1) := by omega
    rw [this, Int.add_mul_ediv_left _ _ (Int.ne_of_gt hA), Int.ediv_eq_zero_of_lt (Int.le_of_lt hr0) hr, Int.zero_add]
  have hread : read k (k.data + k.A * (N - 1) + r) 1 =
      (k.data + k.A * (N - 1) + r + k.A, (k.data + k.A * (N - 1) + r, k.A)) := by
    have hp : k.data + k.A * (N - 1) + r + k.A ≤ k.fileLen := by
      have e : k.A * (N - 1) = k.A * N - k.A := by rw [Int.mul_sub, Int.mul_one]
      rw [hs] at hfile; rw [e]; omega
    generalize k.data + k.A * (N - 1) + r = p at *
    simp only [read, htell, hlen, bufRead]
    have h1 : ¬ (N - 1 + 1 > N) := by omega
    simp only [h1, ↓reduceIte, Int.one_mul]
    repeat' split
    all_goals first | (exfalso; omega) | (simp only [Prod.mk.injEq, true_and] <;> omega)
  simp only [run, step, hpos1, hpos2, hread, htell]

/-! Non-vacuity: a concrete 3-frame, 2-channel 16-bit file (`A = 4`) meets `WF`,
and a concrete op sequence meets `OpOK`; the model evaluates on it. -/
example : WF ⟨44, 4, 12, 56⟩ 3 := ⟨by decide, by decide, by decide, by decide⟩
example : (run ⟨44, 4, 12, 56⟩ 44 [.seek 5 0, .tell, .seek (-2) 1, .read 7, .tell, .seek 0 0, .iter 2]).2
    = [.unit, .pos 3, .unit, .bytes (48, 8), .pos 3, .unit, .blocks [(44, 8), (52, 4)]] := by decide


/-- generators: two generators over the 3-frame file, `next` interleaved with a seek and a read; the second
generator is finished by a `next` at the end and stays finished after the cursor is moved back -/
example : (grun ⟨44, 4, 12, 56⟩ (44, []) [.mk 2, .mk 1, .next 0, .next 1, .op (.seek 0 0), .next 0, .op (.read 5), .next 1,
      .op (.seek 0 0), .next 1, .next 0]).2
    = [.made 0, .made 1, .block (44, 8), .block (52, 4), .out .unit, .block (44, 8), .out (.bytes (52, 4)), .stop,
       .out .unit, .stop, .block (44, 8)] := by decide
example : ∀ op ∈ ([.mk 2, .mk 0, .next 0, .op (.seek 0 0), .op (.iter 1)] : List GOp), GOpOK op := by
  simp [GOpOK, OpOK]
/-- the hypotheses of `ragged_not_cursor` on a concrete file: 3 frames of 4 bytes + 2 stray bytes -/
example : (run ⟨44, 4, 14, 58⟩ 44 [.seek 0 2, .seek (-1) 1, .tell, .read 1]).2 =
    [.unit, .unit, .pos (3 - 1), .bytes (44 + 4 * (3 - 1) + 2, 4)] :=
  ragged_not_cursor (k := ⟨44, 4, 14, 58⟩) (N := 3) (r := 2) (by decide) (by decide) (by decide) (by decide)
    (by decide) (by decide) 44
/-- the excluded point, evaluated: 3 frames + 2 stray bytes (`size = 14`) -/
example : (run ⟨44, 4, 14, 58⟩ 44 [.seek 0 2, .seek (-1) 1, .tell, .read 1]).2
    = [.unit, .unit, .pos 2, .bytes (54, 4)] := by decide

end Earverif.Cursor
