/-
FIR with history (the stand-in for `OverlapSaveConvolver.filter_block`) processed block-wise = the whole-stream
convolution; with `vbs_eq`: the decorrelation path is the FIR of the stream delayed by `block_size`.
-/
import Earverif.Proofs.C02Aligner
namespace Earverif.Stream
set_option linter.unusedSectionVars false
set_option linter.unusedSimpArgs false

variable {V : Type} [RMod V] [LawfulRMod V]

/-- Whole-stream FIR: output `t` = `Σ_k taps[k] * x[t-k]`. -/
def firAll (taps x : List V) : List V := (List.range x.length).map (Fir.at taps x)

theorem foldl_zeros (l : List V) (h : ∀ v ∈ l, v = 0) : l.foldl (· + ·) (0 : V) = 0 := by
  induction l with
  | nil => rfl
  | cons a l ih =>
    have ha := h a List.mem_cons_self
    subst ha
    simp only [List.foldl_cons, LawfulRMod.zero_add]
    exact ih (fun v hv => h v (List.mem_cons_of_mem _ hv))

/-- Only the samples up to `pos` matter. -/
theorem fir_at_prefix (taps xs more : List V) (pos : Nat) (h : pos < xs.length) :
    Fir.at taps (xs ++ more) pos = Fir.at taps xs pos := by
  unfold Fir.at
  congr 1
  apply List.map_congr_left
  intro k _
  by_cases hk : k ≤ pos
  · rw [if_pos hk, if_pos hk, getD_append_lt _ _ _ (by omega)]
  · rw [if_neg hk, if_neg hk]

/-- With the last `L−1` samples of the (zero-padded) past as history, a position in the new block sees exactly what
it sees in the whole stream. -/
theorem fir_at_hist (taps p blk : List V) (i : Nat) :
    Fir.at taps ((List.replicate (taps.length - 1) 0 ++ p).drop p.length ++ blk) (taps.length - 1 + i) =
      Fir.at taps (p ++ blk) (p.length + i) := by
  unfold Fir.at
  congr 1
  apply List.map_congr_left
  intro k hk
  have hkL : k < taps.length := List.mem_range.mp hk
  rw [if_pos (by omega)]
  have hx : (List.replicate (taps.length - 1) (0 : V) ++ p).drop p.length ++ blk =
      (List.replicate (taps.length - 1) 0 ++ (p ++ blk)).drop p.length := by
    rw [← List.append_assoc]
    exact (List.drop_append_of_le_length (by simp)).symm
  rw [hx]
  have hg : ((List.replicate (taps.length - 1) (0 : V) ++ (p ++ blk)).drop p.length).getD (taps.length - 1 + i - k) 0 =
      (List.replicate (taps.length - 1) (0 : V) ++ (p ++ blk)).getD (p.length + (taps.length - 1 + i - k)) 0 := by
    simp only [List.getD_eq_getElem?_getD, List.getElem?_drop]
  rw [hg, getD_append_len, List.length_replicate]
  by_cases hc : k ≤ p.length + i
  · rw [if_pos hc, if_neg (by omega)]
    congr 2; omega
  · rw [if_neg hc, if_pos (by omega)]
    simp only [List.getD_eq_getElem?_getD, List.getElem?_replicate]
    rw [if_pos (by omega)]
    exact LawfulRMod.pmul_zero _

/-- `filter_block` from the state reached after the stream prefix `p`. -/
theorem fir_step_spec (taps p blk : List V) :
    Fir.step taps ((List.replicate (taps.length - 1) 0 ++ p).drop p.length) blk =
      ((List.replicate (taps.length - 1) 0 ++ (p ++ blk)).drop (p ++ blk).length,
       (List.range blk.length).map (fun i => Fir.at taps (p ++ blk) (p.length + i))) := by
  have hl : ((List.replicate (taps.length - 1) (0 : V) ++ p).drop p.length).length = taps.length - 1 := by simp
  unfold Fir.step
  simp only [hl]
  apply Prod.ext
  · simp only [List.length_append, hl]
    have e : taps.length - 1 + blk.length - (taps.length - 1) = blk.length := by omega
    rw [e, ← List.append_assoc, ← List.drop_append_of_le_length (l₂ := blk) (by simp), List.drop_drop,
      List.append_assoc]
  · simp only
    apply List.map_congr_left
    intro i _
    exact fir_at_hist taps p blk i

/-- Block-wise FIR from the state after prefix `p` = whole-stream FIR at the aligned positions. -/
theorem fir_blockwise_from (taps : List V) (B : Nat) (hB : 1 ≤ B) : ∀ (fuel : Nat) (p x : List V), x.length < fuel →
    (blockwise (Fir.step taps) B fuel ((List.replicate (taps.length - 1) 0 ++ p).drop p.length) x).2 =
      (List.range (B * (x.length / B))).map (fun i => Fir.at taps (p ++ x) (p.length + i)) := by
  intro fuel
  induction fuel with
  | zero => intro p x h; omega
  | succ fuel ih =>
    intro p x hfuel
    unfold blockwise
    by_cases hx : B ≤ x.length
    · simp only [hx, if_true]
      have htl : (x.take B).length = B := by simp; omega
      rw [fir_step_spec]
      simp only
      have hfu : (x.drop B).length < fuel := by simp only [List.length_drop]; omega
      have := ih (p ++ x.take B) (x.drop B) hfu
      rw [this, htl]
      simp only [List.length_append, htl]
      have hdiv : x.length / B = (x.length - B) / B + 1 := by
        have := Nat.add_div_right (x.length - B) (by omega : 0 < B)
        rw [Nat.sub_add_cancel hx] at this
        exact this
      have hsplit : B * (x.length / B) = B + B * ((x.length - B) / B) := by
        rw [hdiv, Nat.mul_add, Nat.mul_one, Nat.add_comm]
      rw [hsplit, List.range_add, List.map_append, List.map_map, List.length_drop]
      have hxx : p ++ x.take B ++ x.drop B = p ++ x := by rw [List.append_assoc, List.take_append_drop]
      congr 1
      · apply List.map_congr_left
        intro i hi
        have hi' : i < B := List.mem_range.mp hi
        rw [← hxx]
        exact (fir_at_prefix taps (p ++ x.take B) (x.drop B) (p.length + i)
          (by simp only [List.length_append, htl]; omega)).symm
      · apply List.map_congr_left
        intro i _
        simp only [Function.comp, hxx]
        congr 1; omega
    · simp only [hx, if_false]
      rw [Nat.div_eq_of_lt (by omega)]
      simp

theorem fir_at_zero (taps xs : List V) (pos : Nat) (h : ∀ v ∈ xs, v = 0) : Fir.at taps xs pos = 0 := by
  unfold Fir.at
  apply foldl_zeros
  intro v hv
  obtain ⟨k, _, rfl⟩ := List.mem_map.mp hv
  split
  · have : xs.getD (pos - k) 0 = 0 := by
      simp only [List.getD_eq_getElem?_getD]
      cases hg : xs[pos - k]? with
      | none => rfl
      | some w => exact h w (List.mem_of_getElem? hg)
    rw [this, LawfulRMod.pmul_zero]
  · rfl

/-- The adapter's constructor calls the filter once on a zero block: state and output stay zero. -/
theorem fir_init_zero (taps : List V) (B : Nat) :
    Fir.step taps (Fir.init taps) (List.replicate B 0) = (Fir.init taps, List.replicate B 0) := by
  have := fir_step_spec taps [] (List.replicate B (0 : V))
  simp only [List.append_nil, List.length_nil, List.drop_zero, List.nil_append, List.length_replicate,
    Nat.zero_add] at this
  unfold Fir.init
  rw [this]
  apply Prod.ext
  · simp only
    rw [List.replicate_append_replicate, List.drop_replicate]
    congr 1; omega
  · simp only
    apply List.ext_getElem?
    intro i
    simp only [List.getElem?_map, List.getElem?_replicate]
    by_cases hi : i < B
    · rw [List.getElem?_range hi, if_pos hi]
      simp only [Option.map_some]
      rw [fir_at_zero _ _ _ (fun v hv => (List.mem_replicate.mp hv).2)]
    · rw [List.getElem?_eq_none (by simp; omega), if_neg hi]; rfl

/-- **`fir_blockwise_eq`** — FIR with history processed in blocks of `B` = the whole-stream convolution on the
aligned prefix. -/
theorem fir_blockwise_eq (taps : List V) (B : Nat) (hB : 1 ≤ B) (x : List V) :
    (blockwise (Fir.step taps) B (x.length + 1) (Fir.init taps) x).2 =
      (firAll taps x).take (B * (x.length / B)) := by
  have := fir_blockwise_from taps B hB (x.length + 1) [] x (Nat.lt_succ_self _)
  simp only [List.append_nil, List.length_nil, List.drop_zero, List.nil_append, Nat.zero_add] at this
  unfold Fir.init
  rw [this]
  unfold firAll
  rw [← List.map_take, List.take_range]
  congr 2
  have : B * (x.length / B) ≤ x.length := Nat.mul_div_le _ _
  omega

/-- **`vbs_fir_eq`** — the decorrelation path (`VariableBlockSizeAdapter` around the FIR) over ANY partition:
the FIR of the concatenated stream, delayed by `block_size`; every call returns as many frames as it was given. -/
theorem vbs_fir_eq (taps : List V) (B : Nat) (hB : 1 ≤ B) (parts : List (List V)) :
    (Vbs.run (Fir.step taps) B 0 (Vbs.init (Fir.step taps) B 0 (Fir.init taps)) parts).1.flatten =
      (List.replicate B 0 ++ firAll taps parts.flatten).take parts.flatten.length ∧
    (Vbs.run (Fir.step taps) B 0 (Vbs.init (Fir.step taps) B 0 (Fir.init taps)) parts).1.map List.length =
      parts.map List.length := by
  have hf : ∀ (s blk : List V), blk.length = B → (Fir.step taps s blk).2.length = B := by
    intro s blk h; simp [Fir.step, h]
  obtain ⟨h1, h2⟩ := vbs_eq (Fir.step taps) B (0 : V) (Fir.init taps) hB hf parts
  refine ⟨?_, h2⟩
  rw [h1]
  simp only [Vbs.init, fir_init_zero, fir_blockwise_eq taps B hB]
  generalize parts.flatten = x
  rw [List.take_append, List.take_append, List.length_replicate, List.take_take]
  congr 2
  have h1 : x.length < B * (x.length / B) + B := by
    rw [Nat.mul_comm]; exact Nat.lt_div_mul_add (by omega)
  omega

end Earverif.Stream
