/-
The renderer with track processors (`Model/RendererTS.lean`) reduced to the renderer with direct input tracks
(`Model/Renderer.lean`): every `render` call of the former is a `render` call of the latter on the block of the
items' processed streams (C20: `step_after`/`stepList_after`), so `render_refines_spec` (C02) applies.
-/
import Earverif.Model.RendererTS
import Earverif.Proofs.C02Render
import Earverif.Proofs.C20
set_option linter.unusedSectionVars false
set_option linter.unusedSimpArgs false
set_option linter.unusedVariables false

/-! ### Part A — the plain model on ANY list of blocks (no zero tail appended): the prefix of the specification -/
namespace Earverif.Renderer
open Earverif.Stream Earverif.Timeline Earverif.RenderSpec

variable {V : Type} [RMod V] [LawfulRMod V]

omit [LawfulRMod V] in
theorem subRun_prefix {σ : Type} (r : σ → Int → List (List Rat) → Except Err (σ × List V)) :
    ∀ (a b : List (List (List Rat))) (st : σ) (S0 : Int) (st'' : σ) (os : List (List V)),
      subRun r st S0 (a ++ b) = .ok (st'', os) →
      ∃ st' os1 os2, subRun r st S0 a = .ok (st', os1) ∧ os = os1 ++ os2 ∧ os1.length = a.length := by
  intro a
  induction a with
  | nil => intro b st S0 st'' os h; exact ⟨st, [], os, rfl, rfl, rfl⟩
  | cons x a ih =>
    intro b st S0 st'' os h
    simp only [List.cons_append, subRun] at h
    cases h1 : r st S0 x with
    | error e => rw [h1] at h; cases h
    | ok r1 =>
      obtain ⟨st1, o⟩ := r1
      rw [h1] at h; simp only at h
      cases h2 : subRun r st1 (S0 + x.length) (a ++ b) with
      | error e => rw [h2] at h; cases h
      | ok r2 =>
        obtain ⟨st2, os'⟩ := r2
        rw [h2] at h; cases h
        obtain ⟨st', os1, os2, e, rfl, hl⟩ := ih b st1 (S0 + x.length) st'' os' h2
        exact ⟨st', o :: os1, os2, by simp only [subRun, h1, e], rfl, by simp [hl]⟩

omit [RMod V] [LawfulRMod V] in
theorem lengths_prefix {β : Type} (a b : List (List β)) (os1 os2 : List (List V))
    (h : (os1 ++ os2).map List.length = (a ++ b).map List.length) (hl : os1.length = a.length) :
    os1.map List.length = a.map List.length := by
  simp only [List.map_append] at h
  exact (List.append_inj h (by simp [hl])).1

omit [LawfulRMod V] in
theorem flatten_length_of_lengths {β : Type} (os : List (List V)) (bl : List (List β))
    (h : os.map List.length = bl.map List.length) : os.flatten.length = bl.flatten.length := by
  rw [List.length_flatten, List.length_flatten, h]

/-- **`run_prefix`** — `render` called on ANY sequence of blocks `bl` (nothing appended): nothing raises, and the
returned blocks concatenate to the first `len − overall_delay` samples of the specification of the concatenated
blocks.  (From `render_refines_spec` for the values and `run_factor`/`aligner_run_eq` for the length.) -/
theorem run_prefix (c : Cfg V) (objs : List (ObjItem V)) (dss : List (DsItem V)) (hoas : List (HoaItem V))
    (hok : SessionOK c objs dss hoas) (bl : List (List (List Rat))) :
    ∃ st os, RState.run c (RState.init c objs dss hoas) bl = .ok (st, os) ∧
      os.flatten = (RenderSpec.out c objs dss hoas bl.flatten).take (bl.flatten.length - c.overall_delay) := by
  obtain ⟨obj', o1s, e1, l1, _⟩ := obj_stream c hok.block_size_pos objs hok.objs_ok bl
  obtain ⟨ds', o2s, e2, l2, _⟩ := ds_stream c dss hok.dss_ok bl
  obtain ⟨hoa', o3s, e3, l3, _⟩ := hoa_stream c hoas hok.hoas_ok bl
  unfold allBlocks at e1 e2 e3 l1 l2 l3
  obtain ⟨obj1, a1, a1', f1, rfl, n1⟩ := subRun_prefix _ bl [tailBlock c] _ 0 _ _ e1
  obtain ⟨ds1, a2, a2', f2, rfl, n2⟩ := subRun_prefix _ bl [tailBlock c] _ 0 _ _ e2
  obtain ⟨hoa1, a3, a3', f3, rfl, n3⟩ := subRun_prefix _ bl [tailBlock c] _ 0 _ _ e3
  have k1 := lengths_prefix bl [tailBlock c] a1 a1' l1 n1
  have k2 := lengths_prefix bl [tailBlock c] a2 a2' l2 n2
  have k3 := lengths_prefix bl [tailBlock c] a3 a3' l3 n3
  obtain ⟨hrok, p1, p2, p3⟩ := rounds_spec bl a1 a2 a3 k1 k2 k3
  obtain ⟨outs, al, hrun, hflat⟩ := aligner_run_eq c.overall_delay _ hrok
  have hfac := run_factor c bl (RState.init c objs dss hoas) obj1 ds1 hoa1 a1 a2 a3 outs al f1 f2 f3 hrun
  refine ⟨_, outs, hfac, ?_⟩
  -- the values: the session with the zero tail appended
  have rr := render_refines_spec c objs dss hoas hok bl
  rw [renderAll_eq_run, run_append_single, hfac] at rr
  simp only at rr
  -- the length
  have hlen : outs.flatten.length = bl.flatten.length - c.overall_delay := by
    rw [hflat, p1, p2, p3]
    simp only [List.length_zipWith, List.length_drop, flatten_length_of_lengths a1 bl k1,
      flatten_length_of_lengths a2 bl k2, flatten_length_of_lengths a3 bl k3]
    omega
  cases ht : RState.render c ⟨al, obj1, ds1, hoa1, (RState.init c objs dss hoas).start_sample +
      ((bl.map List.length).sum : Nat)⟩ (tailBlock c) with
  | error e => rw [ht] at rr; cases rr
  | ok r =>
    obtain ⟨st2, o⟩ := r
    rw [ht] at rr
    simp only [Except.ok.injEq, List.flatten_append, List.flatten_cons, List.flatten_nil, List.append_nil] at rr
    rw [← rr, ← hlen, List.take_left]

end Earverif.Renderer

/-! ### Part B — one `render` call with track processors = one `render` call of the plain model on the block of
processed streams -/
namespace Earverif.RendererTS
open Earverif.Stream Earverif.Timeline Earverif.Renderer Earverif.RenderSpec
open Earverif.TrackSpec (Spec Proc)

variable {V : Type} [RMod V]

/-- The channels with their first components (processor objects / track numbers) replaced by `as`. -/
def reid {A B C : Type} (as : List A) (chans : List (B × C)) : List (A × C) :=
  List.zipWith (fun a c => (a, c.2)) as chans

/-- Every processor of `ps`, called on the current block, succeeds, becomes the corresponding element of `ps'` and
returns exactly the samples the plain channel with id `a` reads (`get a`). -/
def StepsTo {P α ι : Type} (proc : P → Except TrackSpec.Err (P × List ι)) (get : α → List ι) :
    List α → List P → List P → Prop
  | [], [], [] => True
  | a :: as, p :: ps, p' :: ps' => proc p = .ok (p', get a) ∧ StepsTo proc get as ps ps'
  | _, _, _ => False

theorem procChans_ids {α M S K ι : Type} (interp : S → M → Except Err (S × List (PBlock K)))
    (upd : K → Nat → ι → V → V) (S0 : Int) (get : α → List ι) :
    ∀ (chans : List (α × Bpc M S K)) (out : List V) (ch' : List (α × Bpc M S K)) (out' : List V),
      procChans interp upd S0 get chans out = .ok (ch', out') → ch'.map (·.1) = chans.map (·.1) := by
  intro chans
  induction chans with
  | nil =>
    intro out ch' out' h
    simp only [procChans, pure, Except.pure] at h
    cases h; rfl
  | cons c cs ih =>
    intro out ch' out' h
    obtain ⟨t, b⟩ := c
    simp only [procChans, bind, Except.bind, pure, Except.pure] at h
    cases h1 : b.process interp upd S0 (get t) out with
    | error e => rw [h1] at h; cases h
    | ok r1 =>
      obtain ⟨b', out1⟩ := r1
      rw [h1] at h; simp only at h
      cases h2 : procChans interp upd S0 get cs out1 with
      | error e => rw [h2] at h; cases h
      | ok r2 =>
        obtain ⟨cs', out2⟩ := r2
        rw [h2] at h; simp only at h
        cases h
        simp only [List.map_cons, ih out1 cs' out' h2]

/-- The channel loop with processors against the channel loop with ids. -/
theorem procChansTS_reid {P α M S K ι : Type} (interp : S → M → Except Err (S × List (PBlock K)))
    (upd : K → Nat → ι → V → V) (S0 : Int) (proc : P → Except TrackSpec.Err (P × List ι)) (get : α → List ι) :
    ∀ (chans : List (P × Bpc M S K)) (as : List α) (ps' : List P) (out : List V)
      (ch' : List (α × Bpc M S K)) (out' : List V),
      StepsTo proc get as (chans.map (·.1)) ps' →
      procChans interp upd S0 get (reid as chans) out = .ok (ch', out') →
      procChansTS interp upd S0 proc chans out = .ok (reid ps' ch', out') ∧ reid as (reid ps' ch') = ch' ∧
        (reid ps' ch').map (·.1) = ps' := by
  intro chans
  induction chans with
  | nil =>
    intro as ps' out ch' out' hs h
    cases as with
    | nil =>
      cases ps' with
      | nil =>
        simp only [reid, List.zipWith_nil_left, procChans, pure, Except.pure] at h
        cases h
        exact ⟨rfl, rfl, rfl⟩
      | cons _ _ => exact absurd hs (by simp [StepsTo])
    | cons _ _ => exact absurd hs (by simp [StepsTo])
  | cons c cs ih =>
    intro as ps' out ch' out' hs h
    obtain ⟨p, b⟩ := c
    cases as with
    | nil => exact absurd hs (by simp [StepsTo])
    | cons a as =>
      cases ps' with
      | nil => exact absurd hs (by simp [StepsTo])
      | cons p' ps' =>
        simp only [List.map_cons, StepsTo] at hs
        obtain ⟨hp, hrest⟩ := hs
        simp only [reid, List.zipWith_cons_cons, procChans, bind, Except.bind, pure, Except.pure] at h
        cases h1 : b.process interp upd S0 (get a) out with
        | error e => rw [h1] at h; cases h
        | ok r1 =>
          obtain ⟨b', out1⟩ := r1
          rw [h1] at h; simp only at h
          cases h2 : procChans interp upd S0 get (reid as cs) out1 with
          | error e =>
            have : procChans interp upd S0 get (List.zipWith (fun a c => (a, c.2)) as cs) out1 = .error e := h2
            rw [this] at h; cases h
          | ok r2 =>
            obtain ⟨cs', out2⟩ := r2
            have h2' : procChans interp upd S0 get (List.zipWith (fun a c => (a, c.2)) as cs) out1 =
              .ok (cs', out2) := h2
            rw [h2'] at h; simp only at h
            cases h
            obtain ⟨i1, i2, i3⟩ := ih as ps' out1 cs' out' hrest h2
            refine ⟨?_, ?_, ?_⟩
            · simp only [procChansTS, hp, h1, i1, reid, List.zipWith_cons_cons]
            · simp only [reid, List.zipWith_cons_cons] at i2 ⊢
              rw [i2]
            · simp only [reid, List.zipWith_cons_cons, List.map_cons] at i3 ⊢
              rw [i3]

/-- Forget the processor objects: the state of the plain renderer whose channels read the tracks `ids…`. -/
def strip (idsO idsD : List Nat) (idsH : List (List Nat)) (st : RStateTS V) : RState V :=
  ⟨st.aligner, ⟨reid idsO st.obj.chans, st.obj.delaymem, st.obj.vbs⟩, reid idsD st.ds, reid idsH st.hoa,
    st.start_sample⟩

theorem obj_render_reid (c : Cfg V) (stTS : ObjStateTS V) (ids : List Nat) (ps' : List (Proc Rat)) (S0 : Int)
    (b vb : List (List Rat)) (hlen : vb.length = b.length)
    (hs : StepsTo (fun p => TrackSpec.step c.sr c.n_in p b) (track vb) ids (stTS.chans.map (·.1)) ps')
    (st' : ObjState V) (o : List V)
    (h : ObjState.render c ⟨reid ids stTS.chans, stTS.delaymem, stTS.vbs⟩ S0 vb = .ok (st', o)) :
    ∃ stTS', ObjStateTS.render c stTS S0 b = .ok (stTS', o) ∧
      (⟨reid ids stTS'.chans, stTS'.delaymem, stTS'.vbs⟩ : ObjState V) = st' ∧ stTS'.chans.map (·.1) = ps' := by
  simp only [ObjState.render, bind, Except.bind, pure, Except.pure] at h
  cases h1 : procChans (interpObject c.sr) GainKern.upd S0 (track vb) (reid ids stTS.chans)
      (List.replicate vb.length (0 : V × V)) with
  | error e => rw [h1] at h; cases h
  | ok r =>
    obtain ⟨ch', I⟩ := r
    rw [h1] at h
    simp only [Except.ok.injEq, Prod.mk.injEq] at h
    obtain ⟨hst, ho⟩ := h
    rw [hlen] at h1
    obtain ⟨e1, e2, e3⟩ := procChansTS_reid (interpObject c.sr) GainKern.upd S0
      (fun p => TrackSpec.step c.sr c.n_in p b) (track vb) stTS.chans ids ps' _ ch' I hs h1
    refine ⟨⟨reid ps' ch', (Delay.process 0 stTS.delaymem (I.map Prod.fst)).2,
      (Vbs.process (Fir.step c.taps) c.block_size 0 stTS.vbs (I.map Prod.snd)).1⟩, ?_, ?_, e3⟩
    · simp only [ObjStateTS.render, e1]
      rw [← ho]
    · simp only [e2]
      rw [← hst]

theorem ds_render_reid (c : Cfg V) (chans : List (Proc Rat × DsBpc V)) (ids : List Nat) (ps' : List (Proc Rat))
    (S0 : Int) (b vb : List (List Rat)) (hlen : vb.length = b.length)
    (hs : StepsTo (fun p => TrackSpec.step c.sr c.n_in p b) (track vb) ids (chans.map (·.1)) ps')
    (ch' : List (Nat × DsBpc V)) (o : List V) (h : dsRender c (reid ids chans) S0 vb = .ok (ch', o)) :
    ∃ chTS', dsRenderTS c chans S0 b = .ok (chTS', o) ∧ reid ids chTS' = ch' ∧ chTS'.map (·.1) = ps' := by
  unfold dsRender at h
  rw [hlen] at h
  obtain ⟨e1, e2, e3⟩ := procChansTS_reid (interpFixed c.sr) (fun (g : V) _ (x : Rat) o => o + RMod.smul x g) S0
    (fun p => TrackSpec.step c.sr c.n_in p b) (track vb) chans ids ps' _ ch' o hs h
  exact ⟨_, e1, e2, e3⟩

theorem hoa_render_reid (c : Cfg V) (chans : List (List (Proc Rat) × HoaBpc V)) (ids : List (List Nat))
    (ps' : List (List (Proc Rat))) (S0 : Int) (b vb : List (List Rat)) (hlen : vb.length = b.length)
    (hs : StepsTo (fun ps => TrackSpec.stepMulti c.sr c.n_in ps b) (tracks vb) ids (chans.map (·.1)) ps')
    (ch' : List (List Nat × HoaBpc V)) (o : List V) (h : hoaRender c (reid ids chans) S0 vb = .ok (ch', o)) :
    ∃ chTS', hoaRenderTS c chans S0 b = .ok (chTS', o) ∧ reid ids chTS' = ch' ∧ chTS'.map (·.1) = ps' := by
  unfold hoaRender at h
  rw [hlen] at h
  obtain ⟨e1, e2, e3⟩ := procChansTS_reid (interpFixed c.sr) matUpd S0
    (fun ps => TrackSpec.stepMulti c.sr c.n_in ps b) (tracks vb) chans ids ps' _ ch' o hs h
  exact ⟨_, e1, e2, e3⟩

/-- **One `Renderer.render` call.**  If every track processor, called on block `b`, returns the column of `vb` its
plain counterpart reads, then `render(b)` with processors is `render(vb)` of the plain model: same returned
samples, same renderer state (apart from the processors, which advance to `pO/pD/pH`). -/
theorem render_strip (c : Cfg V) (st : RStateTS V) (idsO idsD : List Nat) (idsH : List (List Nat))
    (b vb : List (List Rat)) (hlen : vb.length = b.length)
    (pO pD : List (Proc Rat)) (pH : List (List (Proc Rat)))
    (hO : StepsTo (fun p => TrackSpec.step c.sr c.n_in p b) (track vb) idsO (st.obj.chans.map (·.1)) pO)
    (hD : StepsTo (fun p => TrackSpec.step c.sr c.n_in p b) (track vb) idsD (st.ds.map (·.1)) pD)
    (hH : StepsTo (fun ps => TrackSpec.stepMulti c.sr c.n_in ps b) (tracks vb) idsH (st.hoa.map (·.1)) pH)
    (st' : RState V) (o : List V) (h : RState.render c (strip idsO idsD idsH st) vb = .ok (st', o)) :
    ∃ stTS', RStateTS.render c st b = .ok (stTS', o) ∧ strip idsO idsD idsH stTS' = st' ∧
      stTS'.obj.chans.map (·.1) = pO ∧ stTS'.ds.map (·.1) = pD ∧ stTS'.hoa.map (·.1) = pH := by
  simp only [RState.render, strip, bind, Except.bind, pure, Except.pure] at h
  cases h1 : ObjState.render c ⟨reid idsO st.obj.chans, st.obj.delaymem, st.obj.vbs⟩ st.start_sample vb with
  | error e => rw [h1] at h; cases h
  | ok r1 =>
    obtain ⟨obj1, o1⟩ := r1
    rw [h1] at h; simp only at h
    obtain ⟨objTS, eO, sO, qO⟩ := obj_render_reid c st.obj idsO pO st.start_sample b vb hlen hO obj1 o1 h1
    cases ha1 : st.aligner.add (st.start_sample - c.overall_delay) o1 with
    | error e => rw [ha1] at h; cases h
    | ok a1 =>
      rw [ha1] at h; simp only [liftA] at h
      cases h2 : dsRender c (reid idsD st.ds) st.start_sample vb with
      | error e => rw [h2] at h; cases h
      | ok r2 =>
        obtain ⟨ds1, o2⟩ := r2
        rw [h2] at h; simp only at h
        obtain ⟨dsTS, eD, sD, qD⟩ := ds_render_reid c st.ds idsD pD st.start_sample b vb hlen hD ds1 o2 h2
        cases ha2 : a1.add st.start_sample o2 with
        | error e => rw [ha2] at h; cases h
        | ok a2 =>
          rw [ha2] at h; simp only [liftA] at h
          cases h3 : hoaRender c (reid idsH st.hoa) st.start_sample vb with
          | error e => rw [h3] at h; cases h
          | ok r3 =>
            obtain ⟨hoa1, o3⟩ := r3
            rw [h3] at h; simp only at h
            obtain ⟨hoaTS, eH, sH, qH⟩ := hoa_render_reid c st.hoa idsH pH st.start_sample b vb hlen hH hoa1 o3 h3
            cases ha3 : a2.add st.start_sample o3 with
            | error e => rw [ha3] at h; cases h
            | ok a3 =>
              rw [ha3] at h; simp only [liftA] at h
              cases ha4 : a3.get with
              | error e => rw [ha4] at h; cases h
              | ok r4 =>
                obtain ⟨ret, a4⟩ := r4
                rw [ha4] at h
                simp only [liftA, Except.ok.injEq, Prod.mk.injEq] at h
                obtain ⟨hst, ho⟩ := h
                refine ⟨⟨a4, objTS, dsTS, hoaTS, st.start_sample + b.length⟩, ?_, ?_, qO, qD, qH⟩
                · simp only [RStateTS.render, eO, ha1, liftA, liftR, eD, ha2, eH, ha3, ha4, ho]
                · simp only [strip, sO, sD, sH]
                  rw [← hst, hlen]

/-! ### The block of processed streams -/

theorem getD_map_append {β γ : Type} (g : β → γ) (L R : List β) (x : β) (d : γ) :
    ((L ++ x :: R).map g).getD L.length d = g x := by
  simp [List.getD_eq_getElem?_getD]

/-- Column `len L` of the stack of `L ++ x :: R` is `x` (when `x` has the stack's height). -/
theorem track_stack (n : Nat) (L R : List (List Rat)) (x : List Rat) (hx : x.length = n) :
    track (TrackSpec.stack n (L ++ x :: R)) L.length = x := by
  simp only [track, TrackSpec.stack, List.map_map, Function.comp_def, getD_map_append]
  apply List.ext_getElem
  · simp [hx]
  · intro i h1 h2
    simp only [List.getElem_map, List.getElem_range, List.getD_eq_getElem?_getD, List.getElem?_eq_getElem h2,
      Option.getD_some]

theorem getD_map_mid {β γ : Type} (g : β → γ) (L M R : List β) (d : γ) (i : Nat) (hi : i < M.length) :
    ((L ++ M ++ R).map g).getD (L.length + i) d = g M[i] := by
  simp only [List.getD_eq_getElem?_getD, List.map_append, List.append_assoc]
  rw [List.getElem?_append_right (by simp)]
  simp only [List.length_map, Nat.add_sub_cancel_left]
  rw [List.getElem?_append_left (by simpa using hi)]
  simp [hi]

/-- Columns `len L … len L + len M − 1` of the stack of `L ++ M ++ R` are the stack of `M`. -/
theorem tracks_stack (n : Nat) (L M R : List (List Rat)) :
    tracks (TrackSpec.stack n (L ++ M ++ R)) (List.range' L.length M.length) = TrackSpec.stack n M := by
  simp only [tracks, TrackSpec.stack, List.map_map, Function.comp_def]
  apply List.map_congr_left
  intro j _
  apply List.ext_getElem
  · simp
  · intro i h1 h2
    simp only [List.length_map] at h2
    simp only [List.getElem_map, List.getElem_range']
    rw [Nat.one_mul, getD_map_mid _ L M R _ i h2]

/-- The part of an item's stream that belongs to block `b` after the input prefix `pre`. -/
def piece (c : Cfg V) (pre b : List (List Rat)) (s : Spec Rat) : List Rat :=
  (TrackSpec.meaning c.sr c.n_in s (pre ++ b)).drop pre.length

omit [RMod V] in
theorem piece_length (c : Cfg V) (pre b : List (List Rat)) (s : Spec Rat) : (piece c pre b s).length = b.length := by
  simp [piece, TrackSpec.meaning_length]

/-- `hoa item ↦ the track numbers it reads`: consecutive ranges. -/
def hoaIds : Nat → List Nat → List (List Nat)
  | _, [] => []
  | k, m :: ms => List.range' k m :: hoaIds (k + m) ms

omit [RMod V] in
/-- Objects / DirectSpeakers processors (C20 `step_after`): from the state after `pre`, block `b` yields the state
after `pre ++ b` and the item's column of the stacked block. -/
theorem stepsTo_direct (c : Cfg V) (started : Bool) (pre b : List (List Rat)) (hs : started = false → pre = []) :
    ∀ (specs : List (Spec Rat)) (L R : List (List Rat)), Spec.wfList (c.sr : Int) c.n_in specs = true →
      StepsTo (fun p => TrackSpec.step c.sr c.n_in p b)
        (track (TrackSpec.stack b.length (L ++ specs.map (piece c pre b) ++ R)))
        (List.range' L.length specs.length)
        (TrackSpec.afterList c.sr c.n_in started (TrackSpec.simplifyList specs) pre)
        (TrackSpec.afterList c.sr c.n_in true (TrackSpec.simplifyList specs) (pre ++ b)) := by
  intro specs
  induction specs with
  | nil => intro L R _; simp [StepsTo, TrackSpec.simplifyList, TrackSpec.afterList]
  | cons s ss ih =>
    intro L R hwf
    simp only [Spec.wfList, Bool.and_eq_true] at hwf
    simp only [List.length_cons, List.range'_succ, TrackSpec.simplifyList, TrackSpec.afterList, StepsTo, List.map_cons]
    refine ⟨?_, ?_⟩
    · rw [TrackSpec.step_after (c.sr : Int) c.n_in (TrackSpec.simplify s) (TrackSpec.simplify_wf _ _ s hwf.1) started pre b hs,
        TrackSpec.simplify_meaning]
      have e : L ++ piece c pre b s :: List.map (piece c pre b) ss ++ R =
          L ++ piece c pre b s :: (List.map (piece c pre b) ss ++ R) := by simp
      rw [e, track_stack _ _ _ _ (piece_length c pre b s)]
      rfl
    · have := ih (L ++ [piece c pre b s]) R hwf.2
      simp only [List.length_append, List.length_cons, List.length_nil, Nat.zero_add, List.append_assoc,
        List.cons_append, List.nil_append] at this
      simpa using this

omit [RMod V] in
/-- One `MultiTrackProcessor.process` call from the state after `pre` (C20 `stepList_after`). -/
theorem stepMulti_after (c : Cfg V) (started : Bool) (pre b : List (List Rat)) (hs : started = false → pre = [])
    (specs : List (Spec Rat)) (hne : specs ≠ []) (hwf : Spec.wfList (c.sr : Int) c.n_in specs = true) :
    TrackSpec.stepMulti c.sr c.n_in (TrackSpec.afterList c.sr c.n_in started (TrackSpec.simplifyList specs) pre) b =
      .ok (TrackSpec.afterList c.sr c.n_in true (TrackSpec.simplifyList specs) (pre ++ b),
           TrackSpec.stack b.length (specs.map (piece c pre b))) := by
  have hcols : (TrackSpec.meaningList (c.sr : Int) c.n_in (TrackSpec.simplifyList specs) (pre ++ b)).map
      (List.drop pre.length) = specs.map (piece c pre b) := by
    rw [TrackSpec.simplifyList_meaning, TrackSpec.meaningList_eq_map, List.map_map]
    rfl
  simp only [TrackSpec.stepMulti,
    TrackSpec.stepList_after (c.sr : Int) c.n_in _ (TrackSpec.simplifyList_wf _ _ specs hwf) started pre b hs, hcols]
  cases specs with
  | nil => exact absurd rfl hne
  | cons s ss => simp

/-- HOA processors: every item's `MultiTrackProcessor` returns the item's columns of the stacked block. -/
theorem stepsTo_hoa (c : Cfg V) (started : Bool) (pre b : List (List Rat)) (hs : started = false → pre = []) :
    ∀ (hoas : List (HoaItemTS V)) (L R : List (List Rat)),
      (∀ it ∈ hoas, it.specs ≠ [] ∧ Spec.wfList (c.sr : Int) c.n_in it.specs = true) →
      StepsTo (fun ps => TrackSpec.stepMulti c.sr c.n_in ps b)
        (tracks (TrackSpec.stack b.length (L ++ ((hoas.map (·.specs)).flatten).map (piece c pre b) ++ R)))
        (hoaIds L.length (hoas.map (·.specs.length)))
        (hoas.map fun it => TrackSpec.afterList c.sr c.n_in started (TrackSpec.simplifyList it.specs) pre)
        (hoas.map fun it => TrackSpec.afterList c.sr c.n_in true (TrackSpec.simplifyList it.specs) (pre ++ b)) := by
  intro hoas
  induction hoas with
  | nil => intro L R _; simp [StepsTo, hoaIds]
  | cons it rest ih =>
    intro L R h
    obtain ⟨hne, hwf⟩ := h it List.mem_cons_self
    simp only [List.map_cons, hoaIds, StepsTo, List.flatten_cons, List.map_append]
    refine ⟨?_, ?_⟩
    · rw [stepMulti_after c started pre b hs it.specs hne hwf]
      have e : L ++ (List.map (piece c pre b) it.specs ++
            List.map (piece c pre b) (List.map (fun x => x.specs) rest).flatten) ++ R =
          L ++ List.map (piece c pre b) it.specs ++
            (List.map (piece c pre b) (List.map (fun x => x.specs) rest).flatten ++ R) := by simp
      have := tracks_stack b.length L (List.map (piece c pre b) it.specs)
        (List.map (piece c pre b) (List.map (fun x => x.specs) rest).flatten ++ R)
      rw [List.length_map] at this
      rw [e, this]
    · have := ih (L ++ List.map (piece c pre b) it.specs) R (fun it' hit => h it' (List.mem_cons_of_mem _ hit))
      simp only [List.length_append, List.length_map, List.append_assoc] at this
      simpa using this

/-! ### A whole run -/

/-- The track specs the real code accepts (C20 `Spec.wf`: direct indices name an input channel, coefficient delays
round to `≥ 0` samples), and every HOA item has at least one (`np.stack([])` raises otherwise). -/
structure SpecsOK (c : Cfg V) (objs : List (ObjItemTS V)) (dss : List (DsItemTS V)) (hoas : List (HoaItemTS V)) :
    Prop where
  objs_wf : Spec.wfList (c.sr : Int) c.n_in (objs.map (·.spec)) = true
  dss_wf : Spec.wfList (c.sr : Int) c.n_in (dss.map (·.spec)) = true
  hoas_wf : ∀ it ∈ hoas, it.specs ≠ [] ∧ Spec.wfList (c.sr : Int) c.n_in it.specs = true

/-- The processor objects after the input prefix `pre` (`started = false`: freshly constructed). -/
def ProcInv (c : Cfg V) (objs : List (ObjItemTS V)) (dss : List (DsItemTS V)) (hoas : List (HoaItemTS V))
    (started : Bool) (pre : List (List Rat)) (st : RStateTS V) : Prop :=
  st.obj.chans.map (·.1) = TrackSpec.afterList c.sr c.n_in started (TrackSpec.simplifyList (objs.map (·.spec))) pre ∧
  st.ds.map (·.1) = TrackSpec.afterList c.sr c.n_in started (TrackSpec.simplifyList (dss.map (·.spec))) pre ∧
  st.hoa.map (·.1) =
    hoas.map fun it => TrackSpec.afterList c.sr c.n_in started (TrackSpec.simplifyList it.specs) pre

/-- The block of all items' processed streams for input block `b` after the prefix `pre`. -/
def vblock (c : Cfg V) (objs : List (ObjItemTS V)) (dss : List (DsItemTS V)) (hoas : List (HoaItemTS V))
    (pre b : List (List Rat)) : List (List Rat) :=
  TrackSpec.stack b.length ((allSpecs objs dss hoas).map (piece c pre b))

def vblocks (c : Cfg V) (objs : List (ObjItemTS V)) (dss : List (DsItemTS V)) (hoas : List (HoaItemTS V)) :
    List (List Rat) → List (List (List Rat)) → List (List (List Rat))
  | _, [] => []
  | pre, b :: bs => vblock c objs dss hoas pre b :: vblocks c objs dss hoas (pre ++ b) bs

/-- `strip` with the track numbers `0, 1, 2, …` in the order Objects, DirectSpeakers, HOA. -/
def stripS (objs : List (ObjItemTS V)) (dss : List (DsItemTS V)) (hoas : List (HoaItemTS V)) (st : RStateTS V) :
    RState V :=
  strip (List.range' 0 objs.length) (List.range' objs.length dss.length)
    (hoaIds (objs.length + dss.length) (hoas.map (·.specs.length))) st

omit [RMod V] in
theorem vblock_length (c : Cfg V) (objs : List (ObjItemTS V)) (dss : List (DsItemTS V)) (hoas : List (HoaItemTS V))
    (pre b : List (List Rat)) : (vblock c objs dss hoas pre b).length = b.length := by
  simp [vblock, TrackSpec.stack]

theorem render_stripS (c : Cfg V) (objs : List (ObjItemTS V)) (dss : List (DsItemTS V)) (hoas : List (HoaItemTS V))
    (hsp : SpecsOK c objs dss hoas) (started : Bool) (pre b : List (List Rat)) (hs : started = false → pre = [])
    (st : RStateTS V) (hinv : ProcInv c objs dss hoas started pre st) (st' : RState V) (o : List V)
    (h : RState.render c (stripS objs dss hoas st) (vblock c objs dss hoas pre b) = .ok (st', o)) :
    ∃ stTS', RStateTS.render c st b = .ok (stTS', o) ∧ stripS objs dss hoas stTS' = st' ∧
      ProcInv c objs dss hoas true (pre ++ b) stTS' := by
  obtain ⟨iO, iD, iH⟩ := hinv
  have eO : vblock c objs dss hoas pre b = TrackSpec.stack b.length
      ([] ++ (objs.map (·.spec)).map (piece c pre b) ++
        ((dss.map (·.spec)).map (piece c pre b) ++ ((hoas.map (·.specs)).flatten).map (piece c pre b))) := by
    simp [vblock, allSpecs]
  have eD : vblock c objs dss hoas pre b = TrackSpec.stack b.length
      ((objs.map (·.spec)).map (piece c pre b) ++ (dss.map (·.spec)).map (piece c pre b) ++
        ((hoas.map (·.specs)).flatten).map (piece c pre b)) := by
    simp [vblock, allSpecs]
  have eH : vblock c objs dss hoas pre b = TrackSpec.stack b.length
      (((objs.map (·.spec)).map (piece c pre b) ++ (dss.map (·.spec)).map (piece c pre b)) ++
        ((hoas.map (·.specs)).flatten).map (piece c pre b) ++ []) := by
    simp [vblock, allSpecs]
  have hO := stepsTo_direct c started pre b hs (objs.map (·.spec)) []
    ((dss.map (·.spec)).map (piece c pre b) ++ ((hoas.map (·.specs)).flatten).map (piece c pre b)) hsp.objs_wf
  rw [← eO, ← iO] at hO
  have hD := stepsTo_direct c started pre b hs (dss.map (·.spec)) ((objs.map (·.spec)).map (piece c pre b))
    (((hoas.map (·.specs)).flatten).map (piece c pre b)) hsp.dss_wf
  rw [← eD, ← iD] at hD
  have hH := stepsTo_hoa c started pre b hs hoas
    ((objs.map (·.spec)).map (piece c pre b) ++ (dss.map (·.spec)).map (piece c pre b)) [] hsp.hoas_wf
  rw [← eH, ← iH] at hH
  simp only [List.length_nil, List.length_map, List.length_append] at hO hD hH
  obtain ⟨stTS', e, hs', qO, qD, qH⟩ := render_strip c st _ _ _ b _ (vblock_length c objs dss hoas pre b) _ _ _
    hO hD hH st' o h
  exact ⟨stTS', e, hs', qO, qD, qH⟩

theorem run_stripS (c : Cfg V) (objs : List (ObjItemTS V)) (dss : List (DsItemTS V)) (hoas : List (HoaItemTS V))
    (hsp : SpecsOK c objs dss hoas) :
    ∀ (bl : List (List (List Rat))) (started : Bool) (pre : List (List Rat)) (st : RStateTS V),
      (started = false → pre = []) → ProcInv c objs dss hoas started pre st →
      ∀ (st' : RState V) (os : List (List V)),
        RState.run c (stripS objs dss hoas st) (vblocks c objs dss hoas pre bl) = .ok (st', os) →
        ∃ stTS', RStateTS.run c st bl = .ok (stTS', os) := by
  intro bl
  induction bl with
  | nil =>
    intro started pre st _ _ st' os h
    simp only [vblocks, RState.run, pure, Except.pure] at h
    cases h
    exact ⟨st, rfl⟩
  | cons b bs ih =>
    intro started pre st hs hinv st' os h
    simp only [vblocks, RState.run, bind, Except.bind, pure, Except.pure] at h
    cases h1 : RState.render c (stripS objs dss hoas st) (vblock c objs dss hoas pre b) with
    | error e => rw [h1] at h; cases h
    | ok r1 =>
      obtain ⟨st1, o⟩ := r1
      rw [h1] at h; simp only at h
      obtain ⟨stTS1, e1, s1, inv1⟩ := render_stripS c objs dss hoas hsp started pre b hs st hinv st1 o h1
      cases h2 : RState.run c st1 (vblocks c objs dss hoas (pre ++ b) bs) with
      | error e => rw [h2] at h; cases h
      | ok r2 =>
        obtain ⟨st2, os2⟩ := r2
        rw [h2] at h
        simp only [Except.ok.injEq, Prod.mk.injEq] at h
        obtain ⟨_, rfl⟩ := h
        rw [← s1] at h2
        obtain ⟨stTS2, e2⟩ := ih true (pre ++ b) stTS1 (by simp) inv1 st2 os2 h2
        exact ⟨stTS2, by simp only [RStateTS.run, e1, e2]⟩

/-! ### `set_rendering_items` -/

theorem mkChans_ok {I P M S K : Type} (mk : I → Except TrackSpec.Err P) (f : I → P) (blocksOf : I → List M) (st0 : S)
    (hmk : ∀ it, mk it = .ok (f it)) : ∀ items : List I,
    mkChans (K := K) mk blocksOf st0 items = .ok (items.map fun it => (f it, ⟨blocksOf it, st0, []⟩)) := by
  intro items
  induction items with
  | nil => rfl
  | cons it rest ih => simp only [mkChans, hmk, ih, List.map_cons]

theorem trackProcessor_ok (fs : Int) (nch : Nat) (s : Spec Rat) :
    TrackSpec.trackProcessor s = .ok (TrackSpec.after fs nch false (TrackSpec.simplify s) []) := by
  rw [TrackSpec.trackProcessor, TrackSpec.build_eq_after fs nch _ (TrackSpec.simplify_buildable' s)]

theorem afterList_simplify_map {I : Type} (fs : Int) (nch : Nat) (started : Bool) (pre : List (List Rat))
    (specOf : I → Spec Rat) : ∀ items : List I,
    items.map (fun it => TrackSpec.after fs nch started (TrackSpec.simplify (specOf it)) pre) =
      TrackSpec.afterList fs nch started (TrackSpec.simplifyList (items.map specOf)) pre := by
  intro items
  induction items with
  | nil => rfl
  | cons it rest ih => simp only [List.map_cons, TrackSpec.simplifyList, TrackSpec.afterList, ih]

theorem reid_directObjs {P : Type} (f : ObjItemTS V → P) : ∀ (items : List (ObjItemTS V)) (k : Nat),
    reid (List.range' k items.length)
      (items.map fun it => (f it, (⟨it.blocks, {}, []⟩ : ObjBpc V))) =
      (directObjs k items).map fun it => (it.track, ⟨it.blocks, {}, []⟩) := by
  intro items
  induction items with
  | nil => intro k; rfl
  | cons it rest ih =>
    intro k
    simp only [List.length_cons, List.range'_succ, List.map_cons, reid, List.zipWith_cons_cons, directObjs]
    congr 1
    exact ih (k + 1)

theorem reid_directDss {P : Type} (f : DsItemTS V → P) : ∀ (items : List (DsItemTS V)) (k : Nat),
    reid (List.range' k items.length)
      (items.map fun it => (f it, (⟨it.blocks, {}, []⟩ : DsBpc V))) =
      (directDss k items).map fun it => (it.track, ⟨it.blocks, {}, []⟩) := by
  intro items
  induction items with
  | nil => intro k; rfl
  | cons it rest ih =>
    intro k
    simp only [List.length_cons, List.range'_succ, List.map_cons, reid, List.zipWith_cons_cons, directDss]
    congr 1
    exact ih (k + 1)

theorem reid_directHoas {P : Type} (f : HoaItemTS V → P) : ∀ (items : List (HoaItemTS V)) (k : Nat),
    reid (hoaIds k (items.map (·.specs.length)))
      (items.map fun it => (f it, (⟨it.blocks, {}, []⟩ : HoaBpc V))) =
      (directHoas k items).map fun it => (it.tracks, ⟨it.blocks, {}, []⟩) := by
  intro items
  induction items with
  | nil => intro k; rfl
  | cons it rest ih =>
    intro k
    simp only [List.map_cons, hoaIds, reid, List.zipWith_cons_cons, directHoas]
    congr 1
    exact ih (k + it.specs.length)

/-- `Renderer.set_rendering_items` never raises (simplified specs are buildable); the fresh state, with the
processors forgotten, is the fresh state of the plain renderer on the direct items. -/
theorem init_stripS (c : Cfg V) (objs : List (ObjItemTS V)) (dss : List (DsItemTS V)) (hoas : List (HoaItemTS V)) :
    ∃ st0, RStateTS.init c objs dss hoas = .ok st0 ∧
      stripS objs dss hoas st0 = RState.init c (directObjs 0 objs) (directDss objs.length dss)
        (directHoas (objs.length + dss.length) hoas) ∧
      ProcInv c objs dss hoas false [] st0 := by
  have hO := mkChans_ok (K := GainKern (V × V)) (fun it : ObjItemTS V => TrackSpec.trackProcessor it.spec)
    (fun it => TrackSpec.after c.sr c.n_in false (TrackSpec.simplify it.spec) []) (·.blocks) ({} : IState (V × V))
    (fun it => trackProcessor_ok c.sr c.n_in it.spec) objs
  have hD := mkChans_ok (K := V) (fun it : DsItemTS V => TrackSpec.trackProcessor it.spec)
    (fun it => TrackSpec.after c.sr c.n_in false (TrackSpec.simplify it.spec) []) (·.blocks) ({} : IState V)
    (fun it => trackProcessor_ok c.sr c.n_in it.spec) dss
  have hH := mkChans_ok (K := List V) (fun it : HoaItemTS V => TrackSpec.buildMulti it.specs)
    (fun it => TrackSpec.afterList c.sr c.n_in false (TrackSpec.simplifyList it.specs) []) (·.blocks)
    ({} : IState (List V)) (fun it => TrackSpec.buildMulti_eq c.sr c.n_in it.specs) hoas
  refine ⟨⟨Aligner.init,
      ⟨objs.map fun it => (TrackSpec.after c.sr c.n_in false (TrackSpec.simplify it.spec) [], ⟨it.blocks, {}, []⟩),
        Delay.init 0 c.overall_delay, Vbs.init (Fir.step c.taps) c.block_size 0 (Fir.init c.taps)⟩,
      dss.map fun it => (TrackSpec.after c.sr c.n_in false (TrackSpec.simplify it.spec) [], ⟨it.blocks, {}, []⟩),
      hoas.map fun it => (TrackSpec.afterList c.sr c.n_in false (TrackSpec.simplifyList it.specs) [],
        ⟨it.blocks, {}, []⟩), 0⟩,
    by simp only [RStateTS.init, ObjStateTS.init, hO, hD, hH], ?_, ?_, ?_, ?_⟩
  · simp only [stripS, strip, RState.init, ObjState.init, reid_directObjs, reid_directDss, reid_directHoas]
  · simp only [List.map_map, Function.comp_def]
    exact afterList_simplify_map _ _ _ _ (·.spec) objs
  · simp only [List.map_map, Function.comp_def]
    exact afterList_simplify_map _ _ _ _ (·.spec) dss
  · simp only [List.map_map, Function.comp_def]

/-! ### The blocks of processed streams concatenate to the streams of the concatenated input -/

theorem stack_append (n m : Nat) (cols : List (List Rat)) :
    TrackSpec.stack (n + m) cols =
      TrackSpec.stack n (cols.map (List.take n)) ++ TrackSpec.stack m (cols.map (List.drop n)) := by
  simp only [TrackSpec.stack, List.range_add, List.map_append, List.map_map, Function.comp_def]
  congr 1
  · apply List.map_congr_left
    intro j hj
    have hj' : j < n := List.mem_range.mp hj
    apply List.map_congr_left
    intro col _
    simp only [List.getD_eq_getElem?_getD, List.getElem?_take, hj', if_true]
  · apply List.map_congr_left
    intro j _
    apply List.map_congr_left
    intro col _
    simp only [List.getD_eq_getElem?_getD, List.getElem?_drop]

omit [RMod V] in
theorem piece_take (c : Cfg V) (pre b r : List (List Rat)) (s : Spec Rat) :
    (piece c pre (b ++ r) s).take b.length = piece c pre b s :=
  TrackSpec.piece_eq c.sr c.n_in s pre b r

omit [RMod V] in
theorem piece_drop (c : Cfg V) (pre b r : List (List Rat)) (s : Spec Rat) :
    (piece c pre (b ++ r) s).drop b.length = piece c (pre ++ b) r s := by
  simp only [piece, List.drop_drop, List.append_assoc, List.length_append]

omit [RMod V] in
theorem vblocks_flatten (c : Cfg V) (objs : List (ObjItemTS V)) (dss : List (DsItemTS V)) (hoas : List (HoaItemTS V)) :
    ∀ (bl : List (List (List Rat))) (pre : List (List Rat)),
      (vblocks c objs dss hoas pre bl).flatten =
        TrackSpec.stack bl.flatten.length ((allSpecs objs dss hoas).map (piece c pre bl.flatten)) := by
  intro bl
  induction bl with
  | nil => intro pre; simp [vblocks, TrackSpec.stack]
  | cons b bs ih =>
    intro pre
    simp only [vblocks, List.flatten_cons, ih, List.length_append, stack_append, List.map_map, Function.comp_def,
      piece_take, piece_drop, vblock]

theorem runTS_append_single (c : Cfg V) (b : List (List Rat)) : ∀ (parts : List (List (List Rat))) (st : RStateTS V),
    RStateTS.run c st (parts ++ [b]) =
      match RStateTS.run c st parts with
      | .error e => .error e
      | .ok (st', os) =>
        match st'.render c b with
        | .error e => .error e
        | .ok (st'', o) => .ok (st'', os ++ [o]) := by
  intro parts
  induction parts with
  | nil =>
    intro st
    simp only [List.nil_append, RStateTS.run]
    cases st.render c b with
    | error e => rfl
    | ok r => rfl
  | cons p ps ih =>
    intro st
    simp only [List.cons_append, RStateTS.run]
    cases st.render c p with
    | error e => rfl
    | ok r =>
      obtain ⟨st1, o⟩ := r
      simp only [ih st1]
      cases RStateTS.run c st1 ps with
      | error e => rfl
      | ok r2 =>
        obtain ⟨st2, os⟩ := r2
        simp only
        cases st2.render c b with
        | error e => rfl
        | ok r3 => rfl

/-- A session = `set_rendering_items`, then `render` on every block and on the tail's zero block. -/
theorem renderAllTS_eq_run (c : Cfg V) (objs : List (ObjItemTS V)) (dss : List (DsItemTS V))
    (hoas : List (HoaItemTS V)) (parts : List (List (List Rat))) :
    renderAllTS c objs dss hoas parts =
      match RStateTS.init c objs dss hoas with
      | .error e => .error (.track e)
      | .ok st0 =>
        match RStateTS.run c st0 (parts ++ [tailFrames c]) with
        | .error e => .error e
        | .ok (_, os) => .ok os.flatten := by
  unfold renderAllTS
  cases RStateTS.init c objs dss hoas with
  | error e => rfl
  | ok st0 =>
    simp only [runTS_append_single, RStateTS.get_tail]
    cases RStateTS.run c st0 parts with
    | error e => rfl
    | ok r =>
      obtain ⟨st, os⟩ := r
      simp only
      cases st.render c (tailFrames c) with
      | error e => rfl
      | ok r2 => simp

/-! ### Sessions in the quantifier, and the composed theorem -/

/-- Items in the property's quantifier (`SessionOK` of C02: `block_size ≥ 1`, timelines the interpreters accept) whose
track specs the track processors accept (`SpecsOK`, C20's `Spec.wf`). -/
structure SessionOKTS (c : Cfg V) (objs : List (ObjItemTS V)) (dss : List (DsItemTS V)) (hoas : List (HoaItemTS V)) :
    Prop where
  block_size_pos : 1 ≤ c.block_size
  objs_ok : ∀ it ∈ objs, ObjAccepted' c.sr it.blocks
  dss_ok : ∀ it ∈ dss, FixedAccepted c.sr it.blocks
  hoas_ok : ∀ it ∈ hoas, FixedAccepted c.sr it.blocks
  specs_ok : SpecsOK c objs dss hoas

omit [RMod V] in
theorem mem_directObjs : ∀ (items : List (ObjItemTS V)) (k : Nat) (it : ObjItem V), it ∈ directObjs k items →
    ∃ it' ∈ items, it.blocks = it'.blocks := by
  intro items
  induction items with
  | nil => intro k it h; cases h
  | cons x rest ih =>
    intro k it h
    simp only [directObjs, List.mem_cons] at h
    rcases h with rfl | h
    · exact ⟨x, List.mem_cons_self, rfl⟩
    · obtain ⟨it', hm, e⟩ := ih (k + 1) it h
      exact ⟨it', List.mem_cons_of_mem _ hm, e⟩

omit [RMod V] in
theorem mem_directDss : ∀ (items : List (DsItemTS V)) (k : Nat) (it : DsItem V), it ∈ directDss k items →
    ∃ it' ∈ items, it.blocks = it'.blocks := by
  intro items
  induction items with
  | nil => intro k it h; cases h
  | cons x rest ih =>
    intro k it h
    simp only [directDss, List.mem_cons] at h
    rcases h with rfl | h
    · exact ⟨x, List.mem_cons_self, rfl⟩
    · obtain ⟨it', hm, e⟩ := ih (k + 1) it h
      exact ⟨it', List.mem_cons_of_mem _ hm, e⟩

omit [RMod V] in
theorem mem_directHoas : ∀ (items : List (HoaItemTS V)) (k : Nat) (it : HoaItem V), it ∈ directHoas k items →
    ∃ it' ∈ items, it.blocks = it'.blocks := by
  intro items
  induction items with
  | nil => intro k it h; cases h
  | cons x rest ih =>
    intro k it h
    simp only [directHoas, List.mem_cons] at h
    rcases h with rfl | h
    · exact ⟨x, List.mem_cons_self, rfl⟩
    · obtain ⟨it', hm, e⟩ := ih _ it h
      exact ⟨it', List.mem_cons_of_mem _ hm, e⟩

variable [LawfulRMod V]

theorem sessionOK_direct (c : Cfg V) (objs : List (ObjItemTS V)) (dss : List (DsItemTS V))
    (hoas : List (HoaItemTS V)) (hok : SessionOKTS c objs dss hoas) :
    SessionOK c (directObjs 0 objs) (directDss objs.length dss) (directHoas (objs.length + dss.length) hoas) where
  block_size_pos := hok.block_size_pos
  objs_ok := by
    intro it hit
    obtain ⟨it', hm, e⟩ := mem_directObjs objs 0 it hit
    rw [e]; exact hok.objs_ok it' hm
  dss_ok := by
    intro it hit
    obtain ⟨it', hm, e⟩ := mem_directDss dss _ it hit
    rw [e]; exact hok.dss_ok it' hm
  hoas_ok := by
    intro it hit
    obtain ⟨it', hm, e⟩ := mem_directHoas hoas _ it hit
    rw [e]; exact hok.hoas_ok it' hm

omit [RMod V] [LawfulRMod V] in
theorem tailFrames_length (c : Cfg V) : (tailFrames c).length = c.overall_delay := by simp [tailFrames]

/-- **`render_refines_spec_ts`** — for every configuration with `block_size ≥ 1`, every mix of accepted items whose
track specs are well formed (direct / silent / mix / gain / matrix coefficient with gain and delay, nested to any
depth), every input and EVERY partition of it into `render` calls: `set_rendering_items`, the `render` calls and
`get_tail` raise nothing, and the concatenated output is the specification `RenderSpec.out` (C02/C03) applied to the
per-item streams `meaning(spec_item)` (C20) of the input followed by the tail's silence, cut to the input length.
Obtained by combining `TrackSpec.step_after` (the induction step of C20's `processor_eq_meaning`) with
`render_refines_spec` (C02). -/
theorem render_refines_spec_ts (c : Cfg V) (objs : List (ObjItemTS V)) (dss : List (DsItemTS V))
    (hoas : List (HoaItemTS V)) (hok : SessionOKTS c objs dss hoas) (parts : List (List (List Rat))) :
    renderAllTS c objs dss hoas parts =
      .ok ((RenderSpec.out c (directObjs 0 objs) (directDss objs.length dss)
        (directHoas (objs.length + dss.length) hoas) (itemStreams c objs dss hoas parts.flatten)).take
          parts.flatten.length) := by
  obtain ⟨st0, hinit, hstrip, hinv⟩ := init_stripS c objs dss hoas
  obtain ⟨st, os, hrun, hflat⟩ := run_prefix c _ _ _ (sessionOK_direct c objs dss hoas hok)
    (vblocks c objs dss hoas [] (parts ++ [tailFrames c]))
  rw [← hstrip] at hrun
  obtain ⟨stTS, hTS⟩ := run_stripS c objs dss hoas hok.specs_ok (parts ++ [tailFrames c]) false [] st0
    (fun _ => rfl) hinv st os hrun
  rw [renderAllTS_eq_run, hinit]
  simp only [hTS, hflat, vblocks_flatten]
  have e1 : (parts ++ [tailFrames c]).flatten = parts.flatten ++ tailFrames c := by simp
  have e2 : (allSpecs objs dss hoas).map (piece c [] (parts.flatten ++ tailFrames c)) =
      (allSpecs objs dss hoas).map fun s => TrackSpec.meaning c.sr c.n_in s (parts.flatten ++ tailFrames c) := by
    apply List.map_congr_left
    intro s _
    simp [piece]
  rw [e1, e2]
  have e3 : (TrackSpec.stack (parts.flatten ++ tailFrames c).length
      ((allSpecs objs dss hoas).map fun s =>
        TrackSpec.meaning c.sr c.n_in s (parts.flatten ++ tailFrames c))).length - c.overall_delay =
      parts.flatten.length := by
    simp [TrackSpec.stack, tailFrames_length]
  rw [e3]
  rfl

/-! ### Part C — the specification on the per-item streams, written out: `outTS` -/

omit [RMod V] [LawfulRMod V] in
/-- Channel `len L` of the stacked streams at time `t`. -/
theorem xAt_stack (N : Nat) (L R : List (List Rat)) (col : List Rat) (hcol : col.length = N) (t : Int) :
    xAt (TrackSpec.stack N (L ++ col :: R)) L.length t = if 0 ≤ t then col.getD t.toNat 0 else 0 := by
  unfold xAt
  by_cases ht : 0 ≤ t
  · simp only [ht, if_true]
    by_cases hj : t.toNat < N
    · have : (TrackSpec.stack N (L ++ col :: R)).getD t.toNat [] =
          (L ++ col :: R).map (fun cl => cl.getD t.toNat 0) := by
        simp only [TrackSpec.stack, List.getD_eq_getElem?_getD, List.getElem?_map, List.getElem?_range hj,
          Option.map_some, Option.getD_some]
        rfl
      rw [this, getD_map_append]
    · have : (TrackSpec.stack N (L ++ col :: R)).getD t.toNat [] = [] := by
        simp only [TrackSpec.stack, List.getD_eq_getElem?_getD, List.getElem?_map]
        rw [List.getElem?_eq_none (by simp; omega)]
        rfl
      rw [this]
      simp only [List.getD_eq_getElem?_getD, List.getElem?_nil, Option.getD_none]
      rw [List.getElem?_eq_none (by omega)]
      rfl
  · simp only [ht, if_false]

omit [RMod V] [LawfulRMod V] in
theorem xAt_stack_sAt (c : Cfg V) (x : List (List Rat)) (L R : List (List Rat)) (s : Spec Rat) (t : Int) :
    xAt (TrackSpec.stack (x ++ tailFrames c).length
      (L ++ TrackSpec.meaning c.sr c.n_in s (x ++ tailFrames c) :: R)) L.length t = sAt c s x t :=
  xAt_stack _ L R _ (TrackSpec.meaning_length _ _ s _) t

/-- `m s` = the item stream of spec `s` (on the input followed by the tail's silence). -/
abbrev mOf (c : Cfg V) (x : List (List Rat)) (s : Spec Rat) : List Rat :=
  TrackSpec.meaning c.sr c.n_in s (x ++ tailFrames c)

omit [LawfulRMod V] in
theorem objTerms_direct (c : Cfg V) (x : List (List Rat)) (t : Int) :
    ∀ (objs : List (ObjItemTS V)) (L R : List (List Rat)),
      (directObjs L.length objs).map (fun it =>
        RMod.smul (xAt (TrackSpec.stack (x ++ tailFrames c).length (L ++ (objs.map (·.spec)).map (mOf c x) ++ R))
          it.track t) (gainAt c.sr (objTimeline none it.blocks) t).row) =
      objs.map (fun it => RMod.smul (sAt c it.spec x t) (gainAt c.sr (objTimeline none it.blocks) t).row) := by
  intro objs
  induction objs with
  | nil => intro L R; rfl
  | cons it rest ih =>
    intro L R
    simp only [directObjs, List.map_cons]
    congr 1
    · have e : L ++ mOf c x it.spec :: List.map (mOf c x) (List.map (fun x => x.spec) rest) ++ R =
          L ++ mOf c x it.spec :: (List.map (mOf c x) (List.map (fun x => x.spec) rest) ++ R) := by simp
      rw [e, xAt_stack_sAt]
    · have := ih (L ++ [mOf c x it.spec]) R
      simp only [List.length_append, List.length_cons, List.length_nil, Nat.zero_add, List.append_assoc,
        List.cons_append, List.nil_append] at this
      simpa using this

omit [LawfulRMod V] in
theorem dsTerms_direct (c : Cfg V) (x : List (List Rat)) (t : Int) :
    ∀ (dss : List (DsItemTS V)) (L R : List (List Rat)),
      (directDss L.length dss).map (fun it =>
        RMod.smul (xAt (TrackSpec.stack (x ++ tailFrames c).length (L ++ (dss.map (·.spec)).map (mOf c x) ++ R))
          it.track t) (gainAt c.sr (fixedTimeline it.blocks) t).row) =
      dss.map (fun it => RMod.smul (sAt c it.spec x t) (gainAt c.sr (fixedTimeline it.blocks) t).row) := by
  intro dss
  induction dss with
  | nil => intro L R; rfl
  | cons it rest ih =>
    intro L R
    simp only [directDss, List.map_cons]
    congr 1
    · have e : L ++ mOf c x it.spec :: List.map (mOf c x) (List.map (fun x => x.spec) rest) ++ R =
          L ++ mOf c x it.spec :: (List.map (mOf c x) (List.map (fun x => x.spec) rest) ++ R) := by simp
      rw [e, xAt_stack_sAt]
    · have := ih (L ++ [mOf c x it.spec]) R
      simp only [List.length_append, List.length_cons, List.length_nil, Nat.zero_add, List.append_assoc,
        List.cons_append, List.nil_append] at this
      simpa using this

omit [RMod V] [LawfulRMod V] in
theorem specSamples_direct (c : Cfg V) (x : List (List Rat)) (t : Int) :
    ∀ (specs : List (Spec Rat)) (L R : List (List Rat)),
      (List.range' L.length specs.length).map (fun tr =>
        xAt (TrackSpec.stack (x ++ tailFrames c).length (L ++ specs.map (mOf c x) ++ R)) tr t) =
      specs.map (fun sp => sAt c sp x t) := by
  intro specs
  induction specs with
  | nil => intro L R; rfl
  | cons sp rest ih =>
    intro L R
    simp only [List.length_cons, List.range'_succ, List.map_cons]
    congr 1
    · have e : L ++ mOf c x sp :: List.map (mOf c x) rest ++ R = L ++ mOf c x sp :: (List.map (mOf c x) rest ++ R) := by
        simp
      rw [e, xAt_stack_sAt]
    · have := ih (L ++ [mOf c x sp]) R
      simp only [List.length_append, List.length_cons, List.length_nil, Nat.zero_add, List.append_assoc,
        List.cons_append, List.nil_append] at this
      simpa using this

omit [LawfulRMod V] in
theorem hoaTerms_direct (c : Cfg V) (x : List (List Rat)) (t : Int) :
    ∀ (hoas : List (HoaItemTS V)) (L R : List (List Rat)),
      (directHoas L.length hoas).map (fun it =>
        (gainAt c.sr (fixedTimeline it.blocks) t).mat (it.tracks.map fun tr =>
          xAt (TrackSpec.stack (x ++ tailFrames c).length
            (L ++ ((hoas.map (·.specs)).flatten).map (mOf c x) ++ R)) tr t)) =
      hoas.map (fun it => (gainAt c.sr (fixedTimeline it.blocks) t).mat (it.specs.map fun sp => sAt c sp x t)) := by
  intro hoas
  induction hoas with
  | nil => intro L R; rfl
  | cons it rest ih =>
    intro L R
    simp only [directHoas, List.map_cons, List.flatten_cons, List.map_append]
    congr 1
    · have e : L ++ (List.map (mOf c x) it.specs ++ List.map (mOf c x) (List.map (fun x => x.specs) rest).flatten) ++ R =
          L ++ List.map (mOf c x) it.specs ++ (List.map (mOf c x) (List.map (fun x => x.specs) rest).flatten ++ R) := by
        simp
      rw [e, specSamples_direct]
    · have := ih (L ++ List.map (mOf c x) it.specs) R
      simp only [List.length_append, List.length_map, List.append_assoc] at this
      simpa using this

omit [LawfulRMod V] in
/-- The C02/C03 specification applied to the per-item streams is, sample by sample, `outAtTS`. -/
theorem outAt_itemStreams (c : Cfg V) (objs : List (ObjItemTS V)) (dss : List (DsItemTS V))
    (hoas : List (HoaItemTS V)) (x : List (List Rat)) (s : Nat) :
    RenderSpec.outAt c (directObjs 0 objs) (directDss objs.length dss) (directHoas (objs.length + dss.length) hoas)
      (itemStreams c objs dss hoas x) s = outAtTS c objs dss hoas x s := by
  have eO : itemStreams c objs dss hoas x = TrackSpec.stack (x ++ tailFrames c).length
      ([] ++ (objs.map (·.spec)).map (mOf c x) ++
        ((dss.map (·.spec)).map (mOf c x) ++ ((hoas.map (·.specs)).flatten).map (mOf c x))) := by
    simp [itemStreams, allSpecs]
  have eD : itemStreams c objs dss hoas x = TrackSpec.stack (x ++ tailFrames c).length
      ((objs.map (·.spec)).map (mOf c x) ++ (dss.map (·.spec)).map (mOf c x) ++
        ((hoas.map (·.specs)).flatten).map (mOf c x)) := by
    simp [itemStreams, allSpecs]
  have eH : itemStreams c objs dss hoas x = TrackSpec.stack (x ++ tailFrames c).length
      (((objs.map (·.spec)).map (mOf c x) ++ (dss.map (·.spec)).map (mOf c x)) ++
        ((hoas.map (·.specs)).flatten).map (mOf c x) ++ []) := by
    simp [itemStreams, allSpecs]
  have hobj : ∀ t : Int, objAt c.sr (directObjs 0 objs) (itemStreams c objs dss hoas x) t = objAtTS c objs x t := by
    intro t
    unfold objAt objAtTS
    rw [eO]
    have := objTerms_direct c x t objs []
      ((dss.map (·.spec)).map (mOf c x) ++ ((hoas.map (·.specs)).flatten).map (mOf c x))
    simp only [List.length_nil] at this
    rw [this]
  have hds : sumV ((directDss objs.length dss).map fun it =>
        RMod.smul (xAt (itemStreams c objs dss hoas x) it.track s) (gainAt c.sr (fixedTimeline it.blocks) s).row) =
      dsAtTS c dss x s := by
    unfold dsAtTS
    rw [eD]
    have := dsTerms_direct c x s dss ((objs.map (·.spec)).map (mOf c x))
      (((hoas.map (·.specs)).flatten).map (mOf c x))
    simp only [List.length_map] at this
    rw [this]
  have hhoa : sumV ((directHoas (objs.length + dss.length) hoas).map fun it =>
        (gainAt c.sr (fixedTimeline it.blocks) s).mat (it.tracks.map fun tr => xAt (itemStreams c objs dss hoas x) tr s)) =
      hoaAtTS c hoas x s := by
    unfold hoaAtTS
    rw [eH]
    have := hoaTerms_direct c x s hoas ((objs.map (·.spec)).map (mOf c x) ++ (dss.map (·.spec)).map (mOf c x)) []
    have hL : ((objs.map (·.spec)).map (mOf c x) ++ (dss.map (·.spec)).map (mOf c x)).length =
        objs.length + dss.length := by simp
    rw [hL] at this
    rw [this]
  unfold RenderSpec.outAt outAtTS diffuseAtTS
  simp only [hobj, hds, hhoa]

omit [LawfulRMod V] in
theorem out_itemStreams (c : Cfg V) (objs : List (ObjItemTS V)) (dss : List (DsItemTS V))
    (hoas : List (HoaItemTS V)) (x : List (List Rat)) :
    (RenderSpec.out c (directObjs 0 objs) (directDss objs.length dss) (directHoas (objs.length + dss.length) hoas)
      (itemStreams c objs dss hoas x)).take x.length = outTS c objs dss hoas x := by
  unfold RenderSpec.out outTS
  rw [← List.map_take, List.take_range]
  have : min x.length (itemStreams c objs dss hoas x).length = x.length := by
    simp [itemStreams, TrackSpec.stack]
  rw [this]
  apply List.map_congr_left
  intro s _
  exact outAt_itemStreams c objs dss hoas x s

/-! ### What `sAt` is -/

omit [RMod V] [LawfulRMod V] in
/-- Inside the input (`0 ≤ t < T`) the item's audio is sample `t` of the literal meaning of its spec on the input
itself (the meaning is causal: the tail's silence is not seen). -/
theorem sAt_eq_meaning (c : Cfg V) (spec : Spec Rat) (x : List (List Rat)) (t : Nat) (ht : t < x.length) :
    sAt c spec x (t : Int) = (TrackSpec.meaning c.sr c.n_in spec x).getD t 0 := by
  unfold sAt
  rw [if_pos (by omega), Int.toNat_natCast, ← TrackSpec.meaning_take (c.sr : Int) c.n_in spec x (tailFrames c)]
  simp only [List.getD_eq_getElem?_getD, List.getElem?_take, ht, if_true]

omit [RMod V] [LawfulRMod V] in
/-- **A coefficient delay delays the item's audio by exactly `k = round(fs·ms/1000)` samples**: at every time `τ`
before the end of the tail, the audio of `MatrixCoefficientTrackSpec(t, gain g, delay ms)` is the audio of the same
spec without delay, `k` samples earlier (and silence for `τ < k`). -/
theorem sAt_delay (c : Cfg V) (t : Spec Rat) (g : Option Rat) (ms : Rat) (x : List (List Rat)) (τ : Int)
    (hτ : τ < (x.length + c.overall_delay : Nat)) :
    sAt c (.matrix t g (some ms)) x τ =
      sAt c (.matrix t g none) x (τ - ((TrackSpec.delaySamples c.sr ms).toNat : Int)) := by
  unfold sAt
  simp only [TrackSpec.meaning]
  generalize hl : TrackSpec.scaleOpt g (TrackSpec.meaning (c.sr : Int) c.n_in t (x ++ tailFrames c)) = l
  generalize (TrackSpec.delaySamples (c.sr : Int) ms).toNat = k
  have hlen : l.length = x.length + c.overall_delay := by
    rw [← hl, TrackSpec.scaleOpt_length, TrackSpec.meaning_length, List.length_append, tailFrames_length]
  by_cases h0 : 0 ≤ τ
  · rw [if_pos h0]
    have hj : τ.toNat < l.length := by omega
    simp only [TrackSpec.delayBy, List.getD_eq_getElem?_getD, List.getElem?_take, hj, if_true]
    by_cases hk : τ.toNat < k
    · rw [if_neg (by omega), List.getElem?_append_left (by simpa using hk)]
      simp [TrackSpec.zeros, hk]
      rfl
    · rw [if_pos (by omega), List.getElem?_append_right (by simpa using Nat.le_of_not_lt hk)]
      simp only [TrackSpec.zeros_length]
      congr 2
      omega
  · rw [if_neg h0, if_neg (by omega)]

omit [RMod V] [LawfulRMod V] in
/-- `DirectTrackSpec(i)` with `0 ≤ i < n_in` on frames of `n_in` samples is the input track itself: the
specification with track specs specialises to the one of `Model/RenderSpec.lean`. -/
theorem sAt_direct (c : Cfg V) (i : Nat) (hi : i < c.n_in) (x : List (List Rat)) (t : Int) :
    sAt c (.direct (i : Int)) x t = xAt x i t := by
  unfold sAt xAt
  by_cases h0 : 0 ≤ t
  · simp only [h0, if_true, TrackSpec.meaning]
    have hc : TrackSpec.chanIdx c.n_in (i : Int) = some i := by
      unfold TrackSpec.chanIdx
      rw [if_pos ⟨by omega, by omega⟩, Int.toNat_natCast]
    simp only [hc, List.getD_eq_getElem?_getD, List.getElem?_map, List.getElem?_append]
    by_cases hj : t.toNat < x.length
    · simp only [hj, if_true]
      cases x[t.toNat]? <;> rfl
    · simp only [hj, if_false]
      rw [List.getElem?_eq_none (by omega : x.length ≤ t.toNat)]
      simp only [tailFrames, List.getElem?_replicate]
      split
      · simp only [Option.map_some, Option.getD_some, Option.getD_none, List.getElem?_replicate, hi, if_true,
          List.getElem?_nil]
      · rfl
  · simp only [h0, if_false]

/-- `render_refines_spec_ts` with the right-hand side written out sample by sample (`outTS`). -/
theorem render_eq_outTS (c : Cfg V) (objs : List (ObjItemTS V)) (dss : List (DsItemTS V))
    (hoas : List (HoaItemTS V)) (hok : SessionOKTS c objs dss hoas) (parts : List (List (List Rat))) :
    renderAllTS c objs dss hoas parts = .ok (outTS c objs dss hoas parts.flatten) := by
  rw [render_refines_spec_ts c objs dss hoas hok parts, out_itemStreams]

end Earverif.RendererTS
