/- C10, round 2: the square-root-free comparison used by the modelled `closest_channel_index` is the real
   comparison `|min_dist - dist| < tol` on the distances themselves (`dist = √s`, `min_dist = √sm`). -/
import Earverif.Model.DirectSpeakersGeom
import Mathlib.Analysis.Real.Sqrt
import Mathlib.Tactic.Linarith
import Mathlib.Tactic.Ring

namespace Earverif.DS

/-- For squared distances `0 ≤ sm ≤ s`: `closeTo sm tol s` ⇔ `|√sm − √s| < tol` over ℝ. -/
theorem closeTo_iff_sqrt (sm tol s : Rat) (hsm : 0 ≤ sm) (hs : sm ≤ s) :
    closeTo sm tol s = true ↔ |Real.sqrt (sm : ℝ) - Real.sqrt (s : ℝ)| < (tol : ℝ) := by
  have hsmR : (0 : ℝ) ≤ (sm : ℝ) := by exact_mod_cast hsm
  have hsR : (sm : ℝ) ≤ (s : ℝ) := by exact_mod_cast hs
  have hs0 : (0 : ℝ) ≤ (s : ℝ) := le_trans hsmR hsR
  set a := Real.sqrt (sm : ℝ) with ha
  set d := Real.sqrt (s : ℝ) with hd
  have ha0 : 0 ≤ a := Real.sqrt_nonneg _
  have hd0 : 0 ≤ d := Real.sqrt_nonneg _
  have had : a ≤ d := Real.sqrt_le_sqrt hsR
  have haa : a * a = (sm : ℝ) := Real.mul_self_sqrt hsmR
  have hdd : d * d = (s : ℝ) := Real.mul_self_sqrt hs0
  have habs : |a - d| = d - a := by rw [abs_sub_comm]; exact abs_of_nonneg (by linarith)
  rw [habs]
  simp only [closeTo, Bool.and_eq_true, decide_eq_true_eq, Bool.or_eq_true]
  constructor
  · rintro ⟨htol, hx⟩
    have htolR : (0 : ℝ) < (tol : ℝ) := by exact_mod_cast htol
    -- d < a + tol  ⇐  d² < (a + tol)²
    have key : (s : ℝ) - sm - tol * tol < 2 * tol * a := by
      rcases hx with hx | hx
      · have : ((s - sm - tol * tol : Rat) : ℝ) < 0 := by exact_mod_cast hx
        push_cast at this
        have : 0 ≤ 2 * (tol : ℝ) * a := by positivity
        linarith
      · have hx' : (((s - sm - tol * tol) * (s - sm - tol * tol) : Rat) : ℝ) < ((4 * tol * tol * sm : Rat) : ℝ) := by
          exact_mod_cast hx
        push_cast at hx'
        by_contra hc
        have hc := not_lt.mp hc
        have h2 : 0 ≤ 2 * (tol : ℝ) * a := by positivity
        have : (2 * (tol : ℝ) * a) * (2 * tol * a) ≤ ((s : ℝ) - sm - tol * tol) * ((s : ℝ) - sm - tol * tol) :=
          mul_le_mul hc hc h2 (le_trans h2 hc)
        have e : (2 * (tol : ℝ) * a) * (2 * tol * a) = 4 * tol * tol * sm := by rw [← haa]; ring
        linarith
    by_contra hc
    have hc := not_lt.mp hc
    have h1 : a + tol ≤ d := by linarith
    have h0 : 0 ≤ a + (tol : ℝ) := by linarith
    have : (a + tol) * (a + tol) ≤ d * d := mul_le_mul h1 h1 h0 hd0
    have e : (a + (tol : ℝ)) * (a + tol) = sm + 2 * tol * a + tol * tol := by rw [← haa]; ring
    linarith
  · intro h
    have htolR : (0 : ℝ) < (tol : ℝ) := by linarith
    have htol : 0 < tol := by exact_mod_cast htolR
    refine ⟨htol, ?_⟩
    have h1 : d < a + tol := by linarith
    have hsq : d * d < (a + tol) * (a + tol) := mul_lt_mul'' h1 h1 hd0 hd0
    have e : (a + (tol : ℝ)) * (a + tol) = sm + 2 * tol * a + tol * tol := by rw [← haa]; ring
    have key : (s : ℝ) - sm - tol * tol < 2 * tol * a := by linarith
    by_cases hx : s - sm - tol * tol < 0
    · exact Or.inl hx
    · right
      have hx0 : (0 : ℝ) ≤ (s : ℝ) - sm - tol * tol := by
        have : (0 : Rat) ≤ s - sm - tol * tol := not_lt.mp hx
        have : ((0 : Rat) : ℝ) ≤ ((s - sm - tol * tol : Rat) : ℝ) := by exact_mod_cast this
        push_cast at this; linarith
      have h2 : 0 ≤ 2 * (tol : ℝ) * a := by positivity
      have : ((s : ℝ) - sm - tol * tol) * ((s : ℝ) - sm - tol * tol) < (2 * tol * a) * (2 * tol * a) :=
        mul_lt_mul'' key key hx0 hx0
      have e2 : (2 * (tol : ℝ) * a) * (2 * tol * a) = 4 * tol * tol * sm := by rw [← haa]; ring
      have : (((s - sm - tol * tol) * (s - sm - tol * tol) : Rat) : ℝ) < ((4 * tol * tol * sm : Rat) : ℝ) := by
        push_cast; linarith
      exact_mod_cast this

end Earverif.DS
