/- `geom.inside_angle_range` (C10, round 2): the two `± 360` loops terminate within the fuel the model gives
   them and normalise an angle into one period; `insideAngleRange` is membership of some representative of
   `x` in `[start - tol, e + tol]`, where `e ≡ end (mod 360)` lies in `[start, start + 360]`. -/
import Earverif.Model.DirectSpeakersGeom
import Mathlib.Tactic.Ring
import Mathlib.Tactic.Linarith
import Mathlib.Tactic.NormNum

namespace Earverif.DS

theorem absRat_ge (x : Rat) : x ≤ absRat x ∧ -x ≤ absRat x := by
  unfold absRat
  split
  · constructor <;> linarith
  · rename_i h
    have := not_lt.mp h
    constructor <;> linarith

/-- The fuel covers the distance: `|y - lo| < 360 · fuel`. -/
theorem loopFuel_spec (y lo : Rat) : absRat (y - lo) < 360 * (loopFuel y lo : Rat) := by
  unfold loopFuel
  have h1 : absRat (y - lo) / 360 - 1 < ((absRat (y - lo) / 360).floor : Rat) := Rat.lt_floor
  have h2 : ((absRat (y - lo) / 360).floor : Rat) ≤ (((absRat (y - lo) / 360).floor.toNat : Int) : Rat) := by
    exact_mod_cast Int.self_le_toNat _
  push_cast
  have : ((((absRat (y - lo) / 360).floor.toNat : Nat) : Int) : Rat)
      = (((absRat (y - lo) / 360).floor.toNat : Nat) : Rat) := by norm_cast
  rw [this] at h2
  linarith

/-- Loop exit of the first loop: `¬ (r - 360 > lo)` resp. `¬ (r - 360 >= lo)`. -/
def exitOk (strict : Bool) (lo r : Rat) : Prop := if strict then r - 360 ≤ lo else r - 360 < lo
/-- What held just before the last decrement: `r > lo` resp. `r >= lo`. -/
def aboveLo (strict : Bool) (lo r : Rat) : Prop := if strict then lo < r else lo ≤ r

theorem decCond_true {strict : Bool} {lo y : Rat} (h : decCond strict lo y = true) : aboveLo strict lo (y - 360) := by
  cases strict <;> simpa [decCond, aboveLo] using h

theorem decCond_false {strict : Bool} {lo y : Rat} (h : ¬ decCond strict lo y = true) : exitOk strict lo y := by
  cases strict <;> simpa [decCond, exitOk] using h

/-- `while y - 360 > lo: y -= 360` (strict) / `>=` (non-strict), with enough fuel. -/
theorem decWhile_spec (strict : Bool) (lo : Rat) : ∀ (n : Nat) (y : Rat), y - lo < 360 * (n : Rat) →
    (∃ k : Nat, decWhile strict lo n y = y - 360 * (k : Rat)) ∧ exitOk strict lo (decWhile strict lo n y) ∧
    (decWhile strict lo n y = y ∨ aboveLo strict lo (decWhile strict lo n y))
  | 0, y, h => by
    rw [decWhile]
    simp only [Nat.cast_zero, mul_zero] at h
    refine ⟨⟨0, by simp⟩, ?_, Or.inl (Eq.refl y)⟩
    cases strict <;> simp only [exitOk, Bool.false_eq_true, if_false, if_true] <;> linarith
  | n + 1, y, h => by
    rw [decWhile]
    split
    · rename_i hc
      have h' : (y - 360) - lo < 360 * (n : Rat) := by push_cast at h; linarith
      obtain ⟨⟨k, hk⟩, hex, hor⟩ := decWhile_spec strict lo n (y - 360) h'
      refine ⟨⟨k + 1, by rw [hk]; push_cast; ring⟩, hex, Or.inr ?_⟩
      rcases hor with hor | hor
      · rw [hor]; exact decCond_true hc
      · exact hor
    · rename_i hc
      exact ⟨⟨0, by simp⟩, decCond_false hc, Or.inl (Eq.refl y)⟩

/-- `while y < lo: y += 360`, with enough fuel. -/
theorem incWhile_spec (lo : Rat) : ∀ (n : Nat) (y : Rat), lo - y ≤ 360 * (n : Rat) →
    (∃ k : Nat, incWhile lo n y = y + 360 * (k : Rat)) ∧ lo ≤ incWhile lo n y ∧
    (incWhile lo n y = y ∨ incWhile lo n y < lo + 360)
  | 0, y, h => by
    rw [incWhile]
    simp only [Nat.cast_zero, mul_zero] at h
    exact ⟨⟨0, by simp⟩, by linarith, Or.inl (Eq.refl y)⟩
  | n + 1, y, h => by
    rw [incWhile]
    split
    · rename_i hc
      have h' : lo - (y + 360) ≤ 360 * (n : Rat) := by push_cast at h; linarith
      obtain ⟨⟨k, hk⟩, hge, hor⟩ := incWhile_spec lo n (y + 360) h'
      refine ⟨⟨k + 1, by rw [hk]; push_cast; ring⟩, hge, Or.inr ?_⟩
      rcases hor with hor | hor
      · rw [hor]; linarith
      · exact hor
    · rename_i hc
      exact ⟨⟨0, by simp⟩, not_lt.mp hc, Or.inl (Eq.refl y)⟩

/-- The two loops: the result is congruent to `y` modulo 360 and lies in `[lo, lo + 360]` (first loop `>`,
    as for `end`) resp. `[lo, lo + 360)` (first loop `>=`, as for `x`). -/
theorem normAngle_spec (strict : Bool) (lo y : Rat) :
    (∃ k : Int, normAngle strict lo y = y + 360 * (k : Rat)) ∧ lo ≤ normAngle strict lo y ∧
    (if strict then normAngle strict lo y ≤ lo + 360 else normAngle strict lo y < lo + 360) := by
  unfold normAngle
  simp only
  have hf1 := loopFuel_spec y lo
  obtain ⟨⟨k1, hk1⟩, hex1, hor1⟩ := decWhile_spec strict lo (loopFuel y lo) y
    (by have := (absRat_ge (y - lo)).1; linarith)
  generalize decWhile strict lo (loopFuel y lo) y = y1 at *
  have hf2 := loopFuel_spec y1 lo
  obtain ⟨⟨k2, hk2⟩, hge2, hor2⟩ := incWhile_spec lo (loopFuel y1 lo) y1
    (by have := (absRat_ge (y1 - lo)).2; linarith)
  generalize incWhile lo (loopFuel y1 lo) y1 = y2 at *
  refine ⟨⟨(k2 : Int) - (k1 : Int), by rw [hk2, hk1]; push_cast; ring⟩, hge2, ?_⟩
  rcases hor2 with h | h
  · subst h
    cases strict
    · simp only [exitOk, Bool.false_eq_true, if_false] at hex1 ⊢; linarith
    · simp only [exitOk, if_true] at hex1 ⊢; linarith
  · cases strict
    · simpa using h
    · simp only [if_true]; linarith

/-- `inside_angle_range(x, start, end, tol)` ⇔ some representative of `x` (mod 360) lies in
    `[start - tol, e + tol]`, `e = normAngle true start end` being the representative of `end` in
    `[start, start + 360]` (see `normAngle_spec`). -/
theorem insideAngleRange_iff (x start end_ tol : Rat) :
    insideAngleRange x start end_ tol = true ↔
      ∃ k : Int, start - tol ≤ x + 360 * (k : Rat) ∧ x + 360 * (k : Rat) ≤ normAngle true start end_ + tol := by
  unfold insideAngleRange
  simp only [decide_eq_true_eq]
  obtain ⟨⟨k', hk'⟩, hge, hlt⟩ := normAngle_spec false (start - tol) x
  simp only [Bool.false_eq_true, if_false] at hlt
  constructor
  · intro h
    exact ⟨k', by rw [← hk']; exact hge, by rw [← hk']; exact h⟩
  · rintro ⟨k, h1, h2⟩
    -- the normalised x is the smallest representative ≥ start - tol
    have : normAngle false (start - tol) x ≤ x + 360 * (k : Rat) := by
      by_contra hc
      have hc := not_le.mp hc
      rw [hk'] at hc hlt
      have hkk : k < k' := by
        have : (k : Rat) < (k' : Rat) := by linarith
        exact_mod_cast this
      have : (k : Rat) + 1 ≤ (k' : Rat) := by exact_mod_cast hkk
      linarith
    linarith

theorem absRat_eq_abs (x : Rat) : absRat x = |x| := by
  unfold absRat
  split
  · rename_i h; rw [abs_of_neg h]
  · rename_i h; rw [abs_of_nonneg (not_lt.mp h)]

/-- One channel of the polar `channels_within_bounds`, as a proposition: azimuth inside the (wrapped,
    tolerance-widened) range or the loudspeaker at a pole; elevation and distance strictly inside the
    tolerance-widened bounds. -/
theorem polarWithin1_iff (az el dist : Bound) (tol a e d : Rat) :
    polarWithin1 az el dist tol a e d = true ↔
      ((∃ k : Int, az.lo - tol ≤ a + 360 * (k : Rat) ∧ a + 360 * (k : Rat) ≤ normAngle true az.lo az.hi + tol)
        ∨ 90 - tol ≤ |e|) ∧
      el.lo - tol < e ∧ e < el.hi + tol ∧ dist.lo - tol < d ∧ d < dist.hi + tol := by
  simp only [polarWithin1, Bool.and_eq_true, Bool.or_eq_true, decide_eq_true_eq, insideAngleRange_iff,
    absRat_eq_abs, and_assoc]

/-- One channel of the Cartesian `channels_within_bounds`, as a proposition. -/
theorem cartWithin1_iff (x y z : Bound) (tol : Rat) (p : Vec3) :
    cartWithin1 x y z tol p = true ↔
      (x.lo ≤ p.1 + tol ∧ y.lo ≤ p.2.1 + tol ∧ z.lo ≤ p.2.2 + tol) ∧
      (p.1 - tol ≤ x.hi ∧ p.2.1 - tol ≤ y.hi ∧ p.2.2 - tol ≤ z.hi) := by
  simp only [cartWithin1, Bool.and_eq_true, decide_eq_true_eq, and_assoc]

/-- Range normalisation keeps a full circle a full circle: `(-180, 180)` means any angle. -/
example : [(-180 : Rat), -90, 0, 45, 179, 180, 270, -270].all (fun x => insideAngleRange x (-180) 180 0) = true := by
  decide +kernel

/-- ... while `(0, 0)` means the single angle 0 (and its representatives), with tolerance. -/
example : [(0 : Rat), 360, -360, 1 / 100000, -1 / 100000, 1 / 1000, 180].map (fun x => insideAngleRange x 0 0 (1 / 100000))
    = [true, true, true, true, true, false, false] := by decide +kernel

/-- wrap-around range `(170, -170)` -/
example : [(180 : Rat), -180, 175, -175, 0, 169].map (fun x => insideAngleRange x 170 (-170) 0)
    = [true, true, true, true, false, false] := by decide +kernel

end Earverif.DS
